#!/usr/bin/env python3
"""evalneutral.py <PROP> <worktree> <test packages...>

Control arm of the seeding experiments: each <worktree>/out/<i>/ holds patch.diff + meta.json of a change that is meant to
PRESERVE the property (refactoring, correct caching, behaviour the statement leaves open, extra robustness).  Applies it in the
worktree, builds, runs the repository's tests for the given packages and `VERIF_REPO=<worktree> ./check <PROP> --skip-mc`;
the expected verdict is exit 0.  Stores patch and meta (with what the check said) in /verif/neutral/<PROP>-<i>/.
Nothing is ever applied to /repo.
"""
import glob
import json
import os
import re
import shutil
import subprocess
import sys

ENV = dict(os.environ, GOFLAGS="-mod=mod", GOPROXY="off", GOSUMDB="off", GOTOOLCHAIN="local")


def sh(cmd, cwd, env=ENV, timeout=3600):
    p = subprocess.run(cmd, cwd=cwd, env=env, shell=True, stdout=subprocess.PIPE, stderr=subprocess.STDOUT, text=True, timeout=timeout)
    return p.returncode, p.stdout


def main():
    prop, wt = sys.argv[1], sys.argv[2]
    pkgs = " ".join(sys.argv[3:])
    tier = os.environ.get("NEUTRAL_TIER", "quick")
    results = []
    for d in sorted(glob.glob(os.path.join(wt, "out", "*"))):
        i = os.path.basename(d)
        if not os.path.exists(os.path.join(d, "patch.diff")):
            continue
        sh("git checkout -q -- . && git clean -fdq -e out", wt)
        rc, out = sh(f"git apply {d}/patch.diff", wt)
        if rc != 0:
            results.append((i, "patch does not apply: " + out[-300:]))
            continue
        rc_build, _ = sh("go build ./...", wt)
        rc_tests, out_tests = sh(f"go test -count=1 {pkgs}", wt)
        env = dict(ENV, VERIF_REPO=wt)
        shutil.rmtree(f"/verif/replay/{prop}", ignore_errors=True)
        rc_check, out_check = sh(f"./check {prop} --skip-mc --tier {tier}", "/verif", env=env)
        whys = {}
        for f in glob.glob(f"/verif/replay/{prop}/*.why.json"):
            for w in json.load(open(f)):
                whys[w["why"]] = whys.get(w["why"], 0) + 1
        keep = f"/tmp/neutral-replay/{prop}-{i}"
        shutil.rmtree(keep, ignore_errors=True)
        if rc_check == 1 and os.path.isdir(f"/verif/replay/{prop}"):
            os.makedirs("/tmp/neutral-replay", exist_ok=True)
            shutil.move(f"/verif/replay/{prop}", keep)
        shutil.rmtree(f"/verif/replay/{prop}", ignore_errors=True)
        m = re.search(r"(\d+) rejected events", out_check)
        rejected = int(m.group(1)) if m else -1
        verdict = {0: "quiet (check exit 0)", 1: "ALARM (VIOLATION)", 2: "no verdict (infrastructure failure)"}.get(rc_check, f"exit {rc_check}")
        meta_in = {}
        try:
            meta_in = json.load(open(os.path.join(d, "meta.json")))
        except Exception:
            pass
        meta = dict(property=prop, kind=meta_in.get("kind"), change=meta_in.get("summary"),
                    why_property_still_holds=meta_in.get("why_property_still_holds"), agent_ran=meta_in.get("ran"),
                    confirmed=dict(builds=rc_build == 0, repo_tests_pass=rc_tests == 0, repo_test_cmd=f"go test -count=1 {pkgs}"),
                    check_cmd=f"VERIF_REPO=<worktree with patch> ./check {prop} --skip-mc --tier {tier}",
                    check_result=dict(verdict=verdict, rejected_events=rejected, reasons=whys))
        out_dir = f"/verif/neutral/{prop}-{i}"
        os.makedirs(out_dir, exist_ok=True)
        shutil.copy(os.path.join(d, "patch.diff"), out_dir)
        json.dump(meta, open(os.path.join(out_dir, "meta.json"), "w"), indent=1)
        results.append((i, f"build={rc_build == 0} tests={rc_tests == 0} -> {verdict} rejected={rejected} {whys}"))
        if rc_check == 2:
            results.append((i, "check output tail: " + out_check[-600:]))
    sh("git checkout -q -- . && git clean -fdq -e out", wt)
    for i, r in results:
        print(f"{prop}-{i}: {r}")


if __name__ == "__main__":
    main()
