#!/usr/bin/env python3
"""Print the markdown table of seeded changes (from seeded/*/meta.json) for DESIGN.md."""
import glob
import json
import os
import re

rows = []
for d in sorted(glob.glob('/verif/seeded/*'), key=lambda x: (x.split('/')[-1].split('-')[0], int(x.split('-')[-1]))):
    m = json.load(open(os.path.join(d, 'meta.json')))
    name = os.path.basename(d)
    br = (m.get('breaks') or '').replace('\n', ' ').replace('|', '/')
    br = br[:230] + ('…' if len(br) > 230 else '')
    cr = m.get('check_result')
    if isinstance(cr, dict):
        res = f"{cr['verdict']}; {cr['rejected_events']} rejected events; reasons: {', '.join(sorted(cr.get('reasons', {}))[:3])}"
    else:
        res = str(cr)
    if m.get('history'):
        res += ' — ' + m['history']
    res = res.replace('\n', ' ').replace('|', '/')
    rows.append(f"| {name} | {br} | {res} |")
print("| seed | change (compiles, repository tests pass, demonstration fails with it) | result of `VERIF_REPO=<worktree> ./check <ID> --skip-mc` |")
print("|---|---|---|")
print("\n".join(rows))
