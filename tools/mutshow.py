#!/usr/bin/env python3
"""mutshow.py <PROP> [n] -- list the mutants of /verif/mutants/<PROP>.jsonl that survived both the repository's tests and the check;
with n: write the n-th survivor's diff to stdout (apply it in a scratch worktree of /repo HEAD with `git apply`)."""
import json, sys
prop = sys.argv[1]
surv = [json.loads(l) for l in open(f"/verif/mutants/{prop}.jsonl")]
surv = [r for r in surv if r["status"].startswith("SURVIVED") or r["status"].startswith("no verdict")]
if len(sys.argv) > 2:
    sys.stdout.write(surv[int(sys.argv[2])]["diff"])
else:
    for i, r in enumerate(surv):
        print(f"--- [{i}] {r['file']}:{r['line']} {r['kind']}: {r['what']}  ({r['status']})")
        print("\n".join(x for x in r.get("diff", "").splitlines() if x[:1] in "+-" and not x.startswith(("+++", "---"))))
