#!/usr/bin/env python3
"""evalseed.py <PROP> <worktree> <demo_dir> <test packages...>

Confirms each seeded change under <worktree>/out/<i>/ (patch.diff, demo_test.go, meta.json):
applies it in the worktree, builds, runs the repository's tests for the given packages, runs the
demonstration with and without the patch, runs `VERIF_REPO=<worktree> ./check <PROP> --skip-mc`, and
stores patch, demo and a meta.json (with what was run and what the check said) in /verif/seeded/<PROP>-<i>/.
Nothing is ever applied to /repo.
"""
import glob
import json
import os
import re
import shutil
import subprocess
import sys

ENV = dict(os.environ, GOFLAGS="-mod=mod", GOPROXY="off", GOSUMDB="off", GOTOOLCHAIN="local")


def sh(cmd, cwd, env=ENV, timeout=3600):
    p = subprocess.run(cmd, cwd=cwd, env=env, shell=True, stdout=subprocess.PIPE, stderr=subprocess.STDOUT, text=True, timeout=timeout)
    return p.returncode, p.stdout


def main():
    prop, wt, demo_dir = sys.argv[1], sys.argv[2], sys.argv[3]
    pkgs = " ".join(sys.argv[4:])
    results = []
    for d in sorted(glob.glob(os.path.join(wt, "out", "*"))):
        i = os.path.basename(d)
        if not os.path.exists(os.path.join(d, "patch.diff")):
            continue
        sh("git checkout -q -- . && git clean -fdq -e out", wt)
        default_dir = sys.argv[3]
        try:
            demo_dir = (json.load(open(os.path.join(d, "meta.json"))).get("demo_dir") or default_dir).strip("/")
        except Exception:
            demo_dir = default_dir
        if demo_dir in ("", "root"):
            demo_dir = "."
        demo_dst = os.path.join(wt, demo_dir, "zz_seed_demo_test.go")
        # demo on the clean tree
        shutil.copy(os.path.join(d, "demo_test.go"), demo_dst)
        rc_clean, out_clean = sh(f"go test -count=1 ./{demo_dir}/", wt)
        os.remove(demo_dst)
        rc, out = sh(f"git apply {d}/patch.diff", wt)
        if rc != 0:
            results.append((i, "patch does not apply: " + out[-300:]))
            continue
        rc_build, out_build = sh("go build ./...", wt)
        rc_tests, out_tests = sh(f"go test -count=1 {pkgs}", wt)
        shutil.copy(os.path.join(d, "demo_test.go"), demo_dst)
        rc_demo, out_demo = sh(f"go test -count=1 ./{demo_dir}/", wt)
        os.remove(demo_dst)
        env = dict(ENV, VERIF_REPO=wt)
        shutil.rmtree(f"/verif/replay/{prop}", ignore_errors=True)
        rc_check, out_check = sh(f"./check {prop} --skip-mc", "/verif", env=env)
        whys = {}
        for f in glob.glob(f"/verif/replay/{prop}/*.why.json"):
            for w in json.load(open(f)):
                whys[w["why"]] = whys.get(w["why"], 0) + 1
        shutil.rmtree(f"/verif/replay/{prop}", ignore_errors=True)
        m = re.search(r"(\d+) rejected events", out_check)
        rejected = int(m.group(1)) if m else -1
        verdict = {0: "MISSED (check exit 0)", 1: "caught (VIOLATION)", 2: "no verdict (infrastructure failure)"}.get(rc_check, f"exit {rc_check}")
        meta_in = {}
        try:
            meta_in = json.load(open(os.path.join(d, "meta.json")))
        except Exception:
            pass
        valid = rc_build == 0 and rc_tests == 0 and rc_demo != 0 and rc_clean == 0
        meta = dict(property=prop, breaks=meta_in.get("summary"), needs=meta_in.get("needs"), agent_ran=meta_in.get("ran"),
                    demo_dir=demo_dir,
                    confirmed=dict(builds=rc_build == 0, repo_tests_pass=rc_tests == 0, repo_test_cmd=f"go test -count=1 {pkgs}",
                                   demo_fails_with_patch=rc_demo != 0, demo_passes_on_clean_tree=rc_clean == 0, valid_seed=valid),
                    check_cmd=f"VERIF_REPO=<worktree with patch> ./check {prop} --skip-mc",
                    check_result=dict(verdict=verdict, rejected_events=rejected, reasons=whys))
        off = int(os.environ.get("SEED_OFFSET", "0"))
        label = str(int(i) + off) if i.isdigit() else i
        out_dir = f"/verif/seeded/{prop}-{label}"
        os.makedirs(out_dir, exist_ok=True)
        shutil.copy(os.path.join(d, "patch.diff"), out_dir)
        shutil.copy(os.path.join(d, "demo_test.go"), out_dir)
        json.dump(meta, open(os.path.join(out_dir, "meta.json"), "w"), indent=1)
        results.append((label, f"valid_seed={valid} build={rc_build == 0} tests={rc_tests == 0} demo_fails={rc_demo != 0} clean_ok={rc_clean == 0} -> {verdict} rejected={rejected} {whys}"))
        if rc_check == 2:
            results.append((i, "check output tail: " + out_check[-600:]))
    sh("git checkout -q -- . && git clean -fdq -e out", wt)
    for i, r in results:
        print(f"{prop}-{i}: {r}")


if __name__ == "__main__":
    main()
