// Command mutate lists and applies single-site syntactic mutations of a Go source file (standard library only).
//
//	mutate list  <file.go>            -> one JSON object per line: {"i":n,"line":l,"kind":k,"what":text}
//	mutate apply <file.go> <i> <out>  -> writes the file with mutation i applied
//
// Operators: relational / logical / arithmetic operator swaps, condition negation, boolean and small integer literals,
// removal of a leading '!', `return …, err` -> `return …, nil`, removal of expression / defer / assignment-free statements,
// break <-> continue.  Used by tools/mutrun.py to measure the checks against mechanical mutants that survive the repository's tests.
package main

import (
	"encoding/json"
	"fmt"
	"go/ast"
	"go/format"
	"go/parser"
	"go/token"
	"os"
	"strconv"
)

type site struct {
	I     int    `json:"i"`
	Line  int    `json:"line"`
	Kind  string `json:"kind"`
	What  string `json:"what"`
	apply func()
}

var swaps = map[token.Token]token.Token{
	token.EQL: token.NEQ, token.NEQ: token.EQL,
	token.LSS: token.LEQ, token.LEQ: token.LSS,
	token.GTR: token.GEQ, token.GEQ: token.GTR,
	token.LAND: token.LOR, token.LOR: token.LAND,
	token.ADD: token.SUB, token.SUB: token.ADD,
}

func collect(fset *token.FileSet, f *ast.File) []*site {
	var out []*site
	add := func(pos token.Pos, kind, what string, ap func()) {
		out = append(out, &site{I: len(out), Line: fset.Position(pos).Line, Kind: kind, What: what, apply: ap})
	}
	ast.Inspect(f, func(n ast.Node) bool {
		switch x := n.(type) {
		case *ast.BinaryExpr:
			if to, ok := swaps[x.Op]; ok {
				from := x.Op
				add(x.OpPos, "binop", from.String()+" -> "+to.String(), func() { x.Op = to })
			}
		case *ast.IfStmt:
			c := x.Cond
			add(x.Cond.Pos(), "negate-if", "if cond -> if !(cond)", func() { x.Cond = &ast.UnaryExpr{Op: token.NOT, X: &ast.ParenExpr{X: c}} })
		case *ast.UnaryExpr:
			if x.Op == token.NOT {
				inner := x.X
				// !x -> !!x (double negation = x) keeps the tree shape
				add(x.OpPos, "drop-not", "!x -> x", func() { x.X = &ast.UnaryExpr{Op: token.NOT, X: &ast.ParenExpr{X: inner}} })
			}
		case *ast.Ident:
			if x.Name == "true" {
				add(x.Pos(), "bool", "true -> false", func() { x.Name = "false" })
			} else if x.Name == "false" {
				add(x.Pos(), "bool", "false -> true", func() { x.Name = "true" })
			}
		case *ast.BasicLit:
			if x.Kind == token.INT {
				if v, err := strconv.Atoi(x.Value); err == nil && v >= 0 && v <= 4096 {
					nv := v + 1
					if v == 1 {
						nv = 0
					}
					add(x.Pos(), "int", fmt.Sprintf("%d -> %d", v, nv), func() { x.Value = strconv.Itoa(nv) })
				}
			}
		case *ast.ReturnStmt:
			if k := len(x.Results); k >= 1 {
				if id, ok := x.Results[k-1].(*ast.Ident); ok && id.Name == "err" {
					add(x.Pos(), "return-nil", "return …, err -> return …, nil", func() { x.Results[k-1] = ast.NewIdent("nil") })
				}
			}
		case *ast.BranchStmt:
			if x.Label == nil && x.Tok == token.BREAK {
				add(x.Pos(), "branch", "break -> continue", func() { x.Tok = token.CONTINUE })
			} else if x.Label == nil && x.Tok == token.CONTINUE {
				add(x.Pos(), "branch", "continue -> break", func() { x.Tok = token.BREAK })
			}
		case *ast.BlockStmt:
			for i, st := range x.List {
				i, st := i, st
				switch s := st.(type) {
				case *ast.ExprStmt:
					add(s.Pos(), "drop-stmt", "statement removed", func() { x.List[i] = &ast.EmptyStmt{Semicolon: s.Pos()} })
				case *ast.DeferStmt:
					add(s.Pos(), "drop-defer", "defer removed", func() { x.List[i] = &ast.EmptyStmt{Semicolon: s.Pos()} })
				case *ast.IncDecStmt:
					add(s.Pos(), "drop-stmt", "inc/dec removed", func() { x.List[i] = &ast.EmptyStmt{Semicolon: s.Pos()} })
				case *ast.AssignStmt:
					if s.Tok == token.ASSIGN || s.Tok == token.ADD_ASSIGN || s.Tok == token.OR_ASSIGN {
						add(s.Pos(), "drop-assign", "assignment removed", func() { x.List[i] = &ast.EmptyStmt{Semicolon: s.Pos()} })
					}
				}
			}
		}
		return true
	})
	return out
}

func main() {
	if len(os.Args) < 3 {
		fmt.Fprintln(os.Stderr, "usage: mutate list <file> | mutate apply <file> <i> <out>")
		os.Exit(2)
	}
	fset := token.NewFileSet()
	f, err := parser.ParseFile(fset, os.Args[2], nil, parser.ParseComments)
	if err != nil {
		fmt.Fprintln(os.Stderr, err)
		os.Exit(2)
	}
	sites := collect(fset, f)
	switch os.Args[1] {
	case "list":
		enc := json.NewEncoder(os.Stdout)
		for _, s := range sites {
			enc.Encode(s)
		}
	case "apply":
		i, _ := strconv.Atoi(os.Args[3])
		if i < 0 || i >= len(sites) {
			fmt.Fprintln(os.Stderr, "no such mutation")
			os.Exit(2)
		}
		sites[i].apply()
		out, err := os.Create(os.Args[4])
		if err != nil {
			fmt.Fprintln(os.Stderr, err)
			os.Exit(2)
		}
		defer out.Close()
		if err := format.Node(out, fset, f); err != nil {
			fmt.Fprintln(os.Stderr, err)
			os.Exit(2)
		}
	}
}
