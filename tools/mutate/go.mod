module mutate

go 1.20
