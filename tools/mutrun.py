#!/usr/bin/env python3
"""mutrun.py <PROP> [K] [SEED]

Mechanical mutation testing of one property's check.  Takes the property's anchored regions (properties.jsonl: anchors.mechanism[].where,
widened by 15 lines because later fix commits moved the code), lists the single-site mutations tools/mutate finds there, samples K of
them, and for each: applies it in a scratch worktree of /repo HEAD, builds, runs the repository's whole suite; a mutant that SURVIVES
the suite is run against `VERIF_REPO=<worktree> ./check <PROP> --skip-mc`.  Appends one JSON line per mutant to /verif/mutants/<PROP>.jsonl
(with the unified diff), so survivors the check does not flag can be triaged (equivalent mutant / outside the statement / gap).
Nothing is applied to /repo.
"""
import json
import os
import random
import re
import shutil
import subprocess
import sys

ENV = dict(os.environ, GOFLAGS="-mod=mod", GOPROXY="off", GOSUMDB="off", GOTOOLCHAIN="local")
MUT = "/verif/.scratch/mutate"


def sh(cmd, cwd, env=ENV, timeout=3600):
    try:
        p = subprocess.run(cmd, cwd=cwd, env=env, shell=True, stdout=subprocess.PIPE, stderr=subprocess.STDOUT, text=True, timeout=timeout)
        return p.returncode, p.stdout
    except subprocess.TimeoutExpired:
        return 124, "timeout"


def regions(prop):
    for l in open("/verif/properties.jsonl"):
        p = json.loads(l)
        if p["id"] == prop:
            out = {}
            for m in p["anchors"]["mechanism"]:
                w = m["where"]
                for part in re.split(r";\s*|\s+and\s+", w):
                    mm = re.match(r"\s*([\w./-]+\.go):([\d,\s-]+)", part)
                    if not mm:
                        continue
                    f = mm.group(1)
                    for r in mm.group(2).split(","):
                        r = r.strip()
                        if not r:
                            continue
                        a, _, b = r.partition("-")
                        a = int(a)
                        b = int(b) if b else a
                        out.setdefault(f, []).append((a - 15, b + 15))
            for f in p["anchors"]["files"]:
                out.setdefault(f, [])
            return out
    raise SystemExit("unknown property")


def main():
    prop = sys.argv[1]
    k = int(sys.argv[2]) if len(sys.argv) > 2 else 12
    seed = int(sys.argv[3]) if len(sys.argv) > 3 else 1
    if not os.path.exists(MUT):
        os.makedirs("/verif/.scratch", exist_ok=True)
        rc, out = sh(f"go build -o {MUT} .", "/verif/tools/mutate")
        if rc != 0:
            raise SystemExit(out)
    regs = regions(prop)
    sites = []
    for f, rs in regs.items():
        path = os.path.join("/repo", f)
        if not os.path.exists(path):
            continue
        rc, out = sh(f"{MUT} list {path}", "/verif")
        for line in out.splitlines():
            try:
                s = json.loads(line)
            except Exception:
                continue
            if not rs or any(a <= s["line"] <= b for a, b in rs):
                s["file"] = f
                s["in_region"] = bool(rs)
                sites.append(s)
    inreg = [s for s in sites if s["in_region"]]
    pool = inreg if len(inreg) >= k else sites
    rng = random.Random(f"{prop}-{seed}")
    chosen = rng.sample(pool, min(k, len(pool)))
    wt = f"/tmp/mut-{prop}-{os.getpid()}"
    sh(f"git worktree add -q --detach {wt} HEAD", "/repo")
    os.makedirs("/verif/mutants", exist_ok=True)
    res_path = f"/verif/mutants/{prop}.jsonl"
    try:
        for s in chosen:
            sh("git checkout -q -- .", wt)
            f = s["file"]
            rc, out = sh(f"{MUT} apply {os.path.join(wt, f)} {s['i']} {os.path.join(wt, f)}.mut && mv {os.path.join(wt, f)}.mut {os.path.join(wt, f)}", "/verif")
            # the printer reformats the whole file: diff against the re-printed original so the patch shows the mutation only
            rc_d, diff = sh(f"git diff -U2 -- {f}", wt)
            rec = dict(property=prop, file=f, line=s["line"], kind=s["kind"], what=s["what"], seed=seed)
            rc_b, out_b = sh("go build ./...", wt, timeout=600)
            if rc_b != 0:
                rec["status"] = "does not compile"
            else:
                rc_t, out_t = sh("go test -vet=off -count=1 ./...", wt, timeout=900)
                if rc_t != 0:
                    rec["status"] = "killed by the repository's tests"
                else:
                    shutil.rmtree(f"/verif/replay/{prop}", ignore_errors=True)
                    rc_c, out_c = sh(f"./check {prop} --skip-mc", "/verif", env=dict(ENV, VERIF_REPO=wt), timeout=3000)
                    shutil.rmtree(f"/verif/replay/{prop}", ignore_errors=True)
                    m = re.search(r"(\d+) rejected events", out_c)
                    rec["status"] = {0: "SURVIVED the check (exit 0)", 1: "killed by the check (VIOLATION)", 2: "no verdict (infrastructure failure)"}.get(rc_c, f"exit {rc_c}")
                    rec["rejected_events"] = int(m.group(1)) if m else -1
                    if rc_c == 2:
                        rec["tail"] = out_c[-400:]
                    rec["diff"] = diff[-3000:]
            print(prop, f, s["line"], s["kind"], s["what"], "->", rec["status"], flush=True)
            with open(res_path, "a") as fh:
                fh.write(json.dumps(rec) + "\n")
    finally:
        sh(f"git worktree remove --force {wt}", "/repo")


if __name__ == "__main__":
    main()
