#!/usr/bin/env python3
"""reeval.py <PROP> <demo_dir> <n> [<n>...] -- <test packages...>
Re-evaluates stored seeds seeded/<PROP>-<n> against the current check (fresh worktree of /repo HEAD)."""
import json, os, shutil, subprocess, sys
prop, demo_dir = sys.argv[1], sys.argv[2]
rest = sys.argv[3:]
k = rest.index("--")
ns, pkgs = rest[:k], rest[k + 1:]
wt = f"/tmp/reeval-{prop.lower()}"
subprocess.run(["git", "-C", "/repo", "worktree", "remove", "--force", wt], capture_output=True)
subprocess.check_call(["git", "-C", "/repo", "worktree", "add", "-q", "--detach", wt, "HEAD"])
hist = {}
for n in ns:
    src = f"/verif/seeded/{prop}-{n}"
    dst = f"{wt}/out/{n}"
    os.makedirs(dst)
    shutil.copy(f"{src}/patch.diff", dst)
    shutil.copy(f"{src}/demo_test.go", dst)
    m = json.load(open(f"{src}/meta.json"))
    hist[n] = m
    json.dump({"summary": m.get("breaks"), "needs": m.get("needs"), "ran": m.get("agent_ran"), "demo_dir": m.get("demo_dir", demo_dir)},
              open(f"{dst}/meta.json", "w"))
subprocess.call([sys.executable, "/verif/tools/evalseed.py", prop, wt, demo_dir] + pkgs)
for n in ns:  # keep the earlier verdict as history
    p = f"/verif/seeded/{prop}-{n}/meta.json"
    m = json.load(open(p))
    for key, val in hist[n].items():  # keep what evalseed does not know about (kind, cross_checks, note ...)
        if key not in m:
            m[key] = val
    old = hist[n].get("check_result", {})
    prev = hist[n].get("history", "")
    if isinstance(old, dict) and old.get("verdict") != m["check_result"]["verdict"]:
        m["history"] = (prev + " " if prev else "") + f"earlier evaluation: {old.get('verdict')}; now: {m['check_result']['verdict']}."
    elif prev:
        m["history"] = prev
    json.dump(m, open(p, "w"), indent=1)
subprocess.run(["git", "-C", "/repo", "worktree", "remove", "--force", wt], capture_output=True)
