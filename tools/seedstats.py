#!/usr/bin/env python3
"""seedstats.py -- per seeding round: how many seeds, caught at once, missed at first and caught after strengthening, not caught."""
import glob, json, re, collections
rounds = collections.defaultdict(lambda: collections.Counter())
detail = collections.defaultdict(list)
for f in sorted(glob.glob('/verif/seeded/*/meta.json')):
    sid = f.split('/')[-2]
    n = int(sid.split('-')[1])
    rnd = (n - 1) // 4 + 1
    m = json.load(open(f))
    cr = m.get('check_result') or {}
    v = cr.get('verdict', '') if isinstance(cr, dict) else str(cr)
    h = m.get('history', '') or ''
    caught = v.startswith('caught')
    missed_first = ('missed' in h.lower()) or ('MISSED' in h) or ('not caught' in h.lower())
    if caught and not missed_first:
        k = 'caught at once'
    elif caught:
        k = 'missed at first, caught after strengthening'
    elif 'cross_checks' in m and any(c['verdict'] == 'VIOLATION' for c in m['cross_checks'].values()):
        k = "not caught by this property's check, caught by the check of the property whose code it changes"
    else:
        k = 'not caught'
    rounds[rnd][k] += 1
    rounds[rnd]['total'] += 1
    if k != 'caught at once':
        detail[rnd].append((sid, k))
for r in sorted(rounds):
    print('round', r, dict(rounds[r]))
    for sid, k in detail[r]:
        if k.startswith('not'):
            print('   ', sid, k)
