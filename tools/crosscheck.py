#!/usr/bin/env python3
"""crosscheck.py <SEED> <PROP> [<PROP> ...]

A seeded change written against one property often lives in code another property is about (kind C "indirect" seeds).  Applies
seeded/<SEED>/patch.diff to a scratch worktree of /repo HEAD and runs the checks of the OTHER properties named; records the verdicts in
seeded/<SEED>/meta.json under "cross_checks".  Nothing is applied to /repo.
"""
import json
import os
import re
import shutil
import subprocess
import sys

ENV = dict(os.environ, GOFLAGS="-mod=mod", GOPROXY="off", GOSUMDB="off", GOTOOLCHAIN="local")


def sh(cmd, cwd, env=ENV, timeout=3600):
    p = subprocess.run(cmd, cwd=cwd, env=env, shell=True, stdout=subprocess.PIPE, stderr=subprocess.STDOUT, text=True, timeout=timeout)
    return p.returncode, p.stdout


def main():
    seed, props = sys.argv[1], sys.argv[2:]
    wt = f"/tmp/cross-{seed}-{os.getpid()}"
    sh(f"git worktree add -q --detach {wt} HEAD", "/repo")
    try:
        rc, out = sh(f"git apply /verif/seeded/{seed}/patch.diff", wt)
        if rc != 0:
            rc, out = sh(f"git apply -3 /verif/seeded/{seed}/patch.diff", wt)
        if rc != 0:
            print(seed, "patch does not apply on HEAD:", out[-200:])
            return
        mp = f"/verif/seeded/{seed}/meta.json"
        meta = json.load(open(mp))
        cross = meta.get("cross_checks", {})
        for prop in props:
            shutil.rmtree(f"/verif/replay/{prop}", ignore_errors=True)
            rc_check, out_check = sh(f"./check {prop} --skip-mc", "/verif", env=dict(ENV, VERIF_REPO=wt))
            whys = {}
            import glob
            for f in glob.glob(f"/verif/replay/{prop}/*.why.json"):
                for w in json.load(open(f)):
                    whys[w["why"]] = whys.get(w["why"], 0) + 1
            shutil.rmtree(f"/verif/replay/{prop}", ignore_errors=True)
            m = re.search(r"(\d+) rejected events", out_check)
            verdict = {0: "exit 0", 1: "VIOLATION", 2: "no verdict (infrastructure failure)"}.get(rc_check, f"exit {rc_check}")
            cross[prop] = dict(verdict=verdict, rejected_events=int(m.group(1)) if m else -1, reasons=whys)
            print(seed, prop, verdict, cross[prop]["rejected_events"], whys, flush=True)
        meta["cross_checks"] = cross
        json.dump(meta, open(mp, "w"), indent=1)
    finally:
        sh(f"git worktree remove --force {wt}", "/repo")


if __name__ == "__main__":
    main()
