#!/usr/bin/env python3
"""revertfix.py [ID ...]

For every `fixed` entry of known_findings.json: make a scratch worktree of /repo HEAD, revert that one fix commit there
(`git revert -n`; nothing is committed), build, and run `VERIF_REPO=<worktree> ./check <property> --skip-mc`.  A fixed entry
suppresses nothing, so the expected verdict is exit 1 (VIOLATION): the defect is reported again when it returns.  Writes
/verif/notes/revertfix.json.  Nothing is ever applied to /repo.
"""
import json
import os
import re
import shutil
import subprocess
import sys

ENV = dict(os.environ, GOFLAGS="-mod=mod", GOPROXY="off", GOSUMDB="off", GOTOOLCHAIN="local")


def sh(cmd, cwd, env=ENV, timeout=3600):
    p = subprocess.run(cmd, cwd=cwd, env=env, shell=True, stdout=subprocess.PIPE, stderr=subprocess.STDOUT, text=True, timeout=timeout)
    return p.returncode, p.stdout


def main():
    want = set(sys.argv[1:])
    k = json.load(open("/verif/known_findings.json"))
    out_path = "/verif/notes/revertfix.json"
    results = json.load(open(out_path)) if os.path.exists(out_path) else {}
    for e in k["findings"]:
        if e.get("status") != "fixed" or (want and e["id"] not in want):
            continue
        wt = f"/tmp/revertfix-{e['id']}-{os.getpid()}"
        sh(f"git worktree add -q --detach {wt} HEAD", "/repo")
        try:
            rc, out = sh(f"git revert -n {e['commit']}", wt)
            if rc != 0:
                results[e["id"]] = dict(property=e["property"], commit=e["commit"], verdict="revert does not apply cleanly on HEAD (later commits touch the same lines)")
                print(e["id"], e["property"], "revert conflict")
                continue
            rc_build, _ = sh("go build ./...", wt)
            prop = e["property"]
            check = prop if re.match(r"C\d\d$", prop) else prop
            shutil.rmtree(f"/verif/replay/{check}", ignore_errors=True)
            rc_check, out_check = sh(f"./check {check} --skip-mc", "/verif", env=dict(ENV, VERIF_REPO=wt))
            shutil.rmtree(f"/verif/replay/{check}", ignore_errors=True)
            m = re.search(r"(\d+) rejected events", out_check)
            verdict = {0: "NOT REPORTED (exit 0)", 1: "reported again (VIOLATION)", 2: "no verdict (infrastructure failure)"}.get(rc_check, f"exit {rc_check}")
            results[e["id"]] = dict(property=prop, commit=e["commit"], builds=rc_build == 0, verdict=verdict,
                                    rejected_events=int(m.group(1)) if m else -1)
            print(e["id"], prop, e["commit"], verdict, results[e["id"]]["rejected_events"], flush=True)
            if rc_check == 2:
                print(out_check[-500:])
        finally:
            sh(f"git worktree remove --force {wt}", "/repo")
            json.dump(results, open(out_path, "w"), indent=1, sort_keys=True)


if __name__ == "__main__":
    main()
