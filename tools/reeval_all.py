#!/usr/bin/env python3
"""reeval_all.py [-j N] [PROP ...]: re-evaluate every stored seed of the given (default: all) properties against the
current checks, N properties in parallel; prints one line per seed and a summary."""
import glob, os, re, subprocess, sys
from concurrent.futures import ThreadPoolExecutor

PK = {'C01': ('middleware', './middleware/... ./internal/...'), 'C02': ('middleware', './middleware/... ./security/... ./internal/...'),
      'C03': ('middleware', '. ./middleware/... ./internal/...'), 'C04': ('client', '. ./client/... ./middleware/... ./internal/...'),
      'C05': ('middleware/denco', './middleware/...'), 'C06': ('middleware', '. ./middleware/... ./internal/...'),
      'C07': ('middleware', './middleware/...'), 'C08': ('middleware', '. ./middleware/... ./security/... ./internal/...'),
      'C09': ('middleware', './middleware/... ./security/... .'), 'C10': ('client', './client/... .'), 'C11': ('client', './client/... .'),
      'C12': ('client', './client/... .'), 'C13': ('client', './client/... .'), 'C14': ('client', './client/... ./security/... ./middleware/...'),
      'C15': ('.', '. ./yamlpc/... ./client/... ./middleware/...'), 'C16': ('.', '. ./client/... ./middleware/...'),
      'C17': ('.', '. ./middleware/... ./client/...'), 'C18': ('client', './client/... .'),
      'C19': ('middleware', '. ./middleware/... ./internal/...'), 'C20': ('middleware', './middleware/... ./internal/...')}
args = sys.argv[1:]
j = 3
if args[:1] == ['-j']:
    j = int(args[1]); args = args[2:]
props = args or sorted(PK)


def one(p):
    ns = sorted(int(os.path.basename(d).split('-')[1]) for d in glob.glob(f'/verif/seeded/{p}-*'))
    ns = [n for n in ns if n >= int(os.environ.get('REEVAL_MIN', '1'))]
    dd, pkgs = PK[p]
    out = subprocess.run([sys.executable, '/verif/tools/reeval.py', p, dd] + [str(n) for n in ns] + ['--'] + pkgs.split(),
                         stdout=subprocess.PIPE, stderr=subprocess.STDOUT, text=True).stdout
    return [l for l in out.splitlines() if re.match(r'^C\d\d-\d+:', l)]


with ThreadPoolExecutor(max_workers=j) as ex:
    res = list(ex.map(one, props))
missed = 0
for lines in res:
    for l in lines:
        print(l[:230])
        if 'caught' not in l:
            missed += 1
print(f'SUMMARY: {sum(len(x) for x in res)} seeds, {missed} not caught')
