// Package c13 drives client.Runtime.Submit for property C13: consumer selection for the
// response's media type, per-operation client/context precedence, and concurrent Submit
// calls on one fresh Runtime (TLC-exported gate schedules, barriers, free running; the
// binary is built with -race by the runner).
package c13

import (
	"bufio"
	"bytes"
	"context"
	"encoding/json"
	"fmt"
	"io"
	"net/http"
	"os"
	"runtime"
	"strings"
	"sync"
	"time"

	oaruntime "github.com/go-openapi/runtime"
	"github.com/go-openapi/runtime/client"
	"github.com/go-openapi/strfmt"

	"verifharness/internal/drv"
)

type M = drv.M

func init() {
	drv.Register(&drv.Driver{Name: "c13", Generate: generate, Execute: execute})
}

var types = []string{"application/json", "text/plain", "application/xml", "application/octet-stream", "application/vnd.verif+json"}

const star = "*/*"

var (
	defForms   = []string{"plain", "params", "upper"}
	opCtxKinds = []string{"nil", "background", "todo", "value", "cancelled"}
	rtCtxKinds = []string{"nil", "default", "value", "cancelled", "deadline"}
)

// taggedConsumer is an identity-tagged consumer: the reader reports which one it was handed.
type taggedConsumer struct{ id string }

func (t *taggedConsumer) Consume(r io.Reader, v interface{}) error {
	b, err := io.ReadAll(r)
	if p, ok := v.(*[]byte); ok {
		*p = b
	}
	return err
}

// marker keys: the operation-level and the transport-level context carry different ones
type opCtxKey struct{}
type rtCtxKey struct{}

// mkOpCtx / mkRtCtx render the abstract context kinds; the returned func releases timers.
func mkOpCtx(kind string) (context.Context, func()) {
	switch kind {
	case "background":
		return context.Background(), func() {}
	case "todo":
		return context.TODO(), func() {}
	case "value":
		return context.WithValue(context.Background(), opCtxKey{}, "op"), func() {}
	case "cancelled":
		c, cancel := context.WithCancel(context.WithValue(context.Background(), opCtxKey{}, "op"))
		cancel()
		return c, func() {}
	}
	return nil, func() {}
}

func mkRtCtx(kind string) (context.Context, func()) {
	base := context.WithValue(context.Background(), rtCtxKey{}, "rt")
	switch kind {
	case "default":
		return context.Background(), func() {}
	case "value":
		return base, func() {}
	case "cancelled":
		c, cancel := context.WithCancel(base)
		cancel()
		return c, func() {}
	case "deadline":
		c, cancel := context.WithTimeout(base, shortDeadline)
		return c, cancel
	}
	return nil, func() {}
}

// shortDeadline is "short" compared with client.DefaultTimeout (30 s) yet never fires during a case.
const shortDeadline = 10 * time.Second

// echoRT answers every request itself: it echoes the request's token and records who was asked.
type echoRT struct {
	tag   string
	mu    *sync.Mutex
	calls *[]M
	gate  func(gate string, caller int)
	resp  func(req *http.Request, token string) *http.Response
}

func (e echoRT) RoundTrip(req *http.Request) (*http.Response, error) {
	token := req.Header.Get("X-Token")
	var caller int
	fmt.Sscanf(token, "t%d-", &caller)
	if e.gate != nil {
		e.gate("rt", caller)
	}
	if req.Body != nil {
		_, _ = io.Copy(io.Discard, req.Body)
		req.Body.Close()
	}
	ctx := req.Context()
	opv, _ := ctx.Value(opCtxKey{}).(string)
	rtv, _ := ctx.Value(rtCtxKey{}).(string)
	dl, hasDl := ctx.Deadline()
	e.mu.Lock()
	*e.calls = append(*e.calls, M{"client": e.tag, "token": token, "ctx_op_value": opv == "op", "ctx_rt_value": rtv == "rt",
		"ctx_err": ctx.Err() != nil, "ctx_short": hasDl && time.Until(dl) < shortDeadline+5*time.Second})
	e.mu.Unlock()
	return e.resp(req, token), nil
}

// ---- rendering of the abstract Content-Type header -----------------------------

func renderHeader(form, t string, variant int) (present bool, value string) {
	switch form {
	case "absent":
		return false, ""
	case "empty":
		return true, ""
	case "plain":
		return true, []string{t, " " + t + " ", t + ";"}[variant%3]
	case "params":
		return true, t + []string{"; charset=utf-8", ";charset=\"utf-8\"; q=0.5", "; boundary=xyz; a=b"}[variant%3]
	case "upper":
		return true, strings.ToUpper(t)
	case "upperparams":
		return true, strings.ToUpper(t[:1]) + t[1:] + []string{"; Charset=UTF-8", " ;X=1"}[variant%2]
	case "badparam":
		return true, t + []string{"; charset", "; =x", "; a=b; a=c", "; charset=\"utf"}[variant%4]
	case "garbage":
		return true, []string{"/", "a/b/c", ";;", " ", "application/", "/json", "text/pl ain"}[variant%7]
	}
	panic("form " + form)
}

func orZero(v any) any {
	if v == nil {
		return 0
	}
	return v
}

type silentLogger struct{}

func (silentLogger) Printf(string, ...interface{}) {}
func (silentLogger) Debugf(string, ...interface{}) {}

// renderDefault spells Runtime.DefaultMediaType for the abstract (type, form).
func renderDefault(t, form string) string {
	switch form {
	case "params":
		return t + "; charset=utf-8"
	case "upper":
		return strings.ToUpper(t)
	}
	return t
}

// ---- sequential part: one Submit, one configuration ----------------------------

func execPick(c *drv.Ctx, d M) bool {
	reg := drv.List(d["registry"])
	hdr := drv.Map(d["header"])
	form, t := drv.Str(hdr["form"]), drv.Str(hdr["t"])
	status := drv.Int(d["status"])
	opClient, opCtx, rtCtx := drv.Bool(d["op_client"]), drv.Str(d["op_ctx"]), drv.Str(d["rt_ctx"])
	present, value := renderHeader(form, t, drv.Int(d["variant"]))
	body := []byte(strings.Repeat("payload-", drv.Int(d["body_len"])))
	if n, ok := d["body_bytes"]; ok { // exact size (large bodies)
		body = bytes.Repeat([]byte("0123456789abcdef"), drv.Int(n)/16+1)[:drv.Int(n)]
	}
	chunked := drv.Str(d["framing"]) == "chunked"

	var mu sync.Mutex
	var calls []M
	mkResp := func(req *http.Request, token string) *http.Response {
		h := http.Header{"X-Multi": []string{"a", "b"}, "X-Token": []string{token}}
		if present {
			h["Content-Type"] = []string{value}
		}
		resp := &http.Response{StatusCode: status, Status: fmt.Sprintf("%d %s", status, http.StatusText(status)),
			Proto: "HTTP/1.1", ProtoMajor: 1, ProtoMinor: 1, Header: h, ContentLength: int64(len(body)),
			Body: io.NopCloser(bytes.NewReader(body)), Request: req}
		if k := drv.Int(orZero(d["stutter"])); k > 1 {
			resp.Body = &stutterBody{data: body, k: k, chunk: 997}
		}
		if chunked {
			resp.ContentLength = -1
			resp.TransferEncoding = []string{"chunked"}
		}
		return resp
	}
	rtRT := echoRT{tag: "rt", mu: &mu, calls: &calls, resp: mkResp}
	opRT := echoRT{tag: "op", mu: &mu, calls: &calls, resp: mkResp}

	var rt *client.Runtime
	if drv.Str(d["rt_client"]) == "withclient" {
		rt = client.NewWithClient("verif.invalid", "/", []string{"http"}, &http.Client{Transport: rtRT})
	} else {
		rt = client.New("verif.invalid", "/", []string{"http"})
		rt.Transport = rtRT
	}
	rt.Consumers = map[string]oaruntime.Consumer{}
	for _, x := range reg {
		rt.Consumers[drv.Str(x)] = &taggedConsumer{id: drv.Str(x)}
	}
	if drv.Bool(d["star"]) {
		rt.Consumers[star] = &taggedConsumer{id: star}
	}
	defaultMT := renderDefault(drv.Str(d["default"]), drv.Str(d["default_form"]))
	rt.DefaultMediaType = defaultMT
	if drv.Bool(d["debug"]) {
		rt.SetLogger(silentLogger{}) // Runtime.Debug dumps request and response through the logger
		rt.Debug = true
	}
	if drv.Bool(d["reuse"]) {
		rt.EnableConnectionReuse() // wraps the response bodies (KeepAliveTransport)
	}
	rctx, rrel := mkRtCtx(rtCtx)
	defer rrel()
	rt.Context = rctx // nil for "nil"; New itself leaves context.Background()
	op := &oaruntime.ClientOperation{ID: "pick", Method: "GET", PathPattern: "/x", Schemes: []string{"http"},
		ProducesMediaTypes: []string{"application/json"}, ConsumesMediaTypes: []string{"application/json"}}
	if opClient {
		op.Client = &http.Client{Transport: opRT}
	}
	octx, orel := mkOpCtx(opCtx)
	defer orel()
	op.Context = octx
	op.Params = oaruntime.ClientRequestWriterFunc(func(r oaruntime.ClientRequest, _ strfmt.Registry) error {
		return r.SetHeaderParam("X-Token", "t1-pick")
	})
	ev := M{"reader_called": false, "consumer_id": "", "code_seen": 0, "message_ok": false, "headers_ok": false, "body_ok": false}
	op.Reader = oaruntime.ClientResponseReaderFunc(func(resp oaruntime.ClientResponse, cons oaruntime.Consumer) (interface{}, error) {
		ev["reader_called"] = true
		if tc, ok := cons.(*taggedConsumer); ok {
			ev["consumer_id"] = tc.id
		} else {
			ev["consumer_id"] = fmt.Sprintf("foreign:%T", cons)
		}
		ev["code_seen"] = resp.Code()
		ev["message_ok"] = resp.Message() == fmt.Sprintf("%d %s", status, http.StatusText(status))
		hs := resp.GetHeaders("x-multi")
		ctSeen := resp.GetHeader("content-type")
		ev["headers_ok"] = resp.GetHeader("x-multi") == "a" && len(hs) == 2 && hs[0] == "a" && hs[1] == "b" &&
			resp.GetHeader("X-Token") == "t1-pick" && ctSeen == value && resp.GetHeader("X-Absent") == ""
		b, err := io.ReadAll(resp.Body())
		ev["body_ok"] = err == nil && bytes.Equal(b, body)
		return "read", nil
	})
	var err error
	panicked := false
	func() {
		defer func() {
			if r := recover(); r != nil {
				panicked = true
			}
		}()
		_, err = rt.Submit(op)
	}()
	ev["panic"] = panicked
	ev["outcome"] = "consumer"
	ev["err_kind"] = "none"
	ev["err_names_ct"] = false
	if err != nil {
		ev["outcome"] = "err"
		ct := value
		if !present || value == "" {
			ct = defaultMT
		}
		// the message quotes the value with %q; values used here need no escaping except '"'
		ev["err_names_ct"] = strings.Contains(err.Error(), ct) || strings.Contains(err.Error(), fmt.Sprintf("%q", ct))
		switch {
		case strings.HasPrefix(err.Error(), "no consumer:"):
			ev["err_kind"] = "noconsumer"
		case strings.HasPrefix(err.Error(), "parse content type:"):
			ev["err_kind"] = "parse"
		default:
			ev["err_kind"] = "other"
		}
	}
	mu.Lock()
	ev["rt_calls"] = len(calls)
	ev["used_client"] = ""
	for _, k := range []string{"ctx_op_value", "ctx_rt_value", "ctx_err", "ctx_short"} {
		ev[k] = false
	}
	if len(calls) > 0 {
		ev["used_client"] = calls[0]["client"]
		for _, k := range []string{"ctx_op_value", "ctx_rt_value", "ctx_err", "ctx_short"} {
			ev[k] = calls[0][k]
		}
	}
	mu.Unlock()
	c.W.Event("submit", ev)
	return form != "plain" || !opClient
}

// ---- concurrent part ----------------------------------------------------------

type gateStep struct {
	caller int
	gate   string
}

type scheduler struct {
	mode    string // sched | params-barrier | rt-barrier | free
	n       int
	mu      sync.Mutex
	arrive  chan gateStep
	release map[gateStep]chan struct{}
	log     []M
	free    chan struct{} // closed: everything passes
	exact   bool
	barrier map[string]*sync.WaitGroup
}

func newScheduler(mode string, n int) *scheduler {
	s := &scheduler{mode: mode, n: n, arrive: make(chan gateStep, 3*n+8), release: map[gateStep]chan struct{}{},
		free: make(chan struct{}), exact: true, barrier: map[string]*sync.WaitGroup{}}
	for i := 1; i <= n; i++ {
		for _, g := range []string{"params", "rt", "reader"} {
			s.release[gateStep{i, g}] = make(chan struct{})
		}
	}
	for _, g := range []string{"params", "rt"} {
		wg := &sync.WaitGroup{}
		wg.Add(n)
		s.barrier[g] = wg
	}
	return s
}

// gate is called by the harness callbacks running inside Submit.
func (s *scheduler) gate(g string, caller int) {
	switch s.mode {
	case "sched":
		s.arrive <- gateStep{caller, g}
		select {
		case <-s.release[gateStep{caller, g}]:
		case <-s.free:
		}
	case "params-barrier", "rt-barrier":
		if strings.HasPrefix(s.mode, g) {
			wg := s.barrier[g]
			wg.Done()
			done := make(chan struct{})
			go func() { wg.Wait(); close(done) }()
			select {
			case <-done:
			case <-time.After(3 * time.Second): // callers serialised by the code under test: do not deadlock the harness
			}
		}
	}
}

// run releases the gates in the scripted order; a step is released only after the caller arrived at it.
// A caller whose Submit returned without reaching a gate (the call failed early) has its remaining steps skipped.
func (s *scheduler) run(steps []gateStep, finished <-chan int) {
	arrived := map[gateStep]bool{}
	gone := map[int]bool{}
	giveUp := func() {
		// the code under test keeps a caller from reaching its gate (e.g. it serialises calls):
		// not a violation; stop scheduling and let everything run
		s.mu.Lock()
		s.exact = false
		s.mu.Unlock()
		close(s.free)
	}
	for _, st := range steps {
		deadline := time.After(2 * time.Second)
		for !arrived[st] && !gone[st.caller] {
			select {
			case a := <-s.arrive:
				arrived[a] = true
			case i := <-finished:
				gone[i] = true
			case <-deadline:
				giveUp()
				return
			}
		}
		if gone[st.caller] {
			s.mu.Lock()
			s.exact = false
			s.mu.Unlock()
			continue
		}
		s.mu.Lock()
		s.log = append(s.log, M{"caller": st.caller, "gate": st.gate})
		s.mu.Unlock()
		close(s.release[st])
		if st.gate == "reader" { // the call returns before the next gate is released
			deadline := time.After(2 * time.Second)
			for !gone[st.caller] {
				select {
				case a := <-s.arrive:
					arrived[a] = true
				case i := <-finished:
					gone[i] = true
				case <-deadline:
					giveUp()
					return
				}
			}
		}
	}
}

func execConc(c *drv.Ctx, d M) bool {
	n := drv.Int(d["n"])
	mode := drv.Str(d["mode"])
	if p := drv.Int(d["gomaxprocs"]); p > 0 {
		defer runtime.GOMAXPROCS(runtime.GOMAXPROCS(p))
	}
	var steps []gateStep
	for _, x := range drv.List(d["gates"]) {
		xm := drv.Map(x)
		steps = append(steps, gateStep{drv.Int(xm["caller"]), drv.Str(xm["gate"])})
	}
	sch := newScheduler(mode, n)
	var mu sync.Mutex
	var calls []M
	ctFor := func(i int) (string, string) { // response content type for caller i and the consumer it denotes
		switch i % 3 {
		case 0:
			return "text/plain; charset=utf-8", "text/plain"
		case 1:
			return "application/json", "application/json"
		}
		return "application/x-unregistered", star
	}
	mkResp := func(req *http.Request, token string) *http.Response {
		var caller int
		fmt.Sscanf(token, "t%d-", &caller)
		ct, _ := ctFor(caller)
		body := []byte("body:" + token)
		return &http.Response{StatusCode: 200, Status: "200 OK", Proto: "HTTP/1.1", ProtoMajor: 1, ProtoMinor: 1,
			Header:        http.Header{"Content-Type": []string{ct}, "X-Token": []string{token}},
			ContentLength: int64(len(body)), Body: io.NopCloser(bytes.NewReader(body)), Request: req}
	}
	shared := echoRT{tag: "rt", mu: &mu, calls: &calls, gate: sch.gate, resp: mkResp}
	own := echoRT{tag: "op", mu: &mu, calls: &calls, gate: sch.gate, resp: mkResp}

	// a fresh Runtime: the first calls initialise the shared client
	rt := client.New("verif.invalid", "/", []string{"http"})
	rt.Transport = shared
	rt.Consumers = map[string]oaruntime.Consumer{
		"application/json": &taggedConsumer{id: "application/json"},
		"text/plain":       &taggedConsumer{id: "text/plain"},
		star:               &taggedConsumer{id: star},
	}
	if drv.Bool(d["reuse"]) {
		rt.EnableConnectionReuse()
	}

	type result struct {
		i                                  int
		sent, gotBody, gotHdr, consumer    string
		wantConsumer, usedClient, wantClnt string
		failed, panicked                   bool
		kept                               oaruntime.ClientResponse // the reader keeps what it was handed
		keptBody                           io.ReadCloser
	}
	results := make([]result, n)
	finished := make(chan int, n)
	start := make(chan struct{})
	var wg sync.WaitGroup
	for i := 1; i <= n; i++ {
		wg.Add(1)
		go func(i int) {
			defer wg.Done()
			token := fmt.Sprintf("t%d-%s", i, drv.Str(d["salt"]))
			_, wantCons := ctFor(i)
			res := result{i: i, sent: token, wantConsumer: wantCons, wantClnt: "rt"}
			op := &oaruntime.ClientOperation{ID: "conc", Method: "POST", PathPattern: "/echo", Schemes: []string{"http"},
				ProducesMediaTypes: []string{"application/json"}, ConsumesMediaTypes: []string{"text/plain"}}
			if n >= 4 && i%4 == 0 {
				op.Client = &http.Client{Transport: own}
				res.wantClnt = "op"
			}
			op.Params = oaruntime.ClientRequestWriterFunc(func(r oaruntime.ClientRequest, _ strfmt.Registry) error {
				sch.gate("params", i)
				if err := r.SetHeaderParam("X-Token", token); err != nil {
					return err
				}
				return r.SetBodyParam(token)
			})
			op.Reader = oaruntime.ClientResponseReaderFunc(func(resp oaruntime.ClientResponse, cons oaruntime.Consumer) (interface{}, error) {
				sch.gate("reader", i)
				if tc, ok := cons.(*taggedConsumer); ok {
					res.consumer = tc.id
				}
				res.kept, res.keptBody = resp, resp.Body()
				res.gotHdr = resp.GetHeader("X-Token")
				b, err := io.ReadAll(resp.Body())
				if err != nil {
					return nil, err
				}
				res.gotBody = strings.TrimPrefix(string(b), "body:")
				return "ok", nil
			})
			<-start
			func() {
				defer func() {
					if r := recover(); r != nil {
						res.panicked = true
					}
				}()
				if _, err := rt.Submit(op); err != nil {
					res.failed = true
				}
			}()
			results[i-1] = res
			finished <- i
		}(i)
	}
	schedDone := make(chan struct{})
	if mode == "sched" {
		go func() { sch.run(steps, finished); close(schedDone) }()
	} else {
		close(schedDone)
	}
	close(start)
	wg.Wait()
	<-schedDone

	if mode == "sched" {
		sch.mu.Lock()
		lg := sch.log
		if lg == nil {
			lg = []M{}
		}
		c.W.Event("gates", M{"released": lg, "exact": sch.exact})
		sch.mu.Unlock()
	}
	mu.Lock()
	byToken := map[string]string{}
	for _, cl := range calls {
		byToken[drv.Str(cl["token"])] = drv.Str(cl["client"])
	}
	ncalls := len(calls)
	mu.Unlock()
	for _, r := range results {
		// after every call has returned, the response each reader kept must still be its own
		retained := r.kept != nil && r.kept.Code() == 200 && r.kept.GetHeader("X-Token") == r.sent && r.kept.Body() == r.keptBody
		c.W.Event("caller", M{"i": r.i, "retained_ok": retained || r.failed, "sent": r.sent, "got_body": r.gotBody, "got_hdr": r.gotHdr, "consumer_id": r.consumer,
			"want_consumer": r.wantConsumer, "used_client": byToken[r.sent], "want_client": r.wantClnt,
			"failed": r.failed, "panic": r.panicked})
	}
	c.W.Event("done", M{"rt_calls": ncalls, "distinct_tokens": len(byToken)})
	return true
}

func execute(c *drv.Ctx, d M) bool {
	switch drv.Str(d["kind"]) {
	case "pick":
		return execPick(c, d)
	case "conc":
		if drv.Str(d["mode"]) == "overlap" {
			return execOverlap(c, d)
		}
		return execConc(c, d)
	case "retain":
		return execRetain(c, d)
	case "opreuse":
		return execOpReuse(c, d)
	case "multi":
		return execMulti(c, d)
	case "clientlat":
		return execClientLat(c, d)
	}
	panic("unknown case kind")
}

// ---- generation -----------------------------------------------------------------

func generate(c *drv.Ctx) {
	thorough := c.Tier == "thorough"
	forms := []string{"plain", "params", "upper", "upperparams", "badparam"}
	type hd struct{ form, t string }
	var hdrs []hd
	hdrs = append(hdrs, hd{"absent", types[0]}, hd{"empty", types[0]})
	for _, f := range forms {
		for _, t := range types {
			hdrs = append(hdrs, hd{f, t})
		}
	}
	for k := 0; k < 7; k++ {
		hdrs = append(hdrs, hd{"garbage", types[0]})
	}
	statuses := []int{200, 201, 204, 404, 500}
	idx := 0
	npick := 0
	// (1) exhaustive: every registry over the type pool x catch-all x default type x header form/type
	for mask := 0; mask < 1<<len(types); mask++ {
		var reg []string
		for i, t := range types {
			if mask&(1<<i) != 0 {
				reg = append(reg, t)
			}
		}
		if reg == nil {
			reg = []string{}
		}
		for _, st := range []bool{false, true} {
			for _, def := range types {
				gk := 0
				for _, h := range hdrs {
					v := idx
					if h.form == "garbage" {
						v = gk
						gk++
					}
					dforms := []string{defForms[idx%3]}
					if h.form == "absent" || h.form == "empty" {
						dforms = defForms // the default type decides: every spelling of it
					}
					for _, df := range dforms {
						c.Case(M{"kind": "pick", "registry": reg, "star": st, "default": def, "default_form": df,
							"header": M{"form": h.form, "t": h.t}, "variant": v, "status": statuses[idx%5],
							"op_client": idx%2 == 1, "op_ctx": opCtxKinds[(idx/2)%5], "rt_ctx": rtCtxKinds[(idx/10)%5],
							"rt_client": []string{"transport", "withclient"}[(idx/8)%2], "body_len": idx % 7,
							"debug": (idx/3)%4 == 0 && statuses[idx%5] != 204, "framing": []string{"length", "chunked"}[(idx/5)%2],
							"reuse": (idx/7)%2 == 1, "stutter": []int{0, 0, 2, 3}[(idx/11)%4]})
						npick++
					}
					idx++
				}
			}
		}
	}
	// (2) exhaustive: operation-level vs transport-level client/context x status x a few headers
	for _, oc := range []bool{false, true} {
		for _, ox := range opCtxKinds {
			for _, rx := range rtCtxKinds {
				for _, rc := range []string{"transport", "withclient"} {
					for _, s := range statuses {
						for _, h := range []hd{{"plain", types[0]}, {"absent", types[0]}, {"params", types[3]}} {
							c.Case(M{"kind": "pick", "registry": []string{types[0], types[1]}, "star": s%2 == 0, "default": types[1], "default_form": defForms[s%3],
								"header": M{"form": h.form, "t": h.t}, "variant": s, "status": s, "op_client": oc, "op_ctx": ox,
								"rt_ctx": rx, "rt_client": rc, "body_len": 3})
							npick++
						}
					}
				}
			}
		}
	}
	// (3) seeded random
	nrand := 2000
	if thorough {
		nrand = 40000
	}
	for k := 0; k < nrand; k++ {
		var reg []string
		for _, t := range types {
			if c.Rng.Intn(2) == 0 {
				reg = append(reg, t)
			}
		}
		if reg == nil {
			reg = []string{}
		}
		h := hdrs[c.Rng.Intn(len(hdrs))]
		c.Case(M{"kind": "pick", "registry": reg, "star": c.Rng.Intn(2) == 0, "default": types[c.Rng.Intn(len(types))], "default_form": defForms[c.Rng.Intn(3)],
			"header": M{"form": h.form, "t": h.t}, "variant": c.Rng.Intn(84), "status": 100 + c.Rng.Intn(500),
			"op_client": c.Rng.Intn(2) == 0, "op_ctx": opCtxKinds[c.Rng.Intn(5)], "rt_ctx": rtCtxKinds[c.Rng.Intn(5)],
			"rt_client": []string{"transport", "withclient"}[c.Rng.Intn(2)], "body_len": c.Rng.Intn(3000),
			"debug": false, "framing": []string{"length", "chunked"}[c.Rng.Intn(2)],
			"reuse": c.Rng.Intn(2) == 0, "stutter": []int{0, 0, 2, 3, 7}[c.Rng.Intn(5)]})
		npick++
	}
	// (3b) the reader sees the body unchanged, with and without Runtime.Debug, for bodies of 0 B .. a few MiB
	sizes := []int{0, 1, 4096, 1<<20 - 1, 1 << 20, 1<<20 + 1, 3<<20 + 17}
	if thorough {
		sizes = append(sizes, 65536, 2<<20, 5<<20)
	}
	for _, dbg := range []bool{false, true} {
		for _, fr := range []string{"length", "chunked"} {
			for _, sz := range sizes {
				for ti, t := range []string{types[0], types[1], types[3]} {
					for _, s := range []int{200, 404} {
						c.Case(M{"kind": "pick", "registry": []string{types[0], types[1], types[3]}, "star": false, "default": types[0],
							"default_form": "plain", "header": M{"form": []string{"plain", "params"}[ti%2], "t": t}, "variant": 0, "status": s,
							"op_client": s == 404, "op_ctx": "nil", "rt_ctx": "default", "rt_client": "transport", "body_len": 0,
							"body_bytes": sz, "debug": dbg, "framing": fr})
						npick++
					}
				}
			}
		}
	}
	// (3c) bodies whose Read sometimes returns (0, nil) before the end, with and without connection reuse / Debug
	for _, reuse := range []bool{false, true} {
		for _, st := range []int{0, 2, 3, 5} {
			for _, sz := range []int{0, 1, 996, 997, 998, 4096, 100000} {
				for _, fr := range []string{"length", "chunked"} {
					for _, dbg := range []bool{false, true} {
						for _, rc := range []string{"transport", "withclient"} {
							c.Case(M{"kind": "pick", "registry": []string{types[0], types[3]}, "star": false, "default": types[0],
								"default_form": "plain", "header": M{"form": "plain", "t": types[sz%2*3]}, "variant": 0, "status": 200,
								"op_client": false, "op_ctx": "nil", "rt_ctx": "default", "rt_client": rc, "body_len": 0,
								"body_bytes": sz, "debug": dbg, "framing": fr, "reuse": reuse, "stutter": st})
							npick++
						}
					}
				}
			}
		}
	}
	c.Extra["pick_cases"] = npick

	// (4) concurrent Submit on a fresh Runtime: TLC-exported gate schedules
	nconc := 0
	if c.Scripts != "" {
		f, err := os.Open(c.Scripts)
		if err != nil {
			panic(err)
		}
		sc := bufio.NewScanner(f)
		sc.Buffer(make([]byte, 1<<20), 1<<26)
		k := 0
		for sc.Scan() {
			var s M
			if err := json.Unmarshal(sc.Bytes(), &s); err != nil {
				panic(err)
			}
			c.Case(M{"kind": "conc", "mode": "sched", "n": s["n"], "gates": s["gates"], "gomaxprocs": []int{1, 2, 4, 0}[k%4],
				"salt": fmt.Sprintf("s%d", k), "reuse": k%5 == 0})
			k++
			nconc++
		}
		f.Close()
		c.Extra["schedules"] = k
	}
	// (5) barriers (all callers inside the params writer / inside RoundTrip at once) and free running
	reps := 4
	if thorough {
		reps = 40
	}
	for _, n := range []int{2, 8, 64} {
		for _, mode := range []string{"params-barrier", "rt-barrier", "free"} {
			for _, p := range []int{1, 2, 4, 16} {
				for r := 0; r < reps; r++ {
					c.Case(M{"kind": "conc", "mode": mode, "n": n, "gates": []M{}, "gomaxprocs": p,
						"salt": fmt.Sprintf("%s%d", mode[:1], c.Rng.Intn(1000000)), "reuse": r%2 == 1})
					nconc++
				}
			}
		}
	}
	c.Extra["conc_cases"] = nconc
	generateOverlap(c, thorough)
	generateRetain(c, thorough)
	generateOpReuse(c, thorough)
	generateMulti(c, thorough)
	generateClientLat(c, thorough)
}
