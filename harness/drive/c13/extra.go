package c13

import (
	"bytes"
	"fmt"
	"io"
	"net/http"
	"net/http/cookiejar"
	"net/http/httptest"
	"net/url"
	"strings"
	"sync"

	oaruntime "github.com/go-openapi/runtime"
	"github.com/go-openapi/runtime/client"
	"github.com/go-openapi/strfmt"

	"verifharness/internal/drv"
)

// ---- readers that keep the response beyond the call -----------------------------

// execRetain: k sequential calls on one Runtime; every reader keeps the ClientResponse it was handed (as generated
// readers do through runtime.NewAPIError); after all calls each kept response is asked again.
func execRetain(c *drv.Ctx, d M) bool {
	k := drv.Int(d["calls"])
	statuses := drv.List(d["statuses"])
	var mu sync.Mutex
	var calls []M
	bodies := map[string]io.ReadCloser{}
	mkResp := func(req *http.Request, token string) *http.Response {
		var i int
		fmt.Sscanf(token, "t%d-", &i)
		st := drv.Int(statuses[(i-1)%len(statuses)])
		body := io.NopCloser(bytes.NewReader([]byte("body:" + token)))
		mu.Lock()
		bodies[token] = body
		mu.Unlock()
		return &http.Response{StatusCode: st, Status: fmt.Sprintf("%d %s", st, http.StatusText(st)), Proto: "HTTP/1.1", ProtoMajor: 1, ProtoMinor: 1,
			Header: http.Header{"Content-Type": []string{"application/json"}, "X-Token": []string{token}}, Body: body, Request: req}
	}
	var rt *client.Runtime
	shared := echoRT{tag: "rt", mu: &mu, calls: &calls, resp: mkResp}
	if drv.Str(d["rt_client"]) == "withclient" {
		rt = client.NewWithClient("verif.invalid", "/", []string{"http"}, &http.Client{Transport: shared})
	} else {
		rt = client.New("verif.invalid", "/", []string{"http"})
		rt.Transport = shared
	}
	rt.Consumers = map[string]oaruntime.Consumer{"application/json": &taggedConsumer{id: "application/json"}}
	type kept struct {
		resp     oaruntime.ClientResponse
		body     io.ReadCloser
		token    string
		status   int
		inReader bool
		failed   bool
	}
	keep := make([]*kept, k)
	for i := 1; i <= k; i++ {
		kp := &kept{token: fmt.Sprintf("t%d-%s", i, drv.Str(d["salt"])), status: drv.Int(statuses[(i-1)%len(statuses)])}
		keep[i-1] = kp
		op := &oaruntime.ClientOperation{ID: "retain", Method: "GET", PathPattern: "/r", Schemes: []string{"http"},
			ProducesMediaTypes: []string{"application/json"}, ConsumesMediaTypes: []string{"application/json"}}
		op.Params = oaruntime.ClientRequestWriterFunc(func(r oaruntime.ClientRequest, _ strfmt.Registry) error {
			return r.SetHeaderParam("X-Token", kp.token)
		})
		op.Reader = oaruntime.ClientResponseReaderFunc(func(resp oaruntime.ClientResponse, _ oaruntime.Consumer) (interface{}, error) {
			kp.resp, kp.body = resp, resp.Body()
			kp.inReader = resp.Code() == kp.status && resp.GetHeader("X-Token") == kp.token
			return "kept", nil
		})
		func() {
			defer func() {
				if r := recover(); r != nil {
					kp.failed = true
				}
			}()
			if _, err := rt.Submit(op); err != nil {
				kp.failed = true
			}
		}()
	}
	for i, kp := range keep {
		ev := M{"i": i + 1, "failed": kp.failed, "in_reader_ok": kp.inReader, "code_ok": false, "message_ok": false, "header_ok": false, "body_same": false}
		if kp.resp != nil {
			func() {
				defer func() { _ = recover() }()
				ev["code_ok"] = kp.resp.Code() == kp.status
				ev["message_ok"] = kp.resp.Message() == fmt.Sprintf("%d %s", kp.status, http.StatusText(kp.status))
				hs := kp.resp.GetHeaders("x-token")
				ev["header_ok"] = kp.resp.GetHeader("X-Token") == kp.token && len(hs) == 1 && hs[0] == kp.token
				mu.Lock()
				own := bodies[kp.token]
				mu.Unlock()
				ev["body_same"] = kp.resp.Body() == kp.body && kp.body == own
			}()
		}
		c.W.Event("retained", ev)
	}
	c.W.Event("retain_done", M{"calls": k})
	return true
}

func generateRetain(c *drv.Ctx, thorough bool) {
	n := 0
	reps := 6
	if thorough {
		reps = 60
	}
	for _, k := range []int{2, 3, 6} {
		for _, rc := range []string{"transport", "withclient"} {
			for r := 0; r < reps; r++ {
				sts := []int{404, 200, 500, 201, 204, 422}
				c.Rng.Shuffle(len(sts), func(i, j int) { sts[i], sts[j] = sts[j], sts[i] })
				c.Case(M{"kind": "retain", "calls": k, "statuses": sts, "rt_client": rc, "salt": fmt.Sprintf("r%d", c.Rng.Intn(1000000))})
				n++
			}
		}
	}
	c.Extra["retain_cases"] = n
}

// ---- client lattice on the wire --------------------------------------------------

// markRT marks every request it carries, then hands it to http.DefaultTransport.
type markRT struct{ header string }

func (m markRT) RoundTrip(req *http.Request) (*http.Response, error) {
	r2 := req.Clone(req.Context())
	r2.Header.Set(m.header, "1")
	return http.DefaultTransport.RoundTrip(r2)
}

type seenReq struct {
	rtMarker, opMarker, rtCookie, opCookie bool
	n                                      int
}

var (
	latOnce sync.Once
	latSrv  *httptest.Server
	latMu   sync.Mutex
	latSeen = map[string]*seenReq{}
)

func latServer() *httptest.Server {
	latOnce.Do(func() {
		latSrv = httptest.NewServer(http.HandlerFunc(func(w http.ResponseWriter, r *http.Request) {
			tok := r.Header.Get("X-Token")
			latMu.Lock()
			s := latSeen[tok]
			if s == nil {
				s = &seenReq{}
				latSeen[tok] = s
			}
			s.n++
			s.rtMarker = s.rtMarker || r.Header.Get("X-Rt-Marker") != ""
			s.opMarker = s.opMarker || r.Header.Get("X-Op-Marker") != ""
			for _, ck := range r.Cookies() {
				if ck.Name == "session" && strings.HasPrefix(ck.Value, "rt-") {
					s.rtCookie = true
				}
				if ck.Name == "session" && strings.HasPrefix(ck.Value, "op-") {
					s.opCookie = true
				}
			}
			latMu.Unlock()
			w.Header().Set("Content-Type", "application/json")
			_, _ = w.Write([]byte(`{"ok":true}`))
		}))
	})
	return latSrv
}

func jarWith(u *url.URL, value string) http.CookieJar {
	j, err := cookiejar.New(nil)
	if err != nil {
		panic(err)
	}
	j.SetCookies(u, []*http.Cookie{{Name: "session", Value: value, Path: "/"}})
	return j
}

// execClientLat: one Submit against a real server; the server reports which round tripper marked the request and
// which cookies came with it.
func execClientLat(c *drv.Ctx, d M) bool {
	srv := latServer()
	u, _ := url.Parse(srv.URL)
	opc := drv.Str(d["op_client"])
	token := "lat-" + drv.Str(d["salt"])
	var rt *client.Runtime
	var rtTransport http.RoundTripper
	if drv.Bool(d["rt_marker"]) {
		rtTransport = markRT{header: "X-Rt-Marker"}
	}
	var rtJar http.CookieJar
	if drv.Bool(d["rt_jar"]) {
		rtJar = jarWith(u, "rt-secret")
	}
	if drv.Str(d["rt_client"]) == "withclient" {
		rt = client.NewWithClient(u.Host, "/", []string{"http"}, &http.Client{Transport: rtTransport, Jar: rtJar})
		if rtTransport != nil {
			rt.Transport = rtTransport
		}
		rt.Jar = rtJar
	} else {
		rt = client.New(u.Host, "/", []string{"http"})
		if rtTransport != nil {
			rt.Transport = rtTransport
		}
		rt.Jar = rtJar
	}
	op := &oaruntime.ClientOperation{ID: "lat", Method: "GET", PathPattern: "/lat", Schemes: []string{"http"},
		ProducesMediaTypes: []string{"application/json"}, ConsumesMediaTypes: []string{"application/json"}}
	switch opc {
	case "bare":
		op.Client = &http.Client{}
	case "transport":
		op.Client = &http.Client{Transport: markRT{header: "X-Op-Marker"}}
	case "jar":
		op.Client = &http.Client{Jar: jarWith(u, "op-own")}
	case "full":
		op.Client = &http.Client{Transport: markRT{header: "X-Op-Marker"}, Jar: jarWith(u, "op-own")}
	}
	op.Params = oaruntime.ClientRequestWriterFunc(func(r oaruntime.ClientRequest, _ strfmt.Registry) error {
		return r.SetHeaderParam("X-Token", token)
	})
	op.Reader = oaruntime.ClientResponseReaderFunc(func(resp oaruntime.ClientResponse, _ oaruntime.Consumer) (interface{}, error) {
		_, err := io.ReadAll(resp.Body())
		return resp.Code(), err
	})
	ok := false
	func() {
		defer func() { _ = recover() }()
		out, err := rt.Submit(op)
		ok = err == nil && out == 200
	}()
	latMu.Lock()
	s := latSeen[token]
	if s == nil {
		s = &seenReq{}
	}
	ev := M{"result_ok": ok, "requests": s.n, "rt_marker": s.rtMarker, "op_marker": s.opMarker, "rt_cookie": s.rtCookie, "op_cookie": s.opCookie}
	delete(latSeen, token)
	latMu.Unlock()
	c.W.Event("wire", ev)
	return true
}

func generateClientLat(c *drv.Ctx, thorough bool) {
	n := 0
	reps := 1
	if thorough {
		reps = 5
	}
	for _, opc := range []string{"none", "bare", "transport", "jar", "full"} {
		for _, m := range []bool{false, true} {
			for _, j := range []bool{false, true} {
				for _, rc := range []string{"transport", "withclient"} {
					for r := 0; r < reps; r++ {
						c.Case(M{"kind": "clientlat", "op_client": opc, "rt_marker": m, "rt_jar": j, "rt_client": rc,
							"salt": fmt.Sprintf("%s-%d", opc, c.Rng.Intn(1000000000))})
						n++
					}
				}
			}
		}
	}
	c.Extra["clientlat_cases"] = n
}
