package c13

import (
	"bytes"
	"errors"
	"fmt"
	"io"
	"net/http"
	"strings"
	"sync"
	"time"

	oaruntime "github.com/go-openapi/runtime"
	"github.com/go-openapi/runtime/client"

	"verifharness/internal/drv"
)

var errClosedBody = errors.New("verif: read on closed response body")

// gatedBody delivers the first piece at once and the rest only when released, so that several calls are inside
// their consumers at the same time; reading it after Close fails, as a real response body does.
type gatedBody struct {
	mu      sync.Mutex
	first   []byte
	rest    []byte
	state   int
	closed  bool
	release chan struct{}
	entered func()
}

func (g *gatedBody) Read(p []byte) (int, error) {
	g.mu.Lock()
	if g.closed {
		g.mu.Unlock()
		return 0, errClosedBody
	}
	if len(p) == 0 {
		g.mu.Unlock()
		return 0, nil
	}
	switch g.state {
	case 0:
		n := copy(p, g.first)
		g.first = g.first[n:]
		if len(g.first) == 0 {
			g.state = 1
			g.mu.Unlock()
			g.entered() // the consumer of this call has started
			return n, nil
		}
		g.mu.Unlock()
		return n, nil
	case 1:
		g.mu.Unlock()
		select {
		case <-g.release:
		case <-time.After(5 * time.Second):
		}
		g.mu.Lock()
		defer g.mu.Unlock()
		if g.closed {
			return 0, errClosedBody
		}
		n := copy(p, g.rest)
		g.rest = g.rest[n:]
		if len(g.rest) == 0 {
			g.state = 2
		}
		return n, nil
	}
	g.mu.Unlock()
	return 0, io.EOF
}

func (g *gatedBody) Close() error {
	g.mu.Lock()
	g.closed = true
	g.mu.Unlock()
	return nil
}

// execOverlap: n overlapping Submit calls on one Runtime whose registry holds the library's own
// ByteStreamConsumer(ClosesStream); all calls are inside the consumer before the first one is allowed to finish.
func execOverlap(c *drv.Ctx, d M) bool {
	n := drv.Int(d["n"])
	var mu sync.Mutex
	bodies := map[int]*gatedBody{}
	seen := map[string]bool{}
	enteredCh := make(chan int, n)
	rtrip := roundTripFunc(func(req *http.Request) (*http.Response, error) {
		token := req.Header.Get("X-Token")
		var i int
		fmt.Sscanf(token, "t%d-", &i)
		if req.Body != nil {
			_, _ = io.Copy(io.Discard, req.Body)
			req.Body.Close()
		}
		payload := []byte("body:" + token + ":" + strings.Repeat("x", 200))
		g := &gatedBody{first: payload[:len(payload)/2], rest: payload[len(payload)/2:], release: make(chan struct{})}
		g.entered = func() { enteredCh <- i }
		mu.Lock()
		bodies[i] = g
		seen[token] = true
		mu.Unlock()
		return &http.Response{StatusCode: 200, Status: "200 OK", Proto: "HTTP/1.1", ProtoMajor: 1, ProtoMinor: 1,
			Header:        http.Header{"Content-Type": []string{"application/octet-stream"}, "X-Token": []string{token}},
			ContentLength: int64(len(payload)), Body: g, Request: req}, nil
	})
	rt := client.New("verif.invalid", "/", []string{"http"})
	rt.Transport = rtrip
	rt.Consumers = map[string]oaruntime.Consumer{"application/octet-stream": oaruntime.ByteStreamConsumer(oaruntime.ClosesStream)}
	if drv.Bool(d["reuse"]) {
		rt.EnableConnectionReuse()
	}
	type result struct {
		sent, gotBody, gotHdr string
		failed, panicked      bool
	}
	results := make([]result, n)
	finished := make(chan int, n)
	var wg sync.WaitGroup
	for i := 1; i <= n; i++ {
		wg.Add(1)
		go func(i int) {
			defer wg.Done()
			token := fmt.Sprintf("t%d-%s", i, drv.Str(d["salt"]))
			res := result{sent: token}
			op := &oaruntime.ClientOperation{ID: "overlap", Method: "GET", PathPattern: "/o", Schemes: []string{"http"},
				ProducesMediaTypes: []string{"application/octet-stream"}, ConsumesMediaTypes: []string{"application/json"},
				Params: &keepParams{token: token}}
			op.Reader = oaruntime.ClientResponseReaderFunc(func(resp oaruntime.ClientResponse, cons oaruntime.Consumer) (interface{}, error) {
				res.gotHdr = resp.GetHeader("X-Token")
				var buf bytes.Buffer
				if err := cons.Consume(resp.Body(), &buf); err != nil { // the registered consumer does the reading (and closing)
					return nil, err
				}
				s := strings.TrimPrefix(buf.String(), "body:")
				if k := strings.Index(s, ":"); k >= 0 && s[k+1:] == strings.Repeat("x", 200) {
					res.gotBody = s[:k]
				}
				return "ok", nil
			})
			func() {
				defer func() {
					if r := recover(); r != nil {
						res.panicked = true
					}
				}()
				if _, err := rt.Submit(op); err != nil {
					res.failed = true
				}
			}()
			results[i-1] = res
			finished <- i
		}(i)
	}
	// all consumers have started before anyone may finish
	timeout := time.After(3 * time.Second)
	for k := 0; k < n; k++ {
		select {
		case <-enteredCh:
		case <-timeout:
			k = n
		}
	}
	gone := map[int]bool{}
	for _, x := range drv.List(d["finish_order"]) {
		i := drv.Int(x)
		mu.Lock()
		g := bodies[i]
		mu.Unlock()
		if g != nil {
			close(g.release)
		}
		deadline := time.After(3 * time.Second)
		for !gone[i] {
			select {
			case j := <-finished:
				gone[j] = true
			case <-deadline:
				gone[i] = true
			}
		}
	}
	wg.Wait()
	for i, r := range results {
		c.W.Event("caller", M{"i": i + 1, "retained_ok": true, "sent": r.sent, "got_body": r.gotBody, "got_hdr": r.gotHdr, "consumer_id": "",
			"want_consumer": "", "used_client": "rt", "want_client": "rt", "failed": r.failed, "panic": r.panicked})
	}
	mu.Lock()
	c.W.Event("done", M{"rt_calls": len(bodies), "distinct_tokens": len(seen)})
	mu.Unlock()
	return true
}

func generateOverlap(c *drv.Ctx, thorough bool) {
	n := 0
	reps := 3
	if thorough {
		reps = 30
	}
	for _, k := range []int{2, 3, 5} {
		for r := 0; r < reps; r++ {
			for _, reuse := range []bool{false, true} {
				order := c.Rng.Perm(k)
				for i := range order {
					order[i]++
				}
				if r == 0 { // first in, first out: the earliest call finishes while the later ones are still reading
					for i := range order {
						order[i] = i + 1
					}
				}
				c.Case(M{"kind": "conc", "mode": "overlap", "n": k, "gates": []M{}, "gomaxprocs": 0, "finish_order": order,
					"salt": fmt.Sprintf("o%d", c.Rng.Intn(1000000)), "reuse": reuse})
				n++
			}
		}
	}
	c.Extra["overlap_cases"] = n
}

// ---- bodies whose Read sometimes makes no progress ------------------------------------

// stutterBody returns (0, nil) on every k-th Read of a non-empty buffer before the end (allowed by io.Reader).
type stutterBody struct {
	data  []byte
	k     int
	chunk int
	reads int
	pos   int
}

func (s *stutterBody) Read(p []byte) (int, error) {
	if len(p) == 0 {
		return 0, nil
	}
	if s.pos >= len(s.data) {
		return 0, io.EOF
	}
	s.reads++
	if s.k > 1 && s.reads%s.k == 0 {
		return 0, nil // nothing happened
	}
	n := len(p)
	if n > s.chunk {
		n = s.chunk
	}
	if n > len(s.data)-s.pos {
		n = len(s.data) - s.pos
	}
	copy(p, s.data[s.pos:s.pos+n])
	s.pos += n
	return n, nil
}

func (s *stutterBody) Close() error { return nil }
