package c13

import (
	"bytes"
	"context"
	"fmt"
	"io"
	"net/http"
	"reflect"
	"sync"

	oaruntime "github.com/go-openapi/runtime"
	"github.com/go-openapi/runtime/client"
	"github.com/go-openapi/strfmt"

	"verifharness/internal/drv"
)

// ---- the same ClientOperation value submitted more than once -------------------------

type rtIDKey struct{}

// comparable implementations of the operation's collaborators (pointer identity)
type keepParams struct{ token string }

func (p *keepParams) WriteToRequest(r oaruntime.ClientRequest, _ strfmt.Registry) error {
	return r.SetHeaderParam("X-Token", p.token)
}

type keepReader struct{ calls int }

func (k *keepReader) ReadResponse(resp oaruntime.ClientResponse, _ oaruntime.Consumer) (interface{}, error) {
	k.calls++
	_, err := io.ReadAll(resp.Body())
	return "ok", err
}

type keepAuth struct{}

func (*keepAuth) AuthenticateRequest(oaruntime.ClientRequest, strfmt.Registry) error { return nil }

type ctxProbe struct {
	mu   sync.Mutex
	seen []M
}

func (p *ctxProbe) RoundTrip(req *http.Request) (*http.Response, error) {
	ctx := req.Context()
	opv, _ := ctx.Value(opCtxKey{}).(string)
	id, _ := ctx.Value(rtIDKey{}).(int)
	p.mu.Lock()
	p.seen = append(p.seen, M{"op_value": opv == "op", "rt_id": id, "err": ctx.Err() != nil})
	p.mu.Unlock()
	body := []byte(`{}`)
	return &http.Response{StatusCode: 200, Status: "200 OK", Proto: "HTTP/1.1", ProtoMajor: 1, ProtoMinor: 1,
		Header: http.Header{"Content-Type": []string{"application/json"}}, ContentLength: int64(len(body)),
		Body: io.NopCloser(bytes.NewReader(body)), Request: req}, nil
}

// execOpReuse submits ONE ClientOperation value several times while the transport-wide context differs between the
// calls (replaced on the same Runtime after the old one was cancelled, or a second Runtime), and compares the
// operation with a copy taken before each Submit.
func execOpReuse(c *drv.Ctx, d M) bool {
	probe := &ctxProbe{}
	mk := func() *client.Runtime {
		rt := client.New("verif.invalid", "/", []string{"http"})
		rt.Transport = probe
		return rt
	}
	rtA := mk()
	rtB := rtA
	if drv.Str(d["mode"]) == "two-runtimes" {
		rtB = mk()
	}
	op := &oaruntime.ClientOperation{ID: "reuse", Method: "GET", PathPattern: "/p", Schemes: []string{"http"},
		ProducesMediaTypes: []string{"application/json"}, ConsumesMediaTypes: []string{"application/json"},
		Params: &keepParams{token: "t1-reuse"}, Reader: &keepReader{}, AuthInfo: &keepAuth{}}
	if drv.Bool(d["op_has_ctx"]) {
		op.Context = context.WithValue(context.Background(), opCtxKey{}, "op")
	}
	if drv.Bool(d["op_has_client"]) {
		op.Client = &http.Client{Transport: probe}
	}
	var cancels []context.CancelFunc
	defer func() {
		for _, f := range cancels {
			f()
		}
	}()
	for n, x := range drv.List(d["rt_ctxs"]) {
		xm := drv.Map(x)
		rt := rtA
		if n%2 == 1 {
			rt = rtB
		}
		var cancelNow context.CancelFunc
		switch id := drv.Int(xm["id"]); {
		case id == 0:
			rt.Context = nil
		default:
			ctx, cancel := context.WithCancel(context.WithValue(context.Background(), rtIDKey{}, id))
			cancels = append(cancels, cancel)
			rt.Context = ctx
			if drv.Bool(xm["cancelled"]) {
				cancel()
			}
			if drv.Bool(xm["cancel_after"]) {
				cancelNow = cancel
			}
		}
		before := *op
		ok := false
		func() {
			defer func() { _ = recover() }()
			_, err := rt.Submit(op)
			ok = err == nil
		}()
		unchanged := reflect.DeepEqual(before.ProducesMediaTypes, op.ProducesMediaTypes) && reflect.DeepEqual(before.ConsumesMediaTypes, op.ConsumesMediaTypes) &&
			reflect.DeepEqual(before.Schemes, op.Schemes) && before.ID == op.ID && before.Method == op.Method && before.PathPattern == op.PathPattern &&
			before.AuthInfo == op.AuthInfo && before.Params == op.Params && before.Reader == op.Reader && before.Context == op.Context && before.Client == op.Client
		if cancelNow != nil {
			cancelNow() // the transport-wide context of this call ends before the next call
		}
		ev := M{"n": n + 1, "result_ok": ok, "op_unchanged": unchanged, "op_value": false, "rt_id": -1, "err": false, "requests": 0}
		probe.mu.Lock()
		if len(probe.seen) == n+1 {
			s := probe.seen[n]
			ev["op_value"], ev["rt_id"], ev["err"], ev["requests"] = s["op_value"], s["rt_id"], s["err"], 1
		}
		probe.mu.Unlock()
		c.W.Event("reuse_call", ev)
	}
	return true
}

func generateOpReuse(c *drv.Ctx, thorough bool) {
	n := 0
	seqs := [][]M{
		{{"id": 1, "cancelled": false, "cancel_after": true}, {"id": 2, "cancelled": false, "cancel_after": false}},
		{{"id": 1, "cancelled": false, "cancel_after": false}, {"id": 2, "cancelled": false, "cancel_after": false}},
		{{"id": 1, "cancelled": false, "cancel_after": true}, {"id": 0, "cancelled": false, "cancel_after": false}},
		{{"id": 0, "cancelled": false, "cancel_after": false}, {"id": 2, "cancelled": true, "cancel_after": false}},
		{{"id": 1, "cancelled": true, "cancel_after": false}, {"id": 2, "cancelled": false, "cancel_after": true}, {"id": 3, "cancelled": false, "cancel_after": false}},
	}
	for _, mode := range []string{"same-runtime", "two-runtimes"} {
		for _, oc := range []bool{false, true} {
			for _, ocl := range []bool{false, true} {
				for _, s := range seqs {
					c.Case(M{"kind": "opreuse", "mode": mode, "op_has_ctx": oc, "op_has_client": ocl, "rt_ctxs": s})
					n++
				}
			}
		}
	}
	c.Extra["opreuse_cases"] = n
}

// ---- several Runtimes alive at once, reconfigured in place ------------------------------

// execMulti replays a list of operations on Runtimes created by client.New: set / delete registry entries in place,
// and Submit on one of them; the registry of one Runtime must not show through another.
func execMulti(c *drv.Ctx, d M) bool {
	var rts []*client.Runtime
	var cts []*string // the content type the (single, set-once) transport of each Runtime answers with
	for _, x := range drv.List(d["ops"]) {
		op := drv.Map(x)
		r := drv.Int(op["r"])
		switch drv.Str(op["op"]) {
		case "new":
			rt := client.New("verif.invalid", "/", []string{"http"})
			ct := new(string)
			rt.Transport = roundTripFunc(func(req *http.Request) (*http.Response, error) {
				body := []byte(`"x"`)
				return &http.Response{StatusCode: 200, Status: "200 OK", Proto: "HTTP/1.1", ProtoMajor: 1, ProtoMinor: 1,
					Header: http.Header{"Content-Type": []string{*ct}}, ContentLength: int64(len(body)),
					Body: io.NopCloser(bytes.NewReader(body)), Request: req}, nil
			})
			rts, cts = append(rts, rt), append(cts, ct)
			c.W.Event("mop", M{"op": "new", "r": len(rts), "mt": "", "id": "", "t": "", "outcome": "", "consumer_id": ""})
		case "set":
			rts[r-1].Consumers[drv.Str(op["mt"])] = &taggedConsumer{id: drv.Str(op["id"])}
			c.W.Event("mop", M{"op": "set", "r": r, "mt": op["mt"], "id": op["id"], "t": "", "outcome": "", "consumer_id": ""})
		case "del":
			delete(rts[r-1].Consumers, drv.Str(op["mt"]))
			c.W.Event("mop", M{"op": "del", "r": r, "mt": op["mt"], "id": "", "t": "", "outcome": "", "consumer_id": ""})
		case "submit":
			t := drv.Str(op["t"])
			rt := rts[r-1]
			*cts[r-1] = t
			cop := &oaruntime.ClientOperation{ID: "multi", Method: "GET", PathPattern: "/m", Schemes: []string{"http"},
				ProducesMediaTypes: []string{"application/json"}, ConsumesMediaTypes: []string{"application/json"},
				Params: &keepParams{token: "t1-multi"}}
			consumer := ""
			cop.Reader = oaruntime.ClientResponseReaderFunc(func(_ oaruntime.ClientResponse, cons oaruntime.Consumer) (interface{}, error) {
				if tc, ok := cons.(*taggedConsumer); ok {
					consumer = tc.id
				} else {
					consumer = "builtin"
				}
				return "ok", nil
			})
			outcome := "consumer"
			func() {
				defer func() {
					if rec := recover(); rec != nil {
						outcome = "panic"
					}
				}()
				if _, err := rt.Submit(cop); err != nil {
					outcome = "err"
				}
			}()
			c.W.Event("mop", M{"op": "submit", "r": r, "mt": "", "id": "", "t": t, "outcome": outcome, "consumer_id": consumer})
		}
	}
	return true
}

type roundTripFunc func(*http.Request) (*http.Response, error)

func (f roundTripFunc) RoundTrip(r *http.Request) (*http.Response, error) { return f(r) }

func generateMulti(c *drv.Ctx, thorough bool) {
	mts := []string{"application/json", "text/plain", "application/xml", star}
	cts := []string{"application/json", "text/plain", "application/xml", "x/unregistered"}
	n := 0
	emit := func(ops []M) {
		c.Case(M{"kind": "multi", "ops": ops})
		n++
	}
	nw := M{"op": "new", "r": 0, "mt": "", "id": "", "t": ""}
	set := func(r int, mt, id string) M { return M{"op": "set", "r": r, "mt": mt, "id": id, "t": ""} }
	del := func(r int, mt string) M { return M{"op": "del", "r": r, "mt": mt, "id": "", "t": ""} }
	sub := func(r int, t string) M { return M{"op": "submit", "r": r, "mt": "", "id": "", "t": t} }
	// fixed patterns: B reconfigured, A used (and the other way round)
	for _, ab := range [][2]int{{1, 2}, {2, 1}} {
		a, b := ab[0], ab[1]
		for _, t := range cts {
			emit([]M{nw, nw, set(b, "application/json", "b-json"), set(b, star, "b-star"), del(b, "text/plain"), sub(a, t), sub(b, t)})
			// runtime 1 is created and configured before runtime 2 exists
			emit([]M{nw, set(1, "application/json", "one-json"), nw, set(2, "application/json", "two-json"), sub(a, t), del(b, "application/json"), sub(a, t), sub(b, t)})
		}
	}
	nrand := 300
	if thorough {
		nrand = 5000
	}
	for k := 0; k < nrand; k++ {
		ops := []M{nw}
		nrt := 1
		for len(ops) < 4+c.Rng.Intn(12) {
			switch x := c.Rng.Intn(10); {
			case x == 0 && nrt < 4:
				ops = append(ops, nw)
				nrt++
			case x < 4:
				r := 1 + c.Rng.Intn(nrt)
				ops = append(ops, set(r, mts[c.Rng.Intn(len(mts))], fmt.Sprintf("r%d-%d", r, len(ops))))
			case x < 6:
				ops = append(ops, del(1+c.Rng.Intn(nrt), mts[c.Rng.Intn(len(mts))]))
			default:
				ops = append(ops, sub(1+c.Rng.Intn(nrt), cts[c.Rng.Intn(len(cts))]))
			}
		}
		emit(ops)
	}
	c.Extra["multi_cases"] = n
}
