// Package c20 drives the spec / documentation-UI middlewares (Spec, Redoc, RapiDoc, SwaggerUI,
// SwaggerUIOAuth2Callback) and the three API-handler flavours for property C20.
// It only executes and records; specs/TraceDocsMW.tla decides.
package c20

import (
	"crypto/sha256"
	"encoding/json"
	"fmt"
	"io"
	"net/http"
	"net/http/httptest"
	"net/url"
	"path"
	"regexp"
	"sort"
	"strings"

	"github.com/go-openapi/loads"
	"github.com/go-openapi/runtime"
	"github.com/go-openapi/runtime/middleware"
	"github.com/go-openapi/runtime/middleware/untyped"

	"verifharness/internal/drv"
	"verifharness/internal/trace"
)

type M = drv.M

func init() {
	drv.Register(&drv.Driver{Name: "c20", Generate: generate, Execute: execute})
}

// ---- abstract configuration ------------------------------------------------------

type SpecURL struct {
	Kind  string // default | abspath | absurl | relative
	Dirs  []string
	Doc   string
	Host  string // absurl
	Query string // appended after '?', may carry HTML metacharacters
	Enc   bool   // the text spells space and non-ASCII bytes of dirs/doc percent-encoded (else raw)
}

// encSeg percent-encodes the bytes of a path segment that URLs encode (space, non-ASCII).
func encSeg(s string, enc bool) string {
	if !enc {
		return s
	}
	var b strings.Builder
	for i := 0; i < len(s); i++ {
		if s[i] == ' ' || s[i] >= 0x80 {
			fmt.Fprintf(&b, "%%%02X", s[i])
		} else {
			b.WriteByte(s[i])
		}
	}
	return b.String()
}

type Slot struct {
	Name    string
	Payload string
}

type Cfg struct {
	Kind     string // spec redoc rapidoc swaggerui oauth2 api-redoc api-swaggerui api-rapidoc
	Base     string
	Path     string
	Doc      string
	SpecURL  SpecURL
	OAuthURL string
	HasNext  bool
	Custom   bool
	Ops      []string
	Slots    []Slot
	TitleVia string // api-*: "info" (description's info.title) | "option" (WithUITitle)
	SpecSeed int    // standalone Spec: which bytes are served
	SpecSize int    // > 0: the spec document is padded to exactly (standalone) / about (API flavours) this many bytes
	DocFirst bool   // standalone Spec: WithSpecDocument is applied before WithSpecPath (else after)
}

type Req struct {
	Inst   int // which instance of the case (1-based)
	Method string
	Target string // request target as written on the request line
	Body   string
}

func (s SpecURL) Text() string {
	var p string
	switch s.Kind {
	case "default":
		return ""
	case "relative":
		var segs []string
		for _, d := range append(append([]string{}, s.Dirs...), s.Doc) {
			segs = append(segs, encSeg(d, s.Enc))
		}
		p = strings.Join(segs, "/")
	default:
		p = ""
		for _, d := range s.Dirs {
			p += "/" + encSeg(d, s.Enc)
		}
		p += "/" + encSeg(s.Doc, s.Enc)
	}
	if s.Kind == "absurl" {
		p = "https://" + s.Host + p
	}
	if s.Query != "" {
		p += "?" + s.Query
	}
	return p
}

func isAPI(kind string) bool { return strings.HasPrefix(kind, "api-") }

func (c Cfg) JSON(specsha []int) M {
	slots := make([]M, 0, len(c.Slots))
	for _, s := range c.Slots {
		slots = append(slots, M{"name": s.Name, "payload": trace.B(s.Payload)})
	}
	return M{"kind": c.Kind, "base": trace.B(c.Base), "path": trace.B(c.Path), "doc": trace.B(c.Doc),
		"specurl": M{"kind": c.SpecURL.Kind, "dirs": trace.BB(c.SpecURL.Dirs), "doc": trace.B(c.SpecURL.Doc),
			"host": trace.B(c.SpecURL.Host), "query": trace.B(c.SpecURL.Query), "enc": c.SpecURL.Enc},
		"oauthurl": trace.B(c.OAuthURL), "hasnext": c.HasNext, "custom": c.Custom, "ops": trace.BB(c.Ops),
		"slots": slots, "specsha": specsha, "titlevia": c.TitleVia, "specseed": c.SpecSeed, "specsize": c.SpecSize, "docfirst": c.DocFirst}
}

func strs(v any) []string {
	out := []string{}
	for _, x := range drv.List(v) {
		out = append(out, trace.Str(x))
	}
	return out
}

func cfgFromJSON(v any) Cfg {
	m := drv.Map(v)
	su := drv.Map(m["specurl"])
	c := Cfg{Kind: drv.Str(m["kind"]), Base: trace.Str(m["base"]), Path: trace.Str(m["path"]), Doc: trace.Str(m["doc"]),
		SpecURL: SpecURL{Kind: drv.Str(su["kind"]), Dirs: strs(su["dirs"]), Doc: trace.Str(su["doc"]), Host: trace.Str(su["host"]),
			Query: trace.Str(su["query"]), Enc: drv.Bool(su["enc"])},
		OAuthURL: trace.Str(m["oauthurl"]), HasNext: drv.Bool(m["hasnext"]), Custom: drv.Bool(m["custom"]), Ops: strs(m["ops"]),
		TitleVia: drv.Str(m["titlevia"]), SpecSeed: drv.Int(m["specseed"])}
	if v, ok := m["specsize"]; ok {
		c.SpecSize = drv.Int(v)
	}
	c.DocFirst = drv.Bool(m["docfirst"])
	for _, sv := range drv.List(m["slots"]) {
		sm := drv.Map(sv)
		c.Slots = append(c.Slots, Slot{Name: drv.Str(sm["name"]), Payload: trace.Str(sm["payload"])})
	}
	return c
}

// ---- concretisation --------------------------------------------------------------

// sentinel-wrapped option values: the page is searched for S<k>0 ... 0S<k>
var slotKey = map[string]int{"Title": 1, "SpecURL": 2, "AssetURL": 3, "OAuthCallbackURL": 4, "AssetURL2": 5}

func wrap(name, payload string) string {
	k := slotKey[name]
	return fmt.Sprintf("S%d0%s0S%d", k, payload, k)
}

func (c Cfg) slot(name string) (string, bool) {
	for _, s := range c.Slots {
		if s.Name == name {
			return s.Payload, true
		}
	}
	return "", false
}

const customTemplate = `<!DOCTYPE html><html><head><title>{{ .Title }}</title></head><body><h1 class="t">{{ .Title }}</h1><a href="{{ .SpecURL }}">spec</a></body></html>`

func (c Cfg) specBytes() []byte {
	if isAPI(c.Kind) {
		return c.swagger()
	}
	head := fmt.Sprintf(`{"swagger":"2.0","info":{"title":"<b>&amp;\"'","version":"%d","description":"`, c.SpecSeed)
	tail := `"},"paths":{}}` + "\n"
	pad := ""
	if n := c.SpecSize - len(head) - len(tail); n > 0 {
		// not periodic with the chunk size, so a truncated or rotated answer never equals the document
		b := make([]byte, n)
		for i := range b {
			b[i] = "abcdefghijklmnopqrstuvw"[(i+i/23)%23]
		}
		pad = string(b)
	}
	return []byte(head + pad + tail)
}

func (c Cfg) title() string {
	if p, ok := c.slot("Title"); ok {
		return wrap("Title", p)
	}
	return ""
}

func (c Cfg) swagger() []byte {
	paths := map[string]any{}
	for i, o := range c.Ops {
		paths[o] = map[string]any{"get": map[string]any{
			"operationId": fmt.Sprintf("op%d", i+1),
			"responses":   map[string]any{"200": map[string]any{"description": "ok"}},
		}}
	}
	info := map[string]any{"title": "plain", "version": "1"}
	if c.SpecSize > 0 {
		b := make([]byte, c.SpecSize)
		for i := range b {
			b[i] = "abcdefghijklmnopqrstuvw"[(i+i/23)%23]
		}
		info["description"] = string(b)
	}
	if c.TitleVia == "info" && c.title() != "" {
		info["title"] = c.title()
	}
	doc := map[string]any{"swagger": "2.0", "info": info, "consumes": []string{"application/json"},
		"produces": []string{"application/json"}, "paths": paths}
	if c.Base != "" {
		doc["basePath"] = c.Base
	}
	b, err := json.Marshal(doc)
	if err != nil {
		panic(err)
	}
	return b
}

func sha8(b []byte) []int {
	h := sha256.Sum256(b)
	out := make([]int, 8)
	for i := range out {
		out[i] = int(h[i])
	}
	return out
}

// ---- generation ------------------------------------------------------------------

var metaPayloads = []string{"a", "<", ">", "&", "\"", "'", "<b>", "a&b", "</title><script>x</script>", "' onload='x", "\" x=\"",
	"a+b c", "&lt;", "a/b\\c", "x;y=z", "<!--", "]]>", "&#39;"}

func randPayload(c *drv.Ctx) string {
	const alpha = "ab<>&\"'+/\\ =;"
	n := 1 + c.Rng.Intn(6)
	b := make([]byte, n)
	for i := range b {
		b[i] = alpha[c.Rng.Intn(len(alpha))]
	}
	return string(b)
}

// interesting request targets around a document path
func around(p string) []string {
	if p == "" {
		return nil
	}
	out := []string{p, p + "/", p + "//", p + "/.", p + "/x", p + "x", p + ".json", p + "/../" + path.Base(p), "/." + p, "/zz/.." + p,
		strings.ToUpper(p), path.Dir(p), p + "?x=1", "/" + p, p + "/x/.."}
	if len(p) > 1 {
		out = append(out, p[:len(p)-1])
		// one byte percent-encoded, '/' percent-encoded
		i := len(p) - 1
		out = append(out, fmt.Sprintf("%s%%%02X%s", p[:i], p[i], p[i+1:]))
		if j := strings.LastIndex(p, "/"); j > 0 {
			out = append(out, p[:j]+"%2F"+p[j+1:])
			out = append(out, p[:j]+"//"+p[j+1:])
		}
	}
	return out
}

func validTarget(t string) bool {
	if !strings.HasPrefix(t, "/") || strings.ContainsAny(t, " \x7f") {
		return false
	}
	_, err := url.ParseRequestURI(t) // e.g. a mutilated percent-escape
	return err == nil
}

func (c Cfg) guessPaths() []string {
	// only to aim requests at interesting places; the oracle is the TLA+ spec
	b := c.Base
	if b == "" {
		b = "/"
	}
	var out []string
	switch {
	case c.Kind == "spec":
		d := c.Doc
		if d == "" {
			d = "swagger.json"
		}
		out = append(out, path.Join(b, c.Path, d))
	case isAPI(c.Kind):
		if !strings.HasPrefix(b, "/") {
			b = "/" + b
		}
		p := c.Path
		if p == "" {
			p = "docs"
		}
		out = append(out, path.Join(b, p), "/swagger.json")
		su := c.SpecURL
		if su.Kind != "default" {
			q := su
			q.Query, q.Host, q.Enc = "", "", true // a request line spells the location percent-encoded
			if q.Kind == "absurl" {
				q.Kind = "abspath"
			}
			out = append(out, q.Text(), "/"+q.Text(), path.Join(q.Text(), "swagger.json"), path.Join(b, q.Text()))
		}
	default:
		p := c.Path
		if p == "" {
			p = "docs"
		}
		out = append(out, path.Join(b, p), path.Join(b, p, "oauth2-callback"))
		if c.OAuthURL != "" {
			out = append(out, c.OAuthURL)
		}
	}
	return out
}

func requestsFor(c *drv.Ctx, cfg Cfg, nRandom int) []Req {
	seen := map[string]bool{}
	var reqs []Req
	add := func(m, t, body string) {
		if !validTarget(t) || seen[m+" "+t] {
			return
		}
		seen[m+" "+t] = true
		reqs = append(reqs, Req{Method: m, Target: t, Body: body})
	}
	methods := []string{"GET", "POST", "HEAD", "PUT", "DELETE"}
	k := 0
	for _, g := range cfg.guessPaths() {
		if !strings.HasPrefix(g, "/") {
			g = "/" + g
		}
		for i, t := range around(g) {
			add("GET", t, "")
			if i%3 != 0 {
				continue
			}
			m := methods[k%len(methods)]
			k++
			body := ""
			if m == "POST" || m == "PUT" {
				body = "body-" + t
			}
			add(m, t, body)
		}
	}
	// the operations of an API handler: at their own path, with a trailing slash, with another method
	if isAPI(cfg.Kind) {
		b := cfg.Base
		if b == "" {
			b = "/"
		}
		for _, o := range cfg.Ops {
			add("GET", path.Join(b, o), "")
			add("GET", path.Join(b, o)+"/", "")
			add("POST", path.Join(b, o), "x")
		}
	}
	for _, t := range []string{"/", "/docs", "/swagger.json", "/api", "/api/docs", "/api/swagger.json", "/docs/oauth2-callback", "/specs/api.json",
		"/a", "/api/a", "/cb", "/ui/docs", "/docs/swagger.json"} {
		add("GET", t, "")
	}
	segs := []string{"docs", "swagger.json", "api", "ui", "specs", "v1", "api.json", ".", "..", "", "oauth2-callback", "a", "x", "Docs", "do%63s"}
	for i := 0; i < nRandom; i++ {
		n := 1 + c.Rng.Intn(4)
		t := ""
		for j := 0; j < n; j++ {
			t += "/" + segs[c.Rng.Intn(len(segs))]
		}
		if c.Rng.Intn(4) == 0 {
			t += "/"
		}
		m := methods[c.Rng.Intn(len(methods))]
		body := ""
		if m == "POST" || m == "PUT" {
			body = "b"
		}
		add(m, t, body)
	}
	return reqs
}

func descriptor(cfg Cfg, reqs []Req) M {
	for i := range reqs {
		reqs[i].Inst = 1
	}
	return multiDescriptor([]Cfg{cfg}, reqs)
}

// multiDescriptor: several middleware instances built one after the other in one process and all alive;
// every request addresses one of them (Inst, 1-based).
func multiDescriptor(cfgs []Cfg, reqs []Req) M {
	cs := make([]M, 0, len(cfgs))
	for _, cfg := range cfgs {
		cs = append(cs, cfg.JSON(sha8(cfg.specBytes())))
	}
	rs := make([]M, 0, len(reqs))
	for _, r := range reqs {
		rs = append(rs, M{"inst": r.Inst, "method": r.Method, "target": trace.B(r.Target), "body": trace.B(r.Body)})
	}
	return M{"cfgs": cs, "reqs": rs}
}

var (
	basesAll = []string{"", "/", "/api", "/api/", "api", "/api/v1"}
	pathsAll = []string{"", "docs", "ui/docs", "/docs/", "ui"}
	docsAll  = []string{"", "api.json", "v1/api.json"}
	specURLs = []SpecURL{{Kind: "default"}, {Kind: "abspath", Doc: "swagger.json"}, {Kind: "abspath", Dirs: []string{"specs", "v1"}, Doc: "api.json"},
		{Kind: "absurl", Host: "example.com:8443", Dirs: []string{"specs"}, Doc: "api.json"}, {Kind: "relative", Doc: "swagger.json"},
		{Kind: "relative", Dirs: []string{"specs"}, Doc: "api.json"}, {Kind: "abspath", Dirs: []string{"specs"}, Doc: ""},
		{Kind: "abspath", Dirs: []string{"api"}, Doc: "docs"}, {Kind: "absurl", Host: "h", Doc: "swagger.json"},
		{Kind: "abspath", Dirs: []string{"my specs"}, Doc: "pet store.json"}, {Kind: "absurl", Host: "h", Dirs: []string{"my specs"}, Doc: "pet store.json", Enc: true},
		{Kind: "abspath", Dirs: []string{"sp\xc3\xa9cs"}, Doc: "api.json", Enc: true}, {Kind: "absurl", Host: "h", Dirs: []string{"sp\xc3\xa9cs"}, Doc: "p\xc3\xa9t.json"},
		{Kind: "abspath", Doc: "pet store.json", Enc: true}}
	uiKinds    = []string{"redoc", "rapidoc", "swaggerui"}
	apiKinds   = []string{"api-redoc", "api-swaggerui", "api-rapidoc"}
	opsDefault = []string{"/a", "/docs", "/swagger.json", "/docs/x", "/specs/api.json"}
)

func slotsFor(kind string, custom bool, pick func() string) []Slot {
	s := []Slot{{"Title", pick()}}
	switch {
	case kind == "oauth2":
		if custom {
			s = append(s, Slot{"SpecURL", pick()})
		}
	case isAPI(kind):
		// the UI options of the API handlers only carry a title; the SpecURL is the structured location
		// (a payload may ride in its query, see generate)
	case custom:
		s = append(s, Slot{"SpecURL", pick()})
	default:
		s = append(s, Slot{"SpecURL", pick()}, Slot{"AssetURL", pick()})
		if kind == "swaggerui" {
			s = append(s, Slot{"AssetURL2", pick()})
		}
	}
	return s
}

func generate(c *drv.Ctx) {
	thorough := c.Tier == "thorough"
	nRandomReq := 6
	if thorough {
		nRandomReq = 25
	}
	pi := 0
	pick := func() string {
		pi++
		if pi%3 == 0 {
			return randPayload(c)
		}
		return metaPayloads[pi%len(metaPayloads)]
	}
	emit := func(cfg Cfg) {
		c.Case(descriptor(cfg, requestsFor(c, cfg, nRandomReq)))
	}
	n := 0
	// (i) exhaustive over the option lattice (the space of MCDocsMW): every kind x base spelling x path x
	// document / spec URL shape x with/without next; payloads and custom templates rotate
	for _, b := range basesAll {
		for _, p := range pathsAll {
			for _, d := range docsAll {
				for _, hn := range []bool{false, true} {
					for _, docFirst := range []bool{false, true} { // both orders of WithSpecPath / WithSpecDocument
						n++
						// document sizes around the 32 KiB mark and a large one rotate over the lattice (every 3rd case)
						size := []int{0, 0, 32767, 0, 0, 32768, 0, 0, 32769, 0, 0, 100000}[n%12]
						emit(Cfg{Kind: "spec", Base: b, Path: p, Doc: d, HasNext: hn, DocFirst: docFirst, SpecSize: size,
							SpecURL: SpecURL{Kind: "default"}, SpecSeed: n})
					}
				}
			}
			for _, k := range uiKinds {
				for _, hn := range []bool{false, true} {
					n++
					custom := n%4 == 0
					emit(Cfg{Kind: k, Base: b, Path: p, HasNext: hn, Custom: custom, SpecURL: SpecURL{Kind: "default"}, Slots: slotsFor(k, custom, pick)})
				}
			}
			for _, o := range []string{"", "/cb", "/api/cb/"} {
				for _, hn := range []bool{false, true} {
					n++
					custom := n%4 == 0
					emit(Cfg{Kind: "oauth2", Base: b, Path: p, OAuthURL: o, HasNext: hn, Custom: custom, SpecURL: SpecURL{Kind: "default"},
						Slots: slotsFor("oauth2", custom, pick)})
				}
			}
			if b == "api" {
				continue // a description's basePath must start with '/' (its operations would be unroutable, C01)
			}
			for _, k := range apiKinds {
				for _, su := range specURLs {
					n++
					custom := n%5 == 0
					s := su
					slots := slotsFor(k, custom, pick)
					if s.Kind != "default" && n%2 == 0 {
						pl := pick()
						s.Query = "v=" + wrap("SpecURL", pl)
						slots = append(slots, Slot{"SpecURL", pl})
					}
					via := []string{"info", "option"}[n%3%2]
					emit(Cfg{Kind: k, Base: b, Path: p, SpecURL: s, Custom: custom, Ops: opsDefault, TitleVia: via, Slots: slots})
				}
			}
		}
	}
	c.Extra["lattice_cases"] = n
	// (ii) seeded random configurations with random payloads
	nRand := 150
	if thorough {
		nRand = 5000
	}
	allKinds := append(append([]string{"spec", "oauth2"}, uiKinds...), apiKinds...)
	words := []string{"docs", "ui", "api", "v1", "specs", "swagger.json", "api.json", "x", "a"}
	randPath := func(lead bool) string {
		k := c.Rng.Intn(3)
		p := ""
		for i := 0; i < k; i++ {
			if i > 0 || lead {
				p += "/"
			}
			p += words[c.Rng.Intn(len(words))]
		}
		if k > 0 && c.Rng.Intn(5) == 0 {
			p += "/"
		}
		return p
	}
	randomCfg := func(k string, seed int) Cfg {
		cfg := Cfg{Kind: k, Base: randPath(true), Path: randPath(c.Rng.Intn(4) == 0), HasNext: c.Rng.Intn(2) == 0,
			Custom: c.Rng.Intn(4) == 0, SpecURL: SpecURL{Kind: "default"}, SpecSeed: seed}
		if c.Rng.Intn(6) == 0 && !isAPI(k) {
			cfg.Base = strings.TrimPrefix(cfg.Base, "/")
		}
		rp := func() string { return randPayload(c) }
		switch {
		case k == "spec":
			cfg.Custom = false
			cfg.Doc = []string{"", "swagger.json", "openapi.json", "v2/doc.json", "a/b/doc.json"}[c.Rng.Intn(5)]
			cfg.DocFirst = c.Rng.Intn(2) == 0
			cfg.SpecSize = []int{0, 0, 0, 32767, 32768, 32769, 65536, 65537, 100000}[c.Rng.Intn(9)]
		case k == "oauth2":
			cfg.OAuthURL = []string{"", "", "/cb", "/x/y/cb"}[c.Rng.Intn(4)]
			cfg.Slots = slotsFor(k, cfg.Custom, rp)
		case isAPI(k):
			cfg.Base = strings.TrimSuffix(cfg.Base, "/")
			su := specURLs[c.Rng.Intn(len(specURLs))]
			cfg.Slots = slotsFor(k, cfg.Custom, rp)
			if su.Kind != "default" && c.Rng.Intn(2) == 0 {
				pl := rp()
				su.Query = "q=" + wrap("SpecURL", pl)
				cfg.Slots = append(cfg.Slots, Slot{"SpecURL", pl})
			}
			if su.Kind != "default" && c.Rng.Intn(3) == 0 {
				su.Dirs = []string{words[c.Rng.Intn(len(words))], words[c.Rng.Intn(len(words))]}
			}
			if su.Kind != "default" && c.Rng.Intn(4) == 0 {
				su.Dirs = append([]string{}, su.Dirs...)
				su.Dirs = append(su.Dirs, []string{"my specs", "caf\xc3\xa9", "a b c", "\xe2\x82\xac"}[c.Rng.Intn(4)])
				su.Enc = c.Rng.Intn(2) == 0
			}
			cfg.SpecURL = su
			cfg.Ops = opsDefault
			cfg.TitleVia = []string{"info", "option"}[c.Rng.Intn(2)]
			cfg.SpecSize = []int{0, 0, 0, 0, 0, 33000, 70000}[c.Rng.Intn(7)]
		default:
			cfg.Slots = slotsFor(k, cfg.Custom, rp)
		}
		return cfg
	}
	for i := 0; i < nRand; i++ {
		emit(randomCfg(allKinds[c.Rng.Intn(len(allKinds))], 1000+i))
	}

	// (iii) several instances alive at once: 2-4 middlewares / API handlers of one UI family (and sometimes a stranger) are
	// built one after the other in this process, then requested in a shuffled order; each must still answer with its own
	// page (its own option values), its own spec bytes and its own routing.
	nMulti := 200
	if thorough {
		nMulti = 2000
	}
	families := [][]string{{"redoc", "api-redoc"}, {"rapidoc", "api-rapidoc"}, {"swaggerui", "api-swaggerui"}, {"oauth2", "swaggerui"}, {"spec", "api-redoc"}}
	for i := 0; i < nMulti; i++ {
		fam := families[i%len(families)]
		ninst := 2 + c.Rng.Intn(3)
		var cfgs []Cfg
		var reqs []Req
		for j := 0; j < ninst; j++ {
			k := fam[c.Rng.Intn(len(fam))]
			if j == ninst-1 && c.Rng.Intn(4) == 0 {
				k = allKinds[c.Rng.Intn(len(allKinds))]
			}
			cfg := randomCfg(k, 5000+10*i+j)
			// make the option values of the instances pairwise different
			for si := range cfg.Slots {
				old := cfg.Slots[si].Payload
				cfg.Slots[si].Payload = old + strings.Repeat("b", j+1)
				if cfg.Slots[si].Name == "SpecURL" && isAPI(k) {
					cfg.SpecURL.Query = strings.Replace(cfg.SpecURL.Query, wrap("SpecURL", old), wrap("SpecURL", cfg.Slots[si].Payload), 1)
				}
			}
			cfgs = append(cfgs, cfg)
			rs := requestsFor(c, cfg, 2)
			if len(rs) > 24 {
				c.Rng.Shuffle(len(rs)-2, func(x, y int) { rs[x+2], rs[y+2] = rs[y+2], rs[x+2] })
				rs = rs[:24]
			}
			for _, r := range rs {
				r.Inst = j + 1
				reqs = append(reqs, r)
			}
		}
		c.Rng.Shuffle(len(reqs), func(x, y int) { reqs[x], reqs[y] = reqs[y], reqs[x] })
		c.Case(multiDescriptor(cfgs, reqs))
	}
}

// ---- execution -------------------------------------------------------------------

type nextLog struct {
	called                                    bool
	sameMethod, sameURL, sameHeader, sameBody bool
	samePtr                                   bool
	entered                                   bool     // a handler behind the document middlewares was entered (next, or the API's matched route)
	hdrKeys                                   []string // keys already present in the ResponseWriter's header map on entry
	mode                                      int      // how next answers: 0 typed (299), 1 plain Write without Content-Type, 2 204 No Content
}

func headerKeys(h http.Header) []string {
	ks := []string{}
	for k := range h {
		ks = append(ks, k)
	}
	sort.Strings(ks)
	return ks
}

func build(cfg Cfg, nl *nextLog, orig, sent **http.Request, sentBody *string, ran *int) (h http.Handler, panicMsg string) {
	defer func() {
		if e := recover(); e != nil {
			h, panicMsg = nil, fmt.Sprint(e)
		}
	}()
	var next http.Handler
	if cfg.HasNext && !isAPI(cfg.Kind) {
		next = http.HandlerFunc(func(w http.ResponseWriter, r *http.Request) {
			nl.called, nl.entered = true, true
			nl.hdrKeys = headerKeys(w.Header())
			s := *sent
			nl.samePtr = r == *orig
			nl.sameMethod = r.Method == s.Method
			nl.sameURL = r.URL.String() == s.URL.String() && r.RequestURI == s.RequestURI
			nl.sameHeader = fmt.Sprint(r.Header) == fmt.Sprint(s.Header)
			b, _ := io.ReadAll(r.Body)
			nl.sameBody = string(b) == *sentBody
			switch nl.mode {
			case 1: // relies on the server sniffing the type
				_, _ = w.Write([]byte("next answers in plain text"))
			case 2:
				w.WriteHeader(http.StatusNoContent)
			default:
				w.Header().Set("Content-Type", "text/x-next")
				w.WriteHeader(299)
				_, _ = w.Write([]byte("next"))
			}
		})
	}
	tpl := ""
	if cfg.Custom {
		tpl = customTemplate
	}
	val := func(name, prefix string) string {
		if p, ok := cfg.slot(name); ok {
			return prefix + wrap(name, p)
		}
		return ""
	}
	switch cfg.Kind {
	case "spec":
		var opts []middleware.SpecOption
		if cfg.Path != "" {
			opts = append(opts, middleware.WithSpecPath(cfg.Path))
		}
		if cfg.Doc != "" {
			opts = append(opts, middleware.WithSpecDocument(cfg.Doc))
		}
		if cfg.DocFirst {
			// functional options: the order in which they are given must not matter
			for i, j := 0, len(opts)-1; i < j; i, j = i+1, j-1 {
				opts[i], opts[j] = opts[j], opts[i]
			}
		}
		return middleware.Spec(cfg.Base, cfg.specBytes(), next, opts...), ""
	case "redoc":
		return middleware.Redoc(middleware.RedocOpts{BasePath: cfg.Base, Path: cfg.Path, Title: cfg.title(), Template: tpl,
			SpecURL: val("SpecURL", "/"), RedocURL: val("AssetURL", "https://cdn.example/")}, next), ""
	case "rapidoc":
		return middleware.RapiDoc(middleware.RapiDocOpts{BasePath: cfg.Base, Path: cfg.Path, Title: cfg.title(), Template: tpl,
			SpecURL: val("SpecURL", "https://h/"), RapiDocURL: val("AssetURL", "/assets/")}, next), ""
	case "swaggerui":
		return middleware.SwaggerUI(middleware.SwaggerUIOpts{BasePath: cfg.Base, Path: cfg.Path, Title: cfg.title(), Template: tpl,
			SpecURL: val("SpecURL", "/"), SwaggerURL: val("AssetURL", "https://cdn.example/"), SwaggerStylesURL: val("AssetURL2", "/css/")}, next), ""
	case "oauth2":
		return middleware.SwaggerUIOAuth2Callback(middleware.SwaggerUIOpts{BasePath: cfg.Base, Path: cfg.Path, Title: cfg.title(), Template: tpl,
			OAuthCallbackURL: cfg.OAuthURL, SpecURL: val("SpecURL", "/")}, next), ""
	}
	// API-handler flavours
	doc, err := loads.Analyzed(json.RawMessage(cfg.swagger()), "")
	if err != nil {
		panic(fmt.Sprintf("c20: generated document rejected: %v", err))
	}
	api := untyped.NewAPI(doc)
	for i, o := range cfg.Ops {
		idx := i + 1
		api.RegisterOperation("get", o, runtime.OperationHandlerFunc(func(interface{}) (interface{}, error) {
			*ran = idx
			return map[string]int{"op": idx}, nil
		}))
	}
	ctx := middleware.NewContext(doc, api, nil)
	var opts []middleware.UIOption
	if cfg.Path != "" {
		opts = append(opts, middleware.WithUIPath(cfg.Path))
	}
	if cfg.SpecURL.Kind != "default" {
		opts = append(opts, middleware.WithUISpecURL(cfg.SpecURL.Text()))
	}
	if cfg.TitleVia == "option" && cfg.title() != "" {
		opts = append(opts, middleware.WithUITitle(cfg.title()))
	}
	if cfg.Custom {
		opts = append(opts, middleware.WithTemplate(customTemplate))
	}
	// the builder's handler runs for every matched route: it sees the ResponseWriter as the document middlewares hand it on
	builder := func(nx http.Handler) http.Handler {
		return http.HandlerFunc(func(w http.ResponseWriter, r *http.Request) {
			nl.entered = true
			nl.hdrKeys = headerKeys(w.Header())
			nx.ServeHTTP(w, r)
		})
	}
	switch cfg.Kind {
	case "api-redoc":
		return ctx.APIHandler(builder, opts...), ""
	case "api-swaggerui":
		return ctx.APIHandlerSwaggerUI(builder, opts...), ""
	case "api-rapidoc":
		return ctx.APIHandlerRapiDoc(builder, opts...), ""
	}
	panic("c20: unknown kind " + cfg.Kind)
}

var specRefRE = map[string]*regexp.Regexp{
	"redoc":     regexp.MustCompile(`(?s)<redoc spec-url='(.*?)'></redoc>`),
	"rapidoc":   regexp.MustCompile(`(?s)<rapi-doc spec-url="(.*?)"></rapi-doc>`),
	"swaggerui": regexp.MustCompile(`(?s)\n        url: '(.*?)',\n`),
	"custom":    regexp.MustCompile(`(?s)<a href="(.*?)">spec</a>`),
}

func occurrences(page string, k int) [][]int {
	out := [][]int{}
	open, closeS := fmt.Sprintf("S%d0", k), fmt.Sprintf("0S%d", k)
	rest := page
	for {
		i := strings.Index(rest, open)
		if i < 0 {
			return out
		}
		rest = rest[i+len(open):]
		j := strings.Index(rest, closeS)
		if j < 0 {
			return out
		}
		out = append(out, trace.B(rest[:j]))
		rest = rest[j+len(closeS):]
	}
}

func execute(c *drv.Ctx, d M) bool {
	var cfgs []Cfg
	for _, cv := range drv.List(d["cfgs"]) {
		cfgs = append(cfgs, cfgFromJSON(cv))
	}
	var reqs []Req
	for _, rv := range drv.List(d["reqs"]) {
		m := drv.Map(rv)
		reqs = append(reqs, Req{Inst: drv.Int(m["inst"]), Method: drv.Str(m["method"]), Target: trace.Str(m["target"]), Body: trace.Str(m["body"])})
	}
	var nl nextLog
	var sent, orig *http.Request
	var sentBody string
	ran := 0
	// all instances are built first, in order, and stay alive
	hs := make([]http.Handler, len(cfgs))
	for i, cfg := range cfgs {
		h, pmsg := build(cfg, &nl, &orig, &sent, &sentBody, &ran)
		c.W.Event("build", M{"inst": i + 1, "panic": pmsg != ""})
		hs[i] = h
	}
	docAnswered, passed := false, false
	for ri, rq := range reqs {
		cfg, h := cfgs[rq.Inst-1], hs[rq.Inst-1]
		if h == nil {
			continue
		}
		nl = nextLog{mode: ri % 3}
		ran = 0
		var rd io.Reader
		if rq.Body != "" {
			rd = strings.NewReader(rq.Body)
		}
		req := httptest.NewRequest(rq.Method, rq.Target, rd)
		req.Header.Set("X-Verif", "1")
		orig, sent, sentBody = req, req.Clone(req.Context()), rq.Body
		urlpath := req.URL.Path
		w := httptest.NewRecorder()
		panicked := false
		func() {
			defer func() {
				if e := recover(); e != nil {
					panicked = true
				}
			}()
			h.ServeHTTP(w, req)
		}()
		body := w.Body.Bytes()
		ctype := w.Header().Get("Content-Type")
		slots := []M{}
		specref := [][]int{}
		if strings.HasPrefix(ctype, "text/html") {
			page := string(body)
			for _, s := range cfg.Slots {
				slots = append(slots, M{"name": s.Name, "occ": occurrences(page, slotKey[s.Name])})
			}
			key := strings.TrimPrefix(cfg.Kind, "api-")
			if cfg.Custom {
				key = "custom"
			}
			if re := specRefRE[key]; re != nil {
				if m := re.FindStringSubmatch(page); m != nil {
					specref = append(specref, trace.B(m[1]))
				}
			}
		}
		c.W.Event("req", M{"inst": rq.Inst, "method": rq.Method, "target": trace.B(rq.Target), "urlpath": trace.B(urlpath), "noescape": req.URL.EscapedPath() == urlpath,
			"next_called": nl.called, "same_method": nl.sameMethod, "same_url": nl.sameURL, "same_header": nl.sameHeader,
			"same_body": nl.sameBody, "same_ptr": nl.samePtr, "entered": nl.entered, "next_hdr": trace.S(nl.hdrKeys), "next_mode": ri % 3,
			"status": w.Code, "ctype": ctype, "sha": sha8(body), "ran": ran,
			"panic": panicked, "slots": slots, "specref": specref})
		if w.Code == 200 && (ctype == "application/json" || strings.HasPrefix(ctype, "text/html")) && ran == 0 {
			docAnswered = true
		} else {
			passed = true
		}
	}
	return docAnswered && passed
}
