// Package c08 drives Context.Respond of the real code for property C08, through the
// untyped API handler and through the call sequence of a generated server
// (RouteInfo, Authorize, BindValidRequest, Respond).  Instrumented producers,
// Responder and error responder record what they were given.  The Go side only
// executes and records.
package c08

import (
	"context"
	"encoding/json"
	stderrors "errors"
	"fmt"
	"io"
	"net/http"
	"net/http/httptest"
	"strings"

	"github.com/go-openapi/errors"
	"github.com/go-openapi/loads"
	"github.com/go-openapi/runtime"
	"github.com/go-openapi/runtime/middleware"
	"github.com/go-openapi/runtime/middleware/untyped"
	"github.com/go-openapi/runtime/security"

	"verifharness/internal/drv"
)

type M = drv.M

func init() {
	drv.Register(&drv.Driver{Name: "c08", Generate: generate, Execute: execute})
}

// ---- abstract data ----------------------------------------------------------

type entry struct{ T, S, P string }

func (e entry) Render() string {
	if e.T == "" {
		return ""
	}
	return e.T + "/" + e.S + e.P
}
func (e entry) ID() string {
	if e.T == "" {
		return ""
	}
	return e.T + "/" + e.S
}
func (e entry) JSON() M { return M{"t": e.T, "s": e.S, "p": e.P} }
func entryFrom(v any) entry {
	m := drv.Map(v)
	return entry{drv.Str(m["t"]), drv.Str(m["s"]), drv.Str(m["p"])}
}
func entries(v any) []entry {
	out := []entry{}
	for _, e := range drv.List(v) {
		out = append(out, entryFrom(e))
	}
	return out
}

type rng struct {
	T, S string
	Q    int // tenths
}

func renderAccept(rs []rng) string {
	parts := []string{}
	for _, r := range rs {
		s := r.T + "/" + r.S
		switch {
		case r.Q == 10:
		case r.Q == 0:
			s += ";q=0"
		default:
			s += fmt.Sprintf(";q=0.%d", r.Q)
		}
		parts = append(parts, s)
	}
	return strings.Join(parts, ", ")
}

// setAccept sends the same list of ranges in one of the spellings HTTP allows for a list header (RFC 9110 5.3, 5.6.1): one
// line; one line per range; lines ending in a comma (an empty last element); an empty line between the lines.  The
// abstract header - the list of ranges - and therefore the expected answer is the same for all of them (seed C08-20).
func setAccept(req *http.Request, rs []rng, shape string) {
	if shape == "" || len(rs) == 0 {
		req.Header.Set("Accept", renderAccept(rs))
		return
	}
	for i, r := range rs {
		line := renderAccept([]rng{r})
		if shape == "comma" && (i < len(rs)-1 || len(rs) == 1) {
			line += ","
		}
		req.Header.Add("Accept", line)
		if shape == "empty" && i == 0 {
			req.Header.Add("Accept", "")
		}
	}
}

// ---- recorder ---------------------------------------------------------------

type recorder struct {
	produced []M
	given    []string
	errs     []M
	scripted error
	rw       http.ResponseWriter
	stale    int    // calls of an error responder that was replaced before the handler was built
	preset   string // Content-Type an upstream middleware puts on every response ("" = none)
}

var cur *recorder

type probeProducer struct{ id string }

func valOf(v interface{}) string {
	if v == nil {
		return "nil"
	}
	return fmt.Sprint(v)
}

func (p probeProducer) Produce(w io.Writer, v interface{}) error {
	if cur != nil {
		cur.produced = append(cur.produced, M{"id": p.id, "val": valOf(v)})
	}
	_, err := io.WriteString(w, "<"+p.id+">"+valOf(v))
	return err
}

type probeResponder struct{}

func (probeResponder) WriteResponse(rw http.ResponseWriter, pr runtime.Producer) {
	id := "unknown"
	if pp, ok := pr.(probeProducer); ok {
		id = pp.id
	}
	if cur != nil {
		cur.given = append(cur.given, id)
	}
	rw.WriteHeader(http.StatusAccepted)
}

// probeErrResponder is a result that knows how to write itself AND is an error (a typed error response of a generated
// server): returned as the handler's result it is still "a result that knows how to write itself" (seed C08-21)
type probeErrResponder struct{ probeResponder }

func (probeErrResponder) Error() string { return "responder that is also an error" }

// libHeaders adds the header middleware.Error would have been given (NotImplemented takes none)
func libHeaders(r middleware.Responder) middleware.Responder {
	return middleware.ResponderFunc(func(rw http.ResponseWriter, p runtime.Producer) {
		rw.Header().Set("X-Verif-E", "v")
		r.WriteResponse(rw, p)
	})
}

// ---- the API ----------------------------------------------------------------

var methods = []string{"GET", "HEAD", "POST", "DELETE"}

type built struct {
	ctx     *middleware.Context
	handler http.Handler
	outcome func() (interface{}, error)
}

func build(d M) (*built, error) {
	produces := []string{}
	for _, e := range entries(d["produces"]) {
		produces = append(produces, e.Render())
	}
	declared := drv.Map(d["declared"])
	item := M{}
	for _, m := range methods {
		responses := M{}
		for _, c := range drv.List(declared[m]) {
			if drv.Int(c) == 0 {
				responses["default"] = M{"description": "default"}
			} else {
				responses[fmt.Sprint(drv.Int(c))] = M{"description": "declared"}
			}
		}
		op := M{"responses": responses}
		if drv.Bool(d["ids"]) {
			op["operationId"] = "op" + m // operation ids are optional in Swagger 2.0
		}
		if drv.Str(d["where"]) == "op" && len(produces) > 0 {
			op["produces"] = produces
		}
		switch drv.Str(d["secure"]) {
		case "basic":
			op["security"] = []M{{"basic": []string{}}}
		case "basic-or-key":
			op["security"] = []M{{"basic": []string{}}, {"key": []string{}}}
		case "key-or-basic":
			op["security"] = []M{{"key": []string{}}, {"basic": []string{}}}
		case "basic-and-key":
			op["security"] = []M{{"basic": []string{}, "key": []string{}}}
		}
		item[strings.ToLower(m)] = op
	}
	doc := M{"swagger": "2.0", "info": M{"title": "c08", "version": "1"}, "basePath": "/", "paths": M{"/op": item},
		"securityDefinitions": M{"basic": M{"type": "basic"}, "key": M{"type": "apiKey", "in": "header", "name": "X-Key"}}}
	if drv.Str(d["where"]) == "global" && len(produces) > 0 {
		doc["produces"] = produces
	}
	raw, err := json.Marshal(doc)
	if err != nil {
		return nil, err
	}
	ld, err := loads.Embedded(json.RawMessage(raw), json.RawMessage(raw))
	if err != nil {
		return nil, err
	}
	api := untyped.NewAPI(ld).WithoutJSONDefaults()
	api.DefaultConsumes = runtime.JSONMime
	api.RegisterConsumer(runtime.JSONMime, runtime.JSONConsumer())
	api.DefaultProduces = "" // an API without default producer (WithoutJSONDefaults)
	if def := entryFrom(d["default"]); def.T != "" {
		api.DefaultProduces = def.ID()
	}
	api.RegisterAuth("key", security.APIKeyAuth("X-Key", "header", func(token string) (interface{}, error) {
		if token == "good" {
			return "key-principal", nil
		}
		return nil, errors.Unauthenticated("key")
	}))
	for _, id := range drv.List(d["registry"]) {
		api.RegisterProducer(drv.Str(id), probeProducer{drv.Str(id)})
	}
	b := &built{}
	for _, m := range methods {
		api.RegisterOperation(m, "/op", runtime.OperationHandlerFunc(func(interface{}) (interface{}, error) { return b.outcome() }))
	}
	realm := drv.Str(d["realm"])
	// the default realm is a package variable: the authenticators are built while it has the case's value,
	// afterwards it is reassigned (another API instance configuring its own default)
	security.DefaultRealmName = drv.Str(d["defrealm"])
	defer func() { security.DefaultRealmName = "reassigned-later" }()
	check := func(user, pass string) (interface{}, error) {
		if user == "u" && pass == "p" {
			return "principal", nil
		}
		// how the application's callback rejects credentials: a 401, another API error, or an error without status
		switch drv.Str(d["rejclass"]) {
		case "403":
			return nil, errors.New(http.StatusForbidden, "forbidden")
		case "plain":
			return nil, stderrors.New("wrong credentials")
		}
		return nil, errors.Unauthenticated("basic")
	}
	switch drv.Int(d["authkind"]) {
	case 1:
		api.RegisterAuth("basic", security.BasicAuthRealmCtx(realm, func(ctx context.Context, user, pass string) (context.Context, interface{}, error) {
			p, err := check(user, pass)
			return ctx, p, err
		}))
	case 2:
		api.RegisterAuth("basic", security.BasicAuth(check)) // default realm
	default:
		api.RegisterAuth("basic", security.BasicAuthRealm(realm, check))
	}
	// the API's error responder (a public field of the API) and an earlier one it may replace
	responder := func(rw http.ResponseWriter, r *http.Request, err error) {
		if cur != nil {
			code := 0
			var ae errors.Error
			if stderrors.As(err, &ae) {
				code = int(ae.Code())
			}
			cur.errs = append(cur.errs, M{"code": code, "same": cur.scripted != nil && err == cur.scripted,
				"ctype": rw.Header().Get("Content-Type")})
		}
		errors.ServeError(rw, r, err)
	}
	replaced := func(rw http.ResponseWriter, r *http.Request, err error) {
		if cur != nil {
			cur.stale++
		}
		errors.ServeError(rw, r, err)
	}
	// build order: set before NewContext | after NewContext (before the handler is built) | an earlier responder
	// set before NewContext is replaced after it
	switch drv.Str(d["serveerr_order"]) {
	case "after":
	case "replace":
		api.ServeError = replaced
	default:
		api.ServeError = responder
	}
	b.ctx = middleware.NewContext(ld, api, nil)
	if o := drv.Str(d["serveerr_order"]); o == "after" || o == "replace" {
		api.ServeError = responder
	}
	// an upstream Builder middleware that installs site-wide response headers, possibly a Content-Type
	b.handler = b.ctx.RoutesHandler(func(next http.Handler) http.Handler {
		return http.HandlerFunc(func(rw http.ResponseWriter, r *http.Request) {
			presetHeaders(rw)
			next.ServeHTTP(rw, r)
		})
	})
	return b, nil
}

func presetHeaders(rw http.ResponseWriter) {
	if cur != nil && cur.preset != "" {
		rw.Header().Set("X-Site", "verif")
		rw.Header().Set("Content-Type", cur.preset)
	}
}

type noBinder struct{}

func (noBinder) BindRequest(*http.Request, *middleware.MatchedRoute) error { return nil }

func request(rm M) *http.Request {
	method, target := drv.Str(rm["method"]), "/op"
	switch drv.Str(rm["target"]) {
	case "missing":
		target = "/nope"
	case "wrongmethod":
		method = "PUT"
	}
	req := httptest.NewRequest(method, target, nil)
	if acc := drv.List(rm["accept"]); len(acc) > 0 {
		rs := []rng{}
		for _, r := range drv.List(acc[0]) {
			m := drv.Map(r)
			rs = append(rs, rng{drv.Str(m["t"]), drv.Str(m["s"]), drv.Int(m["q"])})
		}
		setAccept(req, rs, drv.Str(rm["acceptlines"]))
	}
	switch drv.Str(rm["creds"]) {
	case "good":
		req.SetBasicAuth("u", "p")
	case "bad":
		req.SetBasicAuth("u", "wrong")
	}
	switch drv.Str(rm["keycreds"]) {
	case "good":
		req.Header.Set("X-Key", "good")
	case "bad":
		req.Header.Set("X-Key", "wrong")
	}
	return req
}

// ---- execution --------------------------------------------------------------

func execute(c *drv.Ctx, d M) bool {
	defer func() { security.DefaultRealmName = "API" }()
	b, err := build(d)
	if err != nil {
		panic("c08: cannot build the API: " + err.Error())
	}
	// route.Produces comes out of a map (analysis.ProducesFor); every order is a state the router can be in.
	// The looked-up route shares the slice with the router's entry: put it into the order of the descriptor.
	want := entries(d["route_produces"])
	seen := []string{}
	if route, ok := b.ctx.LookupRoute(httptest.NewRequest("GET", "/op", nil)); ok {
		have := map[string]bool{}
		for _, p := range route.Produces {
			have[p] = true
		}
		same := len(want) == len(route.Produces)
		for _, e := range want {
			same = same && have[e.Render()]
		}
		if same {
			for i, e := range want {
				route.Produces[i] = e.Render()
			}
		}
		if again, ok := b.ctx.LookupRoute(httptest.NewRequest("GET", "/op", nil)); ok {
			seen = append(seen, again.Produces...)
		}
	}
	c.W.Event("built", M{"produces": seen})
	nontrivial := false
	for _, r := range drv.List(d["reqs"]) {
		rm := drv.Map(r)
		out := drv.Map(rm["outcome"])
		var scripted error
		switch drv.Str(out["class"]) {
		case "api":
			scripted = errors.New(int32(drv.Int(out["code"])), "scripted")
		case "plain":
			scripted = stderrors.New("scripted plain")
		case "composite":
			scripted = errors.CompositeValidationError(errors.Required("x", "query", nil))
		}
		b.outcome = func() (interface{}, error) {
			switch drv.Str(out["k"]) {
			case "value":
				return "hello", nil
			case "responder":
				if drv.Str(out["class"]) == "alsoerror" {
					return probeErrResponder{}, nil
				}
				return probeResponder{}, nil
			case "libresponder": // the library's own Responders
				if drv.Str(out["class"]) == "notimplemented" {
					return libHeaders(middleware.NotImplemented("payload")), nil
				}
				return middleware.Error(drv.Int(out["code"]), "payload", http.Header{"X-Verif-E": {"v"}}), nil
			case "error":
				return nil, scripted
			}
			return nil, nil
		}
		rec := &recorder{scripted: scripted, preset: drv.Str(rm["preset"])}
		rw := httptest.NewRecorder()
		panicked := false
		func() {
			defer func() {
				cur = nil
				if r := recover(); r != nil {
					panicked = true
				}
			}()
			cur = rec
			req := request(rm)
			if drv.Str(rm["entry"]) == "untyped" {
				b.handler.ServeHTTP(rw, req)
				return
			}
			// what a generated operation handler does (behind the same upstream middleware)
			presetHeaders(rw)
			route, rCtx, ok := b.ctx.RouteInfo(req)
			if !ok {
				b.handler.ServeHTTP(rw, req) // the router answers (404 / 405)
				return
			}
			if _, aCtx, err := b.ctx.Authorize(rCtx, route); err != nil {
				b.ctx.Respond(rw, rCtx, route.Produces, route, err)
				return
			} else if aCtx != nil {
				rCtx = aCtx
			}
			if err := b.ctx.BindValidRequest(rCtx, route, noBinder{}); err != nil {
				b.ctx.Respond(rw, rCtx, route.Produces, route, err)
				return
			}
			res, err := b.outcome()
			if err != nil {
				b.ctx.Respond(rw, rCtx, route.Produces, route, err)
				return
			}
			b.ctx.Respond(rw, rCtx, route.Produces, route, res)
		}()
		if len(rec.produced) > 0 || len(rec.given) > 0 {
			nontrivial = true
		}
		nn := func(x []M) []M {
			if x == nil {
				return []M{}
			}
			return x
		}
		given := rec.given
		if given == nil {
			given = []string{}
		}
		body := rw.Body.String()
		if len(body) > 200 || drv.Str(out["k"]) == "error" {
			body = ""
		}
		c.W.Event("respond", M{"entry": rm["entry"], "method": rm["method"], "target": rm["target"], "creds": rm["creds"],
			"keycreds": rm["keycreds"], "preset": drv.Str(rm["preset"]), "xhdr": rw.Header().Get("X-Verif-E"), "stale_responder_calls": rec.stale, "declared": drv.Map(d["declared"])[drv.Str(rm["method"])],
			"accept": rm["accept"], "acceptlines": drv.Str(rm["acceptlines"]), "outcome": out, "status": rw.Code, "ctype": rw.Header().Get("Content-Type"),
			"produced": nn(rec.produced), "given": given, "body": asciiOnly(body), "errs": nn(rec.errs),
			"wwwauth": asciiOnly(rw.Header().Get("WWW-Authenticate")), "panic": panicked})
	}
	n, _ := c.Extra["requests"].(int)
	c.Extra["requests"] = n + len(drv.List(d["reqs"]))
	return nontrivial
}

func asciiOnly(s string) string {
	var b strings.Builder
	for i := 0; i < len(s); i++ {
		if s[i] < 0x20 || s[i] >= 0x7f {
			b.WriteByte('?')
		} else {
			b.WriteByte(s[i])
		}
	}
	return b.String()
}

// ---- generation -------------------------------------------------------------

var (
	jsonE = entry{"application", "json", ""}
	pool  = []entry{{"a", "x", ""}, {"t", "p", ""}, {"t", "p", "; charset=utf-8"}, jsonE, {"a", "x", "; charset=utf-8; version=0.0.4"}}
)

func R(t, s string, q int) M { return M{"t": t, "s": s, "q": q} }

var accepts = []any{
	[]any{},
	[]any{[]M{R("*", "*", 10)}}, []any{[]M{R("t", "*", 10)}}, []any{[]M{R("t", "p", 10)}}, []any{[]M{R("a", "x", 10)}},
	[]any{[]M{R("a", "x", 5), R("t", "p", 10)}}, []any{[]M{R("t", "p", 5), R("*", "*", 1)}},
	[]any{[]M{R("t", "p", 0), R("*", "*", 5)}}, []any{[]M{R("application", "json", 10), R("a", "*", 10)}},
	[]any{[]M{R("z", "z", 10)}},
}

var outcomes = []M{
	{"k": "value", "class": "", "code": 0, "scripted": false},
	{"k": "nil", "class": "", "code": 0, "scripted": false},
	{"k": "responder", "class": "", "code": 0, "scripted": false},
	{"k": "error", "class": "api", "code": 409, "scripted": true},
	{"k": "error", "class": "plain", "code": 0, "scripted": true},
	{"k": "error", "class": "composite", "code": 422, "scripted": true},
	{"k": "libresponder", "class": "error", "code": 409, "scripted": false},
	{"k": "libresponder", "class": "notimplemented", "code": 501, "scripted": false},
	{"k": "responder", "class": "alsoerror", "code": 0, "scripted": false},
}

var declaredSets = [][]int{{200}, {201, 200}, {204}, {204, 201}, {0}, {0, 200}, {404, 0}, {205}, {206, 205}, {203, 202}}
var registries = [][]string{{"a/x", "t/p", "application/json"}, {"a/x", "application/json"}, {"t/p", "application/json"}}

func permutations(es []entry) [][]entry {
	if len(es) <= 1 {
		return [][]entry{append([]entry{}, es...)}
	}
	var out [][]entry
	for i := range es {
		rest := append(append([]entry{}, es[:i]...), es[i+1:]...)
		for _, p := range permutations(rest) {
			out = append(out, append([]entry{es[i]}, p...))
		}
	}
	return out
}

func subsets(p []entry, max int) [][]entry {
	var out [][]entry
	var rec func(i int, cur []entry)
	rec = func(i int, cur []entry) {
		if i == len(p) {
			out = append(out, append([]entry{}, cur...))
			return
		}
		rec(i+1, cur)
		if len(cur) < max {
			rec(i+1, append(cur, p[i]))
		}
	}
	rec(0, nil)
	return out
}

func hasID(ids []string, id string) bool {
	for _, x := range ids {
		if x == id {
			return true
		}
	}
	return false
}

func contains(es []entry, e entry) bool {
	for _, x := range es {
		if strings.EqualFold(x.Render(), e.Render()) {
			return true
		}
	}
	return false
}

// declaredFor gives every method its own declared response codes (rotation k of the sets; k < 0: the same set -k-1 for all)
func declaredFor(k int) M {
	m := M{}
	for i, meth := range methods {
		if k < 0 {
			m[meth] = declaredSets[-k-1]
		} else {
			m[meth] = declaredSets[(k+i)%len(declaredSets)]
		}
	}
	return m
}

func descriptor(declaredProduces, routeOrder []entry, def entry, registry []string, declared M, idx int) M {
	ps, rp := []M{}, []M{}
	for _, e := range declaredProduces {
		ps = append(ps, e.JSON())
	}
	for _, e := range routeOrder {
		rp = append(rp, e.JSON())
	}
	return M{"produces": ps, "route_produces": rp, "default": def.JSON(), "registry": registry, "declared": declared,
		"where": []string{"op", "global"}[idx%2], "ids": (idx/2)%2 == 0, "secure": "none", "realm": "", "defrealm": []string{"API", "First"}[(idx/3)%2], "authkind": 0, "rejclass": []string{"401", "403", "plain"}[idx%3], "reqs": []M{},
		"serveerr_order": []string{"before", "after", "replace"}[(idx/5)%3]}
}

var reqCount int

// every third request runs behind an upstream middleware that pre-sets a Content-Type on the response
func req(entryPoint, method, target, creds string, accept any, outcome M) M {
	reqCount++
	preset := ""
	if reqCount%3 == 0 {
		preset = "text/x-site-default"
	}
	// the spelling of the Accept list rotates independently of the preset (period 5 against 3)
	lines := []string{"", "lines", "", "comma", "empty"}[reqCount%5]
	return M{"preset": preset, "entry": entryPoint, "method": method, "target": target, "creds": creds, "keycreds": "", "accept": accept, "acceptlines": lines, "outcome": outcome}
}

func generate(c *drv.Ctx) {
	reqCount = 0
	thorough := c.Tier == "thorough"
	maxProduces := 2
	if thorough {
		maxProduces = 3
	}
	idx := 0
	// (i) exhaustive small scope: every produces set over the pool in every order the router can hold it x default x
	//     registry; declared codes rotate (2 of the 7 sets per API, 4 in thorough); in each API every Accept shape x every outcome x
	//     both entry points, the method rotating over GET/HEAD/POST/DELETE (all methods in thorough)
	for _, set := range subsets(pool, maxProduces) {
		for _, def := range []entry{jsonE, {"t", "p", ""}} {
			routeSet := append([]entry{}, set...)
			if !contains(routeSet, def) {
				routeSet = append(routeSet, def) // AddRoute appends the API default
			}
			for _, order := range permutations(routeSet) {
				for _, reg := range registries {
					if !hasID(reg, def.ID()) {
						continue // Respond panics without a producer for the default media type (precondition)
					}
					nDecl := 2
					if thorough {
						nDecl = 4
					}
					for k := 0; k < nDecl; k++ {
						// every method declares its own codes; half of the APIs have no operation ids
						d := descriptor(set, order, def, reg, declaredFor(idx+k), idx)
						reqs := []M{}
						rot := idx
						for _, acc := range accepts {
							for _, out := range outcomes[:4] {
								ms := []string{methods[rot%4], methods[(rot+1)%4]}
								if thorough {
									ms = methods
								}
								rot++
								for _, m := range ms {
									reqs = append(reqs, req("untyped", m, "op", "", acc, out), req("direct", m, "op", "", acc, out))
								}
							}
						}
						for _, out := range outcomes[4:] {
							reqs = append(reqs, req("untyped", "GET", "op", "", accepts[idx%len(accepts)], out), req("direct", "POST", "op", "", accepts[(idx+3)%len(accepts)], out))
						}
						// errors of the router: no route at all
						for _, tg := range []string{"missing", "wrongmethod"} {
							reqs = append(reqs, req("untyped", "GET", tg, "", accepts[idx%len(accepts)], outcomes[0]), req("untyped", "HEAD", tg, "", accepts[9], outcomes[0]))
						}
						d["reqs"] = reqs
						c.Case(d)
						idx++
					}
				}
			}
		}
	}
	c.Extra["exhaustive_apis"] = idx
	// (ii) basic authentication alone and combined with an API key (alternatives in both orders, one AND group):
	//      realm x kind of authenticator x credentials of both schemes x both entry points
	for _, mode := range []string{"basic", "basic-or-key", "key-or-basic", "basic-and-key"} {
		for _, realm := range []string{"", "API", "my realm", "R1"} {
			for kind := 0; kind < 3; kind++ {
				for si, set := range [][]entry{{}, {pool[2]}, {pool[0], pool[1]}} {
					if mode != "basic" && si != (kind+len(realm))%3 {
						continue
					}
					routeSet := append(append([]entry{}, set...), jsonE)
					d := descriptor(set, routeSet, jsonE, registries[0], declaredFor(-1), idx)
					d["secure"], d["realm"], d["authkind"] = mode, realm, kind
					reqs := []M{}
					keys := []string{""}
					if mode != "basic" {
						keys = []string{"good", "bad", "none"}
					}
					for _, creds := range []string{"good", "bad", "none"} {
						for _, kc := range keys {
							for ai, acc := range accepts {
								if mode != "basic" && ai%3 != 0 {
									continue
								}
								for _, ep := range []string{"untyped", "direct"} {
									r := req(ep, methods[(ai+idx)%4], "op", creds, acc, outcomes[(ai+idx)%4])
									r["keycreds"] = kc
									reqs = append(reqs, r)
								}
							}
						}
					}
					d["reqs"] = reqs
					c.Case(d)
					idx++
				}
			}
		}
	}
	// (ii') APIs without default producer (WithoutJSONDefaults): operations that declare no produces answer HEAD
	//       requests and 204 responses without needing any producer; a text-only API serves its declared type
	none := entry{}
	for _, ids := range []bool{true, false} {
		for k := 0; k < len(declaredSets); k++ {
			d := descriptor(nil, nil, none, []string{"t/p"}, declaredFor(k), idx)
			d["ids"] = ids
			reqs := []M{}
			for _, acc := range []any{accepts[0], accepts[1], accepts[3]} {
				for _, ep := range []string{"untyped", "direct"} {
					for mi, m := range methods {
						codes := declaredSets[(k+mi)%len(declaredSets)]
						min := 0
						for _, cde := range codes {
							if cde >= 200 && cde < 300 && (min == 0 || cde < min) {
								min = cde
							}
						}
						if m == "HEAD" || min == 204 || min == 0 {
							reqs = append(reqs, req(ep, m, "op", "", acc, outcomes[0]), req(ep, m, "op", "", acc, outcomes[1]))
						}
						reqs = append(reqs, req(ep, m, "op", "", acc, outcomes[3]))
					}
				}
			}
			d["reqs"] = reqs
			c.Case(d)
			idx++
			// text-only API: produces [t/p], producer registered, no default
			tp := entry{"t", "p", ""}
			d2 := descriptor([]entry{tp}, []entry{tp}, none, []string{"t/p"}, declaredFor(k), idx)
			d2["ids"] = ids
			reqs = []M{}
			for _, acc := range []any{accepts[0], accepts[1], accepts[2], accepts[3], accepts[6], accepts[9]} {
				for oi, out := range outcomes[:4] {
					for _, ep := range []string{"untyped", "direct"} {
						reqs = append(reqs, req(ep, methods[(oi+k)%4], "op", "", acc, out))
					}
				}
			}
			d2["reqs"] = reqs
			c.Case(d2)
			idx++
		}
	}
	// (iii) seeded: larger produces sets with other parameter spellings, random Accept headers, every outcome class
	nRand := 300
	if thorough {
		nRand = 3000
	}
	big := append(append([]entry{}, pool...), entry{"t", "q", ""}, entry{"t", "q", ";charset=UTF-8"}, entry{"a", "y", "; version=1"}, entry{"t", "p", ";charset=utf-8;version=0.0.4"}, entry{"t", "q", "; a=1; b=2; c=3"}, entry{"application", "json", "; charset=utf-8"})
	for n := 0; n < nRand; n++ {
		var set []entry
		for _, e := range big {
			if c.Rng.Intn(3) == 0 && !contains(set, e) {
				set = append(set, e)
			}
		}
		def := []entry{jsonE, {"t", "p", ""}, {"a", "x", ""}}[c.Rng.Intn(3)]
		routeSet := append([]entry{}, set...)
		if !contains(routeSet, def) {
			routeSet = append(routeSet, def)
		}
		c.Rng.Shuffle(len(routeSet), func(i, j int) { routeSet[i], routeSet[j] = routeSet[j], routeSet[i] })
		reg := []string{def.ID()}
		for _, id := range []string{"a/x", "a/y", "t/p", "t/q", "application/json"} {
			if id != def.ID() && c.Rng.Intn(5) != 0 {
				reg = append(reg, id)
			}
		}
		d := descriptor(set, routeSet, def, reg, declaredFor(c.Rng.Intn(len(declaredSets))), c.Rng.Intn(4))
		d["serveerr_order"] = []string{"before", "after", "replace"}[c.Rng.Intn(3)]
		if c.Rng.Intn(3) == 0 {
			d["secure"] = []string{"basic", "basic-or-key", "key-or-basic", "basic-and-key"}[c.Rng.Intn(4)]
			d["realm"], d["authkind"] = []string{"", "my realm", "x"}[c.Rng.Intn(3)], c.Rng.Intn(3)
		}
		reqs := []M{}
		for k := 0; k < 40; k++ {
			var acc any = []any{}
			if c.Rng.Intn(6) != 0 {
				rs := []M{}
				for j := 1 + c.Rng.Intn(3); j > 0; j-- {
					ts := [][2]string{{"*", "*"}, {"t", "*"}, {"a", "*"}, {"application", "*"}, {"t", "p"}, {"t", "q"}, {"a", "x"}, {"a", "y"}, {"application", "json"}, {"z", "z"}}[c.Rng.Intn(10)]
					rs = append(rs, R(ts[0], ts[1], []int{10, 10, 9, 5, 1, 0}[c.Rng.Intn(6)]))
				}
				acc = []any{rs}
			}
			creds, keycreds := "", ""
			if drv.Str(d["secure"]) != "none" {
				creds = []string{"good", "good", "bad", "none"}[c.Rng.Intn(4)]
				if drv.Str(d["secure"]) != "basic" {
					keycreds = []string{"good", "bad", "none", "none"}[c.Rng.Intn(4)]
				}
			}
			target := []string{"op", "op", "op", "op", "op", "op", "op", "missing", "wrongmethod"}[c.Rng.Intn(9)]
			r := req([]string{"untyped", "direct"}[c.Rng.Intn(2)], methods[c.Rng.Intn(4)], target, creds, acc, outcomes[c.Rng.Intn(len(outcomes))])
			r["keycreds"] = keycreds
			reqs = append(reqs, r)
		}
		d["reqs"] = reqs
		c.Case(d)
	}
}
