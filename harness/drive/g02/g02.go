// Package g02 drives the binding and schema validation of the BODY parameter of the untyped API (growth check G02).
//
// case  = one body parameter declaration (name, required, default, schema as an abstract tree) + a list of requests
//
//	(transport, syntax class, abstract JSON document, trailing bytes, rendering style).
//
// event = one per request: did the handler run, the status, what the handler found for the parameter (abstracted
//
//	back into the value grammar, number literals as their bytes), how often the consumer was called, the
//	error entries of the response (code + the dotted path they name), recovered panics.
//
// The declaration is rendered to a real Swagger 2.0 document, the request to real bytes; both are served through
// middleware.NewContext(doc, api, nil).RoutesHandler(nil).  Nothing is decided here; BodyBind.tla is the oracle.
package g02

import (
	"bufio"
	"bytes"
	"encoding/json"
	"fmt"
	"io"
	"log"
	"net"
	"net/http"
	"net/http/httptest"
	"sort"
	"strconv"
	"strings"
	"unicode/utf8"

	"github.com/go-openapi/loads"
	"github.com/go-openapi/runtime"
	"github.com/go-openapi/runtime/middleware"
	"github.com/go-openapi/runtime/middleware/untyped"

	"verifharness/internal/drv"
	"verifharness/internal/trace"
)

type M = drv.M

func init() {
	drv.Register(&drv.Driver{Name: "g02", Generate: generate, Execute: execute})
}

// ---- abstract JSON values -----------------------------------------------------------------

// Val is a JSON document of the grammar of BodyBind.tla.
type Val struct {
	K     string // null | bool | num | str | arr | obj
	B     bool
	S     []int  // code points of a string
	M, E  int    // number: M * 10^E
	Lit   string // int | frac | exp
	Big   string // symbolic huge number
	Txt   string // the literal of a number, as written
	Items []Val
	Mem   []KV
}

type KV struct {
	Key string
	Val Val
}

func Null() Val         { return Val{K: "null"} }
func Bool(b bool) Val   { return Val{K: "bool", B: b} }
func Str(s string) Val  { return Val{K: "str", S: runes(s)} }
func Arr(it ...Val) Val { return Val{K: "arr", Items: it} }
func Obj(kv ...KV) Val  { return Val{K: "obj", Mem: kv} }
func F(k string, v Val) KV {
	return KV{Key: k, Val: v}
}

func runes(s string) []int {
	out := []int{}
	for _, r := range s {
		out = append(out, int(r))
	}
	return out
}

func unrunes(cp []int) string {
	var b strings.Builder
	for _, c := range cp {
		b.WriteRune(rune(c))
	}
	return b.String()
}

var bigText = map[string]string{
	"i63max":  "9223372036854775807",
	"i63ovf":  "9223372036854775808",
	"i63min":  "-9223372036854775808",
	"i63und":  "-9223372036854775809",
	"i1e30":   "1000000000000000000000000000000",
	"f53":     "9007199254740993",
	"x1e30":   "1e30",
	"x1e400":  "1e400",
	"xm1e400": "-1e400",
}

// Num builds the number m*10^e written in the given literal form and fixes its text.
func Num(m, e int, lit string) Val {
	v := Val{K: "num", M: m, E: e, Lit: lit}
	v.Txt = numText(m, e, lit)
	return v
}

func Int(i int) Val { return Num(i, 0, "int") }

func Big(name string) Val {
	t, ok := bigText[name]
	if !ok {
		panic("g02: unknown big number " + name)
	}
	return Val{K: "num", Big: name, Txt: t}
}

func pow10(n int) int {
	p := 1
	for i := 0; i < n; i++ {
		p *= 10
	}
	return p
}

func numText(m, e int, lit string) string {
	switch lit {
	case "int":
		if e < 0 {
			panic("g02: integer literal with negative exponent")
		}
		return strconv.Itoa(m * pow10(e))
	case "exp":
		return strconv.Itoa(m) + "e" + strconv.Itoa(e)
	case "frac":
		neg := m < 0
		if neg {
			m = -m
		}
		var s string
		if e >= 0 {
			s = strconv.Itoa(m*pow10(e)) + ".0"
		} else {
			d := strconv.Itoa(m)
			for len(d) <= -e {
				d = "0" + d
			}
			s = d[:len(d)+e] + "." + d[len(d)+e:]
		}
		if neg {
			s = "-" + s
		}
		return s
	}
	panic("g02: unknown literal form " + lit)
}

func (v Val) JSON() M {
	switch v.K {
	case "null":
		return M{"k": "null"}
	case "bool":
		return M{"k": "bool", "b": v.B}
	case "str":
		return M{"k": "str", "s": append([]int{}, v.S...)}
	case "num":
		return M{"k": "num", "m": v.M, "e": v.E, "lit": v.Lit, "big": v.Big, "txt": trace.B(v.Txt)}
	case "arr":
		items := make([]M, 0, len(v.Items))
		for _, it := range v.Items {
			items = append(items, it.JSON())
		}
		return M{"k": "arr", "items": items}
	case "obj":
		mem := make([]M, 0, len(v.Mem))
		for _, kv := range v.Mem {
			mem = append(mem, M{"key": kv.Key, "val": kv.Val.JSON()})
		}
		return M{"k": "obj", "mem": mem}
	}
	panic("g02: unknown value kind " + v.K)
}

func ints(v any) []int {
	out := []int{}
	for _, x := range drv.List(v) {
		out = append(out, drv.Int(x))
	}
	return out
}

func valFrom(x any) Val {
	m := drv.Map(x)
	v := Val{K: drv.Str(m["k"])}
	switch v.K {
	case "bool":
		v.B = drv.Bool(m["b"])
	case "str":
		v.S = ints(m["s"])
	case "num":
		v.M, v.E, v.Lit, v.Big, v.Txt = drv.Int(m["m"]), drv.Int(m["e"]), drv.Str(m["lit"]), drv.Str(m["big"]), trace.Str(m["txt"])
	case "arr":
		for _, it := range drv.List(m["items"]) {
			v.Items = append(v.Items, valFrom(it))
		}
	case "obj":
		for _, kv := range drv.List(m["mem"]) {
			km := drv.Map(kv)
			v.Mem = append(v.Mem, KV{Key: drv.Str(km["key"]), Val: valFrom(km["val"])})
		}
	}
	return v
}

// jsonString writes a string literal; style "escaped" writes every character as \uXXXX (surrogate pairs above the BMP).
func jsonString(b *strings.Builder, cp []int, style string) {
	b.WriteByte('"')
	for _, c := range cp {
		switch {
		case style == "escaped" || c < 0x20:
			if c > 0xFFFF {
				c -= 0x10000
				fmt.Fprintf(b, "\\u%04x\\u%04x", 0xD800+(c>>10), 0xDC00+(c&0x3FF))
			} else {
				fmt.Fprintf(b, "\\u%04x", c)
			}
		case c == '"':
			b.WriteString(`\"`)
		case c == '\\':
			b.WriteString(`\\`)
		default:
			b.WriteRune(rune(c))
		}
	}
	b.WriteByte('"')
}

// render writes the document; style "spaced" puts white space around every token.
func (v Val) render(b *strings.Builder, style string) {
	sp := ""
	if style == "spaced" {
		sp = " "
	}
	switch v.K {
	case "null":
		b.WriteString("null")
	case "bool":
		b.WriteString(strconv.FormatBool(v.B))
	case "num":
		b.WriteString(v.Txt)
	case "str":
		jsonString(b, v.S, style)
	case "arr":
		b.WriteString("[" + sp)
		for i, it := range v.Items {
			if i > 0 {
				b.WriteString(sp + "," + sp)
			}
			it.render(b, style)
		}
		b.WriteString(sp + "]")
	case "obj":
		b.WriteString("{" + sp)
		for i, kv := range v.Mem {
			if i > 0 {
				b.WriteString(sp + "," + sp)
			}
			jsonString(b, runes(kv.Key), style)
			b.WriteString(sp + ":" + sp)
			kv.Val.render(b, style)
		}
		b.WriteString(sp + "}")
	}
}

func (v Val) Text(style string) string {
	var b strings.Builder
	v.render(&b, style)
	return b.String()
}

// ---- abstract schemas -----------------------------------------------------------------------

type NumB struct{ M, E int }

type Prop struct {
	Name string
	Sch  *Schema
}

type Schema struct {
	Ty             string
	Ref            bool
	Props          []Prop
	Req            []string
	Addl           string // "" | true | false | schema
	AddlSch        *Schema
	MinP, MaxP     *int
	Items          *Schema
	MinI, MaxI     *int
	Uniq           bool
	MinL, MaxL     *int
	Pat, Fmt       string
	Min, Max, Mult *NumB
	ExMin, ExMax   bool
	Enum           []Val
}

func ip(i int) *int { return &i }

func (s *Schema) JSON() M {
	m := M{}
	if s.Ty != "" {
		m["ty"] = s.Ty
	}
	m["ref"] = s.Ref
	if len(s.Props) > 0 {
		ps := make([]M, 0, len(s.Props))
		for _, p := range s.Props {
			ps = append(ps, M{"name": p.Name, "sch": p.Sch.JSON()})
		}
		m["props"] = ps
	}
	if len(s.Req) > 0 {
		m["req"] = append([]string{}, s.Req...)
	}
	if s.Addl != "" {
		m["addl"] = s.Addl
	}
	if s.AddlSch != nil {
		m["addlSch"] = s.AddlSch.JSON()
	}
	for k, p := range map[string]*int{"minP": s.MinP, "maxP": s.MaxP, "minI": s.MinI, "maxI": s.MaxI, "minL": s.MinL, "maxL": s.MaxL} {
		if p != nil {
			m[k] = *p
		}
	}
	if s.Items != nil {
		m["items"] = s.Items.JSON()
	}
	if s.Uniq {
		m["uniq"] = true
	}
	if s.Pat != "" {
		m["pat"] = s.Pat
	}
	if s.Fmt != "" {
		m["fmt"] = s.Fmt
	}
	for k, p := range map[string]*NumB{"min": s.Min, "max": s.Max, "mult": s.Mult} {
		if p != nil {
			m[k] = M{"m": p.M, "e": p.E}
		}
	}
	if s.ExMin {
		m["exMin"] = true
	}
	if s.ExMax {
		m["exMax"] = true
	}
	if len(s.Enum) > 0 {
		en := make([]M, 0, len(s.Enum))
		for _, v := range s.Enum {
			en = append(en, v.JSON())
		}
		m["enum"] = en
	}
	return m
}

func schemaFrom(x any) *Schema {
	m := drv.Map(x)
	s := &Schema{Ty: drv.Str(m["ty"]), Ref: drv.Bool(m["ref"]), Addl: drv.Str(m["addl"]), Uniq: drv.Bool(m["uniq"]),
		Pat: drv.Str(m["pat"]), Fmt: drv.Str(m["fmt"]), ExMin: drv.Bool(m["exMin"]), ExMax: drv.Bool(m["exMax"])}
	if ps, ok := m["props"]; ok {
		for _, p := range drv.List(ps) {
			pm := drv.Map(p)
			s.Props = append(s.Props, Prop{Name: drv.Str(pm["name"]), Sch: schemaFrom(pm["sch"])})
		}
	}
	if r, ok := m["req"]; ok {
		for _, x := range drv.List(r) {
			s.Req = append(s.Req, drv.Str(x))
		}
	}
	if a, ok := m["addlSch"]; ok {
		s.AddlSch = schemaFrom(a)
	}
	if it, ok := m["items"]; ok {
		s.Items = schemaFrom(it)
	}
	for k, p := range map[string]**int{"minP": &s.MinP, "maxP": &s.MaxP, "minI": &s.MinI, "maxI": &s.MaxI, "minL": &s.MinL, "maxL": &s.MaxL} {
		if x, ok := m[k]; ok {
			*p = ip(drv.Int(x))
		}
	}
	for k, p := range map[string]**NumB{"min": &s.Min, "max": &s.Max, "mult": &s.Mult} {
		if x, ok := m[k]; ok {
			nm := drv.Map(x)
			*p = &NumB{M: drv.Int(nm["m"]), E: drv.Int(nm["e"])}
		}
	}
	if en, ok := m["enum"]; ok {
		for _, x := range drv.List(en) {
			s.Enum = append(s.Enum, valFrom(x))
		}
	}
	return s
}

func (n NumB) text() json.Number {
	if n.E >= 0 {
		return json.Number(numText(n.M, n.E, "int"))
	}
	return json.Number(numText(n.M, n.E, "frac"))
}

// swagger renders the schema as a Swagger 2.0 schema object; schemas marked Ref go to `definitions` and are referenced.
func (s *Schema) swagger(defs map[string]any) map[string]any {
	o := map[string]any{}
	if s.Ty != "" {
		o["type"] = s.Ty
	}
	if len(s.Props) > 0 {
		ps := map[string]any{}
		for _, p := range s.Props {
			ps[p.Name] = p.Sch.swagger(defs)
		}
		o["properties"] = ps
	}
	if len(s.Req) > 0 {
		o["required"] = s.Req
	}
	switch s.Addl {
	case "true":
		o["additionalProperties"] = true
	case "false":
		o["additionalProperties"] = false
	case "schema":
		o["additionalProperties"] = s.AddlSch.swagger(defs)
	}
	for k, p := range map[string]*int{"minProperties": s.MinP, "maxProperties": s.MaxP, "minItems": s.MinI, "maxItems": s.MaxI,
		"minLength": s.MinL, "maxLength": s.MaxL} {
		if p != nil {
			o[k] = *p
		}
	}
	if s.Items != nil {
		o["items"] = s.Items.swagger(defs)
	}
	if s.Uniq {
		o["uniqueItems"] = true
	}
	if s.Pat != "" {
		o["pattern"] = s.Pat // the names of the patterns are their regular expressions
	}
	if s.Fmt != "" {
		o["format"] = s.Fmt
	}
	if s.Min != nil {
		o["minimum"] = s.Min.text()
	}
	if s.Max != nil {
		o["maximum"] = s.Max.text()
	}
	if s.Mult != nil {
		o["multipleOf"] = s.Mult.text()
	}
	if s.ExMin {
		o["exclusiveMinimum"] = true
	}
	if s.ExMax {
		o["exclusiveMaximum"] = true
	}
	if len(s.Enum) > 0 {
		en := make([]any, 0, len(s.Enum))
		for _, v := range s.Enum {
			en = append(en, json.RawMessage(v.Text("compact")))
		}
		o["enum"] = en
	}
	if s.Ref {
		name := "D" + strconv.Itoa(len(defs)+1)
		defs[name] = o
		return map[string]any{"$ref": "#/definitions/" + name}
	}
	return o
}

// ---- declaration and requests -----------------------------------------------------------------

type Decl struct {
	Name     string
	Required bool
	HasDef   bool
	Def      Val
	Schema   *Schema
	Q        bool // the operation also declares a required integer query parameter "q"
}

func (d Decl) JSON() M {
	def := Null()
	if d.HasDef {
		def = d.Def
	}
	return M{"name": d.Name, "required": d.Required, "hasDef": d.HasDef, "def": def.JSON(), "schema": d.Schema.JSON(), "q": d.Q}
}

func declFrom(x any) Decl {
	m := drv.Map(x)
	return Decl{Name: drv.Str(m["name"]), Required: drv.Bool(m["required"]), HasDef: drv.Bool(m["hasDef"]), Def: valFrom(m["def"]),
		Schema: schemaFrom(m["schema"]), Q: drv.Bool(m["q"])}
}

type Req struct {
	Tr    string // none | cl0 | len | chunked
	Syn   string // empty | ws | ok | bad | trunc
	V     Val
	Trail string // "" | ws | garbage | second
	Style string // compact | spaced | escaped
	Raw   string // the exact bytes for syn ws / bad / trunc
	Wire  bool   // send the bytes over a TCP connection to a real net/http server
	CT    string // Content-Type header ("" = application/json)
	Q     string // value sent for the query parameter q: "" (not sent) | ok | bad
	Tags  []string
}

func (r Req) JSON() M {
	return M{"tr": r.Tr, "syn": r.Syn, "v": r.V.JSON(), "trail": r.Trail, "style": r.Style, "raw": trace.B(r.Raw), "wire": r.Wire,
		"ct": r.CT, "q": r.Q, "tags": trace.S(r.Tags)}
}

func reqFrom(x any) Req {
	m := drv.Map(x)
	r := Req{Tr: drv.Str(m["tr"]), Syn: drv.Str(m["syn"]), V: valFrom(m["v"]), Trail: drv.Str(m["trail"]), Style: drv.Str(m["style"]),
		Raw: trace.Str(m["raw"]), Wire: drv.Bool(m["wire"]), CT: drv.Str(m["ct"]), Q: drv.Str(m["q"])}
	return r
}

// body returns the bytes of the request body.
func (r Req) body() string {
	switch r.Syn {
	case "empty":
		return ""
	case "ws", "bad", "trunc":
		return r.Raw
	}
	s := r.V.Text(r.Style)
	switch r.Trail {
	case "ws":
		s += " \r\n\t"
	case "garbage":
		s += " xx"
	case "second":
		s += "\n{\"zz\":1}"
	}
	return s
}

func bindCase(d Decl, reqs []Req) M {
	rs := make([]M, 0, len(reqs))
	for _, r := range reqs {
		rs = append(rs, r.JSON())
	}
	return M{"kind": "bind", "decl": d.JSON(), "reqs": rs}
}

// ---- the API under test -------------------------------------------------------------------------

type apiInst struct {
	handler  http.Handler
	ran      bool
	got      map[string]interface{}
	consumes int
}

var apiCache = map[string]*apiInst{}

func buildAPI(d Decl) (*apiInst, error) {
	defs := map[string]any{}
	param := map[string]any{"name": d.Name, "in": "body", "schema": d.Schema.swagger(defs)}
	if d.Required {
		param["required"] = true
	}
	if d.HasDef {
		param["default"] = json.RawMessage(d.Def.Text("compact"))
	}
	params := []any{param}
	if d.Q {
		params = append(params, map[string]any{"name": "q", "in": "query", "type": "integer", "required": true})
	}
	op := map[string]any{
		"operationId": "op",
		"consumes":    []string{"application/json"},
		"parameters":  params,
		"responses":   map[string]any{"200": map[string]any{"description": "ok", "schema": map[string]any{"type": "string"}}},
	}
	doc := map[string]any{
		"swagger":  "2.0",
		"info":     map[string]any{"title": "g02", "version": "1"},
		"produces": []string{"application/json"},
		"paths":    map[string]any{"/p": map[string]any{"post": op}},
	}
	if len(defs) > 0 {
		doc["definitions"] = defs
	}
	raw, err := json.Marshal(doc)
	if err != nil {
		return nil, err
	}
	key := string(raw)
	if a, ok := apiCache[key]; ok {
		return a, nil
	}
	ld, err := loads.Analyzed(json.RawMessage(raw), "")
	if err != nil {
		return nil, err
	}
	api := untyped.NewAPI(ld)
	a := &apiInst{}
	inner := runtime.JSONConsumer()
	// the instrumented consumer: counts how often the binder hands it the body
	api.RegisterConsumer("application/json", runtime.ConsumerFunc(func(r io.Reader, target interface{}) error {
		a.consumes++
		return inner.Consume(r, target)
	}))
	api.RegisterOperation(http.MethodPost, "/p", runtime.OperationHandlerFunc(func(params interface{}) (interface{}, error) {
		a.ran = true
		if m, ok := params.(map[string]interface{}); ok {
			a.got = m
		}
		return "ok", nil
	}))
	ctx := middleware.NewContext(ld, api, nil)
	a.handler = ctx.RoutesHandler(nil)
	if len(apiCache) > 1024 {
		apiCache = map[string]*apiInst{}
	}
	apiCache[key] = a
	return a, nil
}

// ---- requests ---------------------------------------------------------------------------------------

type unknownLength struct{ io.Reader } // hides the length of the body from http.NewRequest: ContentLength = -1

func contentType(rq Req) string {
	if rq.CT != "" {
		return rq.CT
	}
	return "application/json"
}

func target(rq Req) string {
	switch rq.Q {
	case "ok":
		return "/p?q=5"
	case "bad":
		return "/p?q=x"
	}
	return "/p"
}

func buildRequest(rq Req) *http.Request {
	var r *http.Request
	switch rq.Tr {
	case "none":
		r = httptest.NewRequest(http.MethodPost, target(rq), nil)
	case "cl0":
		r = httptest.NewRequest(http.MethodPost, target(rq), nil)
		r.Header.Set("Content-Length", "0")
	case "len":
		r = httptest.NewRequest(http.MethodPost, target(rq), strings.NewReader(rq.body()))
	case "chunked":
		r = httptest.NewRequest(http.MethodPost, target(rq), unknownLength{strings.NewReader(rq.body())})
	default:
		panic("g02: unknown transport " + rq.Tr)
	}
	r.Header.Set("Content-Type", contentType(rq))
	return r
}

var (
	wireSrv *httptest.Server
	wireCur http.Handler
)

// wireRoundTrip writes the request bytes to a TCP connection of a real net/http server and reads the response.
func wireRoundTrip(h http.Handler, rq Req) (status int, body []byte, err error) {
	if wireSrv == nil {
		wireSrv = httptest.NewUnstartedServer(http.HandlerFunc(func(w http.ResponseWriter, r *http.Request) { wireCur.ServeHTTP(w, r) }))
		wireSrv.Config.ErrorLog = log.New(io.Discard, "", 0)
		wireSrv.Start()
	}
	wireCur = h
	conn, err := net.Dial("tcp", wireSrv.Listener.Addr().String())
	if err != nil {
		return 0, nil, err
	}
	defer conn.Close()
	var b strings.Builder
	b.WriteString("POST " + target(rq) + " HTTP/1.1\r\nHost: g02.test\r\nContent-Type: " + contentType(rq) + "\r\nConnection: close\r\n")
	payload := rq.body()
	switch rq.Tr {
	case "none":
		b.WriteString("\r\n")
	case "cl0":
		b.WriteString("Content-Length: 0\r\n\r\n")
	case "len":
		b.WriteString("Content-Length: " + strconv.Itoa(len(payload)) + "\r\n\r\n" + payload)
	case "chunked":
		b.WriteString("Transfer-Encoding: chunked\r\n\r\n")
		// two chunks when possible, so that the document straddles a chunk boundary
		if n := len(payload); n > 1 {
			h1 := payload[:n/2]
			h2 := payload[n/2:]
			fmt.Fprintf(&b, "%x\r\n%s\r\n%x\r\n%s\r\n", len(h1), h1, len(h2), h2)
		} else if n == 1 {
			fmt.Fprintf(&b, "1\r\n%s\r\n", payload)
		}
		b.WriteString("0\r\n\r\n")
	}
	if _, err = conn.Write([]byte(b.String())); err != nil {
		return 0, nil, err
	}
	resp, err := http.ReadResponse(bufio.NewReader(conn), nil)
	if err != nil {
		return 0, nil, err
	}
	defer resp.Body.Close()
	body, _ = io.ReadAll(resp.Body)
	return resp.StatusCode, body, nil
}

// ---- observation -----------------------------------------------------------------------------------------

// obs abstracts what the handler received back into the value grammar.  top: a nil map / slice / interface at the top is
// reported as k = "nil" with the kind of the nil.
func obs(x interface{}, top bool) M {
	switch t := x.(type) {
	case nil:
		if top {
			return M{"k": "nil", "target": "iface"}
		}
		return M{"k": "null"}
	case bool:
		return M{"k": "bool", "b": t}
	case string:
		return M{"k": "str", "s": runes(t)}
	case json.Number:
		return M{"k": "num", "txt": trace.B(string(t)), "dyn": "json.Number"}
	case float64:
		return M{"k": "num", "txt": trace.B(strconv.FormatFloat(t, 'f', -1, 64)), "dyn": "float64"}
	case []interface{}:
		if t == nil && top {
			return M{"k": "nil", "target": "slice"}
		}
		items := make([]M, 0, len(t))
		for _, it := range t {
			items = append(items, obs(it, false))
		}
		return M{"k": "arr", "items": items}
	case map[string]interface{}:
		if t == nil && top {
			return M{"k": "nil", "target": "map"}
		}
		keys := make([]string, 0, len(t))
		for k := range t {
			keys = append(keys, k)
		}
		sort.Strings(keys)
		mem := make([]M, 0, len(keys))
		for _, k := range keys {
			mem = append(mem, M{"key": k, "val": obs(t[k], false)})
		}
		return M{"k": "obj", "mem": mem}
	}
	return M{"k": "other", "dyn": fmt.Sprintf("%T", x)}
}

func clip(s string) string {
	b := []byte(s)
	if len(b) > 200 {
		b = b[:200]
	}
	for i, c := range b {
		if c >= 0x80 {
			b[i] = '?'
		}
	}
	return string(b)
}

// errPath extracts the dotted path an error message names: "<path> in body ..." or "invalid type conversion in <path>: ...".
func errPath(msg string) []string {
	const conv = "invalid type conversion in "
	var p string
	switch {
	case strings.HasPrefix(msg, conv):
		rest := msg[len(conv):]
		i := strings.Index(rest, ": ")
		if i < 0 {
			return []string{}
		}
		p = rest[:i]
	default:
		i := strings.Index(msg, " in body")
		if i < 0 {
			return []string{}
		}
		p = msg[:i]
	}
	if p == "" || !utf8.ValidString(p) {
		return []string{}
	}
	for i := 0; i < len(p); i++ {
		if p[i] >= 0x80 || p[i] < 0x20 {
			return []string{}
		}
	}
	return strings.Split(p, ".")
}

type apiError struct {
	Code    int        `json:"code"`
	Message string     `json:"message"`
	Errors  []apiError `json:"errors"`
}

func serve(a *apiInst, d Decl, rq Req) (ev M) {
	a.ran, a.got, a.consumes = false, nil, 0
	ev = M{"status": 0, "ran": false, "panic": false, "set": false, "got": M{"k": "null"}, "consumes": 0, "errs": []M{}, "msg": []int{}}
	var status int
	var body []byte
	if rq.Wire {
		var err error
		status, body, err = wireRoundTrip(a.handler, rq)
		if err != nil {
			// net/http recovers a panicking handler and drops the connection: no response
			ev["panic"], ev["ran"], ev["consumes"] = true, a.ran, a.consumes
			ev["msg"] = trace.B(clip("no response: " + err.Error()))
			return ev
		}
	} else {
		r := buildRequest(rq)
		rec := httptest.NewRecorder()
		panicked := func() (p bool) {
			defer func() {
				if x := recover(); x != nil {
					p = true
					ev["msg"] = trace.B(clip(fmt.Sprint(x)))
				}
			}()
			a.handler.ServeHTTP(rec, r)
			return false
		}()
		if panicked {
			ev["panic"], ev["ran"], ev["consumes"] = true, a.ran, a.consumes
			return ev
		}
		status, body = rec.Code, rec.Body.Bytes()
	}
	ev["status"], ev["ran"], ev["consumes"] = status, a.ran, a.consumes
	if a.ran && a.got != nil {
		if x, ok := a.got[d.Name]; ok {
			ev["set"] = true
			ev["got"] = obs(x, true)
		}
	}
	if status != http.StatusOK {
		var ae apiError
		if json.Unmarshal(body, &ae) == nil && ae.Message != "" {
			ev["msg"] = trace.B(clip(ae.Message))
			list := ae.Errors
			if len(list) == 0 {
				list = []apiError{ae}
			}
			errs := []M{}
			for _, e := range list {
				errs = append(errs, M{"code": e.Code, "path": errPath(e.Message)})
			}
			ev["errs"] = errs
		} else {
			ev["msg"] = trace.B(clip(string(bytes.TrimSpace(body))))
		}
	}
	return ev
}

func count(c *drv.Ctx, ev M) {
	k := "other"
	switch {
	case drv.Bool(ev["panic"]):
		k = "panics"
	case drv.Bool(ev["ran"]):
		k = "handler_ran"
	case drv.Int(ev["status"]) == 422:
		k = "refused_422"
	}
	n, _ := c.Extra[k].(int)
	c.Extra[k] = n + 1
}

func execute(c *drv.Ctx, desc M) bool {
	if drv.Str(desc["kind"]) != "bind" {
		panic("g02: unknown case kind")
	}
	d := declFrom(desc["decl"])
	var a *apiInst
	var buildErr error
	func() {
		defer func() {
			if p := recover(); p != nil {
				buildErr = fmt.Errorf("panic: %v", p)
			}
		}()
		a, buildErr = buildAPI(d)
	}()
	if buildErr != nil {
		// the declaration is not accepted by the spec loader / router / validator construction: one event, no requests
		c.W.Event("build", M{"ok": false, "msg": trace.B(clip(buildErr.Error()))})
		return false
	}
	nontrivial := false
	for i, rv := range drv.List(desc["reqs"]) {
		rq := reqFrom(rv)
		ev := serve(a, d, rq)
		ev["i"] = i + 1
		c.W.Event("bind", ev)
		count(c, ev)
		if drv.Bool(ev["set"]) || len(ev["errs"].([]M)) > 0 {
			nontrivial = true
		}
	}
	return nontrivial
}
