package g02

import (
	"math/rand"
	"strconv"

	"verifharness/internal/drv"
)

// ---- schema constructors ----------------------------------------------------------------------------

func sAny() *Schema                       { return &Schema{} }
func sTy(t string) *Schema                { return &Schema{Ty: t} }
func nb(m, e int) *NumB                   { return &NumB{M: m, E: e} }
func sObj(props ...Prop) *Schema          { return &Schema{Ty: "object", Props: props} }
func sArr(items *Schema) *Schema          { return &Schema{Ty: "array", Items: items} }
func P(n string, s *Schema) Prop          { return Prop{Name: n, Sch: s} }
func (s *Schema) req(n ...string) *Schema { c := *s; c.Req = n; return &c }
func (s *Schema) ref() *Schema            { c := *s; c.Ref = true; return &c }

func cloneSchema(s *Schema) *Schema {
	if s == nil {
		return nil
	}
	return schemaFrom(drv.Norm(s.JSON()))
}

// leafSchemas: every keyword of the scalar kinds, one or two per schema.
func leafSchemas() []*Schema {
	return []*Schema{
		sAny(),
		{Ty: "string"},
		{Ty: "string", MinL: ip(2)},
		{Ty: "string", MaxL: ip(1)},
		{Ty: "string", MinL: ip(1), MaxL: ip(2), Pat: "b"},
		{Ty: "string", Pat: "^a"},
		{Ty: "string", Pat: "^[0-9]+$"},
		{Ty: "string", Pat: "^.$"},
		{Ty: "string", Enum: []Val{Str("ab"), Str("c"), Str("")}},
		{Ty: "string", Fmt: "date"},
		{Ty: "integer"},
		{Ty: "integer", Min: nb(2, 0)},
		{Ty: "integer", Min: nb(2, 0), ExMin: true, Max: nb(5, 0)},
		{Ty: "integer", Max: nb(5, 0), ExMax: true},
		{Ty: "integer", Mult: nb(2, 0)},
		{Ty: "integer", Enum: []Val{Int(1), Int(2), Int(-4)}},
		{Ty: "number"},
		{Ty: "number", Min: nb(15, -1), ExMin: true},
		{Ty: "number", Min: nb(-5, -1), Max: nb(2, 0)},
		{Ty: "number", Mult: nb(5, -1)},
		{Ty: "number", Enum: []Val{Num(15, -1, "frac"), Int(2)}},
		{Ty: "boolean"},
		{Ty: "boolean", Enum: []Val{Bool(true)}},
		{Min: nb(2, 0)}, // no type: the keyword applies to numbers only
		{MinL: ip(2)},   // no type: applies to strings only
		{Enum: []Val{Int(1), Str("a"), Bool(false)}},
	}
}

// scalarValues: literals around every bound of leafSchemas, every JSON kind, the symbolic huge numbers.
func scalarValues() []Val {
	vs := []Val{Null(), Bool(true), Bool(false),
		Int(0), Int(1), Int(2), Int(3), Int(5), Int(6), Int(-4), Int(-1),
		Num(10, -1, "frac"), Num(20, -1, "frac"), Num(15, -1, "frac"), Num(150, -2, "frac"), Num(5, -1, "frac"), Num(-5, -1, "frac"),
		Num(-75, -2, "frac"), Num(125, -2, "frac"), Num(2, 0, "exp"), Num(15, -1, "exp"), Num(2, 1, "exp"), Num(20, 0, "int"),
		Str(""), Str("a"), Str("ab"), Str("abc"), Str("b"), Str("c"), Str("5"), Str("12"), Str("1a"),
		Str("2020-01-15"), Str("2020-13-01"), Str("2020-1-15"), Str("\u00e9"), Str("\u00e9\u00e9"), Str("\U0001F600"), Str("a\"\\/\n"),
		Str("true"), Str("null"),
	}
	for _, b := range []string{"i63max", "i63ovf", "i63min", "i63und", "i1e30", "f53", "x1e30", "x1e400", "xm1e400"} {
		vs = append(vs, Big(b))
	}
	return vs
}

// a document that satisfies the schema if one of the pool does (used for defaults); chosen by construction
func sample(s *Schema) Val {
	switch s.Ty {
	case "object":
		mem := []KV{}
		for _, p := range s.Props {
			mem = append(mem, F(p.Name, sample(p.Sch)))
		}
		for _, r := range s.Req {
			found := false
			for _, kv := range mem {
				found = found || kv.Key == r
			}
			if !found {
				mem = append(mem, F(r, Int(1)))
			}
		}
		if s.MinP != nil && len(mem) < *s.MinP {
			for i := len(mem); i < *s.MinP; i++ {
				v := Val(Int(2))
				if s.Addl == "schema" {
					v = sample(s.AddlSch)
				}
				mem = append(mem, F("x"+strconv.Itoa(i), v))
			}
		}
		return Obj(mem...)
	case "array":
		n := 1
		if s.MinI != nil {
			n = *s.MinI
		}
		if s.MaxI != nil && n > *s.MaxI {
			n = *s.MaxI
		}
		items := []Val{}
		for i := 0; i < n; i++ {
			if s.Items != nil {
				items = append(items, sample(s.Items))
			} else {
				items = append(items, Int(i))
			}
		}
		return Arr(items...)
	case "string":
		if len(s.Enum) > 0 {
			return s.Enum[0]
		}
		switch {
		case s.Fmt == "date":
			return Str("2020-01-15")
		case s.Pat == "^[0-9]+$":
			return Str("12")
		case s.Pat == "^.$":
			return Str("a")
		case s.Pat == "b":
			return Str("ab")
		case s.MaxL != nil && *s.MaxL < 2:
			return Str("a")
		}
		return Str("ab")
	case "integer", "number":
		if len(s.Enum) > 0 {
			return s.Enum[0]
		}
		v := 4
		if s.Max != nil && s.Max.E == 0 && s.Max.M <= v {
			v = s.Max.M - 2
			if s.Mult != nil && v%2 != 0 {
				v--
			}
		}
		return Int(v)
	case "boolean":
		if len(s.Enum) > 0 {
			return s.Enum[0]
		}
		return Bool(true)
	}
	if len(s.Enum) > 0 {
		return s.Enum[0]
	}
	if len(s.Props) > 0 || len(s.Req) > 0 {
		c := *s
		c.Ty = "object"
		return sample(&c)
	}
	return Str("ab")
}

// ---- requests ----------------------------------------------------------------------------------------------

func okReq(tr string, v Val) Req { return Req{Tr: tr, Syn: "ok", V: v, Style: "compact"} }

// presenceReqs: every way of sending no document.
func presenceReqs() []Req {
	rs := []Req{
		{Tr: "none", Syn: "empty"}, {Tr: "cl0", Syn: "empty"}, {Tr: "chunked", Syn: "empty"},
		{Tr: "none", Syn: "empty", Wire: true}, {Tr: "cl0", Syn: "empty", Wire: true}, {Tr: "chunked", Syn: "empty", Wire: true},
		{Tr: "none", Syn: "empty", CT: "text/plain"}, // without body the content type is not looked at
	}
	for _, ws := range []string{" ", "\n", " \r\n\t "} {
		rs = append(rs, Req{Tr: "len", Syn: "ws", Raw: ws}, Req{Tr: "chunked", Syn: "ws", Raw: ws})
	}
	rs = append(rs, Req{Tr: "len", Syn: "ws", Raw: "  ", Wire: true}, Req{Tr: "chunked", Syn: "ws", Raw: "\n", Wire: true})
	for i := range rs {
		rs[i].V = Null()
		rs[i].Style = "compact"
	}
	return rs
}

// badTexts: byte strings that are not JSON documents (RFC 8259), each a different production failing.
func badTexts() []string {
	return []string{
		"{]", "{", "[", "}", "]", "{\"a\":}", "{\"a\" 1}", "{\"a\":1,}", "[1,]", "[1 2]", "{a:1}", "{'a':1}", "'a'",
		"tru", "True", "nul", "NaN", "Infinity", "-", "+1", "1.", ".5", "1e", "--1", "-a",
		"\"a", "\"\\x\"", "\"\\u12\"", "\"a\nb\"", "\"\t\"", "{\"a\":1 \"b\":2}", "[,1]", "{,}", "{\"a\":tru}", "[nul]",
		"{\"a\":{\"b\":[1,}}", "\xef\xbb\xbf{}", "<a/>", "a=1", "{\"a\":01}", "[1.]", "[-]",
	}
}

func badReqs() []Req {
	rs := []Req{}
	for i, t := range badTexts() {
		tr := "len"
		if i%3 == 1 {
			tr = "chunked"
		}
		rs = append(rs, Req{Tr: tr, Syn: "bad", Raw: t, V: Null(), Style: "compact", Wire: i%11 == 0})
	}
	return rs
}

// truncations of a rendered document: every proper prefix that is not empty and not only white space (thinned to at most n)
func truncReqs(v Val, n int) []Req {
	t := v.Text("compact")
	rs := []Req{}
	if len(t) < 3 || v.K == "num" || v.K == "null" || v.K == "bool" {
		return rs // prefixes of number literals are documents themselves; short words add nothing
	}
	step := (len(t) - 1 + n - 1) / n
	if step < 1 {
		step = 1
	}
	for cut := 1; cut < len(t); cut += step {
		tr := "len"
		if cut%2 == 0 {
			tr = "chunked"
		}
		rs = append(rs, Req{Tr: tr, Syn: "trunc", Raw: t[:cut], V: Null(), Style: "compact"})
	}
	return rs
}

// variants of one document: transports, styles, trailing bytes, wire
func docVariants(v Val) []Req {
	rs := []Req{okReq("len", v), okReq("chunked", v)}
	for _, st := range []string{"spaced", "escaped"} {
		r := okReq("len", v)
		r.Style = st
		rs = append(rs, r)
	}
	for _, tl := range []string{"ws", "garbage", "second"} {
		r := okReq("len", v)
		r.Trail = tl
		rs = append(rs, r)
	}
	cs := okReq("len", v)
	cs.CT = "application/json; charset=utf-8"
	rs = append(rs, cs)
	w := okReq("len", v)
	w.Wire = true
	w2 := okReq("chunked", v)
	w2.Wire = true
	return append(rs, w, w2)
}

// ---- finding tags (used only to match known findings, never by the specification) -----------------------------

func numEqualValue(a, b Val) bool {
	if a.Big != "" || b.Big != "" {
		return a.Big == b.Big
	}
	return a.M*pow10(a.E+2) == b.M*pow10(b.E+2)
}

func lastField(v Val, key string) (Val, bool) {
	for i := len(v.Mem) - 1; i >= 0; i-- {
		if v.Mem[i].Key == key {
			return v.Mem[i].Val, true
		}
	}
	return Val{}, false
}

// valEq: JSON equality (numbers by value, objects as maps with the last duplicate winning)
func valEq(a, b Val) bool {
	if a.K != b.K {
		return false
	}
	switch a.K {
	case "bool":
		return a.B == b.B
	case "num":
		return numEqualValue(a, b)
	case "str":
		return unrunes(a.S) == unrunes(b.S)
	case "arr":
		if len(a.Items) != len(b.Items) {
			return false
		}
		for i := range a.Items {
			if !valEq(a.Items[i], b.Items[i]) {
				return false
			}
		}
	case "obj":
		ka, kb := map[string]bool{}, map[string]bool{}
		for _, kv := range a.Mem {
			ka[kv.Key] = true
		}
		for _, kv := range b.Mem {
			kb[kv.Key] = true
		}
		if len(ka) != len(kb) {
			return false
		}
		for k := range ka {
			x, _ := lastField(a, k)
			y, ok := lastField(b, k)
			if !ok || !valEq(x, y) {
				return false
			}
		}
	}
	return true
}

// tagsFor walks schema and document together and names the situations of the known library findings.
func tagsFor(s *Schema, v Val, tags map[string]bool) {
	if s == nil {
		return
	}
	if v.K == "num" && s.Ty == "" {
		tags["number-under-untyped-schema"] = true
	}
	if s.Ty == "string" && s.Fmt != "" && v.K == "num" {
		tags["number-under-formatted-string"] = true
	}
	if s.Ty == "string" && s.Fmt != "" && v.K == "arr" {
		tags["array-under-formatted-string"] = true
	}
	switch v.K {
	case "arr":
		if s.Uniq {
			for i := range v.Items {
				for j := i + 1; j < len(v.Items); j++ {
					a, b := v.Items[i], v.Items[j]
					if valEq(a, b) && a.Text("compact") != b.Text("compact") && numbersIn(a) {
						tags["unique-equal-numbers-different-literals"] = true
					}
				}
			}
		}
		for _, it := range v.Items {
			tagsFor(s.Items, it, tags)
		}
	case "obj":
		seen := map[string]bool{}
		for _, kv := range v.Mem {
			if seen[kv.Key] {
				continue
			}
			seen[kv.Key] = true
			fv, _ := lastField(v, kv.Key)
			var ps *Schema
			for _, p := range s.Props {
				if p.Name == kv.Key {
					ps = p.Sch
				}
			}
			if ps == nil && s.Addl == "schema" {
				ps = s.AddlSch
			}
			tagsFor(ps, fv, tags)
		}
	}
}

func numbersIn(v Val) bool {
	switch v.K {
	case "num":
		return true
	case "arr":
		for _, it := range v.Items {
			if numbersIn(it) {
				return true
			}
		}
	case "obj":
		for _, kv := range v.Mem {
			if numbersIn(kv.Val) {
				return true
			}
		}
	}
	return false
}

var allTags = []string{"number-under-untyped-schema", "unique-equal-numbers-different-literals", "number-under-formatted-string",
	"array-under-formatted-string"}

func tagged(s *Schema, rs []Req) []Req {
	for i := range rs {
		if rs[i].Syn != "ok" {
			continue
		}
		t := map[string]bool{}
		tagsFor(s, rs[i].V, t)
		rs[i].Tags = nil
		for _, k := range allTags {
			if t[k] {
				rs[i].Tags = append(rs[i].Tags, k)
			}
		}
	}
	return rs
}

// ---- exhaustive families -----------------------------------------------------------------------------------

func emit(c *drv.Ctx, d Decl, rs []Req) {
	const chunk = 120
	rs = tagged(d.Schema, rs)
	for len(rs) > 0 {
		n := len(rs)
		if n > chunk {
			n = chunk
		}
		c.Case(bindCase(d, rs[:n]))
		rs = rs[n:]
	}
}

// the schemas of the presence / default / required lattice, with a conforming default each
func logicSchemas() []*Schema {
	return []*Schema{
		sObj(P("a", sTy("integer"))).req("a"),
		sTy("object"),
		{Props: []Prop{P("a", sTy("integer"))}},
		{Ty: "array", Items: sTy("integer"), MinI: ip(1)},
		sArr(&Schema{Ty: "string", MinL: ip(2)}),
		{Ty: "object", MinP: ip(1)},
		{Ty: "array", Items: sTy("number"), Uniq: true},
		{Ty: "string", MinL: ip(2)},
		{Ty: "integer", Min: nb(2, 0)},
		{Ty: "number", Max: nb(2, 0)},
		sTy("boolean"),
		sAny(),
		sObj(P("a", sTy("integer"))).req("a").ref(),
		sArr(sTy("integer").ref()).ref(),
	}
}

func logicValues() []Val {
	return []Val{Null(), Obj(), Obj(F("a", Int(1))), Obj(F("a", Str("a"))), Obj(F("a", Str("a")), F("a", Int(1))), Obj(F("a", Int(1)), F("a", Str("a"))),
		Obj(F("a", Big("i63ovf"))), Obj(F("a", Num(10, -1, "frac"))), Obj(F("z", Null())),
		Arr(), Arr(Int(1)), Arr(Str("ab")), Arr(Str("a")), Arr(Int(1), Num(10, -1, "frac")), Arr(Int(1), Int(1)), Arr(Null()),
		Str("ab"), Str("a"), Int(5), Int(1), Num(50, -1, "frac"), Num(15, -1, "frac"), Bool(true), Bool(false), Big("x1e400"), Big("f53")}
}

func genLogic(c *drv.Ctx) {
	names := []string{"b", "payload", "body"}
	for si, s := range logicSchemas() {
		for _, required := range []bool{false, true} {
			for _, hasDef := range []bool{false, true} {
				d := Decl{Name: names[si%len(names)], Required: required, HasDef: hasDef, Schema: s}
				if hasDef {
					d.Def = sample(s)
					if s.Ty == "number" {
						d.Def = Num(15, -1, "frac")
					}
				}
				rs := presenceReqs()
				for _, v := range logicValues() {
					rs = append(rs, docVariants(v)...)
				}
				rs = append(rs, badReqs()...)
				rs = append(rs, truncReqs(Obj(F("a", Int(1)), F("b", Arr(Str("x"), Null()))), 12)...)
				rs = append(rs, truncReqs(Arr(Int(1), Str("ab")), 6)...)
				rs = append(rs, truncReqs(Str("abc"), 3)...)
				emit(c, d, rs)
			}
		}
	}
}

// every leaf keyword at three positions (the body itself, a property, the items of an array) x every scalar value
func genKeywords(c *drv.Ctx) {
	vals := scalarValues()
	for li, leaf := range leafSchemas() {
		// the body itself
		rs := []Req{}
		for i, v := range vals {
			r := okReq([]string{"len", "chunked"}[i%2], v)
			if i%7 == 3 {
				r.Style = "escaped"
			}
			rs = append(rs, r)
		}
		emit(c, Decl{Name: "b", Required: true, Schema: leaf}, rs)
		if li%4 == 0 {
			emit(c, Decl{Name: "b", Schema: leaf.ref()}, rs)
		}
		// a property (required and not), next to another property
		for _, req := range []bool{false, true} {
			s := sObj(P("a", leaf), P("n", sTy("integer")))
			if req {
				s = s.req("a")
			}
			rs = []Req{okReq("len", Obj()), okReq("len", Obj(F("n", Int(1)))), okReq("len", Obj(F("n", Str("x"))))}
			for i, v := range vals {
				rs = append(rs, okReq("len", Obj(F("a", v))))
				if i%5 == 0 {
					rs = append(rs, okReq("chunked", Obj(F("n", Int(3)), F("a", v), F("other", v))))
					rs = append(rs, okReq("len", Obj(F("a", Str("zz")), F("a", v))))  // duplicate name: the last wins
					rs = append(rs, okReq("len", Obj(F("a", v), F("n", Bool(true))))) // a second field is wrong too
				}
			}
			emit(c, Decl{Name: "payload", Schema: s}, rs)
		}
		// the items of an array
		s := sArr(leaf)
		rs = []Req{okReq("len", Arr())}
		for i, v := range vals {
			rs = append(rs, okReq("len", Arr(v)))
			if i%4 == 0 {
				rs = append(rs, okReq("len", Arr(sample(leaf), v)), okReq("chunked", Arr(v, sample(leaf), v)))
			}
		}
		emit(c, Decl{Name: "b", Schema: s}, rs)
		// additionalProperties: <leaf>
		s = &Schema{Ty: "object", Props: []Prop{P("n", sTy("integer"))}, Addl: "schema", AddlSch: leaf}
		rs = []Req{okReq("len", Obj())}
		for i, v := range vals {
			if i%2 == 0 {
				rs = append(rs, okReq("len", Obj(F("x", v))), okReq("len", Obj(F("n", Int(1)), F("x", sample(leaf)), F("y", v))))
			}
		}
		emit(c, Decl{Name: "b", Schema: s}, rs)
	}
}

func smallPool() []Val {
	return []Val{Null(), Int(1), Int(2), Num(10, -1, "frac"), Num(1, 0, "exp"), Num(20, -1, "frac"), Str("a"), Str("ab"), Str("1"), Bool(true),
		Arr(), Arr(Int(1)), Obj(), Obj(F("k", Int(1))), Obj(F("k", Num(10, -1, "frac")))}
}

// array keywords: minItems / maxItems / uniqueItems x all arrays of <= 2 (3) values of a small pool
func genArrays(c *drv.Ctx, thorough bool) {
	pool := smallPool()
	docs := []Val{Arr()}
	for _, x := range pool {
		docs = append(docs, Arr(x))
		for _, y := range pool {
			docs = append(docs, Arr(x, y))
		}
	}
	docs = append(docs, Arr(Int(1), Int(2), Int(3)), Arr(Int(1), Int(2), Int(1)), Arr(Str("a"), Str("b"), Str("a")),
		Arr(Obj(F("k", Int(1)), F("j", Int(2))), Obj(F("j", Int(2)), F("k", Int(1)))), // equal objects, other member order
		Arr(Obj(F("k", Int(1)), F("k", Int(2))), Obj(F("k", Int(2)))),                 // equal after the duplicate collapses
		Arr(Arr(Int(1), Int(2)), Arr(Int(2), Int(1))), Arr(Arr(Int(1)), Arr(Num(10, -1, "frac"))),
		Arr(Big("f53"), Big("f53")), Arr(Big("i63max"), Big("i63ovf")), Null(), Obj(), Str("a"), Int(1))
	schemas := []*Schema{
		sTy("array"),
		{Ty: "array", MinI: ip(1)}, {Ty: "array", MaxI: ip(1)}, {Ty: "array", MinI: ip(2), MaxI: ip(2)}, {Ty: "array", MinI: ip(0), MaxI: ip(0)},
		{Ty: "array", Uniq: true}, {Ty: "array", Uniq: true, MinI: ip(2)},
		{Ty: "array", Uniq: true, Items: sTy("number")}, {Ty: "array", Uniq: true, Items: sTy("integer"), MaxI: ip(2)},
		{Ty: "array", Uniq: true, Items: sTy("string")}, {Ty: "array", Items: sObj(P("k", sTy("integer"))).req("k"), Uniq: true},
		{Ty: "array", Items: sArr(sTy("integer")), MinI: ip(1)},
		{Ty: "array", Items: sAny()},
		{Items: sTy("integer"), MinI: ip(1)}, // no type
	}
	for si, s := range schemas {
		rs := []Req{}
		for i, v := range docs {
			r := okReq([]string{"len", "chunked"}[i%2], v)
			if i%9 == 4 {
				r.Style = "spaced"
			}
			rs = append(rs, r)
		}
		emit(c, Decl{Name: "b", Schema: s}, rs)
		if thorough || si%3 == 0 {
			// the same array as a property
			ps := sObj(P("list", s)).req("list")
			rs2 := []Req{okReq("len", Obj())}
			for _, v := range docs {
				rs2 = append(rs2, okReq("len", Obj(F("list", v))))
			}
			emit(c, Decl{Name: "b", Schema: ps}, rs2)
		}
	}
}

// object keywords: required / properties / additionalProperties / minProperties / maxProperties / nesting
func genObjects(c *drv.Ctx, thorough bool) {
	pool := []Val{Null(), Int(1), Int(7), Num(10, -1, "frac"), Str("a"), Str("ab"), Bool(true), Obj(), Arr()}
	if thorough {
		pool = append(pool, Obj(F("a", Int(1))), Arr(Int(1)), Big("i63ovf"))
	}
	keys := []string{"a", "b", "c"}
	docs := []Val{Obj(), Null(), Arr(), Str("a"), Int(1)}
	for _, k1 := range keys {
		for _, x := range pool {
			docs = append(docs, Obj(F(k1, x)))
		}
	}
	for _, x := range pool {
		for _, y := range pool {
			docs = append(docs, Obj(F("a", x), F("b", y)))
			if thorough {
				docs = append(docs, Obj(F("b", x), F("c", y)), Obj(F("a", x), F("a", y)))
			}
		}
	}
	docs = append(docs, Obj(F("a", Int(1)), F("b", Str("ab")), F("c", Null())), Obj(F("a", Str("x")), F("a", Int(1))), Obj(F("a", Int(1)), F("a", Str("x"))),
		Obj(F("c", Int(1)), F("b", Str("ab")), F("a", Int(1))), Obj(F("a", Int(1)), F("b", Str("ab")), F("c", Int(1)), F("d", Int(1))))
	ia, sb := P("a", sTy("integer")), P("b", &Schema{Ty: "string", MinL: ip(2)})
	schemas := []*Schema{
		sTy("object"),
		sObj(ia, sb), sObj(ia, sb).req("a"), sObj(ia, sb).req("a", "b"), sObj(ia, sb).req("c"), sObj().req("a", "b"),
		{Ty: "object", Props: []Prop{ia, sb}, Addl: "false"}, {Ty: "object", Props: []Prop{ia, sb}, Addl: "false", Req: []string{"a"}},
		{Ty: "object", Props: []Prop{ia}, Addl: "true"}, {Ty: "object", Addl: "false"},
		{Ty: "object", Props: []Prop{ia}, Addl: "schema", AddlSch: &Schema{Ty: "string", MinL: ip(2)}},
		{Ty: "object", Addl: "schema", AddlSch: sTy("integer"), Req: []string{"a"}},
		{Ty: "object", MinP: ip(1)}, {Ty: "object", MaxP: ip(1)}, {Ty: "object", MinP: ip(2), MaxP: ip(2)}, {Ty: "object", MinP: ip(2), Props: []Prop{ia}},
		{Props: []Prop{ia, sb}, Req: []string{"a"}}, // no type
		{Req: []string{"a"}},
	}
	for si, s := range schemas {
		rs := []Req{}
		for i, v := range docs {
			r := okReq([]string{"len", "chunked"}[i%2], v)
			if i%10 == 6 {
				r.Style = "spaced"
			}
			rs = append(rs, r)
		}
		emit(c, Decl{Name: "b", Schema: s}, rs)
		if si%4 == 1 {
			emit(c, Decl{Name: "b", Schema: s.ref()}, rs[:len(rs)/3])
		}
		// nested one level down
		if thorough || si%2 == 0 {
			ns := sObj(P("o", s), P("n", sTy("integer"))).req("o")
			rs2 := []Req{okReq("len", Obj()), okReq("len", Obj(F("n", Int(1))))}
			for i, v := range docs {
				if thorough || i%2 == 0 {
					rs2 = append(rs2, okReq("len", Obj(F("o", v))))
				}
			}
			emit(c, Decl{Name: "payload", Schema: ns}, rs2)
		}
	}
}

// a rich schema, one valid document, every single defect, every pair of defects
func richSchema(ref bool) *Schema {
	addr := sObj(P("zip", &Schema{Ty: "string", Pat: "^[0-9]+$", MinL: ip(2)}), P("city", &Schema{Ty: "string", MaxL: ip(2)})).req("zip")
	addr.Addl = "false"
	tag := &Schema{Ty: "string", Enum: []Val{Str("ab"), Str("c")}}
	item := sObj(P("id", &Schema{Ty: "integer", Min: nb(1, 0)}), P("w", &Schema{Ty: "number", Max: nb(2, 0), ExMax: true})).req("id")
	if ref {
		addr, item = addr.ref(), item.ref()
	}
	s := sObj(
		P("name", &Schema{Ty: "string", MinL: ip(2), MaxL: ip(3)}),
		P("age", &Schema{Ty: "integer", Min: nb(0, 0), Max: nb(6, 0)}),
		P("kind", tag),
		P("on", sTy("boolean")),
		P("born", &Schema{Ty: "string", Fmt: "date"}),
		P("addr", addr),
		P("tags", &Schema{Ty: "array", Items: tag, MinI: ip(1), MaxI: ip(2), Uniq: true}),
		P("items", &Schema{Ty: "array", Items: item, MaxI: ip(2)}),
		P("score", &Schema{Ty: "number", Mult: nb(5, -1), Min: nb(0, 0)}),
	).req("name", "age")
	s.Addl = "schema"
	s.AddlSch = sTy("boolean")
	if ref {
		s = s.ref()
	}
	return s
}

func richValid() Val {
	return Obj(F("name", Str("abc")), F("age", Int(5)), F("kind", Str("c")), F("on", Bool(false)), F("born", Str("2020-01-15")),
		F("addr", Obj(F("zip", Str("12")), F("city", Str("ab")))),
		F("tags", Arr(Str("ab"), Str("c"))),
		F("items", Arr(Obj(F("id", Int(1)), F("w", Num(15, -1, "frac"))), Obj(F("id", Int(2))))),
		F("score", Num(15, -1, "frac")), F("extra", Bool(true)))
}

type edit struct {
	path []string // member names / item indices
	op   string   // set | del | add
	key  string
	v    Val
}

func applyEdit(v Val, e edit, depth int) Val {
	if depth == len(e.path) {
		switch e.op {
		case "set":
			return e.v
		case "add":
			if v.K == "arr" {
				c := v
				c.Items = append(append([]Val{}, v.Items...), e.v)
				return c
			}
			c := v
			c.Mem = append(append([]KV{}, v.Mem...), F(e.key, e.v))
			return c
		case "del":
			c := v
			if v.K == "arr" {
				c.Items = append([]Val{}, v.Items[:len(v.Items)-1]...)
				return c
			}
			c.Mem = nil
			for _, kv := range v.Mem {
				if kv.Key != e.key {
					c.Mem = append(c.Mem, kv)
				}
			}
			return c
		}
	}
	seg := e.path[depth]
	c := v
	if v.K == "arr" {
		i, _ := strconv.Atoi(seg)
		c.Items = append([]Val{}, v.Items...)
		c.Items[i] = applyEdit(v.Items[i], e, depth+1)
		return c
	}
	c.Mem = append([]KV{}, v.Mem...)
	for i := range c.Mem {
		if c.Mem[i].Key == seg {
			c.Mem[i].Val = applyEdit(c.Mem[i].Val, e, depth+1)
		}
	}
	return c
}

// each edit breaks exactly one constraint of richSchema (or none: the last group keeps the document valid)
func richEdits() []edit {
	p := func(s ...string) []string { return s }
	return []edit{
		{p(), "del", "name", Val{}}, {p(), "del", "age", Val{}},
		{p("name"), "set", "", Str("a")}, {p("name"), "set", "", Str("abcd")}, {p("name"), "set", "", Int(1)}, {p("name"), "set", "", Null()},
		{p("age"), "set", "", Int(7)}, {p("age"), "set", "", Int(-1)}, {p("age"), "set", "", Num(50, -1, "frac")}, {p("age"), "set", "", Str("5")},
		{p("age"), "set", "", Big("i63ovf")},
		{p("kind"), "set", "", Str("d")}, {p("on"), "set", "", Int(0)}, {p("on"), "set", "", Str("false")},
		{p("born"), "set", "", Str("2020-13-01")}, {p("born"), "set", "", Str("yesterday")},
		{p("addr"), "del", "zip", Val{}}, {p("addr", "zip"), "set", "", Str("1")}, {p("addr", "zip"), "set", "", Str("1a")},
		{p("addr", "city"), "set", "", Str("abc")}, {p("addr"), "add", "street", Str("x")}, {p("addr"), "set", "", Arr()}, {p("addr"), "set", "", Null()},
		{p("tags"), "set", "", Arr()}, {p("tags"), "add", "", Str("c")}, {p("tags"), "set", "", Arr(Str("ab"), Str("ab"))}, {p("tags", "0"), "set", "", Str("zz")},
		{p("tags"), "set", "", Obj()},
		{p("items"), "add", "", Obj(F("id", Int(3)))}, {p("items", "1"), "del", "id", Val{}}, {p("items", "0", "id"), "set", "", Int(0)},
		{p("items", "0", "w"), "set", "", Int(2)}, {p("items", "1"), "set", "", Int(5)},
		{p("score"), "set", "", Num(125, -2, "frac")}, {p("score"), "set", "", Num(-5, -1, "frac")}, {p("score"), "set", "", Big("xm1e400")},
		{p(), "add", "more", Int(1)}, {p(), "add", "more", Null()},
		// still valid
		{p(), "add", "more", Bool(true)}, {p(), "del", "kind", Val{}}, {p("addr"), "del", "city", Val{}}, {p("items"), "del", "", Val{}},
		{p("score"), "set", "", Int(0)}, {p("age"), "set", "", Int(0)}, {p(), "add", "name", Str("ab")}, {p("items", "0", "w"), "set", "", Big("xm1e400")},
	}
}

func genRich(c *drv.Ctx, thorough bool) {
	for _, ref := range []bool{false, true} {
		s := richSchema(ref)
		base := richValid()
		edits := richEdits()
		rs := docVariants(base)
		for _, e := range edits {
			rs = append(rs, okReq("len", applyEdit(base, e, 0)))
		}
		for i, e1 := range edits {
			for j, e2 := range edits {
				if j <= i || (!thorough && (i+j)%4 != 0) {
					continue
				}
				same := len(e1.path) > 0 && len(e2.path) > 0 && e1.path[0] == e2.path[0]
				if same || (len(e1.path) == 0 && e1.op == "del" && len(e2.path) > 0 && e2.path[0] == e1.key) ||
					(len(e2.path) == 0 && e2.op == "del" && len(e1.path) > 0 && e1.path[0] == e2.key) {
					continue // edits of the same member do not compose
				}
				rs = append(rs, okReq("chunked", applyEdit(applyEdit(base, e1, 0), e2, 0)))
			}
		}
		rs = append(rs, truncReqs(base, 25)...)
		emit(c, Decl{Name: "payload", Required: true, Schema: s}, rs)
	}
}

// ---- seeded part ------------------------------------------------------------------------------------------------

func randLeaf(r *rand.Rand) *Schema {
	ls := leafSchemas()
	return cloneSchema(ls[r.Intn(len(ls))])
}

func randSchema(r *rand.Rand, depth int) *Schema {
	if depth <= 0 || r.Intn(4) == 0 {
		return randLeaf(r)
	}
	var s *Schema
	if r.Intn(2) == 0 {
		s = &Schema{Ty: "array"}
		if r.Intn(8) != 0 {
			s.Items = randSchema(r, depth-1)
		}
		if r.Intn(3) == 0 {
			s.MinI = ip(r.Intn(3))
		}
		if r.Intn(3) == 0 {
			s.MaxI = ip(1 + r.Intn(3))
		}
		s.Uniq = r.Intn(3) == 0
	} else {
		s = &Schema{Ty: "object"}
		keys := []string{"a", "b", "c", "d"}
		n := r.Intn(4)
		for i := 0; i < n; i++ {
			s.Props = append(s.Props, P(keys[i], randSchema(r, depth-1)))
		}
		for _, k := range keys {
			if r.Intn(4) == 0 {
				s.Req = append(s.Req, k)
			}
		}
		switch r.Intn(5) {
		case 0:
			s.Addl = "false"
		case 1:
			s.Addl = "schema"
			s.AddlSch = randSchema(r, depth-1)
		case 2:
			s.Addl = "true"
		}
		if r.Intn(6) == 0 {
			s.MinP = ip(r.Intn(3))
		}
		if r.Intn(6) == 0 {
			s.MaxP = ip(1 + r.Intn(3))
		}
		if r.Intn(10) == 0 {
			s.Ty = ""
		}
	}
	s.Ref = r.Intn(5) == 0
	return s
}

func randScalar(r *rand.Rand) Val {
	vs := scalarValues()
	return vs[r.Intn(len(vs))]
}

func randVal(r *rand.Rand, depth int) Val {
	if depth <= 0 || r.Intn(3) == 0 {
		return randScalar(r)
	}
	if r.Intn(2) == 0 {
		n := r.Intn(4)
		items := []Val{}
		for i := 0; i < n; i++ {
			items = append(items, randVal(r, depth-1))
		}
		if n >= 2 && r.Intn(3) == 0 {
			items[n-1] = items[0]
		}
		return Arr(items...)
	}
	keys := []string{"a", "b", "c", "d", "e"}
	n := r.Intn(4)
	mem := []KV{}
	for i := 0; i < n; i++ {
		mem = append(mem, F(keys[r.Intn(len(keys))], randVal(r, depth-1)))
	}
	return Obj(mem...)
}

// a document shaped after the schema: mostly conforming, each node independently replaced by something else now and then
func randFor(r *rand.Rand, s *Schema, depth int, noise int) Val {
	if s == nil || r.Intn(100) < noise {
		return randVal(r, depth)
	}
	switch s.Ty {
	case "object":
		mem := []KV{}
		for _, p := range s.Props {
			if r.Intn(4) != 0 || contains(s.Req, p.Name) {
				mem = append(mem, F(p.Name, randFor(r, p.Sch, depth-1, noise)))
			}
		}
		for _, k := range s.Req {
			if !hasKey(mem, k) && r.Intn(8) != 0 {
				mem = append(mem, F(k, randScalar(r)))
			}
		}
		if s.Addl != "false" && r.Intn(3) == 0 {
			mem = append(mem, F("x", randFor(r, s.AddlSch, depth-1, noise)))
		}
		if r.Intn(12) == 0 && len(mem) > 0 {
			mem = append(mem, F(mem[0].Key, randFor(r, nil, 1, noise))) // a duplicate name
		}
		r.Shuffle(len(mem), func(i, j int) { mem[i], mem[j] = mem[j], mem[i] })
		return Obj(mem...)
	case "array":
		n := r.Intn(4)
		items := []Val{}
		for i := 0; i < n; i++ {
			items = append(items, randFor(r, s.Items, depth-1, noise))
		}
		return Arr(items...)
	case "":
		if len(s.Props) > 0 || len(s.Req) > 0 {
			c := *s
			c.Ty = "object"
			return randFor(r, &c, depth, noise)
		}
		return randVal(r, 1)
	}
	if r.Intn(3) == 0 {
		return sample(s)
	}
	// a scalar of the right kind most of the time
	for tries := 0; tries < 20; tries++ {
		v := randScalar(r)
		if (s.Ty == "string" && v.K == "str") || (s.Ty == "boolean" && v.K == "bool") || ((s.Ty == "integer" || s.Ty == "number") && v.K == "num") {
			return v
		}
	}
	return randScalar(r)
}

func contains(ss []string, k string) bool {
	for _, s := range ss {
		if s == k {
			return true
		}
	}
	return false
}

func hasKey(mem []KV, k string) bool {
	for _, kv := range mem {
		if kv.Key == k {
			return true
		}
	}
	return false
}

func genRandom(c *drv.Ctx, ncases, nreqs int) {
	r := c.Rng
	trs := []string{"len", "chunked"}
	for i := 0; i < ncases; i++ {
		s := randSchema(r, 1+r.Intn(3))
		d := Decl{Name: []string{"b", "payload", "body", "p0"}[r.Intn(4)], Required: r.Intn(2) == 0, Schema: s}
		rs := []Req{{Tr: []string{"none", "cl0", "chunked"}[r.Intn(3)], Syn: "empty", V: Null(), Style: "compact"}}
		for j := 0; j < nreqs; j++ {
			v := randFor(r, s, 3, []int{0, 5, 15, 40}[r.Intn(4)])
			rq := okReq(trs[r.Intn(2)], v)
			rq.Style = []string{"compact", "compact", "spaced", "escaped"}[r.Intn(4)]
			if r.Intn(10) == 0 {
				rq.Trail = []string{"ws", "garbage", "second"}[r.Intn(3)]
			}
			rq.Wire = r.Intn(25) == 0
			rs = append(rs, rq)
			if r.Intn(15) == 0 {
				t := truncReqs(v, 40)
				if len(t) > 0 {
					rs = append(rs, t[r.Intn(len(t))])
				}
			}
		}
		emit(c, d, rs)
	}
}

// the body next to a required query parameter: a refusal of either keeps the handler from running
func genWithQuery(c *drv.Ctx) {
	for _, s := range []*Schema{sObj(P("a", sTy("integer"))).req("a"), {Ty: "array", Items: sTy("string"), MinI: ip(1)}, {Ty: "string", MinL: ip(2)}} {
		for _, required := range []bool{false, true} {
			for _, hasDef := range []bool{false, true} {
				d := Decl{Name: "b", Required: required, HasDef: hasDef, Schema: s, Q: true}
				if hasDef {
					d.Def = sample(s)
				}
				base := append(presenceReqs()[:3], Req{Tr: "len", Syn: "ws", Raw: " ", V: Null(), Style: "compact"},
					Req{Tr: "len", Syn: "bad", Raw: "{]", V: Null(), Style: "compact"})
				for _, v := range []Val{Obj(), Obj(F("a", Int(1))), Obj(F("a", Str("x"))), Arr(), Arr(Str("ab")), Arr(Int(1)), Str("ab"), Str("a"), Null(), Int(3)} {
					base = append(base, okReq("len", v), okReq("chunked", v))
				}
				rs := []Req{}
				for _, q := range []string{"ok", "bad", ""} {
					for _, r := range base {
						r.Q = q
						rs = append(rs, r)
					}
				}
				emit(c, d, rs)
			}
		}
	}
}

func generate(c *drv.Ctx) {
	thorough := c.Tier == "thorough"
	genLogic(c)
	genWithQuery(c)
	genKeywords(c)
	genArrays(c, thorough)
	genObjects(c, thorough)
	genRich(c, thorough)
	if thorough {
		genRandom(c, 8000, 40)
	} else {
		genRandom(c, 500, 25)
	}
}
