// Package c19 drives untyped.API.Validate and the serving consequence of a validated API
// for property C19.  It only executes and records; specs/TraceAPIValidate.tla decides.
package c19

import (
	"encoding/json"
	"fmt"
	"io"
	"net/http"
	"net/http/httptest"
	"sort"
	"strings"

	"github.com/go-openapi/errors"
	"github.com/go-openapi/loads"
	"github.com/go-openapi/runtime"
	"github.com/go-openapi/runtime/middleware"
	"github.com/go-openapi/runtime/middleware/untyped"
	"github.com/go-openapi/runtime/security"

	"verifharness/internal/drv"
	"verifharness/internal/trace"
)

type M = drv.M

func init() {
	drv.Register(&drv.Driver{Name: "c19", Generate: generate, Execute: execute})
}

// ---- abstract description / registration -----------------------------------------

type Sec struct {
	Present bool
	Alts    [][]string // alternatives; an empty alternative is the anonymous requirement
}

type Op struct {
	Method   string // as written in the document (lower case key)
	Path     string
	Consumes []string
	Produces []string
	Sec      Sec
	Body     bool
	// NoContent: the declared success response is 204 No Content (else 200)
	NoContent bool
}

type Desc struct {
	Consumes []string
	Produces []string
	Sec      Sec
	Defs     []string
	Ops      []Op
}

type RegOp struct{ Method, Path string }

type Reg struct {
	JSON      bool
	Consumers []string
	Producers []string
	Ops       []RegOp
	Auths     []string
}

func (s Sec) JSON() M {
	alts := make([][][]int, 0, len(s.Alts))
	for _, a := range s.Alts {
		alts = append(alts, trace.BB(a))
	}
	return M{"present": s.Present, "alts": alts}
}

func secFromJSON(v any) Sec {
	m := drv.Map(v)
	s := Sec{Present: drv.Bool(m["present"])}
	for _, av := range drv.List(m["alts"]) {
		alt := []string{}
		for _, n := range drv.List(av) {
			alt = append(alt, trace.Str(n))
		}
		s.Alts = append(s.Alts, alt)
	}
	return s
}

func strs(v any) []string {
	out := []string{}
	for _, x := range drv.List(v) {
		out = append(out, trace.Str(x))
	}
	return out
}

func (d Desc) JSON() M {
	ops := make([]M, 0, len(d.Ops))
	for _, o := range d.Ops {
		ops = append(ops, M{"method": trace.B(o.Method), "path": trace.B(o.Path), "consumes": trace.BB(o.Consumes),
			"produces": trace.BB(o.Produces), "sec": o.Sec.JSON(), "body": o.Body, "nocontent": o.NoContent})
	}
	return M{"consumes": trace.BB(d.Consumes), "produces": trace.BB(d.Produces), "sec": d.Sec.JSON(), "defs": trace.BB(d.Defs), "ops": ops}
}

func descFromJSON(v any) Desc {
	m := drv.Map(v)
	d := Desc{Consumes: strs(m["consumes"]), Produces: strs(m["produces"]), Sec: secFromJSON(m["sec"]), Defs: strs(m["defs"])}
	for _, ov := range drv.List(m["ops"]) {
		om := drv.Map(ov)
		d.Ops = append(d.Ops, Op{Method: trace.Str(om["method"]), Path: trace.Str(om["path"]), Consumes: strs(om["consumes"]),
			Produces: strs(om["produces"]), Sec: secFromJSON(om["sec"]), Body: drv.Bool(om["body"]), NoContent: drv.Bool(om["nocontent"])})
	}
	return d
}

func (r Reg) ToJSON() M {
	ops := make([]M, 0, len(r.Ops))
	for _, o := range r.Ops {
		ops = append(ops, M{"method": trace.B(o.Method), "path": trace.B(o.Path)})
	}
	return M{"json": r.JSON, "consumers": trace.BB(r.Consumers), "producers": trace.BB(r.Producers), "ops": ops, "auths": trace.BB(r.Auths)}
}

func regFromJSON(v any) Reg {
	m := drv.Map(v)
	r := Reg{JSON: drv.Bool(m["json"]), Consumers: strs(m["consumers"]), Producers: strs(m["producers"]), Auths: strs(m["auths"])}
	for _, ov := range drv.List(m["ops"]) {
		om := drv.Map(ov)
		r.Ops = append(r.Ops, RegOp{Method: trace.Str(om["method"]), Path: trace.Str(om["path"])})
	}
	return r
}

// Swagger renders the description as a Swagger 2.0 document.
func (d Desc) Swagger() []byte {
	secJSON := func(s Sec) []any {
		out := []any{}
		for _, alt := range s.Alts {
			m := map[string]any{}
			for _, n := range alt {
				m[n] = []string{}
			}
			out = append(out, m)
		}
		return out
	}
	paths := map[string]map[string]any{}
	for i, o := range d.Ops {
		if paths[o.Path] == nil {
			paths[o.Path] = map[string]any{}
		}
		op := map[string]any{
			"operationId": fmt.Sprintf("op%d", i+1),
			"responses":   map[string]any{"200": map[string]any{"description": "ok"}},
		}
		if o.NoContent {
			op["responses"] = map[string]any{"204": map[string]any{"description": "no content"}}
		}
		if len(o.Consumes) > 0 {
			op["consumes"] = o.Consumes
		}
		if len(o.Produces) > 0 {
			op["produces"] = o.Produces
		}
		if o.Sec.Present {
			op["security"] = secJSON(o.Sec)
		}
		if o.Body {
			op["parameters"] = []any{map[string]any{"name": "body", "in": "body", "schema": map[string]any{"type": "object"}}}
		}
		paths[o.Path][o.Method] = op
	}
	doc := map[string]any{
		"swagger": "2.0",
		"info":    map[string]any{"title": "c19", "version": "1"},
		"paths":   paths,
	}
	if len(d.Consumes) > 0 {
		doc["consumes"] = d.Consumes
	}
	if len(d.Produces) > 0 {
		doc["produces"] = d.Produces
	}
	if d.Sec.Present {
		doc["security"] = secJSON(d.Sec)
	}
	if len(d.Defs) > 0 {
		defs := map[string]any{}
		for i, n := range d.Defs {
			if i%2 == 0 {
				defs[n] = map[string]any{"type": "apiKey", "in": "header", "name": "X-" + n}
			} else {
				defs[n] = map[string]any{"type": "basic"}
			}
		}
		doc["securityDefinitions"] = defs
	}
	b, err := json.Marshal(doc)
	if err != nil {
		panic(err)
	}
	return b
}

// ---- the requirement sets, used only to *generate* registrations near the exact one ----------

func union(lists ...[]string) []string {
	seen := map[string]bool{}
	out := []string{}
	for _, l := range lists {
		for _, x := range l {
			if !seen[x] {
				seen[x] = true
				out = append(out, x)
			}
		}
	}
	sort.Strings(out)
	return out
}

func (d Desc) needConsumes() []string {
	ls := [][]string{d.Consumes}
	for _, o := range d.Ops {
		ls = append(ls, o.Consumes)
	}
	return union(ls...)
}

func (d Desc) needProduces() []string {
	ls := [][]string{d.Produces}
	for _, o := range d.Ops {
		ls = append(ls, o.Produces)
	}
	return union(ls...)
}

func (d Desc) needSchemes() []string {
	ls := [][]string{}
	for _, a := range d.Sec.Alts {
		ls = append(ls, a)
	}
	for _, o := range d.Ops {
		for _, a := range o.Sec.Alts {
			ls = append(ls, a)
		}
	}
	return union(ls...)
}

const jsonMime = "application/json"

func without(l []string, x string) []string {
	out := []string{}
	for _, y := range l {
		if y != x {
			out = append(out, y)
		}
	}
	return out
}

func contains(l []string, x string) bool {
	for _, y := range l {
		if y == x {
			return true
		}
	}
	return false
}

func exact(d Desc, keepJSON bool) Reg {
	r := Reg{JSON: keepJSON, Consumers: d.needConsumes(), Producers: d.needProduces(), Auths: d.needSchemes()}
	if keepJSON {
		r.Consumers = without(r.Consumers, jsonMime)
		r.Producers = without(r.Producers, jsonMime)
	}
	for _, o := range d.Ops {
		r.Ops = append(r.Ops, RegOp{o.Method, o.Path})
	}
	return r
}

func (r Reg) clone() Reg {
	c := Reg{JSON: r.JSON}
	c.Consumers = append([]string{}, r.Consumers...)
	c.Producers = append([]string{}, r.Producers...)
	c.Auths = append([]string{}, r.Auths...)
	c.Ops = append([]RegOp{}, r.Ops...)
	return c
}

func caseVariant(m string) string {
	switch m {
	case "application/xml":
		return "Application/XML"
	case jsonMime:
		return "APPLICATION/JSON"
	}
	b := []byte(m)
	for i := range b {
		if i%2 == 0 && b[i] >= 'a' && b[i] <= 'z' {
			b[i] -= 32
		}
	}
	return string(b)
}

var extraMedia = []string{jsonMime, "application/xml", "text/plain", "Application/XML", "text/plain; charset=utf-8", "*/*"}
var extraOps = []RegOp{{"put", "/c"}, {"post", "/b"}, {"GET", "/zz"}}
var extraAuths = []string{"k", "b", "z"}

// perturbations: the exact registration, each single omission, each single addition, case variants.
func perturbations(e Reg) []Reg {
	out := []Reg{e}
	for _, x := range e.Consumers {
		c := e.clone()
		c.Consumers = without(c.Consumers, x)
		out = append(out, c)
		v := e.clone()
		v.Consumers = append(without(v.Consumers, x), caseVariant(x))
		out = append(out, v)
	}
	for _, x := range e.Producers {
		c := e.clone()
		c.Producers = without(c.Producers, x)
		out = append(out, c)
		v := e.clone()
		v.Producers = append(without(v.Producers, x), caseVariant(x))
		out = append(out, v)
	}
	for i := range e.Ops {
		c := e.clone()
		c.Ops = append(c.Ops[:i:i], c.Ops[i+1:]...)
		out = append(out, c)
		v := e.clone()
		m := e.Ops[i].Method
		v.Ops[i].Method = []string{strings.ToUpper(m), strings.ToUpper(m[:1]) + m[1:]}[i%2]
		out = append(out, v)
	}
	for _, x := range e.Auths {
		c := e.clone()
		c.Auths = without(c.Auths, x)
		out = append(out, c)
	}
	for _, y := range extraMedia {
		if !contains(e.Consumers, y) {
			c := e.clone()
			c.Consumers = append(c.Consumers, y)
			out = append(out, c)
		}
		if !contains(e.Producers, y) {
			c := e.clone()
			c.Producers = append(c.Producers, y)
			out = append(out, c)
		}
	}
	for _, y := range extraOps {
		c := e.clone()
		c.Ops = append(c.Ops, y)
		out = append(out, c)
	}
	for _, y := range extraAuths {
		if !contains(e.Auths, y) {
			c := e.clone()
			c.Auths = append(c.Auths, y)
			out = append(out, c)
		}
	}
	return out
}

func descriptor(d Desc, regs []Reg) M {
	rs := make([]M, 0, len(regs))
	for _, r := range regs {
		rs = append(rs, r.ToJSON())
	}
	return M{"desc": d.JSON(), "regs": rs, "hist": []M{}}
}

// Step is one call on the one API value of a history case: a registration change or Validate.
type Step struct{ Act, Arg, Arg2 string }

func histDescriptor(d Desc, steps []Step) M {
	hs := make([]M, 0, len(steps))
	for _, st := range steps {
		hs = append(hs, M{"act": st.Act, "arg": trace.B(st.Arg), "arg2": trace.B(st.Arg2)})
	}
	return M{"desc": d.JSON(), "regs": []M{}, "hist": hs}
}

// history: the calls that register exactly what the description needs, in random order, with Validate in between,
// followed by a tail that keeps changing the registrations (JSON defaults on/off, extra and repeated registrations),
// each change followed by Validate - "Validate reflects the current registrations".
func history(c *drv.Ctx, d Desc) []Step {
	r := c.Rng
	var steps []Step
	var regs []Step
	for _, m := range d.needConsumes() {
		regs = append(regs, Step{"RegisterConsumer", m, ""})
	}
	for _, m := range d.needProduces() {
		regs = append(regs, Step{"RegisterProducer", m, ""})
	}
	for _, o := range d.Ops {
		regs = append(regs, Step{"RegisterOperation", o.Method, o.Path})
	}
	for _, a := range d.needSchemes() {
		regs = append(regs, Step{"RegisterAuth", a, ""})
	}
	r.Shuffle(len(regs), func(i, j int) { regs[i], regs[j] = regs[j], regs[i] })
	if r.Intn(2) == 0 {
		steps = append(steps, Step{Act: "WithoutJSONDefaults"})
	}
	for _, st := range regs {
		steps = append(steps, st)
		if r.Intn(3) == 0 {
			steps = append(steps, Step{Act: "Validate"})
		}
	}
	steps = append(steps, Step{Act: "Validate"})
	extras := []Step{{Act: "WithJSONDefaults"}, {Act: "WithoutJSONDefaults"}, {Act: "WithJSONDefaults"}, {Act: "WithoutJSONDefaults"},
		{"RegisterConsumer", jsonMime, ""}, {"RegisterProducer", jsonMime, ""}, {"RegisterConsumer", "text/plain", ""},
		{"RegisterProducer", "Application/XML", ""}, {"RegisterOperation", "put", "/c"}, {"RegisterAuth", "z", ""}}
	extras = append(extras, regs...)
	for k := 3 + r.Intn(6); k > 0; k-- {
		steps = append(steps, extras[r.Intn(len(extras))], Step{Act: "Validate"})
		if r.Intn(4) == 0 {
			steps = append(steps, Step{Act: "Validate"})
		}
	}
	return steps
}

// ---- generation ------------------------------------------------------------------

const xmlMime = "application/xml"

func generate(c *drv.Ctx) {
	thorough := c.Tier == "thorough"
	noSec := Sec{}
	secChoices := []Sec{noSec, {true, [][]string{{"k"}}}, {true, [][]string{{"k", "b"}}}, {true, [][]string{{"k"}, {"b"}}},
		{true, [][]string{{}}}, {true, [][]string{}}}
	opMedia := [][]string{nil, {xmlMime}, {"Application/XML"}}
	type mp struct {
		m, p string
		body bool
	}
	mps := []mp{{"get", "/a", false}, {"post", "/a", true}, {"get", "/v1.0/b", false}} // a '.' in a path: nothing but a literal byte
	var opPool []Op
	for _, x := range mps {
		cons := opMedia
		if !x.body {
			cons = opMedia[:2]
		}
		for _, cs := range cons {
			for _, ps := range opMedia {
				for _, s := range secChoices {
					opPool = append(opPool, Op{Method: x.m, Path: x.p, Consumes: cs, Produces: ps, Sec: s, Body: x.body})
				}
			}
		}
	}
	globalMedia := [][]string{nil, {jsonMime}, {jsonMime, xmlMime}}
	globalSec := []Sec{noSec, {true, [][]string{{"k"}}}}
	defs := [][]string{nil, {"k"}, {"k", "b"}}

	emit := func(d Desc) {
		var regs []Reg
		regs = append(regs, perturbations(exact(d, true))...)
		regs = append(regs, perturbations(exact(d, false))...)
		c.Case(descriptor(d, regs))
	}
	// (i) exhaustive small scope: every global part x every single operation of the pool (the space of
	// MCAPIValidate_quick), each with every registration that is exact / minus one / plus one / a case variant.
	n := 0
	for _, gc := range globalMedia {
		for _, gp := range globalMedia {
			for _, gs := range globalSec {
				for _, df := range defs {
					for i, o := range opPool {
						// quick: every sixth, thorough: every second operation of the pool per global part (rotating over
						// the 54 global parts, so every operation is met with several of them)
						if (!thorough && (i+n)%6 != 0) || (thorough && (i+n)%2 != 0) {
							continue
						}
						emit(Desc{Consumes: gc, Produces: gp, Sec: gs, Defs: df, Ops: []Op{o}})
					}
					n++
				}
			}
		}
	}
	// (ii) two operations: a seeded sample of pairs with distinct method+path
	nPairs := 300
	if thorough {
		nPairs = 1500
	}
	for k := 0; k < nPairs; k++ {
		a, b := opPool[c.Rng.Intn(len(opPool))], opPool[c.Rng.Intn(len(opPool))]
		if a.Method == b.Method && a.Path == b.Path {
			continue
		}
		emit(Desc{Consumes: globalMedia[c.Rng.Intn(3)], Produces: globalMedia[c.Rng.Intn(3)], Sec: globalSec[c.Rng.Intn(2)],
			Defs: defs[c.Rng.Intn(3)], Ops: []Op{a, b}})
	}
	// (iii) seeded random larger descriptions; registrations: exact with up to 3 random perturbations in
	// several categories at once (first failing category), plus all single ones
	nRand := 200
	if thorough {
		nRand = 1500
	}
	for k := 0; k < nRand; k++ {
		d := randomDesc(c)
		var regs []Reg
		for _, keep := range []bool{true, false} {
			e := exact(d, keep)
			regs = append(regs, perturbations(e)...)
			for j := 0; j < 6; j++ {
				r := e
				for m := 1 + c.Rng.Intn(3); m > 0; m-- {
					ps := perturbations(r)
					r = ps[c.Rng.Intn(len(ps))]
				}
				regs = append(regs, r)
			}
		}
		c.Case(descriptor(d, regs))
	}
	// (v) answers without body need no producer: descriptions without any media type, served without the JSON defaults,
	// whose operations answer 204 No Content or are HEAD operations (plus some with media types)
	for k, gm := range [][]string{nil, nil, {jsonMime}, {xmlMime}} {
		ksec := Sec{true, [][]string{{"k"}}}
		d := Desc{Consumes: nil, Produces: gm, Sec: []Sec{noSec, ksec}[k%2], Defs: [][]string{nil, {"k"}}[k%2], Ops: []Op{
			{Method: "get", Path: "/a", NoContent: true}, {Method: "head", Path: "/b"}, {Method: "get", Path: "/v1.0/pets", NoContent: true},
			{Method: "delete", Path: "/c", NoContent: true, Sec: []Sec{noSec, {true, [][]string{{"k"}, {}}}}[k%2]},
			{Method: "get", Path: "/pets/photo.png"}}}
		emit(d)
		c.Case(descriptor(Desc{Produces: gm, Ops: d.Ops[:1+k]}, []Reg{exact(Desc{Produces: gm, Ops: d.Ops[:1+k]}, false)}))
	}
	// (iv) histories of one API value: registration changes interleaved with Validate
	nHist := 400
	if thorough {
		nHist = 1500
	}
	for k := 0; k < nHist; k++ {
		var d Desc
		if k%2 == 0 {
			d = Desc{Consumes: globalMedia[c.Rng.Intn(3)], Produces: globalMedia[c.Rng.Intn(3)], Sec: globalSec[c.Rng.Intn(2)],
				Defs: defs[c.Rng.Intn(3)], Ops: []Op{opPool[c.Rng.Intn(len(opPool))]}}
		} else {
			d = randomDesc(c)
		}
		c.Case(histDescriptor(d, history(c, d)))
	}
}

var mediaPool = []string{jsonMime, xmlMime, "text/plain", "application/x-yaml", "Application/XML", "text/plain; charset=utf-8", "*/*", "image/*", "TEXT/csv"}
var cleanPool = mediaPool[:4]
var schemePool = []string{"k", "b", "o", "Key2"}

func randomDesc(c *drv.Ctx) Desc {
	r := c.Rng
	pool := cleanPool
	if r.Intn(3) == 0 {
		pool = mediaPool
	}
	pick := func(max int) []string {
		n := r.Intn(max + 1)
		out := []string{}
		for i := 0; i < n; i++ {
			x := pool[r.Intn(len(pool))]
			if !contains(out, x) {
				out = append(out, x)
			}
		}
		return out
	}
	var defs []string
	for _, s := range schemePool {
		if r.Intn(2) == 0 {
			defs = append(defs, s)
		}
	}
	randSec := func() Sec {
		if r.Intn(3) == 0 {
			return Sec{}
		}
		s := Sec{Present: true, Alts: [][]string{}}
		for n := r.Intn(3); n > 0; n-- {
			alt := []string{}
			for m := r.Intn(3); m > 0; m-- {
				// mostly defined schemes; rarely an undefined one (invalid description, named deviation)
				var x string
				if len(defs) > 0 && r.Intn(12) > 0 {
					x = defs[r.Intn(len(defs))]
				} else {
					x = schemePool[r.Intn(len(schemePool))]
				}
				if !contains(alt, x) {
					alt = append(alt, x)
				}
			}
			s.Alts = append(s.Alts, alt)
		}
		return s
	}
	d := Desc{Consumes: pick(3), Produces: pick(3), Sec: randSec(), Defs: defs}
	methods := []string{"get", "post", "put", "delete", "patch", "head"}
	paths := []string{"/a", "/b", "/a/b", "/c", "/v1.0/pets", "/pets/photo.png", "/a.b"}
	seen := map[string]bool{}
	for n := 1 + r.Intn(6); n > 0; n-- {
		m, p := methods[r.Intn(len(methods))], paths[r.Intn(len(paths))]
		if seen[m+" "+p] {
			continue
		}
		seen[m+" "+p] = true
		o := Op{Method: m, Path: p, Sec: randSec(), Body: m == "post" || m == "put" || m == "patch", NoContent: m != "head" && r.Intn(4) == 0}
		if r.Intn(2) == 0 {
			o.Consumes = pick(2)
		}
		if r.Intn(2) == 0 {
			o.Produces = pick(2)
		}
		d.Ops = append(d.Ops, o)
	}
	return d
}

// ---- execution -------------------------------------------------------------------

func stubConsumer() runtime.Consumer {
	return runtime.ConsumerFunc(func(r io.Reader, v interface{}) error {
		_, _ = io.Copy(io.Discard, r)
		if p, ok := v.(*map[string]interface{}); ok {
			*p = map[string]interface{}{}
		}
		return nil
	})
}

func stubProducer() runtime.Producer {
	return runtime.ProducerFunc(func(w io.Writer, _ interface{}) error {
		_, err := w.Write([]byte("stub"))
		return err
	})
}

// credAuth accepts exactly the credentials of its own scheme: the header X-Cred-<scheme>: ok.
// Without that header the scheme does not apply to the request.
func credAuth(scheme string) runtime.Authenticator {
	return runtime.AuthenticatorFunc(func(params interface{}) (bool, interface{}, error) {
		sr, ok := params.(*security.ScopedAuthRequest)
		if !ok || sr.Request == nil {
			return false, nil, nil
		}
		if sr.Request.Header.Get("X-Cred-"+scheme) != "ok" {
			return false, nil, nil
		}
		return true, "principal-" + scheme, nil
	})
}

func (d Desc) securityFor(o Op) [][]string {
	if o.Sec.Present {
		return o.Sec.Alts
	}
	if d.Sec.Present {
		return d.Sec.Alts
	}
	return nil
}

func (d Desc) consumesFor(o Op) []string {
	if len(o.Consumes) > 0 {
		return o.Consumes
	}
	return d.Consumes
}

func (d Desc) producesFor(o Op) []string {
	if len(o.Produces) > 0 {
		return o.Produces
	}
	return d.Produces
}

func execute(c *drv.Ctx, dd M) bool {
	d := descFromJSON(dd["desc"])
	var regs []Reg
	for _, rv := range drv.List(dd["regs"]) {
		regs = append(regs, regFromJSON(rv))
	}
	var hist []Step
	if hv, ok := dd["hist"]; ok {
		for _, sv := range drv.List(hv) {
			sm := drv.Map(sv)
			hist = append(hist, Step{Act: drv.Str(sm["act"]), Arg: trace.Str(sm["arg"]), Arg2: trace.Str(sm["arg2"])})
		}
	}
	raw := d.Swagger()
	doc, err := loads.Analyzed(json.RawMessage(raw), "")
	if err != nil {
		panic(fmt.Sprintf("c19: generated document rejected: %v\n%s", err, raw))
	}
	ran := 0
	handler := runtime.OperationHandlerFunc(func(interface{}) (interface{}, error) {
		ran++
		return "ok", nil
	})
	consumer := func(m string) runtime.Consumer {
		if strings.EqualFold(m, jsonMime) {
			return runtime.JSONConsumer()
		}
		return stubConsumer()
	}
	producer := func(m string) runtime.Producer {
		if strings.EqualFold(m, jsonMime) {
			return runtime.JSONProducer()
		}
		return stubProducer()
	}
	passed, failed := false, false
	// Validate() on api, recorded against registration ri (0 = the history's API value as it stands)
	check := func(api *untyped.API, ri int) bool {
		ok, section, missReg, missSpec, panicked := validate(api)
		c.W.Event("validate", M{"ri": ri, "ok": ok, "section": section, "missing_reg": trace.BB(missReg),
			"missing_spec": trace.BB(missSpec), "panic": panicked})
		if ok {
			passed = true
		} else {
			failed = true
		}
		return ok
	}
	// serving consequence: well-formed requests to every operation of a validated API - every declared Content-Type x
	// Accept, and for secured operations one request per alternative carrying valid credentials for exactly that alternative
	serveAll := func(api *untyped.API, ri int, full bool) {
		var h http.Handler
		if full {
			h = middleware.Serve(doc, api) // the full API handler (spec + docs + routes)
		} else {
			h = middleware.NewContext(doc, api, nil).RoutesHandler(nil)
		}
		for oi, o := range d.Ops {
			ctypes := []string{""}
			if o.Body {
				ctypes = d.consumesFor(o)
				if len(ctypes) == 0 {
					ctypes = []string{""}
				} else {
					// a request may spell the media type in any letter case
					for _, ct := range d.consumesFor(o) {
						if v := caseVariant(ct); v != ct {
							ctypes = append(ctypes, v)
						}
					}
				}
			}
			accepts := append([]string{""}, d.producesFor(o)...)
			alts := d.securityFor(o)
			altIdx := []int{0}
			if len(alts) > 0 {
				altIdx = altIdx[:0]
				for i := range alts {
					altIdx = append(altIdx, i+1)
				}
			}
			// besides no Accept and each declared type alone: an UNdeclared type listed first, a declared one after it with lower q
			type acc struct{ first, ac string }
			var accs []acc
			for _, ac := range accepts {
				accs = append(accs, acc{"", ac})
				if ac == "" {
					continue
				}
				for _, f := range []string{jsonMime, "text/javascript"} {
					if !contains(d.producesFor(o), f) {
						accs = append(accs, acc{f, ac})
						break
					}
				}
			}
			for _, ct := range ctypes {
				for _, ac := range accs {
					for _, ai := range altIdx {
						var creds []string
						if ai > 0 {
							creds = alts[ai-1]
						}
						ran = 0
						hdr := ac.ac
						if ac.first != "" {
							hdr = ac.first + ", " + ac.ac + ";q=0.8"
						}
						status, body, pmsg := serve(h, o, ct, hdr, creds)
						c.W.Event("serve", M{"ri": ri, "op": oi + 1, "ctype": trace.B(ct), "accept": trace.B(ac.ac), "accept_first": trace.B(ac.first),
							"alt": ai, "status": status, "ran": ran, "class": classify(status, body, pmsg, ran)})
					}
				}
			}
		}
	}
	for ri, rg := range regs {
		api := untyped.NewAPI(doc)
		if !rg.JSON {
			api.WithoutJSONDefaults()
		}
		for _, m := range rg.Consumers {
			api.RegisterConsumer(m, consumer(m))
		}
		for _, m := range rg.Producers {
			api.RegisterProducer(m, producer(m))
		}
		for _, o := range rg.Ops {
			api.RegisterOperation(o.Method, o.Path, handler)
		}
		for _, a := range rg.Auths {
			api.RegisterAuth(a, credAuth(a))
		}
		if check(api, ri+1) {
			serveAll(api, ri+1, ri%8 == 0)
		}
	}
	if len(hist) > 0 {
		// one API value over time
		api := untyped.NewAPI(doc)
		lastOK := false
		for _, st := range hist {
			if st.Act == "Validate" {
				lastOK = check(api, 0)
				continue
			}
			panicked := false
			func() {
				defer func() {
					if e := recover(); e != nil {
						panicked = true
					}
				}()
				switch st.Act {
				case "RegisterConsumer":
					api.RegisterConsumer(st.Arg, consumer(st.Arg))
				case "RegisterProducer":
					api.RegisterProducer(st.Arg, producer(st.Arg))
				case "RegisterOperation":
					api.RegisterOperation(st.Arg, st.Arg2, handler)
				case "RegisterAuth":
					api.RegisterAuth(st.Arg, credAuth(st.Arg))
				case "WithJSONDefaults":
					api.WithJSONDefaults()
				case "WithoutJSONDefaults":
					api.WithoutJSONDefaults()
				default:
					panic("c19: unknown step " + st.Act)
				}
			}()
			c.W.Event("do", M{"act": st.Act, "arg": trace.B(st.Arg), "arg2": trace.B(st.Arg2), "panic": panicked})
			lastOK = false
		}
		if lastOK {
			serveAll(api, 0, false)
		}
	}
	return passed && failed
}

func validate(api *untyped.API) (ok bool, section string, missReg, missSpec []string, panicked bool) {
	defer func() {
		if e := recover(); e != nil {
			ok, section, missReg, missSpec, panicked = false, "panic", []string{}, []string{}, true
		}
	}()
	err := api.Validate()
	if err == nil {
		return true, "", []string{}, []string{}, false
	}
	if v, isV := err.(*errors.APIVerificationFailed); isV {
		return false, v.Section, trace.S(v.MissingRegistration), trace.S(v.MissingSpecification), false
	}
	return false, "other-error", []string{}, []string{}, false
}

func serve(h http.Handler, o Op, ctype, accept string, creds []string) (status int, body string, panicMsg string) {
	var rd io.Reader
	if o.Body && ctype != "" {
		rd = strings.NewReader(`{"a":1}`)
	}
	req := httptest.NewRequest(strings.ToUpper(o.Method), o.Path, rd)
	if rd != nil {
		req.Header.Set("Content-Type", ctype)
	}
	if accept != "" {
		req.Header.Set("Accept", accept)
	}
	for _, n := range creds {
		req.Header.Set("X-Cred-"+n, "ok")
	}
	w := httptest.NewRecorder()
	func() {
		defer func() {
			if e := recover(); e != nil {
				panicMsg = fmt.Sprint(e)
				if panicMsg == "" {
					panicMsg = "panic"
				}
			}
		}()
		h.ServeHTTP(w, req)
	}()
	return w.Code, w.Body.String(), panicMsg
}

// classify maps the observable answer to the failure classes of the specification.
func classify(status int, body, panicMsg string, ran int) string {
	switch {
	case panicMsg != "" && strings.Contains(panicMsg, "producer"):
		return "no-producer"
	case panicMsg != "":
		return "panic"
	case status == 500 && strings.Contains(body, "no consumer registered"):
		return "no-consumer"
	case status == 500 && (strings.Contains(body, "producer") || strings.Contains(body, "can't produce")):
		return "no-producer"
	case status == 404 || status == 405:
		return "no-handler"
	case status == 401:
		return "no-authenticator"
	case status >= 200 && status < 300 && ran == 1:
		return "ok"
	}
	return fmt.Sprintf("other-%d", status)
}
