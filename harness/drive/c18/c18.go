// Package c18 drives client.TLSClientAuth / TLSTransport / TLSClient over the full option lattice
// with freshly generated key material, and runs real handshakes against in-process tls servers.
package c18

import (
	"crypto"
	"crypto/ecdsa"
	"crypto/ed25519"
	"crypto/elliptic"
	"crypto/rand"
	"crypto/rsa"
	"crypto/tls"
	"crypto/x509"
	"crypto/x509/pkix"
	"encoding/pem"
	"fmt"
	"math/big"
	"net"
	"net/http"
	"os"
	"path/filepath"
	"reflect"
	"sort"
	"strings"
	"sync"
	"time"
	"unsafe"

	"github.com/go-openapi/runtime/client"

	"verifharness/internal/drv"
)

type M = drv.M

func init() {
	drv.Register(&drv.Driver{Name: "c18", Generate: generate, Execute: execute})
}

const serverName = "verif.test"

// the concrete server-name overrides: a host name and IP literals (the override is carried whatever it is)
var serverNames = map[string]string{"dns": serverName, "ipv4": "127.0.0.1", "ipv6": "::1"}

func serverNameKind(v string) string {
	if v == "" {
		return "none"
	}
	for k, n := range serverNames {
		if n == v {
			return k
		}
	}
	return "foreign"
}

// ---- key material (fresh per run) -----------------------------------------------

type pair struct {
	cert *x509.Certificate
	key  crypto.Signer
	der  []byte
}

type material struct {
	dir               string
	ca                map[string]pair // ca1, ca2
	leaf              map[string]pair // rsa, ec  (client certificates, issued by ca1)
	otherRSA, otherEC crypto.Signer
	edKey             ed25519.PrivateKey
	files             map[string]string // slot value -> path
	servers           map[string]*tls.Config
	caBySubject       map[string]string
}

var (
	matOnce sync.Once
	mat     *material
)

func must(err error) {
	if err != nil {
		panic(err)
	}
}

var serial int64 = 1000

func issue(tmpl *x509.Certificate, pub crypto.PublicKey, parent *x509.Certificate, signer crypto.Signer) (*x509.Certificate, []byte) {
	serial++
	tmpl.SerialNumber = big.NewInt(serial)
	tmpl.NotBefore = time.Now().Add(-time.Hour)
	tmpl.NotAfter = time.Now().Add(24 * time.Hour)
	if parent == nil {
		parent = tmpl
	}
	der, err := x509.CreateCertificate(rand.Reader, tmpl, parent, pub, signer)
	must(err)
	c, err := x509.ParseCertificate(der)
	must(err)
	return c, der
}

func pemFile(dir, name, typ string, der []byte) string {
	p := filepath.Join(dir, name)
	must(os.WriteFile(p, pem.EncodeToMemory(&pem.Block{Type: typ, Bytes: der}), 0o600))
	return p
}

func newMaterial() *material {
	base := os.Getenv("VERIF_SCRATCH")
	if base == "" {
		base = os.TempDir()
	}
	dir, err := os.MkdirTemp(base, "c18-keys-")
	must(err)
	m := &material{dir: dir, ca: map[string]pair{}, leaf: map[string]pair{}, files: map[string]string{}, servers: map[string]*tls.Config{},
		caBySubject: map[string]string{}}
	for _, id := range []string{"ca1", "ca2"} {
		k, err := ecdsa.GenerateKey(elliptic.P256(), rand.Reader)
		must(err)
		c, der := issue(&x509.Certificate{Subject: pkix.Name{CommonName: "verif " + id, Organization: []string{"verif"}}, IsCA: true,
			BasicConstraintsValid: true, KeyUsage: x509.KeyUsageCertSign | x509.KeyUsageDigitalSignature}, k.Public(), nil, k)
		m.ca[id] = pair{cert: c, key: k, der: der}
		m.caBySubject[string(c.RawSubject)] = id
		m.files["ca:"+id] = pemFile(dir, id+".pem", "CERTIFICATE", der)
	}
	ca1 := m.ca["ca1"]
	rk, err := rsa.GenerateKey(rand.Reader, 2048)
	must(err)
	ek, err := ecdsa.GenerateKey(elliptic.P256(), rand.Reader)
	must(err)
	for id, k := range map[string]crypto.Signer{"rsa": rk, "ec": ek} {
		c, der := issue(&x509.Certificate{Subject: pkix.Name{CommonName: "client " + id}, KeyUsage: x509.KeyUsageDigitalSignature,
			ExtKeyUsage: []x509.ExtKeyUsage{x509.ExtKeyUsageClientAuth}}, k.Public(), ca1.cert, ca1.key)
		m.leaf[id] = pair{cert: c, key: k, der: der}
		m.files["cert:"+id] = pemFile(dir, "client-"+id+".pem", "CERTIFICATE", der)
	}
	m.files["key:rsa"] = pemFile(dir, "client-rsa.key", "RSA PRIVATE KEY", x509.MarshalPKCS1PrivateKey(rk))
	eb, err := x509.MarshalECPrivateKey(ek)
	must(err)
	m.files["key:ec"] = pemFile(dir, "client-ec.key", "EC PRIVATE KEY", eb)
	ork, err := rsa.GenerateKey(rand.Reader, 2048)
	must(err)
	m.otherRSA = ork
	m.files["key:other"] = pemFile(dir, "other-rsa.key", "RSA PRIVATE KEY", x509.MarshalPKCS1PrivateKey(ork))
	oek, err := ecdsa.GenerateKey(elliptic.P256(), rand.Reader)
	must(err)
	m.otherEC = oek
	_, edk, err := ed25519.GenerateKey(rand.Reader)
	must(err)
	m.edKey = edk
	garbage := filepath.Join(dir, "garbage.pem")
	must(os.WriteFile(garbage, []byte("-----BEGIN NOTHING-----\nthis is not PEM material\n"), 0o600))
	for _, slot := range []string{"cert", "key", "ca"} {
		m.files[slot+":garbage"] = garbage
		m.files[slot+":unreadable"] = filepath.Join(dir, "does-not-exist-"+slot+".pem")
	}

	// servers
	mk := func(caID, name string) tls.Certificate {
		k, err := ecdsa.GenerateKey(elliptic.P256(), rand.Reader)
		must(err)
		ca := m.ca[caID]
		ips := []net.IP{net.ParseIP("127.0.0.1"), net.ParseIP("::1")} // the right servers answer to every override used
		if name != serverName {
			ips = []net.IP{net.ParseIP("10.9.9.9")}
		}
		_, der := issue(&x509.Certificate{Subject: pkix.Name{CommonName: name}, DNSNames: []string{name}, IPAddresses: ips,
			KeyUsage: x509.KeyUsageDigitalSignature, ExtKeyUsage: []x509.ExtKeyUsage{x509.ExtKeyUsageServerAuth}}, k.Public(), ca.cert, ca.key)
		return tls.Certificate{Certificate: [][]byte{der}, PrivateKey: k}
	}
	clientCAs := x509.NewCertPool()
	clientCAs.AddCert(ca1.cert)
	m.servers["A"] = &tls.Config{Certificates: []tls.Certificate{mk("ca1", serverName)}}
	m.servers["B"] = &tls.Config{Certificates: []tls.Certificate{mk("ca2", serverName)}}
	m.servers["C"] = &tls.Config{Certificates: []tls.Certificate{mk("ca1", "other.test")}}
	m.servers["D"] = &tls.Config{Certificates: []tls.Certificate{mk("ca1", serverName)}, ClientAuth: tls.RequireAndVerifyClientCert, ClientCAs: clientCAs}
	m.servers["E"] = &tls.Config{Certificates: []tls.Certificate{mk("ca1", serverName)}, MinVersion: tls.VersionTLS10, MaxVersion: tls.VersionTLS11}
	return m
}

func getMaterial() *material {
	matOnce.Do(func() { mat = newMaterial() })
	return mat
}

// ---- rendering of one lattice point ----------------------------------------------

type opts struct {
	certFile, certLoaded, keyFile, keyLoaded, caFile, caLoaded, caPool string
	serverName                                                         string // none | dns | ipv4 | ipv6
	insecure, callback, tickets, cache                                 bool
}

func optsOf(d M) opts {
	o := drv.Map(d["opts"])
	return opts{certFile: drv.Str(o["certFile"]), certLoaded: drv.Str(o["certLoaded"]), keyFile: drv.Str(o["keyFile"]),
		keyLoaded: drv.Str(o["keyLoaded"]), caFile: drv.Str(o["caFile"]), caLoaded: drv.Str(o["caLoaded"]), caPool: drv.Str(o["caPool"]),
		serverName: drv.Str(o["serverName"]), insecure: drv.Bool(o["insecure"]), callback: drv.Bool(o["callback"]),
		tickets: drv.Bool(o["ticketsDisabled"]), cache: drv.Bool(o["cache"])}
}

type cbState struct {
	mu    sync.Mutex
	calls int
}

func (o opts) render(m *material, cb *cbState, cache tls.ClientSessionCache) client.TLSClientOptions {
	var t client.TLSClientOptions
	if o.certFile != "none" {
		t.Certificate = m.files["cert:"+o.certFile]
	}
	if o.certLoaded != "none" {
		t.LoadedCertificate = m.leaf[o.certLoaded].cert
	}
	if o.keyFile != "none" {
		t.Key = m.files["key:"+o.keyFile]
	}
	switch o.keyLoaded {
	case "rsa", "ec":
		t.LoadedKey = m.leaf[o.keyLoaded].key
	case "other_rsa":
		t.LoadedKey = m.otherRSA
	case "other_ec":
		t.LoadedKey = m.otherEC
	case "ed25519":
		t.LoadedKey = m.edKey
	}
	if o.caFile != "none" {
		t.CA = m.files["ca:"+o.caFile]
	}
	if o.caLoaded != "none" {
		t.LoadedCA = m.ca[o.caLoaded].cert
	}
	if o.caPool != "none" {
		p := x509.NewCertPool() // a fresh pool per call: TLSClientAuth may add to it
		if o.caPool != "empty" { // "empty": a supplied pool without any certificate (trust nothing)
			p.AddCert(m.ca[o.caPool].cert)
		}
		t.LoadedCAPool = p
	}
	if o.serverName != "none" {
		t.ServerName = serverNames[o.serverName]
	}
	t.InsecureSkipVerify = o.insecure
	if o.callback {
		t.VerifyPeerCertificate = func([][]byte, [][]*x509.Certificate) error {
			cb.mu.Lock()
			cb.calls++
			cb.mu.Unlock()
			return nil
		}
	}
	t.SessionTicketsDisabled = o.tickets
	if o.cache {
		t.ClientSessionCache = cache
	}
	return t
}

// project logs the observable fields of a *tls.Config in abstract form.
func project(m *material, cfg *tls.Config, err error, o opts, cb *cbState, cache tls.ClientSessionCache) M {
	p := M{"err": err != nil, "err_stage": "", "min_version": 0, "skip_verify": false, "server_name": "none", "selected_cert": "none", "selection_err": false,
		"system": false, "roots": []string{}, "client_cert": "none", "n_certs": 0, "key_matches": false,
		"callback_set": false, "callback_same": false, "tickets": false, "cache_set": false, "cache_same": false, "nil_cfg": cfg == nil}
	if err != nil {
		switch {
		case strings.HasPrefix(err.Error(), "tls client cert:"):
			p["err_stage"] = "cert"
		case strings.HasPrefix(err.Error(), "tls client priv key:"):
			p["err_stage"] = "key"
		case strings.HasPrefix(err.Error(), "tls client ca:"):
			p["err_stage"] = "ca"
		default:
			p["err_stage"] = "other"
		}
		return p
	}
	if cfg == nil {
		return p
	}
	p["min_version"] = int(cfg.MinVersion)
	p["skip_verify"] = cfg.InsecureSkipVerify
	p["server_name"] = serverNameKind(cfg.ServerName)
	p["selected_cert"], p["selection_err"] = selectedCert(m, cfg)
	if cfg.RootCAs == nil {
		p["system"] = true
	} else {
		roots := []string{}
		for _, s := range cfg.RootCAs.Subjects() { //nolint:staticcheck // the pools here are never the system pool
			id, ok := m.caBySubject[string(s)]
			if !ok {
				id = "foreign"
			}
			roots = append(roots, id)
		}
		sort.Strings(roots)
		p["roots"] = roots
	}
	p["n_certs"] = len(cfg.Certificates)
	if len(cfg.Certificates) > 0 {
		c := cfg.Certificates[0]
		id := "foreign"
		if len(c.Certificate) > 0 {
			if leaf, err := x509.ParseCertificate(c.Certificate[0]); err == nil {
				for k, l := range m.leaf {
					if l.cert.SerialNumber.Cmp(leaf.SerialNumber) == 0 {
						id = k
					}
				}
				if s, ok := c.PrivateKey.(crypto.Signer); ok {
					type eq interface{ Equal(crypto.PublicKey) bool }
					if e, ok := s.Public().(eq); ok {
						p["key_matches"] = e.Equal(leaf.PublicKey)
					}
				}
			}
		}
		p["client_cert"] = id
	}
	p["callback_set"] = cfg.VerifyPeerCertificate != nil
	if cfg.VerifyPeerCertificate != nil {
		cb.mu.Lock()
		before := cb.calls
		cb.mu.Unlock()
		_ = cfg.VerifyPeerCertificate(nil, nil)
		cb.mu.Lock()
		p["callback_same"] = cb.calls == before+1
		cb.mu.Unlock()
	}
	p["tickets"] = cfg.SessionTicketsDisabled
	p["cache_set"] = cfg.ClientSessionCache != nil
	p["cache_same"] = cfg.ClientSessionCache != nil && cfg.ClientSessionCache == cache
	return p
}

// certID names a certificate chain by the serial of its leaf.
func certID(m *material, chain [][]byte) string {
	if len(chain) == 0 {
		return "none"
	}
	leaf, err := x509.ParseCertificate(chain[0])
	if err != nil {
		return "foreign"
	}
	for k, l := range m.leaf {
		if l.cert.SerialNumber.Cmp(leaf.SerialNumber) == 0 {
			return k
		}
	}
	return "foreign"
}

// selectedCert is what the configuration would present by crypto/tls's own selection: GetClientCertificate when set,
// else the first of Certificates.
func selectedCert(m *material, cfg *tls.Config) (id string, failed bool) {
	if cfg.GetClientCertificate != nil {
		c, err := cfg.GetClientCertificate(&tls.CertificateRequestInfo{Version: tls.VersionTLS13,
			SignatureSchemes: []tls.SignatureScheme{tls.ECDSAWithP256AndSHA256, tls.PSSWithSHA256, tls.PKCS1WithSHA256}})
		if err != nil || c == nil {
			return "none", true
		}
		return certID(m, c.Certificate), false
	}
	if len(cfg.Certificates) > 0 {
		return certID(m, cfg.Certificates[0].Certificate), false
	}
	return "none", false
}

// wrappedTransport reads the round tripper a KeepAliveTransport wraps (unexported field `wrapped`).
func wrappedTransport(rt http.RoundTripper) *http.Transport {
	v := reflect.ValueOf(rt)
	if v.Kind() != reflect.Ptr || v.IsNil() || v.Elem().Kind() != reflect.Struct {
		return nil
	}
	f := v.Elem().FieldByName("wrapped")
	if !f.IsValid() || !f.CanAddr() {
		return nil
	}
	inner, _ := reflect.NewAt(f.Type(), unsafe.Pointer(f.UnsafeAddr())).Elem().Interface().(http.RoundTripper)
	tr, _ := inner.(*http.Transport)
	return tr
}

// throughReuseSame: the configuration in effect once the transport built from the options goes through
// client.KeepAliveTransport and through Runtime.EnableConnectionReuse (both ways a Runtime can hold it) is unchanged.
func throughReuseSame(m *material, o opts, cb *cbState, cache tls.ClientSessionCache, want M) (same bool) {
	defer func() {
		if r := recover(); r != nil {
			same = false
		}
	}()
	proj := func(tr *http.Transport) M {
		var c2 *tls.Config
		if tr != nil {
			c2 = tr.TLSClientConfig
		}
		p := project(m, c2, nil, o, cb, cache)
		p["panic"] = false
		return p
	}
	// (a) KeepAliveTransport(TLSTransport(opts))
	tr, err := client.TLSTransport(o.render(m, cb, cache))
	if err != nil {
		return false
	}
	if !sameProjection(want, proj(wrappedTransport(client.KeepAliveTransport(tr)))) {
		return false
	}
	// (b) NewWithClient(TLSClient(opts)).EnableConnectionReuse()
	hc, err := client.TLSClient(o.render(m, cb, cache))
	if err != nil {
		return false
	}
	rt := client.NewWithClient("verif.test", "/", []string{"https"}, hc)
	rt.EnableConnectionReuse()
	if !sameProjection(want, proj(wrappedTransport(hc.Transport))) {
		return false
	}
	// (c) New(...).Transport = TLSTransport(opts); EnableConnectionReuse()
	tr2, err := client.TLSTransport(o.render(m, cb, cache))
	if err != nil {
		return false
	}
	rt2 := client.New("verif.test", "/", []string{"https"})
	rt2.Transport = tr2
	rt2.EnableConnectionReuse()
	return sameProjection(want, proj(wrappedTransport(rt2.Transport)))
}

func sameProjection(a, b M) bool {
	return fmt.Sprint(a) == fmt.Sprint(b)
}

// handshake runs a real TLS handshake between cfg (client) and the named in-process server over a pipe.
func handshake(m *material, cfg *tls.Config, name string, cb *cbState) M {
	c2 := cfg.Clone()
	if c2.ServerName == "" {
		c2.ServerName = serverName // what http.Transport derives from the dialled host
	}
	srvCfg := m.servers[name].Clone()
	cc, sc := net.Pipe()
	deadline := time.Now().Add(20 * time.Second)
	_ = cc.SetDeadline(deadline)
	_ = sc.SetDeadline(deadline)
	presented := make(chan string, 1)
	go func() {
		defer sc.Close()
		s := tls.Server(sc, srvCfg)
		if err := s.Handshake(); err != nil {
			presented <- "none"
			return
		}
		id := "none"
		if pcs := s.ConnectionState().PeerCertificates; len(pcs) > 0 {
			id = "foreign"
			for k, l := range m.leaf {
				if l.cert.SerialNumber.Cmp(pcs[0].SerialNumber) == 0 {
					id = k
				}
			}
		}
		_, _ = s.Write([]byte("ok"))
		presented <- id
	}()
	cb.mu.Lock()
	before := cb.calls
	cb.mu.Unlock()
	cl := tls.Client(cc, c2)
	ok := false
	version := 0
	if err := cl.Handshake(); err == nil {
		buf := make([]byte, 2)
		if n, _ := cl.Read(buf); n == 2 && string(buf) == "ok" { // TLS 1.3: a rejected client certificate shows on the first read
			ok = true
			version = int(cl.ConnectionState().Version)
		}
	}
	cc.Close()
	pres := <-presented
	if !ok {
		pres = "none"
	}
	cb.mu.Lock()
	called := cb.calls > before
	cb.mu.Unlock()
	return M{"server": name, "ok": ok, "version": version, "presented": pres, "callback_called": called}
}

func execute(c *drv.Ctx, d M) bool {
	if drv.Str(d["kind"]) == "rotate" {
		return execRotate(c, d)
	}
	m := getMaterial()
	o := optsOf(d)
	cb := &cbState{}
	cache := tls.NewLRUClientSessionCache(4)
	var (
		cfg      *tls.Config
		err      error
		panicked bool
	)
	func() {
		defer func() {
			if r := recover(); r != nil {
				panicked = true
			}
		}()
		cfg, err = client.TLSClientAuth(o.render(m, cb, cache))
	}()
	p := project(m, cfg, err, o, cb, cache)
	p["panic"] = panicked
	// the wrappers must yield the same configuration
	wrappers := true
	func() {
		defer func() {
			if r := recover(); r != nil {
				wrappers = false
			}
		}()
		tr, terr := client.TLSTransport(o.render(m, cb, cache))
		var tcfg *tls.Config
		if ht, ok := tr.(*http.Transport); ok && ht != nil {
			tcfg = ht.TLSClientConfig
		}
		pt := project(m, tcfg, terr, o, cb, cache)
		pt["panic"] = panicked
		hc, cerr := client.TLSClient(o.render(m, cb, cache))
		var ccfg *tls.Config
		if hc != nil {
			if ht, ok := hc.Transport.(*http.Transport); ok && ht != nil {
				ccfg = ht.TLSClientConfig
			}
		}
		pc := project(m, ccfg, cerr, o, cb, cache)
		pc["panic"] = panicked
		wrappers = sameProjection(p, pt) && sameProjection(p, pc)
	}()
	reuseSame := err != nil || cfg == nil || panicked || throughReuseSame(m, o, cb, cache, p)
	p["wrappers_same"] = wrappers
	p["reuse_same"] = reuseSame
	c.W.Event("config", p)
	if drv.Bool(d["handshake"]) && err == nil && cfg != nil && !panicked {
		for _, name := range []string{"A", "B", "C", "D", "E"} {
			c.W.Event("handshake", handshake(m, cfg, name, cb))
		}
	}
	return o.certFile != "none" || o.certLoaded != "none" || o.caFile != "none" || o.caLoaded != "none" || o.caPool != "none" || o.serverName != "none" || o.insecure
}

// ---- generation -------------------------------------------------------------------

var (
	certFiles   = []string{"none", "rsa", "ec", "unreadable", "garbage"}
	certLoadeds = []string{"none", "rsa", "ec"}
	keyFiles    = []string{"none", "rsa", "ec", "other", "unreadable", "garbage"}
	keyLoadeds  = []string{"none", "rsa", "ec", "other_rsa", "other_ec", "ed25519"}
	caFiles     = []string{"none", "ca1", "ca2", "unreadable", "garbage"}
	caLoadeds   = []string{"none", "ca1", "ca2"}
	caPools     = []string{"none", "ca1", "ca2", "empty"}
)

func generate(c *drv.Ctx) {
	thorough := c.Tier == "thorough"
	defer func() {
		if mat != nil {
			os.RemoveAll(mat.dir)
		}
	}()
	idx := 0
	nhs := 0
	emit := func(o opts, hs bool) {
		c.Case(M{"kind": "point", "opts": M{"certFile": o.certFile, "certLoaded": o.certLoaded, "keyFile": o.keyFile, "keyLoaded": o.keyLoaded,
			"caFile": o.caFile, "caLoaded": o.caLoaded, "caPool": o.caPool, "serverName": o.serverName, "insecure": o.insecure,
			"callback": o.callback, "ticketsDisabled": o.tickets, "cache": o.cache}, "handshake": hs})
		if hs {
			nhs++
		}
	}
	bools := []bool{false, true}
	// (1) the full material lattice x serverName x insecure; callback/session flags rotate (quick) or are crossed (thorough)
	for _, cf := range certFiles {
		for _, cl := range certLoadeds {
			for _, kf := range keyFiles {
				for _, kl := range keyLoadeds {
					for _, af := range caFiles {
						for _, al := range caLoadeds {
							for _, ap := range caPools {
								names := []string{"none", []string{"dns", "ipv4", "ipv6"}[idx%3]} // quick: the kind of override rotates
								if thorough {
									names = []string{"none", "dns", "ipv4", "ipv6"}
								}
								for _, sn := range names {
									for _, ins := range bools {
										o := opts{certFile: cf, certLoaded: cl, keyFile: kf, keyLoaded: kl, caFile: af, caLoaded: al, caPool: ap,
											serverName: sn, insecure: ins}
										// handshakes on the security-relevant subset: usable client material only in its plain
										// combinations (the key slots that are ignored do not multiply the handshakes)
										plainKeys := (kf == "none" || kf == cf) && (kl == "none" || kl == cl)
										hs := plainKeys && (thorough || idx%3 == 0)
										if thorough {
											for f := 0; f < 8; f++ {
												o.callback, o.tickets, o.cache = f&1 != 0, f&2 != 0, f&4 != 0
												emit(o, hs && f == idx%8)
											}
										} else {
											f := idx % 8
											o.callback, o.tickets, o.cache = f&1 != 0, f&2 != 0, f&4 != 0
											emit(o, hs)
										}
										idx++
									}
								}
							}
						}
					}
				}
			}
		}
	}
	// (2) all 32 flag combinations on a core sub-lattice, with handshakes
	for _, cf := range []string{"none", "rsa"} {
		for _, cl := range []string{"none", "ec"} {
			for _, af := range []string{"none", "ca1", "garbage"} {
				for _, al := range []string{"none", "ca2"} {
					for _, ap := range []string{"none", "ca1", "empty"} {
						for f := 0; f < 32; f++ {
							o := opts{certFile: cf, certLoaded: cl, caFile: af, caLoaded: al, caPool: ap,
								serverName: []string{"none", []string{"dns", "ipv4", "ipv6"}[f%3]}[f&1], insecure: f&2 != 0, callback: f&4 != 0, tickets: f&8 != 0, cache: f&16 != 0}
							if cf != "none" {
								o.keyFile = cf
							}
							if cl != "none" {
								o.keyLoaded = cl
							}
							if o.keyFile == "" {
								o.keyFile = "none"
							}
							if o.keyLoaded == "" {
								o.keyLoaded = "none"
							}
							emit(o, true)
						}
					}
				}
			}
		}
	}
	c.Extra["handshake_cases"] = nhs
	generateRotate(c, thorough)
	c.Extra["lattice_points"] = idx
}
