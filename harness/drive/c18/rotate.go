package c18

import (
	"crypto/tls"
	"fmt"
	"os"
	"path/filepath"
	"sync/atomic"

	"github.com/go-openapi/runtime/client"

	"verifharness/internal/drv"
)

var rotSeq int64

func copyFile(dst, src string) {
	b, err := os.ReadFile(src)
	must(err)
	must(os.WriteFile(dst, b, 0o600))
}

// execRotate: a configuration is built (from certificate/key FILES copied for this case, or from loaded material),
// a handshake with the server that requires a client certificate is run, then the files are replaced by another
// valid pair / half rotated / removed, and NEW handshakes are run with the same configuration (and with a clone):
// the certificate presented must still be the one supplied at configuration time.
func execRotate(c *drv.Ctx, d M) bool {
	m := getMaterial()
	o := optsOf(d)
	mutation := drv.Str(d["mutation"])
	dir := filepath.Join(m.dir, fmt.Sprintf("rot-%d", atomic.AddInt64(&rotSeq, 1)))
	must(os.MkdirAll(dir, 0o700))
	defer os.RemoveAll(dir)
	cb := &cbState{}
	cache := tls.NewLRUClientSessionCache(4)
	t := o.render(m, cb, cache)
	certPath, keyPath := filepath.Join(dir, "client.pem"), filepath.Join(dir, "client.key")
	id := o.certFile
	if id == "none" {
		id = o.certLoaded
	}
	copyFile(certPath, m.files["cert:"+id])
	copyFile(keyPath, m.files["key:"+id])
	if o.certFile != "none" {
		t.Certificate, t.Key = certPath, keyPath
	}
	var cfg *tls.Config
	var err error
	panicked := false
	func() {
		defer func() {
			if r := recover(); r != nil {
				panicked = true
			}
		}()
		cfg, err = client.TLSClientAuth(t)
	}()
	if err != nil || cfg == nil || panicked {
		c.W.Event("rot_hs", M{"phase": 0, "ok": false, "presented": "none", "selected": "none", "selection_err": false, "cloned": false, "panic": panicked})
		return true
	}
	shake := func(phase int, cf *tls.Config, cloned bool) {
		sel, serr := selectedCert(m, cf)
		h := handshake(m, cf, "D", cb)
		c.W.Event("rot_hs", M{"phase": phase, "ok": h["ok"], "presented": h["presented"], "selected": sel, "selection_err": serr,
			"cloned": cloned, "panic": false})
	}
	shake(1, cfg, false)
	other := "ec"
	if id == "ec" {
		other = "rsa"
	}
	switch mutation {
	case "replace":
		copyFile(certPath, m.files["cert:"+other])
		copyFile(keyPath, m.files["key:"+other])
	case "half":
		copyFile(certPath, m.files["cert:"+other])
	case "remove":
		os.Remove(certPath)
		os.Remove(keyPath)
	}
	c.W.Event("rot_mutate", M{"mutation": mutation})
	shake(2, cfg, false)
	shake(2, cfg.Clone(), true) // what http.Transport does with TLSClientConfig
	return true
}

func generateRotate(c *drv.Ctx, thorough bool) {
	n := 0
	for _, id := range []string{"rsa", "ec"} {
		for _, src := range []string{"files", "loaded"} {
			for _, mut := range []string{"none", "replace", "half", "remove"} {
				for _, sn := range []string{"none", "dns", "ipv4", "ipv6"} {
					for _, ca := range []string{"loaded", "file", "pool"} {
						o := M{"certFile": "none", "certLoaded": "none", "keyFile": "none", "keyLoaded": "none", "caFile": "none", "caLoaded": "none",
							"caPool": "none", "serverName": sn, "insecure": false, "callback": n%2 == 0, "ticketsDisabled": false, "cache": n%3 == 0}
						if src == "files" {
							o["certFile"], o["keyFile"] = id, id
						} else {
							o["certLoaded"], o["keyLoaded"] = id, id
						}
						switch ca {
						case "loaded":
							o["caLoaded"] = "ca1"
						case "file":
							o["caFile"] = "ca1"
						default:
							o["caPool"] = "ca1"
						}
						c.Case(M{"kind": "rotate", "opts": o, "mutation": mut})
						n++
					}
				}
			}
		}
	}
	c.Extra["rotate_cases"] = n
}
