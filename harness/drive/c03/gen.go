package c03

import (
	"math/big"
	"math/rand"
	"strconv"
	"strings"

	"verifharness/internal/drv"
)

// ---- literal pools ------------------------------------------------------------------------
// Integer boundary magnitudes are computed with math/big from (base 2^(n-1), offset -2..2).

func pow2(n int) *big.Int { return new(big.Int).Lsh(big.NewInt(1), uint(n)) }

func boundary(bits, off int, neg bool) string {
	v := new(big.Int).Add(pow2(bits-1), big.NewInt(int64(off)))
	if neg {
		v.Neg(v)
	}
	return v.String()
}

var intForms = []string{"5", "-5", "+5", "007", "0", "-0", "", "abc", "0x10", "1_0", "1e3", " 5", "5 ", "5.0", "+", "-", "--5", "5-", "٥"}

func intTexts(bits int) []string {
	out := append([]string{}, intForms...)
	for _, b := range []int{8, 16, 32, 64} {
		// the boundaries of every width are sent to every width
		for off := -2; off <= 2; off++ {
			out = append(out, boundary(b, off, false), boundary(b, off, true))
		}
	}
	p := boundary(bits, -1, false) // largest value
	n := boundary(bits, 0, true)   // smallest value
	out = append(out, "+"+p, "00"+p, "-00"+n[1:], "0x"+strconv.FormatInt(1<<uint(min(bits-1, 62))-1, 16), p[:1]+"_"+p[1:], p+"e0", " "+p, p+" ", p+".0",
		"18446744073709551616", "-18446744073709551617", "123456789012345678901234567890")
	return dedup(out)
}

func min(a, b int) int {
	if a < b {
		return a
	}
	return b
}

var floatTexts = []string{"1.5", "-2.5", "1e3", "1E-2", ".5", "5.", "0.1", "00.50", "+1.5", "-0", "0", "0.0", "", "abc", "1.5 ", " 1.5", "1_0.5", "0x1p-2", "Inf", "-inf", "+Infinity", "NaN", "nan",
	"1e39", "3.4e38", "3.5e38", "-3.5e38", "-3.4e38", "1e400", "-1e400", "1e-400", "123456789012345678", ".", "1e", "e5", "1.5e+2", "1.2.3", "100", "123456", "0.000001", "1e5000",
	"1e308", "1.7e308", "1.8e308", "1e309", "2.5E+10", "-.5e-3", "1,5", "1.5f", "0.1e", "+", "-", "1e+", "12345.6", "0.00123", "7"}

var boolTexts = []string{"true", "false", "TRUE", "True", "FALSE", "1", "0", "yes", "no", "maybe", "t", "f", "on", "off", "", " true", "enabled", "checked", "ok", "y", "n", "selected"}

var strTexts = []string{"abc", "", " a b ", "a,b", "a|b", "ab", "a", "a b\tc", "%41", "a+b", "a&b=c", "x=y", "\"q\"", "a;b", "caf\xc3\xa9", "\xff\xfe", "#frag", "?q", "\xc5\xba", "\xf0\x9f\x98\x80", "\xed\xa0\x80"}

// the format tables of specs/gen_parambind_tables.py (valid and invalid texts)
var formatTexts = map[string][]string{
	"date":      {"2020-01-31", "1999-12-31", "2024-02-29", "2020-02-30", "2020-1-1", "x", "2020-01-31T10:00:00Z", "20200131", " 2020-01-31", ""},
	"date-time": {"2020-01-31T10:00:00Z", "2020-01-31T10:00:00.123+02:00", "x", "2020-13-01T00:00:00Z", "10:00:00Z", ""},
	"byte":      {"aGVsbG8=", "AAEC", "!!", "aGVsbG8", "a", ""},
	"uuid":      {"a8098c1a-f86e-11da-bd1a-00112444be1e", "A8098C1A-F86E-11DA-BD1A-00112444BE1E", "x", "a8098c1a-f86e-11da-bd1a-00112444be1", "a8098c1a-f86e-11da-bd1a-00112444be1e ", ""},
	"password":  {"pw", "p w,1", "", "x"},
	// the application-defined format registered only on the API's registry (see SKU in c03.go)
	"sku": {"SKU-0002", "SKU-1234", "nope", "SKU-12", "sku-0002", "SKU-00021", "SKU-0002 ", "xSKU-0002", ""},
}

func isFormat(f string) bool { _, ok := formatTexts[f]; return ok }

func dedup(in []string) []string {
	seen := map[string]bool{}
	out := []string{}
	for _, s := range in {
		if !seen[s] {
			seen[s] = true
			out = append(out, s)
		}
	}
	return out
}

func bitsOf(format string) int {
	switch format {
	case "int8":
		return 8
	case "int16":
		return 16
	case "int32":
		return 32
	}
	return 64
}

func textsFor(tpe, format string) []string {
	switch tpe {
	case "integer":
		return intTexts(bitsOf(format))
	case "number":
		return floatTexts
	case "boolean":
		return boolTexts
	}
	if isFormat(format) {
		return formatTexts[format]
	}
	return strTexts
}

func goodText(tpe, format string) string {
	switch tpe {
	case "integer":
		return "5"
	case "number":
		return "1.5"
	case "boolean":
		return "true"
	}
	if isFormat(format) {
		return formatTexts[format][0]
	}
	return "ab"
}

func badText(tpe, format string) string {
	switch tpe {
	case "integer", "number":
		return "x"
	case "boolean":
		return "maybe"
	}
	switch format {
	case "date", "date-time", "uuid":
		return "x"
	case "byte":
		return "!!"
	case "sku":
		return "nope"
	}
	return "a,b"
}

// ---- declarations -----------------------------------------------------------------------------

type kind struct{ T, F string }

var scalarKinds = []kind{{"integer", ""}, {"integer", "int8"}, {"integer", "int16"}, {"integer", "int32"}, {"integer", "int64"},
	{"number", ""}, {"number", "float"}, {"number", "double"}, {"boolean", ""},
	{"string", ""}, {"string", "date"}, {"string", "date-time"}, {"string", "byte"}, {"string", "uuid"}, {"string", "password"}, {"string", "foo"}, {"string", "sku"}}

var itemKinds = []kind{{"string", ""}, {"integer", "int32"}, {"integer", "int64"}, {"integer", ""}, {"number", "double"}, {"number", "float"}, {"number", ""},
	{"boolean", ""}, {"string", "date"}, {"string", "uuid"}, {"string", "byte"}, {"string", "sku"}}

var cfs = []string{"", "csv", "ssv", "tsv", "pipes", "multi"}

type loc struct{ In, Enc string }

var locations = []loc{{"query", ""}, {"header", ""}, {"path", ""}, {"formData", "urlencoded"}, {"formData", "multipart"}}

var headerNames = []string{"X-Lim", "x-lim", "X-LIM", "X-lim"}

func declName(l loc) string {
	switch l.In {
	case "header":
		return "X-Lim"
	case "path":
		return "id"
	}
	return "lim"
}

func otherKeys(d Decl) []string {
	if d.In == "header" {
		return []string{"X-O"}
	}
	return []string{strings.ToUpper(d.Name), d.Name + "x"}
}

func spellings(d Decl) []string {
	if d.In == "header" {
		return headerNames
	}
	return []string{d.Name}
}

func noVal() Validation { return Validation{K: "none"} }

func valsFor(tpe, format string) []Validation {
	switch {
	case tpe == "integer":
		return []Validation{{K: "range", HasMin: true, Min: "3", HasMax: true, Max: "7"}, {K: "range", HasMin: true, Min: "5", EMin: true, HasMax: true, Max: "9", EMax: true},
			{K: "range", HasMin: true, Min: "-3"}, {K: "enum", Vals: []string{"5", "7"}}, {K: "enum", Vals: []string{"0", "-128"}}}
	case tpe == "number":
		return []Validation{{K: "range", HasMin: true, Min: "1", HasMax: true, Max: "7"}, {K: "range", HasMax: true, Max: "1.5", EMax: true}, {K: "enum", Vals: []string{"1.5", "7"}}}
	case tpe == "string" && !isFormat(format):
		return []Validation{{K: "len", HasMin: true, Min: "2", HasMax: true, Max: "3"}, {K: "len", HasMin: true, Min: "1"}, {K: "enum", Vals: []string{"ab", "abc"}}}
	}
	return nil
}

// defaultOK: the declared default ("5", "1.5", "ab", ...) satisfies the validation
func defaultOK(v Validation) bool {
	switch v.K {
	case "none":
		return true
	case "range":
		return !v.EMin && !(v.EMax && v.Max == "1.5")
	case "enum":
		return v.Vals[0] == "5" || v.Vals[0] == "1.5" || v.Vals[0] == "ab"
	case "len":
		return true
	}
	return false
}

// ---- requests -----------------------------------------------------------------------------------

func headerSafe(t string) bool {
	if t != strings.Trim(t, " \t") {
		return false
	}
	for i := 0; i < len(t); i++ {
		if (t[i] < 0x20 && t[i] != '\t') || t[i] == 0x7f {
			return false
		}
	}
	return true
}

func pathSafe(t string) bool { return t != "" && t != "." && t != ".." }

func usable(d Decl, t string) bool {
	switch d.In {
	case "header":
		return headerSafe(t)
	case "path":
		return pathSafe(t)
	}
	return true
}

func single(k, v string) Req { return Req{Pairs: []Pair{{K: k, V: v}}} }

// requestsFor builds the request list of one declaration: absent, every text once under the declared
// spelling, other spellings / other keys, repeated keys.
func requestsFor(d Decl, texts []string, few []string) []Req {
	var out []Req
	if d.In == "path" {
		for _, t := range texts {
			if usable(d, t) {
				out = append(out, Req{Seg: t})
			}
		}
		return out
	}
	out = append(out, Req{})
	for _, t := range texts {
		if usable(d, t) {
			out = append(out, single(d.Name, t))
		}
	}
	if d.In == "query" || d.Enc == "urlencoded" {
		out = append(out, Req{Pairs: []Pair{{K: d.Name, Bare: true}}})
	}
	keys := append(append([]string{}, spellings(d)...), otherKeys(d)...)
	for _, k := range keys {
		for _, t := range few {
			if usable(d, t) && k != d.Name {
				out = append(out, single(k, t))
			}
		}
	}
	for _, k1 := range spellings(d) {
		for _, k2 := range keys {
			if k1 != d.Name && k2 != d.Name {
				continue
			}
			for _, t1 := range few {
				for _, t2 := range few {
					if usable(d, t1) && usable(d, t2) {
						out = append(out, Req{Pairs: []Pair{{K: k1, V: t1}, {K: k2, V: t2}}})
					}
				}
			}
		}
	}
	return out
}

func sepOf(cf string) string {
	switch cf {
	case "ssv":
		return " "
	case "tsv":
		return "\t"
	case "pipes":
		return "|"
	}
	return ","
}

func arrayTexts(d Decl, its []string) []string {
	good, bad := goodText(d.IType, d.IFmt), badText(d.IType, d.IFmt)
	closed := isFormat(d.IFmt) && d.IFmt != "password"
	if closed && d.CF == "multi" {
		return dedup(its)
	}
	sep := sepOf(d.CF)
	out := append([]string{}, its...)
	for _, a := range its {
		for _, b := range []string{good, bad, ""} {
			out = append(out, a+sep+b)
		}
	}
	out = append(out, " "+good+sep+good+" ", " "+sep+good+" ", sep, good+sep+good+sep+good, good+sep+sep+good, good+sep+" "+good)
	if !closed {
		// a foreign separator; Unicode white space (NBSP, EM SPACE) around items is trimmed, U+200B and ill-formed bytes are not
		out = append(out, good+";"+good, "\xc2\xa0"+good+sep+good+"\xe2\x80\x83", "\xe2\x80\x8b"+good+sep+"\xa0"+good)
	}
	return dedup(out)
}

// ---- generation -------------------------------------------------------------------------------

type flags struct{ Req, Def, AE bool }

func allFlags(l loc, file bool) []flags {
	var out []flags
	for _, r := range []bool{false, true} {
		for _, df := range []bool{false, true} {
			for _, ae := range []bool{false, true} {
				if l.In == "path" && (!r || df) {
					continue
				}
				if file && (df || ae) {
					continue
				}
				out = append(out, flags{r, df, ae})
			}
		}
	}
	return out
}

func generate(c *drv.Ctx) {
	thorough := c.Tier == "thorough"
	nScalar, nArray, nVal := 0, 0, 0
	// (1) scalars of every type / width x location x required x default x allowEmpty x every literal
	for _, l := range locations {
		for _, k := range scalarKinds {
			for _, f := range allFlags(l, false) {
				names := []string{declName(l)}
				if l.In == "header" && !f.Def && !f.AE {
					names = headerNames // the declared name in every case
				}
				for _, nm := range names {
					d := Decl{In: l.In, Enc: l.Enc, Name: nm, Type: k.T, Format: k.F, Required: f.Req, HasDef: f.Def, AllowEmpty: f.AE, Val: noVal()}
					if f.Def {
						d.Def = []string{goodText(k.T, k.F)}
					}
					few := []string{goodText(k.T, k.F), badText(k.T, k.F), ""}
					c.Case(bindCase(d, requestsFor(d, textsFor(k.T, k.F), few)))
					nScalar++
				}
			}
		}
	}
	// (2) validations
	for _, l := range locations {
		for _, k := range scalarKinds {
			for _, v := range valsFor(k.T, k.F) {
				for _, f := range allFlags(l, false) {
					if f.Def && !defaultOK(v) {
						continue
					}
					if !thorough && f.AE {
						continue
					}
					d := Decl{In: l.In, Enc: l.Enc, Name: declName(l), Type: k.T, Format: k.F, Required: f.Req, HasDef: f.Def, AllowEmpty: f.AE, Val: v}
					if f.Def {
						d.Def = []string{goodText(k.T, k.F)}
					}
					texts := []string{"0", "2", "3", "4", "5", "6", "7", "8", "9", "10", "-3", "-4", "-128", "", "x"}
					switch k.T {
					case "number":
						texts = []string{"0", "0.5", "1", "1.5", "1.50", "2", "7", "7.0", "7.5", "-1", "1e0", "", "x"}
					case "string":
						// lengths are counted in characters: 1, 2, 4 characters, two invalid bytes (2), one 4-byte character, a surrogate (3), an overlong form (2)
						texts = []string{"", "a", "ab", "abc", "abcd", "AB", "\xc5\xba", "a\xc5\xba", "\xe2\x82\xac\xc5\xba\xc5\xba\xc5\xba", "\xff\xfe",
							"\xf0\x9f\x98\x80", "\xed\xa0\x80", "\xc0\xaf", "ab\xc5\xba", "\xc5\xba\xc5\xba\xc5"}
					}
					c.Case(bindCase(d, requestsFor(d, texts, []string{texts[4], ""})))
					nVal++
				}
			}
		}
	}
	// (3) arrays: item kind x collection format x location x flags
	for _, l := range locations {
		for _, k := range itemKinds {
			for _, cf := range cfs {
				for _, f := range allFlags(l, false) {
					if !thorough && f.AE {
						continue
					}
					d := Decl{In: l.In, Enc: l.Enc, Name: declName(l), Type: "array", IType: k.T, IFmt: k.F, CF: cf, Required: f.Req, HasDef: f.Def, AllowEmpty: f.AE, Val: noVal()}
					if f.Def {
						d.Def = []string{goodText(k.T, k.F), goodText(k.T, k.F)}
					}
					its := []string{goodText(k.T, k.F), badText(k.T, k.F), ""}
					if thorough {
						for _, t := range textsFor(k.T, k.F) {
							if len(t) <= 6 {
								its = append(its, t)
							}
						}
					}
					texts := arrayTexts(d, dedup(its))
					c.Case(bindCase(d, requestsFor(d, texts, []string{goodText(k.T, k.F), badText(k.T, k.F), ""})))
					nArray++
				}
			}
		}
	}
	// (4) array validations
	for _, l := range []loc{{"query", ""}, {"header", ""}, {"formData", "multipart"}} {
		for _, cf := range []string{"csv", "multi", "pipes"} {
			for _, f := range []flags{{false, false, false}, {true, false, false}} {
				for _, v := range []Validation{{K: "items", HasMin: true, Min: "2", HasMax: true, Max: "3", Unique: true}, {K: "items", HasMax: true, Max: "1"},
					{K: "range", HasMin: true, Min: "3", HasMax: true, Max: "7"}, {K: "enum", Vals: []string{"5", "7"}}} {
					d := Decl{In: l.In, Enc: l.Enc, Name: declName(l), Type: "array", IType: "integer", IFmt: "int32", CF: cf, Required: f.Req, Val: v}
					sep := sepOf(cf)
					texts := []string{"5", "5" + sep + "7", "5" + sep + "5", "5" + sep + "05", "5" + sep + "6" + sep + "7" + sep + "3", "2" + sep + "5", "8", "", sep, "x"}
					c.Case(bindCase(d, requestsFor(d, texts, []string{"5", "7", ""})))
					d2 := d
					d2.IType, d2.IFmt = "string", ""
					if v.K == "range" {
						continue
					}
					if v.K == "enum" {
						d2.Val = Validation{K: "enum", Vals: []string{"ab", "abc"}}
					}
					texts2 := []string{"ab", "ab" + sep + "abc", "ab" + sep + "ab", "ab" + sep + "x", "a" + sep + "b" + sep + "c" + sep + "d", "", sep}
					c.Case(bindCase(d2, requestsFor(d2, texts2, []string{"ab", "abc", ""})))
					nVal += 2
				}
			}
		}
	}
	// (4b) on the wire: raw request bytes to a real net/http server (header field names exactly as spelled, query, path)
	nWire := 0
	for _, k := range []kind{{"integer", "int32"}, {"string", ""}, {"boolean", ""}, {"string", "date"}, {"number", "double"}} {
		for _, f := range []flags{{false, false, false}, {true, false, false}, {false, true, false}} {
			for _, nm := range append(append([]string{}, headerNames...), "Lim", "x-rate-limit") {
				d := Decl{In: "header", Name: nm, Type: k.T, Format: k.F, Required: f.Req, HasDef: f.Def, Val: noVal()}
				if f.Def {
					d.Def = []string{goodText(k.T, k.F)}
				}
				var reqs []Req
				for _, sent := range []string{nm, strings.ToLower(nm), strings.ToUpper(nm), "X-O"} {
					for _, t := range []string{goodText(k.T, k.F), badText(k.T, k.F), ""} {
						reqs = append(reqs, Req{Pairs: []Pair{{K: sent, V: t}}, Wire: true})
					}
					reqs = append(reqs, Req{Pairs: []Pair{{K: sent, V: badText(k.T, k.F)}, {K: strings.ToUpper(nm), V: goodText(k.T, k.F)}}, Wire: true})
				}
				reqs = append(reqs, Req{Wire: true})
				c.Case(bindCase(d, reqs))
				nWire++
			}
		}
		for _, l := range []loc{{"query", ""}, {"path", ""}} {
			d := Decl{In: l.In, Name: declName(l), Type: k.T, Format: k.F, Required: l.In == "path", Val: noVal()}
			var reqs []Req
			for _, t := range textsFor(k.T, k.F) {
				if usable(d, t) {
					if l.In == "path" {
						reqs = append(reqs, Req{Seg: t, Wire: true})
					} else {
						reqs = append(reqs, Req{Pairs: []Pair{{K: d.Name, V: t}}, Wire: true})
					}
				}
			}
			c.Case(bindCase(d, reqs))
			nWire++
		}
	}
	c.Extra["wire_declarations"] = nWire
	// (4c) the same key in the opposite location: a query string next to a form body (formData parameters must be read
	// from the body only), a form body next to the query string (query parameters from the URL only)
	nCross := 0
	crossKinds := []kind{{"integer", "int32"}, {"string", ""}, {"boolean", ""}, {"number", "double"}, {"string", "date"}}
	alt := map[string][2]string{"integer": {"7", "-3"}, "string": {"zz", "q"}, "boolean": {"false", "true"}, "number": {"2.5", "7"}}
	for _, l := range []loc{{"formData", "urlencoded"}, {"formData", "multipart"}, {"query", ""}} {
		oencs := []string{""}
		if l.In == "query" {
			oencs = []string{"urlencoded", "multipart"}
		}
		for _, k := range crossKinds {
			a := alt[k.T]
			if k.F == "date" {
				a = [2]string{"1999-12-31", "2024-02-29"}
			}
			good, bad := goodText(k.T, k.F), badText(k.T, k.F)
			for _, arr := range []string{"", "multi", "csv"} {
				for _, f := range allFlags(l, false) {
					if !thorough && f.AE && arr != "" {
						continue
					}
					d := Decl{In: l.In, Enc: l.Enc, Name: declName(l), Type: k.T, Format: k.F, Required: f.Req, HasDef: f.Def, AllowEmpty: f.AE, Val: noVal()}
					if arr != "" {
						d.Type, d.Format, d.IType, d.IFmt, d.CF = "array", "", k.T, k.F, arr
					}
					if f.Def {
						d.Def = []string{good}
						if arr != "" {
							d.Def = []string{good, good}
						}
					}
					own := [][]Pair{nil, {{K: d.Name, V: good}}, {{K: d.Name, V: bad}}, {{K: d.Name, V: ""}}, {{K: d.Name, V: good}, {K: d.Name, V: a[1]}}}
					others := [][]Pair{{{K: d.Name, V: a[0]}}, {{K: d.Name, V: bad}}, {{K: d.Name, V: ""}}, {{K: d.Name, V: a[0]}, {K: d.Name, V: a[1]}},
						{{K: d.Name + "x", V: a[0]}}}
					var reqs []Req
					for _, oe := range oencs {
						for _, o := range own {
							for _, ot := range others {
								reqs = append(reqs, Req{Pairs: o, Other: ot, OEnc: oe})
							}
						}
					}
					c.Case(bindCase(d, reqs))
					nCross++
				}
			}
		}
	}
	c.Extra["cross_location_declarations"] = nCross
	// (4d) defaults of every magnitude: zero-valued defaults (0, 0.0, false, "", [] - a default that "is zero" is still a default),
	// large and small magnitudes (>= 10^6, < 10^-4: where %v switches to exponent notation), negative, 2^53, for scalars and as
	// array items; required x allowEmpty; parameter absent / empty / separators only / valid / invalid
	nDef := 0
	type defCase struct {
		k    kind
		defs [][]string
	}
	intDefs := [][]string{{"0"}, {"1000000"}, {"-1000000", "5"}, {"123456789", "1000000000"}, {"0", "0"}, {}}
	scalarDefs := []defCase{
		{kind{"integer", ""}, append([][]string{{"9007199254740992"}, {"-9007199254740992"}}, intDefs[:3]...)},
		{kind{"integer", "int64"}, [][]string{{"0"}, {"9007199254740992"}, {"100000000000"}}},
		{kind{"integer", "int32"}, intDefs[:3]}, {kind{"integer", "int8"}, [][]string{{"0"}, {"-128"}}},
		{kind{"number", "double"}, [][]string{{"0"}, {"0.0"}, {"0.00001"}, {"1000000"}, {"-2500000.5"}, {"1e21"}, {"-0.00005"}}},
		{kind{"number", ""}, [][]string{{"0"}, {"0.00001"}, {"1000000"}}},
		{kind{"number", "float"}, [][]string{{"0"}, {"0.00001"}, {"1000000"}, {"-250000"}}},
		{kind{"boolean", ""}, [][]string{{"false"}, {"true"}}},
		{kind{"string", ""}, [][]string{{""}, {"0"}}}, {kind{"string", "foo"}, [][]string{{""}}},
	}
	arrayDefs := []defCase{
		{kind{"integer", ""}, append([][]string{{"9007199254740992", "-9007199254740992"}}, intDefs...)},
		{kind{"integer", "int64"}, append([][]string{{"9007199254740992"}, {"100000000000", "7"}}, intDefs...)},
		{kind{"integer", "int32"}, intDefs},
		{kind{"number", "double"}, [][]string{{"0"}, {"0.0", "0"}, {"0.00001"}, {"1000000"}, {"-0.00005", "2500000.5"}, {"1e21"}, {}}},
		{kind{"number", ""}, [][]string{{"0"}, {"0.00001", "1000000"}, {}}},
		{kind{"number", "float"}, [][]string{{"0"}, {"0.00001"}, {"1000000", "-250000"}}},
		{kind{"boolean", ""}, [][]string{{"false"}, {"false", "true"}, {}}},
		{kind{"string", ""}, [][]string{{""}, {"ab", ""}, {}}},
	}
	for _, l := range locations {
		if l.In == "path" || (!thorough && l.Enc == "urlencoded") {
			continue
		}
		for _, rq := range []bool{false, true} {
			for _, ae := range []bool{false, true} {
				for _, dc := range scalarDefs {
					for _, df := range dc.defs {
						d := Decl{In: l.In, Enc: l.Enc, Name: declName(l), Type: dc.k.T, Format: dc.k.F, Required: rq, HasDef: true, Def: df, AllowEmpty: ae, Val: noVal()}
						texts := []string{"", goodText(dc.k.T, dc.k.F), badText(dc.k.T, dc.k.F), "0"}
						c.Case(bindCase(d, requestsFor(d, texts, []string{goodText(dc.k.T, dc.k.F), ""})))
						nDef++
					}
				}
				for _, dc := range arrayDefs {
					for _, df := range dc.defs {
						for _, cf := range []string{"csv", "multi", "pipes"} {
							if cf == "pipes" && !thorough {
								continue
							}
							d := Decl{In: l.In, Enc: l.Enc, Name: declName(l), Type: "array", IType: dc.k.T, IFmt: dc.k.F, CF: cf, Required: rq, HasDef: true,
								Def: append([]string{}, df...), AllowEmpty: ae, Val: noVal()}
							good := goodText(dc.k.T, dc.k.F)
							texts := []string{"", sepOf(cf), good, good + sepOf(cf) + good, badText(dc.k.T, dc.k.F)}
							c.Case(bindCase(d, requestsFor(d, texts, []string{good, ""})))
							nDef++
						}
					}
				}
			}
		}
	}
	c.Extra["default_magnitude_declarations"] = nDef
	// (4e) the operation also declares an optional body parameter and the requests carry no body: the non-body parameter is
	// bound exactly as without it (whatever the order in which the binder visits the parameters)
	nBody := 0
	for _, l := range []loc{{"query", ""}, {"header", ""}, {"path", ""}} {
		for _, k := range []kind{{"integer", "int32"}, {"string", ""}, {"boolean", ""}, {"number", "double"}, {"string", "date"}, {"string", "uuid"}} {
			for _, f := range allFlags(l, false) {
				if f.AE {
					continue
				}
				for _, arr := range []string{"", "csv"} {
					d := Decl{In: l.In, Name: declName(l), Type: k.T, Format: k.F, Required: f.Req, HasDef: f.Def, Val: noVal(), Body: "optional"}
					if f.Def {
						d.Def = []string{goodText(k.T, k.F)}
					}
					texts := textsFor(k.T, k.F)
					if arr != "" {
						d.Type, d.Format, d.IType, d.IFmt, d.CF = "array", "", k.T, k.F, arr
						if f.Def {
							d.Def = []string{goodText(k.T, k.F), goodText(k.T, k.F)}
						}
						texts = arrayTexts(d, []string{goodText(k.T, k.F), badText(k.T, k.F), ""})
					}
					c.Case(bindCase(d, requestsFor(d, texts, []string{goodText(k.T, k.F), badText(k.T, k.F), ""})))
					nBody++
				}
			}
		}
	}
	c.Extra["with_optional_body_declarations"] = nBody
	// (5) files
	for _, f := range []flags{{false, false, false}, {true, false, false}} {
		d := Decl{In: "formData", Enc: "multipart", Name: "up", Type: "file", Required: f.Req, Val: noVal()}
		reqs := []Req{{}, {Pairs: []Pair{{K: "up", V: "hello", File: true, FN: "a.txt"}}}, {Pairs: []Pair{{K: "up", V: "", File: true, FN: "e.bin"}}},
			{Pairs: []Pair{{K: "up", V: "x"}}}, {Pairs: []Pair{{K: "UP", V: "hello", File: true, FN: "a.txt"}}},
			{Pairs: []Pair{{K: "up", V: "one", File: true, FN: "1.txt"}, {K: "up", V: "two", File: true, FN: "2.txt"}}},
			{Pairs: []Pair{{K: "other", V: "v"}, {K: "up", V: "\x00\xff bin", File: true, FN: "b"}}}}
		c.Case(bindCase(d, reqs))
	}
	c.Extra["exhaustive_scalar_declarations"] = nScalar
	c.Extra["exhaustive_array_declarations"] = nArray
	c.Extra["validation_declarations"] = nVal
	// (5b) concurrent requests: batches of N in {8, 64} requests served simultaneously from N goroutines against the ONE
	// handler of a declaration, at GOMAXPROCS 1 / 4 / 16; every request sends texts of its own (its index is part of each
	// text), so a parameter bound from another request's text is a wrong value for that request.
	nConcReq := 512
	if thorough {
		nConcReq = 1024
	}
	concDecls := []Decl{
		{In: "query", Name: "lim", Type: "integer", Format: "int64", Val: noVal()},
		{In: "query", Name: "lim", Type: "string", Required: true, Val: noVal()},
		{In: "query", Name: "lim", Type: "array", IType: "integer", IFmt: "int32", CF: "multi", Val: noVal()},
		{In: "query", Name: "lim", Type: "array", IType: "string", CF: "csv", Val: noVal()},
		{In: "header", Name: "X-Lim", Type: "integer", Format: "int32", Val: noVal()},
		{In: "path", Name: "id", Type: "string", Required: true, Val: noVal()},
		{In: "formData", Enc: "urlencoded", Name: "lim", Type: "integer", Val: noVal()},
		{In: "formData", Enc: "multipart", Name: "lim", Type: "string", Val: noVal()},
	}
	nConc := 0
	for _, procs := range []int{1, 4, 16} {
		for _, n := range []int{8, 64} {
			for j := 0; j < 4; j++ {
				d := concDecls[(nConc+j/2*3)%len(concDecls)]
				if j < 2 {
					d = concDecls[j] // the scalar query parameters in every configuration
				}
				if d.In == "query" || d.In == "formData" {
					d.Aux = 7 // an operation with eight parameters, seven of them further query parameters
				}
				var reqs []Req
				for i := 0; i < nConcReq; i++ {
					rq := uniqueReq(d, i, c.Rng)
					for k := 1; k <= d.Aux; k++ {
						p := Pair{K: "aux" + strconv.Itoa(k), V: strconv.Itoa(1000 + i)}
						if d.In == "query" {
							rq.Pairs = append(rq.Pairs, p)
						} else {
							rq.Other = append(rq.Other, p) // the query string of the form post
						}
					}
					reqs = append(reqs, rq)
				}
				m := bindCase(d, reqs)
				m["conc"], m["procs"], m["yield"] = n, procs, nConc%3 == 0
				c.Case(m)
				nConc++
			}
		}
	}
	c.Extra["concurrent_cases"] = nConc
	c.Extra["concurrent_requests"] = nConc * nConcReq
	// (6) seeded random declarations and literals
	n := 1500
	if thorough {
		n = 15000
	}
	for i := 0; i < n; i++ {
		c.Case(randomCase(c.Rng))
	}
	c.Extra["random_declarations"] = n
}

// uniqueReq: request number i of a concurrent case; every text carries i.
func uniqueReq(d Decl, i int, r *rand.Rand) Req {
	num := strconv.Itoa(1000 + i)
	txt := "v" + strconv.Itoa(i) + "z"
	one := txt
	if d.Type == "integer" || d.IType == "integer" {
		one = num
	}
	switch {
	case d.In == "path":
		return Req{Seg: one}
	case d.Type == "array" && d.CF == "multi":
		return Req{Pairs: []Pair{{K: d.Name, V: one}, {K: d.Name, V: strconv.Itoa(i % 7)}, {K: d.Name + "x", V: "9"}}}
	case d.Type == "array":
		return Req{Pairs: []Pair{{K: d.Name, V: one + sepOf(d.CF) + "a" + strconv.Itoa(i%5)}}}
	case i%11 == 0 && !d.Required:
		return Req{Pairs: []Pair{{K: d.Name + "x", V: one}}} // absent: the zero value, never a neighbour's text
	case i%13 == 0 && d.Type == "integer":
		return Req{Pairs: []Pair{{K: d.Name, V: one + "x"}}} // invalid: 422, never a neighbour's value
	case r.Intn(4) == 0:
		return Req{Pairs: []Pair{{K: d.Name, V: "0"}, {K: d.Name, V: one}}}
	}
	return Req{Pairs: []Pair{{K: d.Name, V: one}}}
}

// ---- random -----------------------------------------------------------------------------------------

func randDigits(r *rand.Rand, n int) string {
	b := make([]byte, n)
	for i := range b {
		b[i] = byte('0' + r.Intn(10))
	}
	if n > 0 && b[0] == '0' {
		b[0] = byte('1' + r.Intn(9))
	}
	return string(b)
}

func randIntText(r *rand.Rand) string {
	var mag string
	switch r.Intn(3) {
	case 0:
		bits := []int{8, 16, 32, 64}[r.Intn(4)]
		mag = boundary(bits, r.Intn(5)-2, false)
	case 1:
		mag = randDigits(r, 1+r.Intn(21))
	default:
		mag = strconv.Itoa(r.Intn(300))
	}
	sign := []string{"", "", "-", "-", "+"}[r.Intn(5)]
	zeros := strings.Repeat("0", []int{0, 0, 0, 1, 2, 5}[r.Intn(6)])
	switch r.Intn(12) {
	case 0:
		return sign + "0x" + mag
	case 1:
		return sign + mag[:1] + "_" + mag[1:]
	case 2:
		return sign + mag + "e" + strconv.Itoa(r.Intn(3))
	case 3:
		return " " + sign + mag
	case 4:
		return sign + mag + []string{" ", ".0", ".", "a", "\n"}[r.Intn(5)]
	case 5:
		return sign + " " + mag
	}
	return sign + zeros + mag
}

func randFloatText(r *rand.Rand, maxSig int) string {
	nd := 1 + r.Intn(maxSig)
	ds := randDigits(r, nd)
	cut := r.Intn(nd + 1)
	ip, fp := ds[:cut], ds[cut:]
	var b strings.Builder
	b.WriteString([]string{"", "", "-", "+"}[r.Intn(4)])
	b.WriteString(strings.Repeat("0", []int{0, 0, 1, 2}[r.Intn(4)]))
	b.WriteString(ip)
	if fp != "" || r.Intn(3) == 0 {
		b.WriteString("." + fp)
	}
	if r.Intn(2) == 0 {
		b.WriteString([]string{"e", "E"}[r.Intn(2)] + []string{"", "+", "-"}[r.Intn(3)] + strconv.Itoa(r.Intn(31)))
	}
	s := b.String()
	switch r.Intn(15) {
	case 0:
		return s + " "
	case 1:
		return s + "x"
	case 2:
		return strings.Replace(s, ".", ",", 1)
	}
	return s
}

func randText(r *rand.Rand, k kind) string {
	switch k.T {
	case "integer":
		return randIntText(r)
	case "number":
		if r.Intn(6) == 0 {
			return floatTexts[r.Intn(len(floatTexts))]
		}
		if k.F == "float" {
			return randFloatText(r, 6)
		}
		return randFloatText(r, 15)
	case "boolean":
		return boolTexts[r.Intn(len(boolTexts))]
	}
	if isFormat(k.F) {
		return formatTexts[k.F][r.Intn(len(formatTexts[k.F]))]
	}
	const alpha = "ab c,|;\t=&%+/\\\"'<>{}[]:#?@!$()*~^`._-0123456789"
	n := r.Intn(8)
	b := make([]byte, n)
	for i := range b {
		if r.Intn(15) == 0 {
			b[i] = byte(r.Intn(256))
		} else {
			b[i] = alpha[r.Intn(len(alpha))]
		}
	}
	return string(b)
}

func randomCase(r *rand.Rand) M {
	l := locations[r.Intn(len(locations))]
	fl := allFlags(l, false)
	f := fl[r.Intn(len(fl))]
	d := Decl{In: l.In, Enc: l.Enc, Name: declName(l), Required: f.Req, HasDef: f.Def, AllowEmpty: f.AE, Val: noVal()}
	if l.In == "header" {
		d.Name = []string{"X-Lim", "x-lim", "X-LIM", "x-Lim", "Lim", "lim", "X-Rate-Limit", "x-rate-limit"}[r.Intn(8)]
	}
	var k kind
	if r.Intn(3) == 0 {
		k = itemKinds[r.Intn(len(itemKinds))]
		d.Type, d.IType, d.IFmt, d.CF = "array", k.T, k.F, cfs[r.Intn(len(cfs))]
		if f.Def {
			for n := r.Intn(3); n >= 0; n-- {
				d.Def = append(d.Def, goodText(k.T, k.F))
			}
		}
	} else {
		k = scalarKinds[r.Intn(len(scalarKinds))]
		d.Type, d.Format = k.T, k.F
		if f.Def {
			d.Def = []string{goodText(k.T, k.F)}
		}
		if vs := valsFor(k.T, k.F); len(vs) > 0 && r.Intn(4) == 0 {
			v := vs[r.Intn(len(vs))]
			if !f.Def || defaultOK(v) {
				d.Val = v
			}
		}
	}
	if d.In != "formData" && r.Intn(5) == 0 {
		d.Body = "optional"
	}
	closedItem := d.Type == "array" && isFormat(k.F) && k.F != "password"
	var reqs []Req
	for n := 6 + r.Intn(6); n > 0; n-- {
		mk := func() string {
			if d.Type != "array" {
				return randText(r, k)
			}
			if d.CF == "multi" || closedItem && r.Intn(2) == 0 {
				t := randText(r, k)
				if closedItem {
					return t
				}
				return t
			}
			sep := sepOf(d.CF)
			var parts []string
			for m := r.Intn(4); m >= 0; m-- {
				t := randText(r, k)
				if closedItem {
					t = strings.TrimSpace(t)
				} else if k.T == "string" {
					t = strings.NewReplacer(",", "", "|", "", " ", "", "\t", "").Replace(t)
				}
				if r.Intn(6) == 0 {
					t = " " + t + " "
				}
				parts = append(parts, t)
			}
			return strings.Join(parts, sep)
		}
		if d.In == "path" {
			t := mk()
			if usable(d, t) && !strings.Contains(t, "/") {
				reqs = append(reqs, Req{Seg: t})
			}
			continue
		}
		var ps []Pair
		for m := r.Intn(4); m > 0; m-- {
			key := d.Name
			switch x := r.Intn(8); {
			case x == 0:
				key = otherKeys(d)[r.Intn(len(otherKeys(d)))]
			case x < 3 && d.In == "header":
				key = []string{strings.ToLower(d.Name), strings.ToUpper(d.Name)}[r.Intn(2)]
			}
			t := mk()
			if !usable(d, t) {
				t = goodText(k.T, k.F)
			}
			ps = append(ps, Pair{K: key, V: t})
		}
		rq := Req{Pairs: ps}
		if (d.In == "formData" || d.In == "query") && d.Body == "" && r.Intn(3) == 0 {
			for m := 1 + r.Intn(2); m > 0; m-- {
				key := d.Name
				if r.Intn(5) == 0 {
					key = otherKeys(d)[r.Intn(len(otherKeys(d)))]
				}
				rq.Other = append(rq.Other, Pair{K: key, V: mk()})
			}
			if d.In == "query" {
				rq.OEnc = []string{"urlencoded", "multipart"}[r.Intn(2)]
			}
		}
		reqs = append(reqs, rq)
	}
	return bindCase(d, reqs)
}
