// Package c03 drives non-body parameter binding of the untyped API for property C03.
//
// case  = one parameter declaration + a list of requests (each: the (key, text) pairs sent in the
//
//	parameter's location, or the path segment).
//
// event = one per request: what the handler received for the parameter (value abstracted to
//
//	digits / bytes, dynamic type) or the rejection (status, message), recovered panics.
//
// Nothing is decided here; ParamBind.tla is the oracle.
package c03

import (
	"bufio"
	"bytes"
	"encoding/json"
	"fmt"
	"io"
	"log"
	"math"
	"mime/multipart"
	"net"
	"net/http"
	"net/http/httptest"
	"net/url"
	"os"
	"reflect"
	"regexp"
	goruntime "runtime"
	"strconv"
	"strings"
	"sync"

	"github.com/go-openapi/loads"
	"github.com/go-openapi/runtime"
	"github.com/go-openapi/runtime/middleware"
	"github.com/go-openapi/runtime/middleware/untyped"

	"verifharness/internal/drv"
	"verifharness/internal/trace"
)

type M = drv.M

func init() {
	drv.Register(&drv.Driver{Name: "c03", Generate: generate, Execute: execute})
}

// ---- abstract case -----------------------------------------------------------------

// Validation declared on the parameter (or on its items when OnItems).
type Validation struct {
	K              string // none | range | enum | len | items
	HasMin, HasMax bool
	Min, Max       string // literal texts (range) or decimal counts (len, items)
	EMin, EMax     bool   // exclusive bounds
	Vals           []string
	Unique         bool
}

type Decl struct {
	In, Enc      string // query | header | path | formData ; enc: urlencoded | multipart
	Name         string
	Type, Format string
	IType, IFmt  string // items of an array
	CF           string
	Required     bool
	HasDef       bool
	Def          []string // default: one literal text (scalars) or the item texts (arrays)
	AllowEmpty   bool
	Val          Validation
	// Aux: number of further optional integer QUERY parameters aux1..auxN declared on the same operation (concurrent
	// cases: an operation with several query parameters); they are sent by the requests but not observed.
	Aux int
	// Body: "optional" = the operation (then a POST) also declares an optional body parameter `payload`; the requests
	// send no body.  What the handler receives for the non-body parameter must not depend on it.
	Body string
}

type Pair struct {
	K, V string
	Bare bool   // query / urlencoded only: written as "k" without '='
	File bool   // multipart only: sent as a file part
	FN   string // file name of a file part
}

type Req struct {
	Pairs []Pair
	Seg   string // path location: the text of the path segment
	// Other: (key, text) pairs sent in the OPPOSITE location of the same request: in the URL query string for a
	// formData parameter; in an urlencoded / multipart body (OEnc) of a POST for a query parameter.
	Other []Pair
	OEnc  string
	Wire  bool // send the request as raw bytes over a TCP connection to a real net/http server (query, header, path)
}

func (v Validation) JSON() M {
	return M{"k": v.K, "hasmin": v.HasMin, "hasmax": v.HasMax, "min": trace.B(v.Min), "max": trace.B(v.Max),
		"emin": v.EMin, "emax": v.EMax, "vals": trace.BB(v.Vals), "unique": v.Unique}
}

func (d Decl) JSON() M {
	return M{"in": d.In, "enc": d.Enc, "name": trace.B(d.Name), "type": d.Type, "format": d.Format, "itype": d.IType, "iformat": d.IFmt,
		"cf": d.CF, "required": d.Required, "hasdef": d.HasDef, "def": trace.BB(d.Def), "allowEmpty": d.AllowEmpty, "val": d.Val.JSON(), "aux": d.Aux, "body": d.Body}
}

func pairsJSON(in []Pair) []M {
	ps := make([]M, 0, len(in))
	for _, p := range in {
		ps = append(ps, M{"k": trace.B(p.K), "v": trace.B(p.V), "bare": p.Bare, "file": p.File, "fn": trace.B(p.FN)})
	}
	return ps
}

func (r Req) JSON() M {
	return M{"pairs": pairsJSON(r.Pairs), "seg": trace.B(r.Seg), "other": pairsJSON(r.Other), "oenc": r.OEnc, "wire": r.Wire}
}

func bindCase(d Decl, reqs []Req) M {
	rs := make([]M, 0, len(reqs))
	for _, r := range reqs {
		rs = append(rs, r.JSON())
	}
	return M{"kind": "bind", "decl": d.JSON(), "reqs": rs}
}

func strs(v any) []string {
	out := []string{}
	for _, x := range drv.List(v) {
		out = append(out, trace.Str(x))
	}
	return out
}

func declFrom(v any) Decl {
	m := drv.Map(v)
	vm := drv.Map(m["val"])
	aux := 0
	if x, ok := m["aux"]; ok {
		aux = drv.Int(x)
	}
	return Decl{Aux: aux, Body: drv.Str(m["body"]), In: drv.Str(m["in"]), Enc: drv.Str(m["enc"]), Name: trace.Str(m["name"]), Type: drv.Str(m["type"]), Format: drv.Str(m["format"]),
		IType: drv.Str(m["itype"]), IFmt: drv.Str(m["iformat"]), CF: drv.Str(m["cf"]), Required: drv.Bool(m["required"]),
		HasDef: drv.Bool(m["hasdef"]), Def: strs(m["def"]), AllowEmpty: drv.Bool(m["allowEmpty"]),
		Val: Validation{K: drv.Str(vm["k"]), HasMin: drv.Bool(vm["hasmin"]), HasMax: drv.Bool(vm["hasmax"]), Min: trace.Str(vm["min"]),
			Max: trace.Str(vm["max"]), EMin: drv.Bool(vm["emin"]), EMax: drv.Bool(vm["emax"]), Vals: strs(vm["vals"]), Unique: drv.Bool(vm["unique"])}}
}

func pairsFrom(v any) []Pair {
	var out []Pair
	for _, p := range drv.List(v) {
		pm := drv.Map(p)
		out = append(out, Pair{K: trace.Str(pm["k"]), V: trace.Str(pm["v"]), Bare: drv.Bool(pm["bare"]), File: drv.Bool(pm["file"]), FN: trace.Str(pm["fn"])})
	}
	return out
}

func reqFrom(v any) Req {
	m := drv.Map(v)
	r := Req{Seg: trace.Str(m["seg"]), Wire: drv.Bool(m["wire"]), Pairs: pairsFrom(m["pairs"])}
	if o, ok := m["other"]; ok {
		r.Other = pairsFrom(o)
		r.OEnc = drv.Str(m["oenc"])
	}
	return r
}

// ---- declaration -> swagger document ----------------------------------------------------

// jsonLiteral embeds a literal text as the JSON value of the given swagger type.
func jsonLiteral(tpe, txt string) any {
	switch tpe {
	case "integer", "number":
		return json.Number(txt)
	case "boolean":
		return txt == "true"
	}
	return txt
}

func (d Decl) paramJSON() map[string]any {
	p := map[string]any{"name": d.Name, "in": d.In, "type": d.Type}
	if d.Format != "" {
		p["format"] = d.Format
	}
	if d.Required {
		p["required"] = true
	}
	if d.AllowEmpty {
		p["allowEmptyValue"] = true
	}
	vt := d.Type // type whose literals the validation bounds / enum values are
	target := p
	if d.Type == "array" {
		items := map[string]any{"type": d.IType}
		if d.IFmt != "" {
			items["format"] = d.IFmt
		}
		p["items"] = items
		if d.CF != "" {
			p["collectionFormat"] = d.CF
		}
		if d.Val.K == "range" || d.Val.K == "enum" || d.Val.K == "len" {
			target = items
			vt = d.IType
		}
		if d.HasDef {
			arr := make([]any, 0, len(d.Def))
			for _, t := range d.Def {
				arr = append(arr, jsonLiteral(d.IType, t))
			}
			p["default"] = arr
		}
	} else if d.HasDef {
		p["default"] = jsonLiteral(d.Type, d.Def[0])
	}
	switch d.Val.K {
	case "range":
		if d.Val.HasMin {
			target["minimum"] = json.Number(d.Val.Min)
			if d.Val.EMin {
				target["exclusiveMinimum"] = true
			}
		}
		if d.Val.HasMax {
			target["maximum"] = json.Number(d.Val.Max)
			if d.Val.EMax {
				target["exclusiveMaximum"] = true
			}
		}
	case "enum":
		vals := make([]any, 0, len(d.Val.Vals))
		for _, t := range d.Val.Vals {
			vals = append(vals, jsonLiteral(vt, t))
		}
		target["enum"] = vals
	case "len":
		if d.Val.HasMin {
			target["minLength"] = json.Number(d.Val.Min)
		}
		if d.Val.HasMax {
			target["maxLength"] = json.Number(d.Val.Max)
		}
	case "items":
		if d.Val.HasMin {
			p["minItems"] = json.Number(d.Val.Min)
		}
		if d.Val.HasMax {
			p["maxItems"] = json.Number(d.Val.Max)
		}
		if d.Val.Unique {
			p["uniqueItems"] = true
		}
	}
	return p
}

func (d Decl) routePath() string {
	if d.In == "path" {
		return "/p/{" + d.Name + "}/e"
	}
	return "/p"
}

func (d Decl) method() string {
	if d.In == "formData" || d.Body != "" {
		return http.MethodPost
	}
	return http.MethodGet
}

func (d Decl) consumes() string {
	if d.Enc == "multipart" {
		return "multipart/form-data"
	}
	return "application/x-www-form-urlencoded"
}

// slot receives what the recording handler saw for one request.
type slot struct {
	ran bool
	got map[string]interface{}
}

// apiInst is one served declaration.  The operation handler gets no request, so it finds the slot of the request it is
// serving through the goroutine that serves it (direct ServeHTTP calls run the handler on the caller's goroutine); this
// keeps concurrent requests apart.  Requests sent over the wire run on a server goroutine and are strictly sequential:
// they use the fallback slot.
// SKU is an application-defined string format (^SKU-[0-9]{4}$).  It is registered under the name "sku" ONLY on the
// registry of each served API (untyped.API.RegisterFormat), never on strfmt.Default: whatever the binder does with a
// format it must do through the registry it was given.
type SKU string

var skuPattern = regexp.MustCompile(`^SKU-[0-9]{4}$`)

func (s SKU) String() string                { return string(s) }
func (s SKU) MarshalText() ([]byte, error)  { return []byte(s), nil }
func (s *SKU) UnmarshalText(b []byte) error { *s = SKU(string(b)); return nil }
func isSKU(text string) bool                { return skuPattern.MatchString(text) }

type apiInst struct {
	handler  http.Handler
	cur      sync.Map // goroutine id -> *slot
	fallback *slot
}

func (a *apiInst) slotOfCaller() *slot {
	if v, ok := a.cur.Load(gid()); ok {
		return v.(*slot)
	}
	return a.fallback
}

// gid returns the id of the calling goroutine (first line of its stack trace: "goroutine 123 [running]:").
func gid() uint64 {
	var b [64]byte
	n := goruntime.Stack(b[:], false)
	var id uint64
	for _, ch := range b[len("goroutine "):n] {
		if ch < '0' || ch > '9' {
			break
		}
		id = id*10 + uint64(ch-'0')
	}
	return id
}

// yieldLogger turns every debug log call of the middleware into a scheduling point (concurrent cases only).
type yieldLogger struct{}

func (yieldLogger) Printf(string, ...interface{}) {}
func (yieldLogger) Debugf(string, ...interface{}) { goruntime.Gosched() }

var apiCache = map[string]*apiInst{}

func buildAPI(d Decl) (*apiInst, error) { return buildAPIOpt(d, true) }

func buildAPIOpt(d Decl, cached bool) (*apiInst, error) {
	params := []any{d.paramJSON()}
	for k := 1; k <= d.Aux; k++ {
		params = append(params, map[string]any{"name": "aux" + strconv.Itoa(k), "in": "query", "type": "integer", "format": "int64"})
	}
	op := map[string]any{
		"operationId": "op",
		"parameters":  params,
		"responses":   map[string]any{"200": map[string]any{"description": "ok", "schema": map[string]any{"type": "string"}}},
	}
	if d.In == "formData" {
		op["consumes"] = []string{d.consumes()}
	}
	if d.Body != "" {
		op["parameters"] = append(params, map[string]any{"name": "payload", "in": "body", "schema": map[string]any{"type": "object"}})
		op["consumes"] = []string{"application/json"}
	}
	ops := map[string]any{strings.ToLower(d.method()): op}
	if d.In == "query" && d.Body == "" {
		// the same query parameter on a POST that carries a form body (requests with Other pairs)
		ops["post"] = map[string]any{"operationId": "opPost", "parameters": op["parameters"], "responses": op["responses"],
			"consumes": []string{"application/x-www-form-urlencoded", "multipart/form-data"}}
	}
	doc := map[string]any{
		"swagger":  "2.0",
		"info":     map[string]any{"title": "c03", "version": "1"},
		"produces": []string{"application/json"},
		"paths":    map[string]any{d.routePath(): ops},
	}
	raw, err := json.Marshal(doc)
	if err != nil {
		return nil, err
	}
	key := string(raw)
	if a, ok := apiCache[key]; ok && cached {
		return a, nil
	}
	ld, err := loads.Analyzed(json.RawMessage(raw), "")
	if err != nil {
		return nil, err
	}
	api := untyped.NewAPI(ld)
	api.RegisterFormat("sku", new(SKU), isSKU)
	noop := runtime.ConsumerFunc(func(io.Reader, interface{}) error { return nil })
	api.RegisterConsumer("application/x-www-form-urlencoded", noop)
	api.RegisterConsumer("multipart/form-data", noop)
	a := &apiInst{}
	record := runtime.OperationHandlerFunc(func(params interface{}) (interface{}, error) {
		st := a.slotOfCaller()
		if st == nil {
			panic("c03: handler called outside a served request")
		}
		st.ran = true
		if m, ok := params.(map[string]interface{}); ok {
			st.got = m
		}
		return "ok", nil
	})
	api.RegisterOperation(d.method(), d.routePath(), record)
	if d.In == "query" && d.Body == "" {
		api.RegisterOperation(http.MethodPost, d.routePath(), record)
	}
	ctx := middleware.NewContext(ld, api, nil)
	a.handler = ctx.APIHandler(nil)
	if !cached {
		return a, nil
	}
	if len(apiCache) > 2048 {
		apiCache = map[string]*apiInst{}
	}
	apiCache[key] = a
	return a, nil
}

// ---- request rendering -------------------------------------------------------------------

func encodePairs(ps []Pair) string {
	var b strings.Builder
	for i, p := range ps {
		if i > 0 {
			b.WriteByte('&')
		}
		b.WriteString(url.QueryEscape(p.K))
		if !p.Bare {
			b.WriteByte('=')
			b.WriteString(url.QueryEscape(p.V))
		}
	}
	return b.String()
}

// formBody renders pairs as an urlencoded or multipart body.
func formBody(enc string, ps []Pair) (body io.Reader, contentType string, err error) {
	if enc == "multipart" {
		var buf bytes.Buffer
		w := multipart.NewWriter(&buf)
		for _, p := range ps {
			if p.File {
				fw, e := w.CreateFormFile(p.K, p.FN)
				if e != nil {
					return nil, "", e
				}
				if _, e = fw.Write([]byte(p.V)); e != nil {
					return nil, "", e
				}
				continue
			}
			if e := w.WriteField(p.K, p.V); e != nil {
				return nil, "", e
			}
		}
		if e := w.Close(); e != nil {
			return nil, "", e
		}
		return &buf, w.FormDataContentType(), nil
	}
	return strings.NewReader(encodePairs(ps)), "application/x-www-form-urlencoded", nil
}

func buildRequest(d Decl, rq Req) (*http.Request, error) {
	switch d.In {
	case "query":
		if len(rq.Other) > 0 {
			// the query parameter on a POST whose body carries fields too
			body, ct, err := formBody(rq.OEnc, rq.Other)
			if err != nil {
				return nil, err
			}
			r := httptest.NewRequest(http.MethodPost, "/p?"+encodePairs(rq.Pairs), body)
			r.Header.Set("Content-Type", ct)
			return r, nil
		}
		return httptest.NewRequest(d.method(), "/p?"+encodePairs(rq.Pairs), nil), nil
	case "header":
		r := httptest.NewRequest(d.method(), "/p", nil)
		for _, p := range rq.Pairs {
			// net/http's server canonicalises the names of received header fields; Header.Add does the same
			r.Header.Add(p.K, p.V)
		}
		return r, nil
	case "path":
		return httptest.NewRequest(d.method(), "/p/"+url.PathEscape(rq.Seg)+"/e", nil), nil
	case "formData":
		body, ct, err := formBody(d.Enc, rq.Pairs)
		if err != nil {
			return nil, err
		}
		target := "/p"
		if len(rq.Other) > 0 {
			target += "?" + encodePairs(rq.Other) // a query string next to the form body
		}
		r := httptest.NewRequest(http.MethodPost, target, body)
		r.Header.Set("Content-Type", ct)
		return r, nil
	}
	return nil, fmt.Errorf("unknown location %q", d.In)
}

// ---- a real server for the cases sent "on the wire" -------------------------------------------

var (
	wireSrv *httptest.Server
	wireCur http.Handler
)

func wireTarget(d Decl, rq Req) (target string, headers []string) {
	switch d.In {
	case "query":
		return "/p?" + encodePairs(rq.Pairs), nil
	case "path":
		return "/p/" + url.PathEscape(rq.Seg) + "/e", nil
	}
	for _, p := range rq.Pairs {
		headers = append(headers, p.K+": "+p.V) // the field name exactly as the client spells it
	}
	return "/p", headers
}

// wireRoundTrip writes the request bytes to a TCP connection of a real net/http server and reads the response.
func wireRoundTrip(h http.Handler, d Decl, rq Req) (status int, body []byte, err error) {
	if wireSrv == nil {
		wireSrv = httptest.NewUnstartedServer(http.HandlerFunc(func(w http.ResponseWriter, r *http.Request) { wireCur.ServeHTTP(w, r) }))
		wireSrv.Config.ErrorLog = log.New(io.Discard, "", 0)
		wireSrv.Start()
	}
	wireCur = h
	conn, err := net.Dial("tcp", wireSrv.Listener.Addr().String())
	if err != nil {
		return 0, nil, err
	}
	defer conn.Close()
	target, headers := wireTarget(d, rq)
	var b strings.Builder
	b.WriteString("GET " + target + " HTTP/1.1\r\nHost: c03.test\r\n")
	for _, hl := range headers {
		b.WriteString(hl + "\r\n")
	}
	b.WriteString("Connection: close\r\n\r\n")
	if _, err = conn.Write([]byte(b.String())); err != nil {
		return 0, nil, err
	}
	resp, err := http.ReadResponse(bufio.NewReader(conn), nil)
	if err != nil {
		return 0, nil, err
	}
	defer resp.Body.Close()
	body, _ = io.ReadAll(resp.Body)
	return resp.StatusCode, body, nil
}

// ---- observation ---------------------------------------------------------------------------

func emptyVal(k string) M {
	return M{"k": k, "neg": false, "mag": []int{}, "sci": 0, "sp": "", "b": false, "s": []int{}, "items": []M{}}
}

func digitsOf(s string) []int {
	out := []int{}
	for i := 0; i < len(s); i++ {
		out = append(out, int(s[i]-'0'))
	}
	return out
}

func intVal(i int64) M {
	v := emptyVal("int")
	s := strconv.FormatInt(i, 10)
	if i < 0 {
		v["neg"] = true
		s = s[1:]
	}
	if s == "0" {
		s = ""
	}
	v["mag"] = digitsOf(s)
	return v
}

// floatVal: sign, significant digits (no leading / trailing zeros) and scientific exponent of the shortest
// decimal that round-trips at the value's own width.
func floatVal(f float64, bits int) M {
	v := emptyVal("float")
	switch {
	case math.IsNaN(f):
		v["sp"] = "nan"
		return v
	case math.IsInf(f, 0):
		v["sp"] = "inf"
		v["neg"] = f < 0
		return v
	}
	s := strconv.FormatFloat(f, 'e', -1, bits) // d.ddde+xx
	if s[0] == '-' {
		v["neg"] = true
		s = s[1:]
	}
	ei := strings.IndexByte(s, 'e')
	mant, exp := strings.Replace(s[:ei], ".", "", 1), s[ei+1:]
	mant = strings.TrimRight(mant, "0")
	e, _ := strconv.Atoi(exp)
	if mant == "" {
		e = 0
	}
	v["mag"] = digitsOf(mant)
	v["sci"] = e
	return v
}

func obsValue(x interface{}) (M, string) {
	if x == nil {
		return emptyVal("nil"), "nil"
	}
	rv := reflect.ValueOf(x)
	dyn := rv.Type().String()
	if f, ok := x.(runtime.File); ok {
		v := emptyVal("file")
		if f.Header != nil {
			v["s"] = trace.B(f.Header.Filename)
		}
		if f.Data != nil {
			b, _ := io.ReadAll(f.Data)
			item := emptyVal("bytes")
			item["s"] = trace.B(string(b))
			v["items"] = []M{item}
		}
		return v, dyn
	}
	if st, ok := x.(fmt.Stringer); ok && rv.Kind() != reflect.Slice || dyn == "strfmt.Base64" {
		if dyn == "strfmt.Base64" {
			v := emptyVal("bytes")
			v["s"] = trace.B(string(rv.Bytes()))
			return v, dyn
		}
		v := emptyVal("fmt")
		v["s"] = trace.B(st.String())
		return v, dyn
	}
	switch rv.Kind() { //nolint:exhaustive
	case reflect.Int, reflect.Int8, reflect.Int16, reflect.Int32, reflect.Int64:
		return intVal(rv.Int()), dyn
	case reflect.Float32:
		return floatVal(rv.Float(), 32), dyn
	case reflect.Float64:
		return floatVal(rv.Float(), 64), dyn
	case reflect.Bool:
		v := emptyVal("bool")
		v["b"] = rv.Bool()
		return v, dyn
	case reflect.String:
		v := emptyVal("str")
		v["s"] = trace.B(rv.String())
		return v, dyn
	case reflect.Slice:
		v := emptyVal("list")
		if rv.IsNil() {
			v["sp"] = "nilslice"
		}
		items := []M{}
		for i := 0; i < rv.Len(); i++ {
			it, _ := obsValue(rv.Index(i).Interface())
			items = append(items, it)
		}
		v["items"] = items
		return v, dyn
	}
	v := emptyVal("other")
	v["s"] = trace.B(fmt.Sprintf("%v", x))
	return v, dyn
}

func serve(a *apiInst, d Decl, rq Req) (ev M) {
	st := &slot{}
	ev = M{"status": 0, "ran": false, "panic": false, "has": false, "val": emptyVal("none"), "dyn": "", "msg": []int{}}
	var status int
	var body []byte
	if rq.Wire && d.In != "formData" && len(rq.Other) == 0 && d.Body == "" {
		var err error
		a.fallback = st
		status, body, err = wireRoundTrip(a.handler, d, rq)
		a.fallback = nil
		if err != nil {
			// net/http recovers a panicking handler and drops the connection: no response
			ev["panic"] = true
			ev["ran"] = st.ran
			ev["msg"] = trace.B(clip("no response: " + err.Error()))
			return ev
		}
	} else {
		r, err := buildRequest(d, rq)
		if err != nil {
			panic(fmt.Sprintf("c03: cannot render request: %v", err))
		}
		rec := httptest.NewRecorder()
		g := gid()
		a.cur.Store(g, st)
		defer a.cur.Delete(g)
		panicked := func() (p bool) {
			defer func() {
				if x := recover(); x != nil {
					p = true
					ev["msg"] = trace.B(clip(fmt.Sprint(x)))
				}
			}()
			a.handler.ServeHTTP(rec, r)
			return false
		}()
		if panicked {
			ev["panic"] = true
			ev["ran"] = st.ran
			return ev
		}
		status, body = rec.Code, rec.Body.Bytes()
	}
	ev["status"] = status
	ev["ran"] = st.ran
	if st.ran && st.got != nil {
		if x, ok := st.got[d.Name]; ok {
			ev["has"] = true
			ev["val"], ev["dyn"] = obsValue(x)
		}
	}
	if status != http.StatusOK {
		var jb struct {
			Message string `json:"message"`
		}
		if json.Unmarshal(body, &jb) == nil {
			ev["msg"] = trace.B(clip(jb.Message))
		} else {
			ev["msg"] = trace.B(clip(string(body)))
		}
	}
	return ev
}

func clip(s string) string {
	b := []byte(s)
	if len(b) > 160 {
		b = b[:160]
	}
	for i, c := range b {
		if c >= 0x80 {
			b[i] = '?'
		}
	}
	return string(b)
}

func execute(c *drv.Ctx, desc M) bool {
	if drv.Str(desc["kind"]) != "bind" {
		panic("c03: unknown case kind")
	}
	d := declFrom(desc["decl"])
	nontrivial := false
	conc, procs := 0, 0
	if v, ok := desc["conc"]; ok {
		conc = drv.Int(v)
	}
	if v, ok := desc["procs"]; ok {
		procs = drv.Int(v)
	}
	if conc > 1 && drv.Bool(desc["yield"]) {
		// debug mode is read from the environment when the context, router and binders are constructed
		os.Setenv("SWAGGER_DEBUG", "1")
		prev := middleware.Logger
		middleware.Logger = yieldLogger{}
		defer func() {
			os.Unsetenv("SWAGGER_DEBUG")
			middleware.Logger = prev
		}()
	}
	var a *apiInst
	var buildErr error
	func() {
		defer func() {
			if p := recover(); p != nil {
				buildErr = fmt.Errorf("panic: %v", p)
			}
		}()
		a, buildErr = buildAPIOpt(d, conc <= 1)
	}()
	if buildErr != nil {
		// the declaration is not accepted by the spec loader / router: one event, no requests
		c.W.Event("build", M{"ok": false, "msg": trace.B(clip(buildErr.Error()))})
		return false
	}
	var reqs []Req
	for _, rv := range drv.List(desc["reqs"]) {
		reqs = append(reqs, reqFrom(rv))
	}
	emit := func(i int, ev M) {
		ev["i"] = i + 1
		c.W.Event("bind", ev)
		if drv.Bool(ev["ran"]) || drv.Int(ev["status"]) == 422 {
			nontrivial = true
		}
	}
	if conc <= 1 {
		for i, rq := range reqs {
			emit(i, serve(a, d, rq))
		}
		return nontrivial
	}
	// concurrent mode: batches of conc requests served simultaneously by conc goroutines against the ONE handler of the
	// declaration, at GOMAXPROCS procs; every request keeps its own event, emitted in request order after its batch
	if procs > 0 {
		defer goruntime.GOMAXPROCS(goruntime.GOMAXPROCS(procs))
	}
	evs := make([]M, len(reqs))
	for lo := 0; lo < len(reqs); lo += conc {
		hi := lo + conc
		if hi > len(reqs) {
			hi = len(reqs)
		}
		start := make(chan struct{})
		var wg sync.WaitGroup
		for i := lo; i < hi; i++ {
			wg.Add(1)
			go func(i int) {
				defer wg.Done()
				<-start
				evs[i] = serve(a, d, reqs[i])
			}(i)
		}
		close(start)
		wg.Wait()
		for i := lo; i < hi; i++ {
			emit(i, evs[i])
		}
	}
	return nontrivial
}
