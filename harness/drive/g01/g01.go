// Package g01 drives the real client tracing transports (Runtime.WithOpenTracing,
// Runtime.WithOpenTelemetry) for growth check G01: every termination script exported by
// GenClientTracing is replayed on a real client.Runtime (scripted RoundTripper, params
// writer, auth writer, reader) wrapped by the tracing transport, once without tracing
// (baseline) and once with; recording decorators around mocktracer / the OpenTelemetry
// SDK log what happens to the spans.  Concurrent cases run n callers through one
// transport under TLC-exported gate schedules, barriers or free running (-race).
package g01

import (
	"bufio"
	"bytes"
	"context"
	"encoding/json"
	"errors"
	"fmt"
	"io"
	"net/http"
	"os"
	"reflect"
	goruntime "runtime"
	"strconv"
	"strings"
	"sync"
	"time"

	oaruntime "github.com/go-openapi/runtime"
	"github.com/go-openapi/runtime/client"
	"github.com/go-openapi/strfmt"
	"github.com/opentracing/opentracing-go"
	"go.opentelemetry.io/otel"
	"go.opentelemetry.io/otel/attribute"
	"go.opentelemetry.io/otel/propagation"
	"go.opentelemetry.io/otel/trace"

	"verifharness/internal/drv"
)

type M = drv.M

func init() {
	drv.Register(&drv.Driver{Name: "g01", Generate: generate, Execute: execute})
	// the global provider / propagator of the process: the recording decorators
	otel.SetTracerProvider(theProvider)
	otel.SetTextMapPropagator(recPropagator{propagation.TraceContext{}})
}

var (
	errParams    = errors.New("verif: params writer failed")
	errAuth      = errors.New("verif: auth writer failed")
	errTransport = errors.New("verif: transport failed")
	errReader    = errors.New("verif: reader failed")
)

type callScript struct {
	Ctx, End string
	Status   int
}

func scriptsOf(v any) []callScript {
	var out []callScript
	for _, x := range drv.List(v) {
		m := drv.Map(x)
		out = append(out, callScript{drv.Str(m["ctx"]), drv.Str(m["end"]), drv.Int(m["status"])})
	}
	return out
}

type tagConsumer struct{}

func (*tagConsumer) Consume(r io.Reader, _ interface{}) error {
	_, err := io.Copy(io.Discard, r)
	return err
}

// world: everything one case shares.
type world struct {
	flavor string
	rec    *recorder
	ot     *otTracer
	rt     *client.Runtime
	traced oaruntime.ClientTransport
	cons   *tagConsumer
	value  *struct{ x int }
	gate   func(g string, caller int)
	runs   sync.Map // run id -> *run
	nrun   int
	mu     sync.Mutex
}

// run: one Submit (baseline or traced) as the harness callbacks see it.
type run struct {
	id     string
	caller int
	sc     callScript
	traced bool
	w      *world
	pargs  []M
	rargs  []M
	rts    int
}

type slot struct{ cur *run }

func (w *world) newRun(caller int, sc callScript, traced bool) *run {
	w.mu.Lock()
	w.nrun++
	id := strconv.Itoa(w.nrun)
	w.mu.Unlock()
	r := &run{id: id, caller: caller, sc: sc, traced: traced, w: w, pargs: []M{}, rargs: []M{}}
	w.runs.Store(id, r)
	return r
}

func (w *world) doGate(g string, r *run) {
	if r.traced && w.gate != nil {
		w.gate(g, r.caller)
	}
}

// traceIDs: which spans the trace headers name (index >0, 0 = a caller's own span, -1 unknown).
func (w *world) traceIDs(h http.Header) []int {
	out := []int{}
	if w.flavor == "ot" {
		for _, v := range h.Values("Mockpfx-Ids-Spanid") {
			out = append(out, w.rec.lookup("ot:"+v))
		}
		return out
	}
	for _, v := range h.Values("Traceparent") {
		p := strings.Split(v, "-")
		if len(p) == 4 {
			out = append(out, w.rec.lookup("otel:"+p[2]))
		} else {
			out = append(out, -1)
		}
	}
	return out
}

type userParams struct{ s *slot }

func (p *userParams) WriteToRequest(req oaruntime.ClientRequest, reg strfmt.Registry) error {
	r := p.s.cur
	args := M{"req_type": fmt.Sprintf("%T", req), "reg_ok": reg == r.w.rt.Formats}
	r.pargs = append(r.pargs, args)
	if r.traced {
		r.w.rec.add(r.caller, "params", M{"req_type": args["req_type"], "reg_ok": args["reg_ok"], "hdr": r.w.traceIDs(req.GetHeaderParams())})
	}
	r.w.doGate("params", r)
	if err := req.SetHeaderParam("X-Verif-Run", r.id); err != nil {
		return err
	}
	if r.sc.End == "params" {
		return errParams
	}
	return nil
}

type userAuth struct{ s *slot }

func (a *userAuth) AuthenticateRequest(oaruntime.ClientRequest, strfmt.Registry) error {
	if a.s.cur.sc.End == "auth" {
		return errAuth
	}
	return nil
}

type userReader struct{ s *slot }

func (u *userReader) ReadResponse(resp oaruntime.ClientResponse, cons oaruntime.Consumer) (interface{}, error) {
	r := u.s.cur
	args := M{"code": resp.Code(), "cons_ok": cons == oaruntime.Consumer(r.w.cons)}
	r.rargs = append(r.rargs, args)
	if r.traced {
		r.w.rec.add(r.caller, "reader", M{"code": args["code"], "cons_ok": args["cons_ok"]})
	}
	r.w.doGate("reader", r)
	if r.sc.End == "reader" {
		return nil, errReader
	}
	return r.w.value, nil
}

type scriptRT struct{ w *world }

func (t scriptRT) RoundTrip(req *http.Request) (*http.Response, error) {
	v, ok := t.w.runs.Load(req.Header.Get("X-Verif-Run"))
	if !ok {
		return nil, errors.New("verif: request of an unknown run")
	}
	r := v.(*run)
	r.rts++
	if r.traced {
		t.w.rec.add(r.caller, "roundtrip", M{"hdr": t.w.traceIDs(req.Header)})
	}
	t.w.doGate("rt", r)
	if req.Body != nil {
		_, _ = io.Copy(io.Discard, req.Body)
		req.Body.Close()
	}
	if r.sc.End == "transport" {
		return nil, errTransport
	}
	ct := "application/json"
	if r.sc.End == "noconsumer" {
		ct = "application/x-none"
	}
	body := []byte("{}")
	return &http.Response{StatusCode: r.sc.Status, Status: strconv.Itoa(r.sc.Status) + " X", Proto: "HTTP/1.1", ProtoMajor: 1, ProtoMinor: 1,
		Header: http.Header{"Content-Type": []string{ct}}, ContentLength: int64(len(body)),
		Body: io.NopCloser(bytes.NewReader(body)), Request: req}, nil
}

func newWorld(d M) *world {
	w := &world{flavor: drv.Str(d["flavor"]), rec: newRecorder(), cons: &tagConsumer{}, value: &struct{ x int }{1}}
	w.rt = client.New(drv.Str(d["host"]), "/", []string{"http"})
	w.rt.Transport = scriptRT{w}
	w.rt.Consumers = map[string]oaruntime.Consumer{"application/json": w.cons}
	if w.flavor == "ot" {
		w.ot = newOTTracer(w.rec)
		opts := make([]opentracing.StartSpanOption, 0, 4)
		opts = append(opts, opentracing.Tag{Key: "peer.service", Value: "svc"})
		if drv.Bool(d["spare"]) {
			w.traced = w.rt.WithOpenTracing(opts...) // len 1, cap 4
		} else {
			w.traced = w.rt.WithOpenTracing(opts[:1:1]...)
		}
	} else {
		theProvider.reset(w.rec)
		o := []client.OpenTelemetryOpt{client.WithSpanOptions(trace.WithAttributes(attribute.String("peer.service", "svc")))}
		if drv.Str(d["prop"]) == "opt" {
			o = append(o, client.WithPropagators(recPropagator{propagation.TraceContext{}}))
		}
		w.traced = w.rt.WithOpenTelemetry(o...)
	}
	return w
}

// party: one caller with its operation value.
type party struct {
	caller int
	s      *slot
	op     *oaruntime.ClientOperation
	ctxs   map[string]context.Context
	finish func()
}

func (w *world) newParty(caller int, d M) *party {
	p := &party{caller: caller, s: &slot{}}
	bg := withCaller(context.Background(), caller)
	p.ctxs = map[string]context.Context{"plain": bg}
	if w.flavor == "ot" {
		cs := w.ot.callerSpan(caller)
		p.ctxs["span"] = opentracing.ContextWithSpan(bg, cs)
		p.finish = cs.Finish
	} else {
		ctx, cs := theProvider.callerSpan(bg, caller)
		p.ctxs["span"] = ctx
		p.finish = func() { cs.End() }
	}
	p.op = p.newOp(d)
	return p
}

func (p *party) newOp(d M) *oaruntime.ClientOperation {
	return &oaruntime.ClientOperation{ID: drv.Str(d["id"]), Method: drv.Str(d["method"]), PathPattern: drv.Str(d["path"]),
		Schemes: []string{"http"}, ProducesMediaTypes: []string{"application/json"}, ConsumesMediaTypes: []string{"application/json"},
		Params: &userParams{p.s}, Reader: &userReader{p.s}, AuthInfo: &userAuth{p.s}}
}

func arm(op *oaruntime.ClientOperation, sc callScript, ctx context.Context) {
	op.Context = ctx
	if sc.End == "pre" {
		op.ConsumesMediaTypes = []string{"application/x-none"} // no producer registered: refused before the params writer
	} else {
		op.ConsumesMediaTypes = []string{"application/json"}
	}
}

func classify(err error) string {
	switch {
	case err == nil:
		return "none"
	case errors.Is(err, errParams):
		return "params"
	case errors.Is(err, errAuth):
		return "auth"
	case errors.Is(err, errTransport):
		return "transport"
	case errors.Is(err, errReader):
		return "reader"
	}
	return "other"
}

func sameOp(a *oaruntime.ClientOperation, b oaruntime.ClientOperation) (params, reader, rest bool) {
	defer func() {
		if recover() != nil { // uncomparable dynamic types: certainly not what was handed in
			params, reader, rest = false, false, false
		}
	}()
	params = a.Params == b.Params
	reader = a.Reader == b.Reader
	rest = a.ID == b.ID && a.Method == b.Method && a.PathPattern == b.PathPattern && a.AuthInfo == b.AuthInfo &&
		a.Context == b.Context && a.Client == b.Client &&
		reflect.DeepEqual(a.ProducesMediaTypes, b.ProducesMediaTypes) && reflect.DeepEqual(a.ConsumesMediaTypes, b.ConsumesMediaTypes) &&
		reflect.DeepEqual(a.Schemes, b.Schemes)
	return
}

// submit performs one Submit of op through tr and returns the caller-visible outcome.
func (w *world) submit(tr oaruntime.ClientTransport, op *oaruntime.ClientOperation) M {
	before := *op
	var val interface{}
	var err error
	panicked := false
	func() {
		defer func() {
			if r := recover(); r != nil {
				panicked = true
			}
		}()
		val, err = tr.Submit(op)
	}()
	text := ""
	if err != nil {
		text = ascii(err.Error())
	}
	ps, rs, rest := sameOp(op, before)
	return M{"err": err != nil, "err_is": classify(err), "err_text": text, "val_ok": val == interface{}(w.value), "panic": panicked,
		"params_same": ps, "reader_same": rs, "rest_same": rest}
}

// baseline: the same script on the plain Runtime, fresh operation value, no tracing.
func (w *world) baseline(p *party, d M, k int, sc callScript) M {
	s := &slot{}
	bp := &party{caller: p.caller, s: s}
	op := bp.newOp(d)
	arm(op, sc, p.ctxs[sc.Ctx])
	r := w.newRun(p.caller, sc, false)
	s.cur = r
	out := w.submit(w.rt, op)
	return M{"k": k, "pargs": r.pargs, "rargs": r.rargs, "rts": r.rts, "err": out["err"], "err_is": out["err_is"],
		"err_text": out["err_text"], "val_ok": out["val_ok"], "panic": out["panic"]}
}

// tracedCall: one Submit through the tracing transport; submit/return go through the recorder (logical clock).
func (w *world) tracedCall(p *party, op *oaruntime.ClientOperation, k int, sc callScript) {
	arm(op, sc, p.ctxs[sc.Ctx])
	r := w.newRun(p.caller, sc, true)
	p.s.cur = r
	w.rec.add(p.caller, "submit", M{"k": k})
	out := w.submit(w.traced, op)
	out["k"] = k
	w.rec.add(p.caller, "return", out)
}

func (w *world) end(c *drv.Ctx, parties []*party, stray int) {
	for _, p := range parties {
		p.finish()
	}
	open := 0
	if w.flavor == "ot" {
		open = w.ot.openSpans()
	} else {
		open = theProvider.openSpans()
	}
	c.W.Event("end", M{"open": open, "stray": stray, "started": w.rec.spanCount()})
}

func flush(c *drv.Ctx, evs []evt) {
	for _, e := range evs {
		c.W.Event(e.ev, e.f)
	}
}

func nontrivial(scs []callScript) bool {
	for _, s := range scs {
		if s.Ctx != "nil" || s.End != "ok" {
			return true
		}
	}
	return false
}

// ---- sequential cases --------------------------------------------------------------

func execSeq(c *drv.Ctx, d M) bool {
	scs := scriptsOf(d["calls"])
	w := newWorld(d)
	p := w.newParty(1, d)
	reuse := drv.Bool(d["reuse"])
	for i, sc := range scs {
		k := i + 1
		c.W.Event("base", w.baseline(p, d, k, sc))
		op := p.op
		if !reuse {
			op = p.newOp(d)
		}
		w.tracedCall(p, op, k, sc)
		flush(c, w.rec.take())
	}
	w.end(c, []*party{p}, 0)
	return nontrivial(scs)
}

// ---- concurrent cases --------------------------------------------------------------

type gateStep struct {
	caller int
	gate   string
}

type scheduler struct {
	mode    string // sched | params-barrier | rt-barrier | free
	n       int
	mu      sync.Mutex
	arrive  chan gateStep
	release map[gateStep]chan struct{}
	log     []M
	free    chan struct{}
	exact   bool
	barrier map[string]*sync.WaitGroup
}

func newScheduler(mode string, n int) *scheduler {
	s := &scheduler{mode: mode, n: n, arrive: make(chan gateStep, 3*n+8), release: map[gateStep]chan struct{}{},
		free: make(chan struct{}), exact: true, barrier: map[string]*sync.WaitGroup{}}
	for i := 1; i <= n; i++ {
		for _, g := range []string{"params", "rt", "reader"} {
			s.release[gateStep{i, g}] = make(chan struct{})
		}
	}
	for _, g := range []string{"params", "rt"} {
		wg := &sync.WaitGroup{}
		wg.Add(n)
		s.barrier[g] = wg
	}
	return s
}

func (s *scheduler) gate(g string, caller int) {
	switch s.mode {
	case "sched":
		s.arrive <- gateStep{caller, g}
		select {
		case <-s.release[gateStep{caller, g}]:
		case <-s.free:
		}
	case "params-barrier", "rt-barrier":
		if strings.HasPrefix(s.mode, g) {
			wg := s.barrier[g]
			wg.Done()
			done := make(chan struct{})
			go func() { wg.Wait(); close(done) }()
			select {
			case <-done:
			case <-time.After(3 * time.Second): // callers serialised by the code under test: do not deadlock the harness
			}
		}
	}
}

// run releases the gates in the scripted order; a step is released only after its caller arrived at it.
func (s *scheduler) run(steps []gateStep, finished <-chan int) {
	arrived := map[gateStep]bool{}
	gone := map[int]bool{}
	giveUp := func() {
		s.mu.Lock()
		s.exact = false
		s.mu.Unlock()
		close(s.free)
	}
	for _, st := range steps {
		deadline := time.After(2 * time.Second)
		for !arrived[st] && !gone[st.caller] {
			select {
			case a := <-s.arrive:
				arrived[a] = true
			case i := <-finished:
				gone[i] = true
			case <-deadline:
				giveUp()
				return
			}
		}
		if gone[st.caller] {
			s.mu.Lock()
			s.exact = false
			s.mu.Unlock()
			continue
		}
		s.mu.Lock()
		s.log = append(s.log, M{"caller": st.caller, "gate": st.gate})
		s.mu.Unlock()
		close(s.release[st])
		if st.gate == "reader" { // the call returns before the next gate is released
			deadline := time.After(2 * time.Second)
			for !gone[st.caller] {
				select {
				case a := <-s.arrive:
					arrived[a] = true
				case i := <-finished:
					gone[i] = true
				case <-deadline:
					giveUp()
					return
				}
			}
		}
	}
}

func execConc(c *drv.Ctx, d M) bool {
	n := drv.Int(d["n"])
	mode := drv.Str(d["mode"])
	if p := drv.Int(d["gomaxprocs"]); p > 0 {
		defer goruntime.GOMAXPROCS(goruntime.GOMAXPROCS(p))
	}
	scs := scriptsOf(d["calls"])
	var steps []gateStep
	for _, x := range drv.List(d["gates"]) {
		xm := drv.Map(x)
		steps = append(steps, gateStep{drv.Int(xm["caller"]), drv.Str(xm["gate"])})
	}
	w := newWorld(d)
	sch := newScheduler(mode, n)
	w.gate = sch.gate
	parties := make([]*party, n)
	bases := make([]M, n)
	for i := 1; i <= n; i++ {
		parties[i-1] = w.newParty(i, d)
		bases[i-1] = w.baseline(parties[i-1], d, i, scs[i-1])
	}
	finished := make(chan int, n)
	start := make(chan struct{})
	var wg sync.WaitGroup
	for i := 1; i <= n; i++ {
		wg.Add(1)
		go func(i int) {
			defer wg.Done()
			<-start
			p := parties[i-1]
			w.tracedCall(p, p.op, i, scs[i-1])
			finished <- i
		}(i)
	}
	schedDone := make(chan struct{})
	if mode == "sched" {
		go func() { sch.run(steps, finished); close(schedDone) }()
	} else {
		close(schedDone)
	}
	close(start)
	wg.Wait()
	<-schedDone

	if mode == "sched" {
		sch.mu.Lock()
		lg := sch.log
		if lg == nil {
			lg = []M{}
		}
		c.W.Event("gates", M{"released": lg, "exact": sch.exact})
		sch.mu.Unlock()
	}
	evs := w.rec.take()
	stray := 0
	for i := 1; i <= n; i++ {
		c.W.Event("base", bases[i-1])
		for _, e := range evs {
			if e.caller == i {
				c.W.Event(e.ev, e.f)
			}
		}
	}
	for _, e := range evs {
		if e.caller < 1 || e.caller > n {
			stray++
			c.W.Event(e.ev, e.f)
		}
	}
	w.end(c, parties, stray)
	return true
}

func execute(c *drv.Ctx, d M) bool {
	if drv.Str(d["kind"]) == "conc" {
		return execConc(c, d)
	}
	return execSeq(c, d)
}

// ---- generation ----------------------------------------------------------------------

var (
	ids     = []string{"getThing", ""}
	methods = []string{"GET", "POST", "PUT", "DELETE"}
	paths   = []string{"/things/{id}", "/a/b"}
	hosts   = []string{"api.verif.invalid", "h2.verif.invalid:8080"}
	props   = []string{"opt", "global"}
	ctxs    = []string{"nil", "plain", "span"}
	ends    = []string{"pre", "params", "auth", "transport", "noconsumer", "reader", "ok"}
)

func identity(k int, d M) M {
	d["id"] = ids[k%2]
	d["method"] = methods[(k/2)%4]
	d["path"] = paths[(k/8)%2]
	d["host"] = hosts[(k/16)%2]
	d["prop"] = props[(k/3)%2]
	return d
}

func scriptM(s callScript) M { return M{"ctx": s.Ctx, "end": s.End, "status": s.Status} }

func generate(c *drv.Ctx) {
	thorough := c.Tier == "thorough"
	var seqScripts, schedules []M
	if c.Scripts != "" {
		f, err := os.Open(c.Scripts)
		if err != nil {
			panic(err)
		}
		sc := bufio.NewScanner(f)
		sc.Buffer(make([]byte, 1<<20), 1<<26)
		for sc.Scan() {
			var m M
			if json.Unmarshal(sc.Bytes(), &m) != nil {
				continue
			}
			if drv.Str(m["kind"]) == "seq" {
				seqScripts = append(seqScripts, m)
			} else if drv.Str(m["kind"]) == "conc" {
				schedules = append(schedules, m)
			}
		}
		f.Close()
	}
	k := 0
	// (1) every termination script exported by TLC, on one reused operation value
	for _, s := range seqScripts {
		k++
		c.Case(identity(k, M{"kind": "seq", "flavor": s["flavor"], "spare": k%5 == 0, "calls": s["calls"], "reuse": true, "gates": []M{}}))
	}
	// (2) the single-call scripts again with every operation identity (name with and without ID, methods, paths, hosts)
	for _, s := range seqScripts {
		if len(drv.List(s["calls"])) != 1 {
			continue
		}
		cs := scriptsOf(s["calls"])[0]
		if cs.Ctx == "nil" || (cs.Status != 0 && cs.Status != 200 && cs.Status != 399 && cs.Status != 400 && cs.Status != 404) {
			continue
		}
		for v := 0; v < 32; v++ {
			c.Case(identity(v, M{"kind": "seq", "flavor": s["flavor"], "spare": false, "calls": s["calls"], "reuse": v%2 == 0, "gates": []M{}}))
		}
	}
	// (3) seeded random sequences: any status 100..599, up to 3 calls, reused or fresh operation values
	nrand := 400
	if thorough {
		nrand = 6000
	}
	for i := 0; i < nrand; i++ {
		n := 1 + c.Rng.Intn(3)
		calls := make([]M, n)
		for j := range calls {
			s := callScript{Ctx: ctxs[c.Rng.Intn(3)], End: ends[c.Rng.Intn(7)]}
			if s.End == "noconsumer" || s.End == "reader" || s.End == "ok" {
				s.Status = 100 + c.Rng.Intn(500)
			}
			calls[j] = scriptM(s)
		}
		c.Case(identity(c.Rng.Intn(64), M{"kind": "seq", "flavor": []string{"ot", "otel"}[c.Rng.Intn(2)], "spare": c.Rng.Intn(2) == 0,
			"calls": calls, "reuse": c.Rng.Intn(3) > 0, "gates": []M{}}))
	}
	// (4) concurrent callers through one transport
	concCalls := func(n, variant int, gated bool) []M {
		out := make([]M, n)
		for i := range out {
			s := callScript{Ctx: "span", End: "ok", Status: []int{200, 404, 400, 302, 500}[(i+variant)%5]}
			switch variant % 4 {
			case 1:
				s.Ctx = ctxs[(i+variant/4)%3]
			case 2:
				if i%2 == 1 {
					s.End = "reader"
				}
			case 3:
				if !gated { // a caller that fails early never reaches its gates: only in ungated modes
					s.End = ends[(i+variant/4)%7]
					if s.End == "pre" || s.End == "params" || s.End == "auth" || s.End == "transport" {
						s.Status = 0
					}
				} else {
					s.Ctx = ctxs[(i+1)%3]
					s.End = []string{"ok", "reader"}[(i/2)%2]
				}
			}
			out[i] = scriptM(s)
		}
		return out
	}
	v := 0
	for si, s := range schedules {
		n := drv.Int(s["n"])
		if n >= 3 && !thorough && c.Rng.Intn(10) != 0 { // quick: a seeded tenth of the 3-caller schedules
			continue
		}
		for _, fl := range []string{"ot", "otel"} {
			v++
			c.Case(identity(v, M{"kind": "conc", "flavor": fl, "spare": (v+si)%2 == 0, "n": n, "mode": "sched", "gates": s["gates"],
				"gomaxprocs": []int{1, 2, 4, 0}[v%4], "calls": concCalls(n, v, true), "reuse": false}))
		}
	}
	reps := 3
	if thorough {
		reps = 25
	}
	for _, mode := range []string{"params-barrier", "rt-barrier", "free"} {
		for _, n := range []int{2, 8, 32} {
			for _, p := range []int{1, 2, 4, 16} {
				for r := 0; r < reps; r++ {
					for _, fl := range []string{"ot", "otel"} {
						v++
						c.Case(identity(v, M{"kind": "conc", "flavor": fl, "spare": r%2 == 0, "n": n, "mode": mode, "gates": []M{},
							"gomaxprocs": p, "calls": concCalls(n, v, mode != "free"), "reuse": false}))
					}
				}
			}
		}
	}
	c.Extra["tlc_scripts"] = len(seqScripts)
	c.Extra["tlc_schedules"] = len(schedules)
}
