package g01

// Recording decorators around the mock tracers.  They delegate everything to
// github.com/opentracing/opentracing-go/mocktracer and to the OpenTelemetry SDK
// (sdk/trace + tracetest.SpanRecorder) and record, in real order under one
// logical clock, what the code under test does to its spans: start, every
// operation, inject, finish (with the mock's own snapshot of name/tags/status).

import (
	"context"
	"fmt"
	"sort"
	"strconv"
	"strings"
	"sync"

	"github.com/opentracing/opentracing-go"
	otlog "github.com/opentracing/opentracing-go/log"
	"github.com/opentracing/opentracing-go/mocktracer"
	"go.opentelemetry.io/otel/attribute"
	"go.opentelemetry.io/otel/codes"
	"go.opentelemetry.io/otel/propagation"
	tracesdk "go.opentelemetry.io/otel/sdk/trace"
	"go.opentelemetry.io/otel/sdk/trace/tracetest"
	"go.opentelemetry.io/otel/trace"
	"go.opentelemetry.io/otel/trace/embedded"
)

// ---- the recorder -------------------------------------------------------------

type evt struct {
	caller int // 0 = not attributable to a caller
	ev     string
	f      M
}

type recorder struct {
	mu     sync.Mutex
	clock  int
	evs    []evt
	nspans int            // spans started by the code under test (caller spans excluded)
	byID   map[string]int // tracer-level span id -> index (1..) ; caller spans -> -caller
	owner  map[int]int    // span index -> caller it is attributed to
}

func newRecorder() *recorder { return &recorder{byID: map[string]int{}, owner: map[int]int{}} }

func (r *recorder) add(caller int, ev string, f M) int {
	r.mu.Lock()
	defer r.mu.Unlock()
	r.clock++
	f["t"] = r.clock
	r.evs = append(r.evs, evt{caller, ev, f})
	return r.clock
}

// lookup: >0 span index, 0 = a caller's own span, -1 unknown
func (r *recorder) lookup(id string) int {
	r.mu.Lock()
	defer r.mu.Unlock()
	v, ok := r.byID[id]
	if !ok {
		return -1
	}
	if v < 0 {
		return 0
	}
	return v
}

// callerOf: which caller's span has this id (0 = none)
func (r *recorder) callerOf(id string) int {
	r.mu.Lock()
	defer r.mu.Unlock()
	if v, ok := r.byID[id]; ok && v < 0 {
		return -v
	}
	return 0
}

func (r *recorder) registerRoot(id string, caller int) {
	r.mu.Lock()
	r.byID[id] = -caller
	r.mu.Unlock()
}

func (r *recorder) registerSpan(id string, owner int) int {
	r.mu.Lock()
	defer r.mu.Unlock()
	r.nspans++
	r.byID[id] = r.nspans
	r.owner[r.nspans] = owner
	return r.nspans
}

func (r *recorder) ownerOf(idx int) int {
	r.mu.Lock()
	defer r.mu.Unlock()
	return r.owner[idx]
}

func (r *recorder) spanCount() int {
	r.mu.Lock()
	defer r.mu.Unlock()
	return r.nspans
}

// take returns and removes the events recorded so far (all callers), in order.
func (r *recorder) take() []evt {
	r.mu.Lock()
	defer r.mu.Unlock()
	e := r.evs
	r.evs = nil
	return e
}

// ---- OpenTracing ----------------------------------------------------------------

type otTracer struct {
	r       *recorder
	mock    *mocktracer.MockTracer
	mu      sync.Mutex
	started []int // mock span ids started by the code under test
}

type otSpan struct {
	t      *otTracer
	ms     *mocktracer.MockSpan
	idx    int // 0 for a caller's span
	owner  int
	isRoot bool
}

func newOTTracer(r *recorder) *otTracer { return &otTracer{r: r, mock: mocktracer.New()} }

func otID(id int) string { return "ot:" + strconv.Itoa(id) }

// callerSpan creates the span the caller puts in its context.
func (t *otTracer) callerSpan(caller int) *otSpan {
	ms := t.mock.StartSpan("caller-" + strconv.Itoa(caller)).(*mocktracer.MockSpan)
	t.r.registerRoot(otID(ms.SpanContext.SpanID), caller)
	return &otSpan{t: t, ms: ms, owner: caller, isRoot: true}
}

func (t *otTracer) StartSpan(name string, opts ...opentracing.StartSpanOption) opentracing.Span {
	ms := t.mock.StartSpan(name, opts...).(*mocktracer.MockSpan)
	owner := t.r.callerOf(otID(ms.ParentID))
	parent := -1
	if ms.ParentID == 0 {
		parent = 0
	} else if owner > 0 {
		parent = owner
	}
	idx := t.r.registerSpan(otID(ms.SpanContext.SpanID), owner)
	t.mu.Lock()
	t.started = append(t.started, ms.SpanContext.SpanID)
	t.mu.Unlock()
	s := &otSpan{t: t, ms: ms, idx: idx, owner: owner}
	t.r.add(owner, "span_start", M{"span": idx, "parent": parent, "name": name})
	return s
}

func (t *otTracer) Inject(sm opentracing.SpanContext, format interface{}, carrier interface{}) error {
	if mc, ok := sm.(mocktracer.MockSpanContext); ok {
		if idx := t.r.lookup(otID(mc.SpanID)); idx > 0 {
			t.r.add(t.r.ownerOf(idx), "span_op", M{"span": idx, "op": "inject", "key": ""})
		}
	}
	return t.mock.Inject(sm, format, carrier)
}

func (t *otTracer) Extract(format interface{}, carrier interface{}) (opentracing.SpanContext, error) {
	return t.mock.Extract(format, carrier)
}

func (s *otSpan) op(name, key string) {
	if s.isRoot {
		return
	}
	s.t.r.add(s.owner, "span_op", M{"span": s.idx, "op": name, "key": key})
}

func (s *otSpan) snapshot() M {
	tags := s.ms.Tags()
	keys := make([]string, 0, len(tags))
	for k := range tags {
		keys = append(keys, k)
	}
	sort.Strings(keys)
	list := [][]string{}
	for _, k := range keys {
		list = append(list, []string{ascii(k), ascii(fmt.Sprint(tags[k]))})
	}
	kind := ""
	if v, ok := tags["span.kind"]; ok {
		kind = ascii(fmt.Sprint(v))
	}
	e, _ := tags["error"].(bool)
	return M{"span": s.idx, "name": ascii(s.ms.OperationName), "tags": list, "kind": kind, "err": e}
}

func (s *otSpan) Finish() {
	if !s.isRoot {
		s.t.r.add(s.owner, "span_finish", s.snapshot())
	}
	s.ms.Finish()
}

func (s *otSpan) FinishWithOptions(o opentracing.FinishOptions) {
	if !s.isRoot {
		s.t.r.add(s.owner, "span_finish", s.snapshot())
	}
	s.ms.FinishWithOptions(o)
}

func (s *otSpan) Context() opentracing.SpanContext { return s.ms.Context() }
func (s *otSpan) SetOperationName(n string) opentracing.Span {
	s.op("name", "")
	s.ms.SetOperationName(n)
	return s
}
func (s *otSpan) SetTag(key string, value interface{}) opentracing.Span {
	s.op("tag", ascii(key))
	s.ms.SetTag(key, value)
	return s
}
func (s *otSpan) LogFields(fields ...otlog.Field) { s.op("log", ""); s.ms.LogFields(fields...) }
func (s *otSpan) LogKV(kv ...interface{})         { s.op("log", ""); s.ms.LogKV(kv...) }
func (s *otSpan) SetBaggageItem(k, v string) opentracing.Span {
	s.op("baggage", ascii(k))
	s.ms.SetBaggageItem(k, v)
	return s
}
func (s *otSpan) BaggageItem(k string) string { return s.ms.BaggageItem(k) }
func (s *otSpan) Tracer() opentracing.Tracer  { return s.t }
func (s *otSpan) LogEvent(e string)           { s.op("log", ""); s.ms.LogEvent(e) }
func (s *otSpan) LogEventWithPayload(e string, p interface{}) {
	s.op("log", "")
	s.ms.LogEventWithPayload(e, p)
}
func (s *otSpan) Log(d opentracing.LogData) { s.op("log", ""); s.ms.Log(d) }

// openSpans: spans the mock never saw finished (distinct ids), caller spans excluded.
func (t *otTracer) openSpans() int {
	t.mu.Lock()
	startedIDs := append([]int(nil), t.started...)
	t.mu.Unlock()
	fin := map[int]bool{}
	for _, ms := range t.mock.FinishedSpans() {
		fin[ms.SpanContext.SpanID] = true
	}
	n := 0
	for _, id := range startedIDs {
		if !fin[id] {
			n++
		}
	}
	return n
}

// ---- OpenTelemetry ----------------------------------------------------------------

type callerKey struct{}

// withCaller marks a context with the caller it belongs to (attribution of root spans).
func withCaller(ctx context.Context, caller int) context.Context {
	return context.WithValue(ctx, callerKey{}, caller)
}

type otelProvider struct {
	embedded.TracerProvider
	mu  sync.Mutex
	r   *recorder
	sdk *tracesdk.TracerProvider
	sr  *tracetest.SpanRecorder
}

// theProvider is installed once as the global provider; each case swaps a fresh SDK provider in.
var theProvider = &otelProvider{}

func (p *otelProvider) reset(r *recorder) {
	sr := tracetest.NewSpanRecorder()
	sdk := tracesdk.NewTracerProvider(tracesdk.WithSampler(tracesdk.AlwaysSample()), tracesdk.WithSpanProcessor(sr))
	p.mu.Lock()
	p.r, p.sdk, p.sr = r, sdk, sr
	p.mu.Unlock()
}

func (p *otelProvider) cur() (*recorder, *tracesdk.TracerProvider, *tracetest.SpanRecorder) {
	p.mu.Lock()
	defer p.mu.Unlock()
	return p.r, p.sdk, p.sr
}

func (p *otelProvider) Tracer(name string, opts ...trace.TracerOption) trace.Tracer {
	r, sdk, _ := p.cur()
	return &otelTracer{p: p, r: r, t: sdk.Tracer(name, opts...)}
}

type otelTracer struct {
	embedded.Tracer
	p *otelProvider
	r *recorder
	t trace.Tracer
}

func otelID(id trace.SpanID) string { return "otel:" + id.String() }

// callerSpan creates the span the caller puts in its context.
func (p *otelProvider) callerSpan(ctx context.Context, caller int) (context.Context, *otelSpan) {
	r, sdk, _ := p.cur()
	ctx2, s := sdk.Tracer("caller").Start(ctx, "caller-"+strconv.Itoa(caller))
	r.registerRoot(otelID(s.SpanContext().SpanID()), caller)
	ws := &otelSpan{Span: s, p: p, r: r, owner: caller, isRoot: true}
	return trace.ContextWithSpan(ctx2, ws), ws
}

func (t *otelTracer) Start(ctx context.Context, name string, opts ...trace.SpanStartOption) (context.Context, trace.Span) {
	if ctx == nil {
		ctx = context.Background()
	}
	ctx2, s := t.t.Start(ctx, name, opts...)
	owner, _ := ctx.Value(callerKey{}).(int)
	parent := -1
	if ro, ok := s.(tracesdk.ReadOnlySpan); ok {
		if !ro.Parent().IsValid() {
			parent = 0
		} else if c := t.r.callerOf(otelID(ro.Parent().SpanID())); c > 0 {
			parent = c
			if owner == 0 {
				owner = c
			}
		}
	}
	idx := t.r.registerSpan(otelID(s.SpanContext().SpanID()), owner)
	ws := &otelSpan{Span: s, p: t.p, r: t.r, idx: idx, owner: owner}
	t.r.add(owner, "span_start", M{"span": idx, "parent": parent, "name": ascii(name)})
	return trace.ContextWithSpan(ctx2, ws), ws
}

type otelSpan struct {
	trace.Span
	p      *otelProvider
	r      *recorder
	idx    int
	owner  int
	isRoot bool
}

func (s *otelSpan) op(name, key string) {
	if s.isRoot {
		return
	}
	s.r.add(s.owner, "span_op", M{"span": s.idx, "op": name, "key": key})
}

func (s *otelSpan) snapshot() M {
	list := [][]string{}
	name, kind := "", ""
	isErr := false
	if ro, ok := s.Span.(tracesdk.ReadOnlySpan); ok {
		attrs := ro.Attributes()
		sort.Slice(attrs, func(i, j int) bool { return attrs[i].Key < attrs[j].Key })
		for _, a := range attrs {
			list = append(list, []string{ascii(string(a.Key)), ascii(a.Value.Emit())})
		}
		name = ascii(ro.Name())
		kind = ascii(ro.SpanKind().String())
		isErr = ro.Status().Code == codes.Error
	}
	return M{"span": s.idx, "name": name, "tags": list, "kind": kind, "err": isErr}
}

func (s *otelSpan) End(options ...trace.SpanEndOption) {
	if !s.isRoot {
		s.r.add(s.owner, "span_finish", s.snapshot())
	}
	s.Span.End(options...)
}
func (s *otelSpan) AddEvent(name string, options ...trace.EventOption) {
	s.op("event", "")
	s.Span.AddEvent(name, options...)
}
func (s *otelSpan) RecordError(err error, options ...trace.EventOption) {
	s.op("error", "")
	s.Span.RecordError(err, options...)
}
func (s *otelSpan) SetStatus(code codes.Code, description string) {
	s.op("status", "")
	s.Span.SetStatus(code, description)
}
func (s *otelSpan) SetName(name string) { s.op("name", ""); s.Span.SetName(name) }
func (s *otelSpan) SetAttributes(kv ...attribute.KeyValue) {
	keys := make([]string, len(kv))
	for i, a := range kv {
		keys[i] = ascii(string(a.Key))
	}
	s.op("attrs", strings.Join(keys, ","))
	s.Span.SetAttributes(kv...)
}
func (s *otelSpan) TracerProvider() trace.TracerProvider { return s.p }

// recPropagator records the injection and delegates to the W3C propagator.
type recPropagator struct{ inner propagation.TextMapPropagator }

func (p recPropagator) Inject(ctx context.Context, carrier propagation.TextMapCarrier) {
	if ws, ok := trace.SpanFromContext(ctx).(*otelSpan); ok && !ws.isRoot {
		ws.op("inject", "")
	}
	p.inner.Inject(ctx, carrier)
}
func (p recPropagator) Extract(ctx context.Context, carrier propagation.TextMapCarrier) context.Context {
	return p.inner.Extract(ctx, carrier)
}
func (p recPropagator) Fields() []string { return p.inner.Fields() }

// openSpans: spans the SDK saw started but not ended.
func (p *otelProvider) openSpans() int {
	_, _, sr := p.cur()
	ended := map[trace.SpanID]bool{}
	for _, s := range sr.Ended() {
		ended[s.SpanContext().SpanID()] = true
	}
	n := 0
	for _, s := range sr.Started() {
		if !ended[s.SpanContext().SpanID()] {
			n++
		}
	}
	return n
}

func ascii(s string) string {
	b := []byte(s)
	for i, c := range b {
		if c >= 0x80 || c < 0x20 {
			b[i] = '?'
		}
	}
	if len(b) > 200 {
		b = b[:200]
	}
	return string(b)
}
