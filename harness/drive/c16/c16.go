// Package c16 drives the CSV codec (property C16): every destination kind of
// CSVConsumer and every source kind of CSVProducer, over CSV texts rendered
// from abstract tables (quoted fields, embedded separators / newlines /
// quotes, empty fields and lines, comments, ragged rows, malformed quoting)
// and option sets (separator, comment, lazy quotes, trimmed space, fields per
// record, skipped lines, CRLF, record reuse).  The reference parse of the text
// (encoding/csv with the same reader options) is the abstraction function
// text -> record table handed to the specification (specs/CSVCodec.tla).
package c16

import (
	"bytes"
	"encoding/csv"
	"errors"
	"io"
	"math/rand"
	goruntime "runtime"
	"strings"
	"sync"
	"sync/atomic"
	"time"

	"github.com/go-openapi/runtime"

	"verifharness/drive/streamkit"
	"verifharness/internal/drv"
	"verifharness/internal/trace"
)

type M = drv.M

func init() {
	drv.Register(&drv.Driver{Name: "c16", Generate: generate, Execute: execute})
}

// ---- abstract tables -> CSV text ---------------------------------------------

// render writes a table as CSV text the way a careful human would: a field is
// quoted when it contains the separator, a quote, a line break, or is the only
// (empty) field of its record, or when quoteAll is set.
func render(table [][]string, comma byte, eol string, quoteAll, finalEOL bool) string {
	var b strings.Builder
	for i, rec := range table {
		for j, f := range rec {
			if j > 0 {
				b.WriteByte(comma)
			}
			need := quoteAll || strings.ContainsAny(f, "\"\r\n") || strings.IndexByte(f, comma) >= 0 ||
				(len(rec) == 1 && f == "") || strings.HasPrefix(f, " ") || (j == 0 && strings.HasPrefix(f, "#"))
			if need {
				b.WriteByte('"')
				b.WriteString(strings.ReplaceAll(f, `"`, `""`))
				b.WriteByte('"')
			} else {
				b.WriteString(f)
			}
		}
		if i < len(table)-1 || finalEOL {
			b.WriteString(eol)
		}
	}
	return b.String()
}

type textCase struct {
	name string
	text func(comma byte) string
}

func tbl(rows ...string) [][]string {
	var t [][]string
	for _, r := range rows {
		t = append(t, strings.Split(r, "|"))
	}
	return t
}

// the small scope: one text per class named in the property's quantifier
var texts = []textCase{
	{"empty", func(c byte) string { return "" }},
	{"one", func(c byte) string { return render(tbl("a"), c, "\n", false, true) }},
	{"plain2x2", func(c byte) string { return render(tbl("a|b", "c|d"), c, "\n", false, true) }},
	{"plain3x2-noeol", func(c byte) string { return render(tbl("h1|h2", "a|b", "c|d"), c, "\n", false, false) }},
	{"crlf-input", func(c byte) string { return render(tbl("h1|h2", "a|b", "c|d"), c, "\r\n", false, true) }},
	{"quoted-all", func(c byte) string { return render(tbl("a|b", "c|d"), c, "\n", true, true) }},
	{"embedded-sep", func(c byte) string { return render(tbl("x,y|p;q", "k|l"), c, "\n", false, true) }},
	{"embedded-newline", func(c byte) string { return render(tbl("l\nl|b", "c|d\r\ne"), c, "\n", false, true) }},
	{"embedded-quote", func(c byte) string { return render(tbl(`q"q|b`, `"|""`), c, "\n", false, true) }},
	{"empty-fields", func(c byte) string { return render(tbl("|b", "c|", "|"), c, "\n", false, true) }},
	{"lone-empty-field", func(c byte) string { return render(tbl("", "x"), c, "\n", false, true) }},
	{"empty-lines", func(c byte) string {
		return "\n" + render(tbl("a|b"), c, "\n", false, true) + "\n\n" + render(tbl("c|d"), c, "\n", false, true)
	}},
	{"comment-lines", func(c byte) string {
		return "#h1" + string(c) + "h2\n" + render(tbl("a|b"), c, "\n", false, true) + "# note\n" + render(tbl("c|d"), c, "\n", false, true)
	}},
	{"hash-field", func(c byte) string { return render(tbl("#c|b", "a|#d"), c, "\n", false, true) }},
	{"leading-space", func(c byte) string { return " a" + string(c) + "  b\n \"q\"" + string(c) + " d\n" }},
	{"ragged-longer", func(c byte) string { return render(tbl("a|b", "c|d|e"), c, "\n", false, true) }},
	{"ragged-shorter", func(c byte) string { return render(tbl("a|b|c", "d", "e|f|g"), c, "\n", false, true) }},
	{"header-1-data-2", func(c byte) string { return render(tbl("title", "a|b", "c|d"), c, "\n", false, true) }},
	{"bare-quote", func(c byte) string { return "a\"b" + string(c) + "c\nd" + string(c) + "e\n" }},
	{"bare-quote-last", func(c byte) string { return "a" + string(c) + "b\nc" + string(c) + "d\"\n" }},
	{"unterminated-quote", func(c byte) string { return "a" + string(c) + "b\n\"c" + string(c) + "d\n" }},
	{"quote-then-text", func(c byte) string { return "\"a\"x" + string(c) + "b\nc" + string(c) + "d\n" }},
	{"non-ascii", func(c byte) string { return render(tbl("é|€", "ü|z"), c, "\n", false, true) }},
	{"five-rows", func(c byte) string { return render(tbl("h|h", "1|2", "3|4", "5|6", "7|8"), c, "\n", false, true) }},
	{"other-sep-data", func(c byte) string { return "a;b,c\nd;e,f\n" }},
	// a leading U+FEFF (UTF-8 byte order mark) is data like any other byte: before plain text, before a quoted field, alone
	{"bom-plain", func(c byte) string { return "\xef\xbb\xbf" + render(tbl("name|age", "a|1"), c, "\n", false, true) }},
	{"bom-quoted", func(c byte) string { return "\xef\xbb\xbf\"name\"" + string(c) + "age\na" + string(c) + "1\n" }},
	{"bom-alone", func(c byte) string { return "\xef\xbb\xbf\n" + render(tbl("x|y"), c, "\n", false, true) }},
}

func longRows(n, width int, c byte, tag string) string {
	var b strings.Builder
	for i := 0; i < n; i++ {
		b.WriteString(strings.Repeat(tag, width))
		b.WriteByte(c)
		b.WriteString(strings.Repeat("z", width))
		b.WriteByte('\n')
	}
	return b.String()
}

// inputs spanning several read buffers (bufio: 4096 bytes)
var longTexts = []textCase{
	{"valid-24k", func(c byte) string { return longRows(8, 1500, c, "v") }},
	{"malformed-early-long-tail", func(c byte) string { return "a\"b" + string(c) + "c\n" + longRows(12, 700, c, "t") }},
	{"malformed-middle-long-tail", func(c byte) string {
		return longRows(4, 700, c, "h") + "x" + string(c) + "a\"b\n" + longRows(12, 700, c, "t")
	}},
	{"unterminated-quote-long-tail", func(c byte) string { return "k" + string(c) + "\"open\n" + longRows(12, 700, c, "t") }},
}

func textByName(name string) textCase {
	for _, t := range texts {
		if t.name == name {
			return t
		}
	}
	panic("c16: no text class " + name)
}

// mkReuse: one codec value, several calls with different inputs.
func mkReuse(dir, kind string, names []string, o opts, skip, chunk int, origin string) (M, bool) {
	var calls []M
	for _, nm := range names {
		text := textByName(nm).text(o.effComma())
		table, bad := refParse(text, o)
		if dir == "produce" && (kind == "records" || kind == "precords") && bad {
			return nil, false
		}
		calls = append(calls, M{"text": trace.B(text), "table": tableJSON(table), "bad": bad})
	}
	return M{"dir": dir, "kind": kind, "text": []int{}, "opts": o.JSON(), "skip": skip, "pre": 0, "chunk": chunk,
		"table": [][][]int{}, "bad": false, "calls": calls, "origin": origin}, true
}

// ---- options -------------------------------------------------------------------

type opts struct {
	Comma, Comment byte // 0 = default
	Lazy, Trim     bool
	FPR            int
	WComma         byte
	CRLF           bool
	Reuse          bool
	Close          bool
}

func (o opts) JSON() M {
	return M{"comma": int(o.Comma), "comment": int(o.Comment), "lazy": o.Lazy, "trim": o.Trim, "fpr": o.FPR,
		"wcomma": int(o.WComma), "crlf": o.CRLF, "reuse": o.Reuse, "close": o.Close}
}

func optsFromJSON(v any) opts {
	m := drv.Map(v)
	return opts{Comma: byte(drv.Int(m["comma"])), Comment: byte(drv.Int(m["comment"])), Lazy: drv.Bool(m["lazy"]),
		Trim: drv.Bool(m["trim"]), FPR: drv.Int(m["fpr"]), WComma: byte(drv.Int(m["wcomma"])), CRLF: drv.Bool(m["crlf"]),
		Reuse: drv.Bool(m["reuse"]), Close: drv.Bool(m["close"])}
}

func (o opts) effComma() byte {
	if o.Comma == 0 {
		return ','
	}
	return o.Comma
}

func (o opts) effWComma() byte {
	if o.WComma == 0 {
		return ','
	}
	return o.WComma
}

// refParse is the abstraction function: the standard CSV parse of the text
// with the same reader options.
func refParse(text string, o opts) (table [][]string, bad bool) {
	r := csv.NewReader(strings.NewReader(text))
	if o.Comma != 0 {
		r.Comma = rune(o.Comma)
	}
	if o.Comment != 0 {
		r.Comment = rune(o.Comment)
	}
	if o.FPR != 0 {
		r.FieldsPerRecord = o.FPR
	}
	r.LazyQuotes = o.Lazy
	r.TrimLeadingSpace = o.Trim
	recs, err := r.ReadAll()
	if err != nil {
		return nil, true
	}
	return recs, false
}

func tableJSON(t [][]string) [][][]int {
	out := make([][][]int, 0, len(t))
	for _, rec := range t {
		out = append(out, trace.BB(rec))
	}
	return out
}

func tableFromJSON(v any) [][]string {
	var t [][]string
	for _, rec := range drv.List(v) {
		r := []string{}
		for _, f := range drv.List(rec) {
			r = append(r, trace.Str(f))
		}
		t = append(t, r)
	}
	return t
}

// ---- generation ----------------------------------------------------------------

var dstKinds = []string{"csvwriter", "customwriter", "writer", "readerfrom", "binunm", "precords", "pbytes", "pstring",
	"nilprecords", "nilpbytes", "nil", "value", "pint"}
var srcKinds = []string{"csvreader", "customreader", "reader", "readcloser", "writerto", "binm", "records", "bytes", "string",
	"precords", "pbytes", "pstring", "seekbytes", "seekstrings", "nilprecords", "nilpstring", "nil", "int"}

const nSupportedSrc = 14 // the first nSupportedSrc source kinds are the supported ones

func mkCase(dir, kind, text string, o opts, skip, pre, chunk int, origin string) (M, bool) {
	table, bad := refParse(text, o)
	if dir == "produce" && (kind == "records" || kind == "precords") && bad {
		return nil, false // a record table cannot be malformed
	}
	return M{"dir": dir, "kind": kind, "text": trace.B(text), "opts": o.JSON(), "skip": skip, "pre": pre, "chunk": chunk,
		"table": tableJSON(table), "bad": bad, "origin": origin}, true
}

func generate(c *drv.Ctx) {
	thorough := c.Tier == "thorough"
	n := 0
	// exhaustive small scope: text class x reader options x skipped lines x kind (x pre-population for *[][]string);
	// writer separator / CRLF / reuse / close / chunking rotate in quick and are multiplied out in thorough
	for ti, tc := range texts {
		for _, comma := range []byte{0, ';'} {
			for _, comment := range []byte{0, '#'} {
				for _, lazy := range []bool{false, true} {
					for _, trim := range []bool{false, true} {
						if !thorough && lazy && trim {
							continue // quick: the two flags together only in the seeded part
						}
						for _, fpr := range []int{0, 2, -1} {
							base := opts{Comma: comma, Comment: comment, Lazy: lazy, Trim: trim, FPR: fpr}
							text := tc.text(base.effComma())
							table, _ := refParse(text, base)
							nrec := len(table)
							skips := []int{0, 1, nrec, nrec + 1}
							if nrec <= 1 {
								skips = []int{0, 1, 2}
							}
							var variants []opts
							if thorough {
								for v := 0; v < 4; v++ {
									o := base
									o.CRLF, o.Reuse, o.Close = v&1 != 0, v&2 != 0, (v+ti)&1 != 0
									o.WComma = []byte{0, ';'}[(v/2+ti)%2]
									variants = append(variants, o)
								}
							}
							for si, skip := range skips {
								if !thorough && len(skips) == 4 && (si+n/7)%2 == 1 {
									continue // quick: two of the four skip counts per option set, rotating
								}
								for _, dir := range []string{"consume", "produce"} {
									kinds := dstKinds
									if dir == "produce" {
										kinds = srcKinds
									}
									for _, kind := range kinds {
										pres := []int{0}
										if dir == "consume" && kind == "precords" {
											exp := nrec - skip
											if exp < 0 {
												exp = 0
											}
											pres = []int{0, exp - 1, exp, exp + 1, exp + 3}
										}
										for _, pre := range pres {
											if pre < 0 {
												continue
											}
											vs := variants
											if !thorough {
												o := base
												o.CRLF, o.Reuse, o.Close = n&1 != 0, n&2 != 0, n&4 != 0
												o.WComma = []byte{0, ';', 0}[n%3]
												vs = []opts{o}
											}
											for _, o := range vs {
												if d, ok := mkCase(dir, kind, text, o, skip, pre, []int{0, 1, 7}[n%3], "enum:"+tc.name); ok {
													c.Case(d)
												}
												n++
											}
										}
									}
								}
							}
						}
					}
				}
			}
		}
	}
	c.Extra["enumerated_cases"] = n
	// long inputs (several 4096-byte read buffers): valid, malformed early with a long tail, malformed in the
	// middle - every kind must report the parser's error, whatever is still in flight
	nLong := 0
	for _, lt := range longTexts {
		for _, comma := range []byte{0, ';'} {
			base := opts{Comma: comma, FPR: -1}
			text := lt.text(base.effComma())
			for _, skip := range []int{0, 1} {
				for _, dir := range []string{"consume", "produce"} {
					kinds := dstKinds
					if dir == "produce" {
						kinds = srcKinds
					}
					for ki, kind := range kinds {
						for _, chunk := range []int{0, 4096, 100} {
							if !thorough && chunk != []int{0, 4096, 100}[(ki+nLong)%3] && kind != "writerto" {
								continue
							}
							o := base
							o.Reuse, o.CRLF = (nLong+ki)%2 == 0, nLong%3 == 0
							if d, ok := mkCase(dir, kind, text, o, skip, 0, chunk, "long:"+lt.name); ok {
								d["tail"] = true
								c.Case(d)
								nLong++
							}
						}
					}
				}
			}
		}
	}
	c.Extra["long_cases"] = nLong
	// ONE codec value used for 2 or 3 calls (skip > 0, also beyond the record count of an input)
	nReuse := 0
	reuseTexts := []string{"plain2x2", "plain3x2-noeol", "five-rows", "one", "empty", "bare-quote"}
	for _, comma := range []byte{0, ';'} {
		base := opts{Comma: comma, FPR: -1}
		for _, dir := range []string{"consume", "produce"} {
			kinds := dstKinds[:8]
			if dir == "produce" {
				kinds = srcKinds[:nSupportedSrc]
			}
			for _, kind := range kinds {
				for _, skip := range []int{1, 2, 3, 6} {
					for ai, a := range reuseTexts {
						for bi, b := range reuseTexts {
							if !thorough && (ai+bi+nReuse)%3 != 0 {
								continue
							}
							names := []string{a, b}
							if (ai+bi)%2 == 0 {
								names = append(names, a)
							}
							o := base
							o.Reuse = nReuse%2 == 0
							if d, ok := mkReuse(dir, kind, names, o, skip, []int{0, 7}[nReuse%2], "reuse"); ok {
								c.Case(d)
								nReuse++
							}
						}
					}
				}
			}
		}
	}
	c.Extra["reuse_cases"] = nReuse
	// same variable: 2-3 Consume calls into ONE *[][]string variable, the caller keeps every delivered table
	nSame := 0
	for _, comma := range []byte{0, ';'} {
		base := opts{Comma: comma, FPR: -1}
		for _, skip := range []int{0, 1} {
			for _, precap := range []int{0, 16} {
				for ai, a := range []string{"five-rows", "plain3x2-noeol", "plain2x2", "one"} {
					for bi, b := range []string{"five-rows", "plain3x2-noeol", "plain2x2", "one", "empty"} {
						names := []string{a, b}
						if (ai+bi)%2 == 0 {
							names = append(names, "plain2x2")
						}
						o := base
						o.Reuse = (ai+bi)%3 == 0
						if d, ok := mkReuse("consume", "precords", names, o, skip, []int{0, 7}[nSame%2], "samevar"); ok {
							d["samevar"], d["precap"] = true, precap
							c.Case(d)
							nSame++
						}
					}
				}
			}
		}
	}
	c.Extra["samevar_cases"] = nSame
	// a caller-supplied *csv.Reader that already carries LazyQuotes / TrimLeadingSpace / ReuseRecord, used with
	// option sets that do not: all source kinds must agree under one option set
	nFlags := 0
	for _, tc := range texts {
		for _, comma := range []byte{0, ';'} {
			for _, fpr := range []int{0, -1} {
				for fi, rf := range []M{{"lazy": true, "trim": false, "reuse": false}, {"lazy": false, "trim": true, "reuse": false},
					{"lazy": false, "trim": false, "reuse": true}, {"lazy": true, "trim": true, "reuse": true}} {
					for _, o := range []opts{{Comma: comma, FPR: fpr}, {Comma: comma, FPR: fpr, Lazy: fi == 1, Trim: fi == 0}} {
						if d, ok := mkCase("produce", "csvreader", tc.text(o.effComma()), o, nFlags%2, 0, []int{0, 1, 7}[nFlags%3], "stale-flags:"+tc.name); ok {
							d["rflags"] = rf
							d["stale"] = true
							c.Case(d)
							nFlags++
						}
					}
				}
			}
		}
	}
	// ... and the sequence: producer A (flag on) then producer B (flag off) on ONE reader
	for _, comma := range []byte{0, ';'} {
		for _, bName := range []string{"bare-quote", "bare-quote-last", "leading-space", "quote-then-text", "plain2x2", "embedded-quote"} {
			for _, aOpts := range []opts{{Comma: comma, FPR: -1, Lazy: true}, {Comma: comma, FPR: -1, Trim: true}, {Comma: comma, FPR: -1, Lazy: true, Trim: true, Reuse: true}} {
				bOpts := opts{Comma: comma, FPR: -1}
				var calls []M
				for i, nm := range []string{"plain2x2", bName} {
					co := []opts{aOpts, bOpts}[i]
					text := textByName(nm).text(co.effComma())
					table, bad := refParse(text, co)
					calls = append(calls, M{"text": trace.B(text), "table": tableJSON(table), "bad": bad, "opts": co.JSON()})
				}
				c.Case(M{"dir": "produce", "kind": "csvreader", "text": []int{}, "opts": bOpts.JSON(), "skip": 0, "pre": 0,
					"chunk": []int{0, 7}[nFlags%2], "table": [][][]int{}, "bad": false, "calls": calls, "shared_reader": true,
					"stale": true, "origin": "flag-sequence"})
				nFlags++
			}
		}
	}
	c.Extra["stale_flag_cases"] = nFlags
	// stress families: an io.WriterTo source whose malformed input stops the parser while a Write is still
	// pending, repeated many thousand times from several goroutines under several GOMAXPROCS settings; the two
	// goroutines of the WriterTo branch race for the error that is returned. One aggregated event per family.
	perFamily := 100000
	if thorough {
		perFamily = 300000
	}
	for _, f := range []struct {
		text           string
		chunk, wk, prc int
	}{
		{"long", 4096, 16, 4}, {"long", 4096, 3, 3}, {"long", 100, 8, 2}, {"long", 1 << 20, 8, 2}, {"long", 4096, 2, 16},
		{"small", 7, 8, 2}, {"small", 1, 4, 4},
	} {
		text := "a\"b,c\nd,e\nf,g\n"
		if f.text == "long" {
			text = "a\"b,c\n" + strings.Repeat("d,e\n", 4000)
		}
		o := opts{}
		if d, ok := mkCase("produce", "writerto", text, o, 0, 0, f.chunk, "stress"); ok {
			d["tail"] = true
			d["stress"] = M{"calls": perFamily, "workers": f.wk, "procs": f.prc}
			c.Case(d)
		}
	}
	// seeded random larger cases
	nRand := 3000
	if thorough {
		nRand = 30000
	}
	for i := 0; i < nRand; i++ {
		if i%10 == 9 {
			c.Case(randomReuse(c.Rng))
		} else {
			c.Case(randomCase(c.Rng))
		}
	}
	c.Extra["random_cases"] = nRand
}

var fieldAlphabet = []string{"a", "b", "c", "1", " ", ",", ";", "\"", "\n", "\r\n", "#", "\t", "|", "é", "'"}

func randomField(rng *rand.Rand) string {
	var b strings.Builder
	for i, n := 0, rng.Intn(5); i < n; i++ {
		b.WriteString(fieldAlphabet[rng.Intn(len(fieldAlphabet))])
	}
	return b.String()
}

func randomCase(rng *rand.Rand) M {
	for {
		o := opts{
			Comma:   []byte{0, 0, ';', '\t', '|'}[rng.Intn(5)],
			Comment: []byte{0, 0, '#', '\''}[rng.Intn(4)],
			Lazy:    rng.Intn(3) == 0, Trim: rng.Intn(3) == 0,
			FPR:    []int{0, 0, -1, -1, 2, 3}[rng.Intn(6)],
			WComma: []byte{0, 0, ';', '\t'}[rng.Intn(4)],
			CRLF:   rng.Intn(2) == 0, Reuse: rng.Intn(2) == 0, Close: rng.Intn(2) == 0,
		}
		nrec := rng.Intn(31)
		if rng.Intn(4) > 0 {
			nrec = rng.Intn(6)
		}
		width := 1 + rng.Intn(6)
		var table [][]string
		for i := 0; i < nrec; i++ {
			w := width
			if rng.Intn(10) == 0 {
				w = 1 + rng.Intn(6) // ragged
			}
			rec := make([]string, w)
			for j := range rec {
				rec[j] = randomField(rng)
			}
			table = append(table, rec)
		}
		text := render(table, o.effComma(), []string{"\n", "\n", "\r\n"}[rng.Intn(3)], rng.Intn(4) == 0, rng.Intn(5) > 0)
		// perturbations: raw (possibly malformed) bytes, empty and comment lines
		if rng.Intn(4) == 0 && len(text) > 0 {
			b := []byte(text)
			for k := 0; k < 1+rng.Intn(2); k++ {
				p := rng.Intn(len(b))
				ins := []string{"\"", "\n", "#x\n", " ", "\n\n", string(o.effComma())}[rng.Intn(6)]
				b = append(b[:p], append([]byte(ins), b[p:]...)...)
			}
			text = string(b)
		}
		ref, _ := refParse(text, o)
		dir := []string{"consume", "produce"}[rng.Intn(2)]
		kinds := dstKinds
		if dir == "produce" {
			kinds = srcKinds
		}
		// supported kinds most of the time
		kind := kinds[rng.Intn(len(kinds))]
		if rng.Intn(4) > 0 {
			if dir == "consume" {
				kind = kinds[rng.Intn(8)]
			} else {
				kind = kinds[rng.Intn(nSupportedSrc)]
			}
		}
		skip := rng.Intn(len(ref) + 3)
		if rng.Intn(2) == 0 {
			skip = rng.Intn(2)
		}
		pre := 0
		if kind == "precords" && dir == "consume" {
			pre = rng.Intn(len(ref) + 4)
		}
		if d, ok := mkCase(dir, kind, text, o, skip, pre, []int{0, 1, 7, 4096}[rng.Intn(4)], "rand"); ok {
			return d
		}
	}
}

// randomReuse: 2..4 calls with one codec value over random small tables.
func randomReuse(rng *rand.Rand) M {
	for {
		o := opts{Comma: []byte{0, ';'}[rng.Intn(2)], FPR: -1, Reuse: rng.Intn(2) == 0, CRLF: rng.Intn(2) == 0}
		dir := []string{"consume", "produce"}[rng.Intn(2)]
		kind := dstKinds[rng.Intn(8)]
		if dir == "produce" {
			kind = srcKinds[rng.Intn(nSupportedSrc)]
		}
		var calls []M
		ok := true
		for i, n := 0, 2+rng.Intn(3); i < n; i++ {
			var table [][]string
			for r, nr := 0, rng.Intn(6); r < nr; r++ {
				table = append(table, []string{randomField(rng), randomField(rng)})
			}
			text := render(table, o.effComma(), "\n", rng.Intn(3) == 0, true)
			ref, bad := refParse(text, o)
			if bad && (kind == "records" || kind == "precords") && dir == "produce" {
				ok = false
			}
			calls = append(calls, M{"text": trace.B(text), "table": tableJSON(ref), "bad": bad})
		}
		if !ok {
			continue
		}
		return M{"dir": dir, "kind": kind, "text": []int{}, "opts": o.JSON(), "skip": rng.Intn(8), "pre": 0,
			"chunk": []int{0, 1, 7}[rng.Intn(3)], "table": [][][]int{}, "bad": false, "calls": calls, "origin": "rand-reuse"}
	}
}

// ---- instrumented kinds -------------------------------------------------------

// customWriter is an application-side runtime.CSVWriter; it keeps its own copy
// of every record, as an implementation that retains records must.
type customWriter struct {
	recs    [][]string
	flushes int
}

func (w *customWriter) Write(rec []string) error {
	w.recs = append(w.recs, append([]string{}, rec...))
	return nil
}
func (w *customWriter) Flush()       { w.flushes++ }
func (w *customWriter) Error() error { return nil }

var errCustom = errors.New("c16: custom reader: malformed")

// customReader is an application-side runtime.CSVReader over the reference table.
type customReader struct {
	recs [][]string
	bad  bool
	i    int
}

func (r *customReader) Read() ([]string, error) {
	if r.i < len(r.recs) {
		r.i++
		return r.recs[r.i-1], nil
	}
	if r.bad {
		return nil, errCustom
	}
	return nil, io.EOF
}

type sinkRF struct{ got []byte }

func (s *sinkRF) ReadFrom(r io.Reader) (int64, error) {
	b, err := io.ReadAll(r)
	s.got = append(s.got, b...)
	return int64(len(b)), err
}

type binU struct{ got []byte }

func (b *binU) UnmarshalBinary(p []byte) error { b.got = append([]byte{}, p...); return nil }

type binM struct{ b []byte }

func (m binM) MarshalBinary() ([]byte, error) { return m.b, nil }

type srcWT struct {
	text  []byte
	chunk int
}

func (s *srcWT) WriteTo(w io.Writer) (int64, error) {
	var n int64
	chunk := s.chunk
	if chunk <= 0 {
		chunk = len(s.text) + 1
	}
	for off := 0; off < len(s.text); off += chunk {
		end := off + chunk
		if end > len(s.text) {
			end = len(s.text)
		}
		m, err := w.Write(s.text[off:end])
		n += int64(m)
		if err != nil {
			return n, err
		}
	}
	return n, nil
}

func script(text string, chunk int) streamkit.Script {
	sc := streamkit.Script{Content: []byte(text), Term: "eof"}
	if chunk <= 0 {
		chunk = len(text)
	}
	for left := len(text); left > 0; {
		k := chunk
		if k > left {
			k = left
		}
		sc.Chunks = append(sc.Chunks, k)
		left -= k
	}
	return sc
}

// ---- execution -----------------------------------------------------------------

func codecOpts(o opts, skip int) []runtime.CSVOpt {
	ro := csv.Reader{LazyQuotes: o.Lazy, TrimLeadingSpace: o.Trim, ReuseRecord: o.Reuse, FieldsPerRecord: o.FPR}
	if o.Comma != 0 {
		ro.Comma = rune(o.Comma)
	}
	if o.Comment != 0 {
		ro.Comment = rune(o.Comment)
	}
	wo := csv.Writer{UseCRLF: o.CRLF}
	if o.WComma != 0 {
		wo.Comma = rune(o.WComma)
	}
	out := []runtime.CSVOpt{runtime.WithCSVReaderOpts(ro), runtime.WithCSVWriterOpts(wo), runtime.WithCSVSkipLines(skip)}
	if o.Close {
		out = append(out, runtime.WithCSVClosesStream())
	}
	return out
}

func errClass(err error) string {
	var pe *csv.ParseError
	switch {
	case err == nil:
		return "none"
	case errors.As(err, &pe), errors.Is(err, csv.ErrFieldCount), errors.Is(err, errCustom):
		return "parse"
	}
	return "other"
}

// reparse reads byte-valued output back with the standard parser (the
// separator is the writer's).
func reparse(b []byte, o opts) ([][]string, bool) {
	r := csv.NewReader(strings.NewReader(string(b)))
	r.Comma = rune(o.effWComma())
	r.FieldsPerRecord = -1
	recs, err := r.ReadAll()
	if err != nil {
		return nil, false
	}
	return recs, true
}

// aliased reports whether changing one delivered record changes another one:
// overwriting a field of it (write), or appending to it (app: the rows share
// one backing array and row i has spare capacity reaching into row i+1).
func aliased(recs [][]string) (write, app bool) {
	snapshot := func() [][]string {
		cp := make([][]string, len(recs))
		for j := range recs {
			cp[j] = append([]string{}, recs[j]...)
		}
		return cp
	}
	differs := func(before [][]string, except int) bool {
		for j := range recs {
			if j == except {
				continue
			}
			for k := range recs[j] {
				if recs[j][k] != before[j][k] {
					return true
				}
			}
		}
		return false
	}
	restore := func(before [][]string) {
		for j := range recs {
			copy(recs[j], before[j])
		}
	}
	for i := range recs {
		before := snapshot()
		if len(recs[i]) > 0 {
			recs[i][0] = before[i][0] + "\x00changed"
			if differs(before, i) {
				write = true
			}
			restore(before)
		}
		grown := append(recs[i], "\x00appended") // what any caller may do with a row it was given
		_ = grown
		if differs(before, i) {
			app = true
		}
		restore(before)
	}
	return write, app
}

// call is the input of one Consume / Produce call.
type call struct {
	text string
	ref  [][]string
	bad  bool
}

func execute(c *drv.Ctx, d M) bool {
	o := optsFromJSON(d["opts"])
	kind, dir := drv.Str(d["kind"]), drv.Str(d["dir"])
	skip, pre, chunk := drv.Int(d["skip"]), drv.Int(d["pre"]), drv.Int(d["chunk"])
	// ONE codec value for all the calls of the case
	var consumer runtime.Consumer
	var producer runtime.Producer
	if dir == "consume" {
		consumer = runtime.CSVConsumer(codecOpts(o, skip)...)
	} else {
		producer = runtime.CSVProducer(codecOpts(o, skip)...)
	}
	nontrivial := false
	if st, ok := d["stress"]; ok {
		runStress(c, drv.Map(st), trace.Str(d["text"]), o, skip, chunk)
		return true
	}
	if cs, ok := d["calls"]; ok {
		env := &callEnv{}
		if drv.Bool(d["samevar"]) {
			// every call stores into the SAME variable; the caller keeps what each call delivered
			var recs [][]string
			if n := drv.Int(d["precap"]); n > 0 {
				recs = make([][]string, 0, n)
			}
			env.shared = &recs
		}
		calls := drv.List(cs)
		if drv.Bool(d["shared_reader"]) {
			// ONE caller-supplied *csv.Reader over a stream that reports a (non-sticky) EOF after every text;
			// each call has its own producer / option set
			sc := streamkit.Script{Term: "eof"}
			for i, cv := range calls {
				t := trace.Str(drv.Map(cv)["text"])
				part := script(t, chunk)
				sc.Content = append(sc.Content, part.Content...)
				for k, ch := range part.Chunks {
					sc.Chunks = append(sc.Chunks, ch)
					cond := "none"
					if k == len(part.Chunks)-1 && i < len(calls)-1 {
						cond = "eof"
					}
					sc.Conds = append(sc.Conds, cond)
				}
			}
			env.srcOverride = csv.NewReader(streamkit.NewReader(sc))
		}
		for i, cv := range calls {
			m := drv.Map(cv)
			cl := call{text: trace.Str(m["text"]), ref: tableFromJSON(m["table"]), bad: drv.Bool(m["bad"])}
			co, cp := o, producer
			if om, ok := m["opts"]; ok { // a differently configured producer for this call
				co = optsFromJSON(om)
				cp = runtime.CSVProducer(codecOpts(co, skip)...)
			}
			runCall(c, consumer, cp, kind, cl, co, 0, chunk, i+1, env)
			nontrivial = nontrivial || len(cl.ref) > 0 || cl.bad
		}
		return nontrivial
	}
	cl := call{text: trace.Str(d["text"]), ref: tableFromJSON(d["table"]), bad: drv.Bool(d["bad"])}
	env := &callEnv{}
	if rf, ok := d["rflags"]; ok {
		env.rflags = drv.Map(rf)
	}
	runCall(c, consumer, producer, kind, cl, o, pre, chunk, 0, env)
	return len(cl.ref) > 0 || cl.bad
}

type discard struct{}

func (discard) Write(p []byte) (int, error) { return len(p), nil }

// runStress repeats Produce(io.Writer, io.WriterTo over text) st.calls times from st.workers goroutines with
// GOMAXPROCS = st.procs and logs ONE aggregated observation: how many calls returned the parser's error, another
// error (with the text of the first one), no error.
func runStress(c *drv.Ctx, st M, text string, o opts, skip, chunk int) {
	calls, workers, procs := drv.Int(st["calls"]), drv.Int(st["workers"]), drv.Int(st["procs"])
	old := goruntime.GOMAXPROCS(procs)
	defer goruntime.GOMAXPROCS(old)
	var mu sync.Mutex
	var nParse, nOther, nNone, nPanic int64
	first := ""
	var wg sync.WaitGroup
	for g := 0; g < workers; g++ {
		n := calls / workers
		if g == 0 {
			n += calls % workers
		}
		wg.Add(1)
		go func(n int) {
			defer wg.Done()
			producer := runtime.CSVProducer(codecOpts(o, skip)...)
			for i := 0; i < n; i++ {
				func() {
					defer func() {
						if r := recover(); r != nil {
							atomic.AddInt64(&nPanic, 1)
						}
					}()
					err := producer.Produce(discard{}, &srcWT{text: []byte(text), chunk: chunk})
					switch errClass(err) {
					case "none":
						atomic.AddInt64(&nNone, 1)
					case "parse":
						atomic.AddInt64(&nParse, 1)
					default:
						if atomic.AddInt64(&nOther, 1) == 1 {
							mu.Lock()
							first = err.Error()
							mu.Unlock()
						}
					}
				}()
			}
		}(n)
	}
	// wait for the family; if no call at all returns for a while the workers are stuck: report what has been counted
	finished := make(chan struct{})
	go func() { wg.Wait(); close(finished) }()
	hang := false
	total := func() int64 {
		return atomic.LoadInt64(&nParse) + atomic.LoadInt64(&nOther) + atomic.LoadInt64(&nNone) + atomic.LoadInt64(&nPanic)
	}
	last, idle := int64(-1), 0
wait:
	for {
		select {
		case <-finished:
			break wait
		case <-time.After(time.Second):
			if t := total(); t == last {
				idle++
				if time.Duration(idle)*time.Second >= callTimeout() {
					hang = true
					hangsSeen++
					break wait
				}
			} else {
				last, idle = t, 0
			}
		}
	}
	parse, other, none, panics := int(atomic.LoadInt64(&nParse)), int(atomic.LoadInt64(&nOther)), int(atomic.LoadInt64(&nNone)), int(atomic.LoadInt64(&nPanic))
	mu.Lock()
	defer mu.Unlock()
	ascii := make([]byte, 0, len(first))
	for i := 0; i < len(first) && i < 120; i++ {
		if first[i] >= 0x20 && first[i] < 0x7f && first[i] != '"' && first[i] != '\\' {
			ascii = append(ascii, first[i])
		}
	}
	c.W.Event("stress", M{"hang": hang, "calls": parse + other + none + panics, "parse": parse, "other": other, "none": none,
		"first_other": string(ascii), "panic": panics > 0})
}

// hangsSeen: calls that did not return so far. The first one is waited for generously; once one has been seen the
// verdict of the run is certain and the remaining calls get a short deadline (harness economy, not part of the oracle).
var hangsSeen int

func callTimeout() time.Duration {
	if hangsSeen > 0 {
		return time.Second
	}
	return 20 * time.Second
}

// runCall performs one call on the real codec and logs what it observably did.
// callEnv is what several calls of one case share, and per-case extras.
type callEnv struct {
	shared      *[][]string  // the one *[][]string variable all calls store into
	held        [][][]string // the table each earlier call delivered, as the caller kept it (slice headers)
	srcOverride any          // the one caller-supplied source all calls read from
	rflags      M            // flags the caller set on its *csv.Reader before handing it over
}

const preamble = "PREAMBLE LINE, not for the parser\n"

func runCall(c *drv.Ctx, consumer runtime.Consumer, producer runtime.Producer, kind string, cl call, o opts, pre, chunk, idx int, env *callEnv) {
	text, ref, bad := cl.text, cl.ref, cl.bad
	retained := [][][][]int{}
	var err error
	var delivered [][]string
	rp, aliasW, aliasA := true, false, false
	closes, scloses := 0, 0
	var run func()
	var after func()

	if consumer != nil {
		sc := script(text, chunk)
		sc.CloseErr = bad && (idx+chunk+len(text))%3 != 0 // malformed text from a source whose Close fails: the PARSER's error is the one reported (seed C16-21)
		rc := streamkit.NewReadCloser(sc)
		var dst any
		bytesOut := func(get func() []byte) func() {
			return func() { delivered, rp = reparse(get(), o) }
		}
		switch kind {
		case "csvwriter":
			w := &streamkit.Writer{WCore: streamkit.WCore{Accept: -1}}
			dst, after = csv.NewWriter(w), bytesOut(func() []byte { return w.Got })
		case "customwriter":
			w := &customWriter{}
			dst, after = w, func() { delivered = w.recs }
		case "writer":
			w := &streamkit.Writer{WCore: streamkit.WCore{Accept: -1}}
			dst, after = w, bytesOut(func() []byte { return w.Got })
		case "readerfrom":
			w := &sinkRF{}
			dst, after = w, bytesOut(func() []byte { return w.got })
		case "binunm":
			w := &binU{}
			dst, after = w, bytesOut(func() []byte { return w.got })
		case "precords":
			if env.shared != nil {
				dst, after = env.shared, func() {
					recs := *env.shared
					aliasW, aliasA = aliased(recs)
					delivered = recs
					for _, h := range env.held { // what the caller kept from the earlier calls
						retained = append(retained, tableJSON(h))
					}
					env.held = append(env.held, recs)
				}
				break
			}
			recs := [][]string{}
			for i := 0; i < pre; i++ {
				recs = append(recs, []string{"pre", strings.Repeat("x", i)})
			}
			dst, after = &recs, func() {
				aliasW, aliasA = aliased(recs)
				delivered = recs
			}
		case "pbytes":
			b := []byte("old\n")
			dst, after = &b, bytesOut(func() []byte { return b })
		case "pstring":
			s := "old\n"
			dst, after = &s, bytesOut(func() []byte { return []byte(s) })
		case "nilprecords":
			dst = (*[][]string)(nil)
		case "nilpbytes":
			dst = (*[]byte)(nil)
		case "nil":
			dst = nil
		case "value":
			dst = [][]string{}
		case "pint":
			dst = new(int)
		default:
			panic("c16: unknown destination kind " + kind)
		}
		run = func() { err = consumer.Consume(rc, dst) }
		prev := after
		after = func() {
			if prev != nil {
				prev()
			}
			closes = rc.Closes
		}
	} else {
		w := &streamkit.WriteCloser{WCore: streamkit.WCore{Accept: -1}}
		var src any
		switch kind {
		case "csvreader":
			rd := csv.NewReader(streamkit.NewReader(script(text, chunk)))
			if env.rflags != nil { // a reader the caller has configured for something else before
				rd.LazyQuotes, rd.TrimLeadingSpace, rd.ReuseRecord = drv.Bool(env.rflags["lazy"]), drv.Bool(env.rflags["trim"]), drv.Bool(env.rflags["reuse"])
			}
			src = rd
		case "seekbytes":
			rd := bytes.NewReader([]byte(preamble + text))
			if _, err := io.CopyN(io.Discard, rd, int64(len(preamble))); err != nil {
				panic(err)
			}
			src = rd
		case "seekstrings":
			rd := strings.NewReader(preamble + text)
			if _, err := io.CopyN(io.Discard, rd, int64(len(preamble))); err != nil {
				panic(err)
			}
			src = rd
		case "customreader":
			src = &customReader{recs: ref, bad: bad}
		case "reader":
			src = streamkit.NewReader(script(text, chunk))
		case "readcloser":
			src = streamkit.NewReadCloser(script(text, chunk))
		case "writerto":
			src = &srcWT{text: []byte(text), chunk: chunk}
		case "binm":
			src = binM{[]byte(text)}
		case "records":
			src = ref
		case "precords":
			t := ref
			src = &t
		case "bytes":
			src = []byte(text)
		case "string":
			src = text
		case "pbytes":
			b := []byte(text)
			src = &b
		case "pstring":
			src = &text
		case "nilprecords":
			src = (*[][]string)(nil)
		case "nilpstring":
			src = (*string)(nil)
		case "nil":
			src = nil
		case "int":
			src = 42
		default:
			panic("c16: unknown source kind " + kind)
		}
		if env.srcOverride != nil {
			src = env.srcOverride
		}
		run = func() { err = producer.Produce(w, src) }
		after = func() {
			delivered, rp = reparse(w.Got, o)
			closes = w.Closes
			if s, ok := src.(*streamkit.ReadCloser); ok {
				scloses = s.Closes
			}
		}
	}
	// the call runs under a watchdog: a call that does not return is an observation too
	done := make(chan bool, 1)
	go func() {
		done <- func() (p bool) {
			defer func() {
				if r := recover(); r != nil {
					p = true
				}
			}()
			run()
			return false
		}()
	}()
	panicked, hang := false, false
	select {
	case panicked = <-done:
	case <-time.After(callTimeout()):
		hang = true // the goroutine is abandoned; its destination is not looked at any more
		hangsSeen++
	}
	if !panicked && !hang && after != nil {
		after()
	}
	ec := "none"
	if !hang {
		ec = errClass(err)
	}
	if panicked {
		ec = "none"
	}
	c.W.Event("csv", M{"hang": hang, "i": idx, "err": ec, "delivered": tableJSON(delivered), "alias": aliasW || aliasA,
		"alias_write": aliasW, "alias_append": aliasA, "retained": retained, "rp": rp, "closes": closes, "scloses": scloses, "panic": panicked})
}
