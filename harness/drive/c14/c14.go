// Package c14 joins the client's auth writers with the server's authenticators (property C14).
//
// A case is a SESSION on two client.Runtimes A and B: one or more steps.  A step first
// (re)configures one Runtime (DefaultAuthentication, Debug, base path with static query
// parameters), then makes a request through it - with a fresh ClientOperation value or by
// submitting again a value of the caller that an earlier step created (OpRef) - and logs
// whether the caller's operation value is as it was (`returned`).  The request is described by:
// per-operation auth writers, an optional Authorization header / headers /
// query / form parameters set by the params writer, static query parameters of the path
// pattern.  The real client builds the request (Runtime.CreateHttpRequest) or sends it to a
// real httptest.Server (Runtime.Submit); every authenticator of the step's list is run on (a
// fresh copy of) that request with an instrumented application callback.  Events: `configure`,
// `request`, then one `auth` per authenticator; the TLA+ trace spec decides.
package c14

import (
	"bytes"
	"context"
	"errors"
	"fmt"
	"io"
	"net/http"
	"net/http/httptest"
	"net/url"
	"reflect"
	"strings"
	"sync"

	"github.com/go-openapi/runtime"
	"github.com/go-openapi/runtime/client"
	"github.com/go-openapi/runtime/security"
	"github.com/go-openapi/strfmt"

	"verifharness/internal/drv"
	"verifharness/internal/trace"
)

type M = drv.M

func init() {
	drv.Register(&drv.Driver{Name: "c14", Generate: generate, Execute: execute})
}

// ---- abstract case -------------------------------------------------------------

type Writer struct {
	T    string // basic | apikey | bearer | absent (a nil entry of a Compose list)
	Name string
	In   string
	U, P string
}

type KV struct{ K, V string }

type Auth struct {
	Kind    string // basic | apikey | bearer
	Name    string // apikey key name
	Scheme  string // bearer scheme name
	In      string
	Realm   string
	Scopes  []string
	CbErr   bool
	Variant string // plain | ctx
	Wrap    string // scoped | plain : how the authenticator is invoked
}

// Step: the configuration the application sets before the request (Def, Debug, BaseStatic), the request, the authenticators.
type Step struct {
	Op, Def    []Writer
	Debug      bool // Runtime.Debug (dumps go to a silent logger)
	BaseStatic []KV // static query parameters of Runtime.BasePath
	PatStatic  []KV // static query parameters of ClientOperation.PathPattern
	Authz      string
	Hdrs       []KV
	Query      []KV
	Form       []KV
	Media      string // none | urlencoded | multipart
	Transport  string // direct | server
	Auths      []Auth
	Rt         int // the Runtime configured and used: 1 (A) | 2 (B); 0 = 1
	OpRef      int // 0: a fresh ClientOperation value; k > 0: the caller's value number k, created by the first step that names it
	//                  (later steps with that number submit the same value again: their request description is the first one's)
}

// Case: the steps made one after the other on ONE Runtime.
type Case struct {
	Steps []Step
}

func wJSON(ws []Writer) []M {
	out := make([]M, 0, len(ws))
	for _, w := range ws {
		out = append(out, M{"t": w.T, "name": trace.B(w.Name), "in": w.In, "u": trace.B(w.U), "p": trace.B(w.P)})
	}
	return out
}
func kvJSON(kvs []KV) []M {
	out := make([]M, 0, len(kvs))
	for _, e := range kvs {
		out = append(out, M{"k": trace.B(e.K), "v": trace.B(e.V)})
	}
	return out
}
func (a Auth) JSON() M {
	return M{"kind": a.Kind, "name": trace.B(a.Name), "scheme": a.Scheme, "in": a.In, "realm": a.Realm, "scopes": trace.S(a.Scopes),
		"cberr": a.CbErr, "variant": a.Variant, "wrap": a.Wrap}
}
func (c Step) JSON() M {
	as := make([]M, 0, len(c.Auths))
	for _, a := range c.Auths {
		as = append(as, a.JSON())
	}
	return M{"op": wJSON(c.Op), "def": wJSON(c.Def), "debug": c.Debug, "bstatic": kvJSON(c.BaseStatic), "pstatic": kvJSON(c.PatStatic),
		"authz": trace.B(c.Authz), "hdrs": kvJSON(c.Hdrs), "query": kvJSON(c.Query),
		"form": kvJSON(c.Form), "media": c.Media, "transport": c.Transport, "auths": as, "rt": c.Rt, "opref": c.OpRef}
}
func (c Case) JSON() M {
	steps := make([]M, 0, len(c.Steps))
	for _, st := range c.Steps {
		steps = append(steps, st.JSON())
	}
	return M{"steps": steps}
}

func wFrom(v any) []Writer {
	var out []Writer
	for _, e := range drv.List(v) {
		m := drv.Map(e)
		out = append(out, Writer{T: drv.Str(m["t"]), Name: trace.Str(m["name"]), In: drv.Str(m["in"]), U: trace.Str(m["u"]), P: trace.Str(m["p"])})
	}
	return out
}
func kvFrom(v any) []KV {
	var out []KV
	for _, e := range drv.List(v) {
		m := drv.Map(e)
		out = append(out, KV{trace.Str(m["k"]), trace.Str(m["v"])})
	}
	return out
}
func caseFrom(d M) Case {
	var c Case
	for _, sx := range drv.List(d["steps"]) {
		c.Steps = append(c.Steps, stepFrom(drv.Map(sx)))
	}
	return c
}
func stepFrom(d M) Step {
	c := Step{Op: wFrom(d["op"]), Def: wFrom(d["def"]), Debug: drv.Bool(d["debug"]), BaseStatic: kvFrom(d["bstatic"]), PatStatic: kvFrom(d["pstatic"]),
		Authz: trace.Str(d["authz"]), Hdrs: kvFrom(d["hdrs"]), Query: kvFrom(d["query"]),
		Form: kvFrom(d["form"]), Media: drv.Str(d["media"]), Transport: drv.Str(d["transport"]), Rt: drv.Int(d["rt"]), OpRef: drv.Int(d["opref"])}
	for _, e := range drv.List(d["auths"]) {
		m := drv.Map(e)
		a := Auth{Kind: drv.Str(m["kind"]), Name: trace.Str(m["name"]), Scheme: drv.Str(m["scheme"]), In: drv.Str(m["in"]), Realm: drv.Str(m["realm"]),
			CbErr: drv.Bool(m["cberr"]), Variant: drv.Str(m["variant"]), Wrap: drv.Str(m["wrap"])}
		for _, s := range drv.List(m["scopes"]) {
			a.Scopes = append(a.Scopes, drv.Str(s))
		}
		c.Auths = append(c.Auths, a)
	}
	return c
}

// ---- client side ---------------------------------------------------------------

func mkWriter(ws []Writer) runtime.ClientAuthInfoWriter {
	var out []runtime.ClientAuthInfoWriter
	composed := false
	for _, w := range ws {
		switch w.T {
		case "basic":
			out = append(out, client.BasicAuth(w.U, w.P))
		case "apikey":
			out = append(out, client.APIKeyAuth(w.Name, w.In, w.P))
		case "bearer":
			out = append(out, client.BearerToken(w.P))
		case "absent": // a nil entry of a Compose list
			out = append(out, nil)
			composed = true
		}
	}
	switch {
	case len(out) == 0:
		return nil
	case len(out) == 1 && !composed:
		return out[0]
	}
	return client.Compose(out...)
}

// staticQuery renders static query parameters as they are written into a base path or a path pattern
func staticQuery(kvs []KV) string {
	if len(kvs) == 0 {
		return ""
	}
	parts := make([]string, 0, len(kvs))
	for _, e := range kvs {
		parts = append(parts, url.QueryEscape(e.K)+"="+url.QueryEscape(e.V))
	}
	return "?" + strings.Join(parts, "&")
}

type silentLogger struct{}

func (silentLogger) Printf(string, ...interface{}) {}
func (silentLogger) Debugf(string, ...interface{}) {}

// configure is what the application does between two requests: it REPLACES the Runtime's settings
func (c Step) configure(rt *client.Runtime) {
	rt.DefaultAuthentication = mkWriter(c.Def)
	rt.Debug = c.Debug
	rt.BasePath = "/api" + staticQuery(c.BaseStatic)
}

func (c Step) operation() *runtime.ClientOperation {
	media := map[string]string{"none": runtime.JSONMime, "urlencoded": runtime.URLencodedFormMime, "multipart": runtime.MultipartFormMime}[c.Media]
	op := &runtime.ClientOperation{ID: "op", Method: http.MethodPost, PathPattern: "/secured" + staticQuery(c.PatStatic),
		ConsumesMediaTypes: []string{media}, ProducesMediaTypes: []string{runtime.JSONMime},
		AuthInfo: mkWriter(c.Op),
		Params: runtime.ClientRequestWriterFunc(func(r runtime.ClientRequest, _ strfmt.Registry) error {
			if c.Authz != "" {
				if err := r.SetHeaderParam("Authorization", c.Authz); err != nil {
					return err
				}
			}
			for _, h := range c.Hdrs {
				if err := r.SetHeaderParam(h.K, h.V); err != nil {
					return err
				}
			}
			for _, q := range c.Query {
				if err := r.SetQueryParam(q.K, q.V); err != nil {
					return err
				}
			}
			for _, f := range c.Form {
				if err := r.SetFormParam(f.K, f.V); err != nil {
					return err
				}
			}
			return nil
		}),
		Reader: runtime.ClientResponseReaderFunc(func(runtime.ClientResponse, runtime.Consumer) (any, error) { return nil, nil })}
	return op
}

// ---- server side ---------------------------------------------------------------

type principal struct{ id int }
type ctxKey struct{}

type obs struct {
	called              bool
	user, pass, token   string
	scopes              []string
	applies             bool
	princ, err          string
	failedBasic, oauth2 string
	panicked            bool
}

func (o obs) JSON() M {
	return M{"called": o.called, "user": trace.B(o.user), "pass": trace.B(o.pass), "token": trace.B(o.token), "scopes": trace.S(o.scopes),
		"applies": o.applies, "princ": o.princ, "err": o.err, "failed_basic": o.failedBasic, "oauth2": o.oauth2, "panic": o.panicked}
}

func runAuth(a Auth, r *http.Request) (o obs) {
	o.scopes = []string{}
	cbPrincipal := &principal{1}
	var cbErr error
	if a.CbErr {
		cbErr = errors.New("rejected by the application")
	}
	userPass := func(u, p string) (any, error) { o.called, o.user, o.pass = true, u, p; return cbPrincipal, cbErr }
	token := func(t string) (any, error) { o.called, o.token = true, t; return cbPrincipal, cbErr }
	scoped := func(t string, sc []string) (any, error) {
		o.called, o.token, o.scopes = true, t, append([]string{}, sc...)
		return cbPrincipal, cbErr
	}
	var au runtime.Authenticator
	switch a.Kind + "/" + a.Variant {
	case "basic/plain":
		if a.Realm == "" {
			au = security.BasicAuth(userPass)
		} else {
			au = security.BasicAuthRealm(a.Realm, userPass)
		}
	case "basic/ctx":
		f := func(ctx context.Context, u, p string) (context.Context, any, error) {
			pr, e := userPass(u, p)
			return context.WithValue(ctx, ctxKey{}, 1), pr, e
		}
		if a.Realm == "" {
			au = security.BasicAuthCtx(f)
		} else {
			au = security.BasicAuthRealmCtx(a.Realm, f)
		}
	case "apikey/plain":
		au = security.APIKeyAuth(a.Name, a.In, token)
	case "apikey/ctx":
		au = security.APIKeyAuthCtx(a.Name, a.In, func(ctx context.Context, t string) (context.Context, any, error) {
			pr, e := token(t)
			return context.WithValue(ctx, ctxKey{}, 1), pr, e
		})
	case "bearer/plain":
		au = security.BearerAuth(a.Scheme, scoped)
	case "bearer/ctx":
		au = security.BearerAuthCtx(a.Scheme, func(ctx context.Context, t string, sc []string) (context.Context, any, error) {
			pr, e := scoped(t, sc)
			return context.WithValue(ctx, ctxKey{}, 1), pr, e
		})
	}
	var param any = &security.ScopedAuthRequest{Request: r, RequiredScopes: a.Scopes}
	if a.Wrap == "plain" {
		param = r
	}
	func() {
		defer func() {
			if e := recover(); e != nil {
				o.panicked = true
			}
		}()
		applies, pr, err := au.Authenticate(param)
		o.applies = applies
		switch {
		case pr == nil:
			o.princ = "nil"
		case pr == any(cbPrincipal):
			o.princ = "cb"
		default:
			o.princ = "other"
		}
		switch {
		case err == nil:
			o.err = "nil"
		case cbErr != nil && err == cbErr:
			o.err = "cb"
		default:
			o.err = "other"
		}
	}()
	o.failedBasic = security.FailedBasicAuth(r)
	o.oauth2 = security.OAuth2SchemeName(r)
	return o
}

var (
	srvOnce sync.Once
	srv     *httptest.Server
	srvMu   sync.Mutex
	srvCase *Step
	srvObs  []obs
)

func server() *httptest.Server {
	srvOnce.Do(func() {
		srv = httptest.NewServer(http.HandlerFunc(func(w http.ResponseWriter, r *http.Request) {
			body, _ := io.ReadAll(r.Body)
			srvMu.Lock()
			cs := srvCase
			srvMu.Unlock()
			var out []obs
			for _, a := range cs.Auths {
				rc := r.Clone(r.Context())
				rc.Body = io.NopCloser(bytes.NewReader(body))
				out = append(out, runAuth(a, rc))
			}
			srvMu.Lock()
			srvObs = out
			srvMu.Unlock()
			w.Header().Set("Content-Type", "application/json")
			w.WriteHeader(http.StatusNoContent)
		}))
	})
	return srv
}

// session is the application's state: its two Runtimes and the ClientOperation values it keeps for re-use.
type session struct {
	rts    [2]*client.Runtime
	shared map[int]*sharedOp
}

type sharedOp struct {
	op   *runtime.ClientOperation
	desc Step                         // the request description the value was created from
	auth runtime.ClientAuthInfoWriter // the AuthInfo the caller gave it
}

func (s *session) runtime(i int) *client.Runtime {
	if i != 2 {
		i = 1
	}
	if s.rts[i-1] == nil {
		rt := client.New("h:1", "/api", []string{"http"})
		rt.SetLogger(silentLogger{})
		s.rts[i-1] = rt
	}
	return s.rts[i-1]
}

// authInfoState describes the AuthInfo of an operation value: "nil" | "set", and whether it is the writer w
func authInfoState(op *runtime.ClientOperation, w runtime.ClientAuthInfoWriter) (string, bool) {
	if op.AuthInfo == nil {
		return "nil", w == nil
	}
	if w == nil {
		return "set", false
	}
	va, vb := reflect.ValueOf(op.AuthInfo), reflect.ValueOf(w)
	if va.Kind() == reflect.Func && vb.Kind() == reflect.Func {
		return "set", va.Pointer() == vb.Pointer()
	}
	same := false
	func() {
		defer func() { _ = recover() }()
		same = op.AuthInfo == w
	}()
	return "set", same
}

func execute(c *drv.Ctx, d M) bool {
	cs := caseFrom(d)
	nontrivial := false
	ses := &session{shared: map[int]*sharedOp{}}
	for i := range cs.Steps {
		if executeStep(c, ses, &cs.Steps[i]) {
			nontrivial = true
		}
	}
	return nontrivial
}

func executeStep(c *drv.Ctx, ses *session, cs *Step) bool {
	nontrivial := false
	emit := func(a Auth, o obs) {
		if o.called {
			nontrivial = true
		}
		c.W.Event("auth", M{"a": a.JSON(), "o": o.JSON(), "built": true})
	}
	failed := func(a Auth) {
		c.W.Event("auth", M{"a": a.JSON(), "o": obs{scopes: []string{}}.JSON(), "built": false})
	}
	rtn := cs.Rt
	if rtn != 2 {
		rtn = 1
	}
	rt := ses.runtime(rtn)
	cs.configure(rt)
	c.W.Event("configure", M{"rt": rtn, "def": wJSON(cs.Def), "debug": cs.Debug, "bstatic": kvJSON(cs.BaseStatic)})
	// the operation value: fresh, or the one the caller kept
	desc := *cs
	var op *runtime.ClientOperation
	if cs.OpRef > 0 {
		so, ok := ses.shared[cs.OpRef]
		if !ok {
			op = cs.operation()
			so = &sharedOp{op: op, desc: *cs, auth: op.AuthInfo}
			ses.shared[cs.OpRef] = so
		}
		op, desc = so.op, so.desc
	} else {
		op = cs.operation()
	}
	callerAuth := op.AuthInfo // the AuthInfo the caller gave the value
	if cs.OpRef > 0 {
		callerAuth = ses.shared[cs.OpRef].auth
	}
	before := "set"
	if callerAuth == nil {
		before = "nil"
	}
	c.W.Event("request", M{"rt": rtn, "opref": cs.OpRef, "op": wJSON(desc.Op), "authz": trace.B(desc.Authz), "hdrs": kvJSON(desc.Hdrs), "query": kvJSON(desc.Query),
		"form": kvJSON(desc.Form), "media": desc.Media, "pstatic": kvJSON(desc.PatStatic), "transport": cs.Transport})
	returned := func() {
		after, same := authInfoState(op, callerAuth)
		c.W.Event("returned", M{"before": before, "after": after, "same": same})
	}
	if cs.Transport == "server" {
		s := server()
		rt.Host = s.Listener.Addr().String()
		srvMu.Lock()
		srvCase, srvObs = cs, nil
		srvMu.Unlock()
		err := func() (err error) {
			defer func() {
				if e := recover(); e != nil {
					err = fmt.Errorf("panic: %v", e)
				}
			}()
			_, err = rt.Submit(op)
			return err
		}()
		srvMu.Lock()
		out := srvObs
		srvMu.Unlock()
		for i, a := range cs.Auths {
			if err != nil || i >= len(out) {
				failed(a)
				continue
			}
			emit(a, out[i])
		}
		returned()
		return nontrivial
	}
	rt.Host = "h:1"
	for _, a := range cs.Auths {
		if cs.OpRef == 0 {
			op = cs.operation()
			callerAuth = op.AuthInfo
		}
		req, err := func() (r *http.Request, err error) {
			defer func() {
				if e := recover(); e != nil {
					err = fmt.Errorf("panic: %v", e)
				}
			}()
			return rt.CreateHttpRequest(op)
		}()
		if err != nil {
			failed(a)
			continue
		}
		emit(a, runAuth(a, req))
	}
	returned()
	return nontrivial
}

// ---- generation ------------------------------------------------------------------

const atoms = "a: \xc3+%=&"

func stringsUpTo(n int, alpha string) []string {
	out := []string{""}
	level := []string{""}
	for l := 1; l <= n; l++ {
		var next []string
		for _, p := range level {
			for i := 0; i < len(alpha); i++ {
				next = append(next, p+string(alpha[i]))
			}
		}
		out = append(out, next...)
		level = next
	}
	return out
}

// header-safe: transportable as a header field value (no CTL, no leading/trailing blank)
func headerSafe(s string) bool {
	if s == "" {
		return true
	}
	if s[0] == ' ' || s[0] == '\t' || s[len(s)-1] == ' ' || s[len(s)-1] == '\t' {
		return false
	}
	for i := 0; i < len(s); i++ {
		if s[i] < 0x20 && s[i] != '\t' || s[i] == 0x7f {
			return false
		}
	}
	return true
}

func variants(a Auth) []Auth {
	var out []Auth
	for _, v := range []string{"plain", "ctx"} {
		for _, e := range []bool{false, true} {
			b := a
			b.Variant, b.CbErr, b.Wrap = v, e, "scoped"
			out = append(out, b)
		}
	}
	if a.Kind != "bearer" {
		b := a
		b.Variant, b.Wrap = "plain", "plain"
		out = append(out, b)
	}
	return out
}

func tok(n int) string { return fmt.Sprintf("t%d", n) }

func generate(c *drv.Ctx) {
	thorough := c.Tier == "thorough"
	maxLen := 2
	n := 0
	emitSession := func(steps ...Step) {
		n++
		for i := range steps {
			if steps[i].Transport == "" {
				steps[i].Transport = "direct"
				if (n+i)%5 == 0 {
					steps[i].Transport = "server"
				}
			}
		}
		c.Case(Case{Steps: steps}.JSON())
	}
	emit := func(cs Step) { emitSession(cs) }
	// (i) strings: every user / password / key / token over the atom alphabet
	all := stringsUpTo(maxLen, atoms)
	users := stringsUpTo(maxLen, "a \xc3+%=&")
	if thorough {
		all = append(all, stringsUpTo(3, "a: \xc3")...)
	}
	for _, u := range users {
		for _, p := range all {
			emit(Step{Op: []Writer{{T: "basic", U: u, P: p}}, Media: "none", Auths: variants(Auth{Kind: "basic", Realm: "r"})})
		}
	}
	for _, v := range all {
		emit(Step{Op: []Writer{{T: "apikey", Name: "k", In: "query", P: v}}, Media: "none",
			Auths: append(variants(Auth{Kind: "apikey", Name: "k", In: "query"}), variants(Auth{Kind: "apikey", Name: "K", In: "query"})...)})
		emit(Step{Query: []KV{{"access_token", v}}, Media: "none", Auths: variants(Auth{Kind: "bearer", Scheme: "oauth", Scopes: []string{"s1", "s2"}})})
		emit(Step{Form: []KV{{"access_token", v}, {"other", "x"}}, Media: []string{"urlencoded", "multipart"}[len(v)%2],
			Auths: variants(Auth{Kind: "bearer", Scheme: "oauth", Scopes: []string{"s1"}})})
		if headerSafe(v) {
			emit(Step{Op: []Writer{{T: "apikey", Name: "X-API-Key", In: "header", P: v}}, Media: "none",
				Auths: append(variants(Auth{Kind: "apikey", Name: "x-api-key", In: "header"}), variants(Auth{Kind: "apikey", Name: "X-Api-Key", In: "header"})...)})
			emit(Step{Op: []Writer{{T: "bearer", P: v}}, Media: "none", Auths: variants(Auth{Kind: "bearer", Scheme: "oauth2", Scopes: []string{"read", "write"}})})
		}
	}
	// (ii) structure: operation auth (none / one / Compose of two) x default auth x presets x all authenticators
	wpool := []Writer{{T: "basic", U: "u", P: "p:q"}, {T: "apikey", Name: "X-Key", In: "header", P: tok(1)}, {T: "apikey", Name: "k", In: "query", P: tok(2)},
		{T: "apikey", Name: "access_token", In: "query", P: tok(3)}, {T: "bearer", P: tok(4)}, {T: "bearer", P: ""}}
	dpool := [][]Writer{nil, {{T: "basic", U: "d", P: "e"}}, {{T: "apikey", Name: "x-key", In: "header", P: tok(5)}}, {{T: "bearer", P: tok(6)}}}
	var apool []Auth
	for _, a := range []Auth{{Kind: "basic"}, {Kind: "basic", Realm: "realm"}, {Kind: "apikey", Name: "X-Key", In: "header"}, {Kind: "apikey", Name: "x-key", In: "header"},
		{Kind: "apikey", Name: "k", In: "query"}, {Kind: "apikey", Name: "access_token", In: "query"},
		{Kind: "bearer", Scheme: "oauth"}, {Kind: "bearer", Scheme: "oauth", Scopes: []string{"read", "write"}}} {
		for _, v := range []string{"plain", "ctx"} {
			for _, e := range []bool{false, true} {
				b := a
				b.Variant, b.CbErr, b.Wrap = v, e, "scoped"
				apool = append(apool, b)
			}
		}
	}
	var ops [][]Writer
	ops = append(ops, nil)
	for _, w := range wpool {
		ops = append(ops, []Writer{w})
	}
	for _, w1 := range wpool {
		for _, w2 := range wpool {
			ops = append(ops, []Writer{w1, w2})
		}
	}
	for _, op := range ops {
		for _, def := range dpool {
			if len(op) == 2 && def != nil && !thorough {
				continue
			}
			for mask := 0; mask < 8; mask++ {
				for _, media := range []string{"urlencoded", "multipart", "none"} {
					if mask&4 == 0 && media != "none" {
						continue
					}
					cs := Step{Op: op, Def: def, Media: media, Auths: apool}
					if mask&1 != 0 {
						cs.Authz = "Custom x"
					}
					if mask&2 != 0 {
						cs.Query = []KV{{"access_token", tok(8)}}
					}
					if mask&4 != 0 {
						cs.Form = []KV{{"access_token", tok(9)}, {"other", "x"}}
					}
					if len(op) == 1 && mask == 0 {
						cs.Hdrs = []KV{{"X-Key", tok(7)}}
					}
					emit(cs)
				}
			}
		}
	}
	// an empty access_token query parameter carries no token: the form body's token counts (finding D27)
	for _, media := range []string{"urlencoded", "multipart"} {
		for _, tr := range []string{"direct", "server"} {
			for _, op := range [][]Writer{nil, {{T: "bearer", P: ""}}, {{T: "basic", U: "u", P: "p"}}, {{T: "apikey", Name: "access_token", In: "query", P: ""}}} {
				emit(Step{Op: op, Media: media, Transport: tr, Query: []KV{{"access_token", ""}}, Form: []KV{{"access_token", tok(9)}, {"other", "x"}}, Auths: apool})
			}
		}
	}
	// (iv)-(vi) static query parameters, Debug, sessions with the configuration replaced between requests
	genExtra(thorough, apool, emit, emitSession)
	c.Extra["exhaustive_cases"] = n
	// (iii) seeded random: arbitrary strings
	nr := 5000
	if thorough {
		nr = 30000
	}
	for i := 0; i < nr; i++ {
		emit(randomCase(c))
	}
	ns := 600
	if thorough {
		ns = 6000
	}
	for i := 0; i < ns; i++ {
		emitSession(randomSession(c)...)
	}
}

const hostile = "ab01: +/=%&?#;,\"'\\<>[]{}|^~\xc3\xa9\xe2\x98\x83\xff\t"

func randStr(c *drv.Ctx, max int, anyByte bool) string {
	n := c.Rng.Intn(max + 1)
	b := make([]byte, n)
	for i := range b {
		if anyByte && c.Rng.Intn(4) == 0 {
			b[i] = byte(c.Rng.Intn(256))
		} else {
			b[i] = hostile[c.Rng.Intn(len(hostile))]
		}
	}
	return string(b)
}

func randHeaderSafe(c *drv.Ctx, max int) string {
	for {
		s := randStr(c, max, false)
		if headerSafe(s) {
			return s
		}
	}
}

func randomCase(c *drv.Ctx) Step {
	r := c.Rng
	hdrNames := []string{"X-API-Key", "x-api-key", "X_Token", "Api.Key", "AUTH-TOKEN"}
	qNames := []string{"k", "api_key", "access_token", "a b", "k&x", "\xc3\xa9"}
	mk := func() Writer {
		switch r.Intn(4) {
		case 0:
			u := randStr(c, 10, true)
			ub := []byte(u)
			for i := range ub {
				if ub[i] == ':' {
					ub[i] = '.'
				}
			}
			return Writer{T: "basic", U: string(ub), P: randStr(c, 12, true)}
		case 1:
			return Writer{T: "apikey", Name: hdrNames[r.Intn(len(hdrNames))], In: "header", P: randHeaderSafe(c, 12)}
		case 2:
			return Writer{T: "apikey", Name: qNames[r.Intn(len(qNames))], In: "query", P: randStr(c, 12, true)}
		}
		return Writer{T: "bearer", P: randHeaderSafe(c, 16)}
	}
	var cs Step
	for i, k := 0, r.Intn(3); i < k; i++ {
		cs.Op = append(cs.Op, mk())
	}
	if r.Intn(2) == 0 {
		cs.Def = []Writer{mk()}
	}
	if r.Intn(3) == 0 {
		cs.Authz = []string{"Custom x", "Digest username=\"a\"", "Token abc", "Negotiate YII="}[r.Intn(4)]
	}
	if r.Intn(3) == 0 {
		cs.Hdrs = []KV{{hdrNames[r.Intn(len(hdrNames))], randHeaderSafe(c, 8)}}
	}
	if r.Intn(3) == 0 {
		cs.Query = []KV{{qNames[r.Intn(len(qNames))], randStr(c, 8, true)}}
	}
	cs.Media = []string{"none", "urlencoded", "multipart"}[r.Intn(3)]
	if r.Intn(3) == 0 {
		cs.Form = []KV{{"access_token", randStr(c, 8, true)}, {"other", "x"}}
	}
	// authenticators: matching and non-matching names
	as := []Auth{{Kind: "basic", Realm: []string{"", "my realm"}[r.Intn(2)]}, {Kind: "bearer", Scheme: "oauth", Scopes: []string{"a", "b"}[:r.Intn(3)]},
		{Kind: "apikey", Name: hdrNames[r.Intn(len(hdrNames))], In: "header"}, {Kind: "apikey", Name: qNames[r.Intn(len(qNames))], In: "query"}}
	for _, w := range cs.Op {
		if w.T == "apikey" {
			as = append(as, Auth{Kind: "apikey", Name: w.Name, In: w.In})
		}
	}
	for _, a := range as {
		a.Variant, a.CbErr, a.Wrap = []string{"plain", "ctx"}[r.Intn(2)], r.Intn(3) == 0, "scoped"
		cs.Auths = append(cs.Auths, a)
	}
	if r.Intn(3) == 0 {
		cs.Transport = "server"
	} else {
		cs.Transport = "direct"
	}
	randomConfig(c, &cs)
	return cs
}
