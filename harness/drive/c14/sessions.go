package c14

import "verifharness/internal/drv"

// Configuration dimensions and history on one Runtime.
//
//   - static query parameters in the base path / path pattern named like a query API key (or like access_token), with and
//     without a credential writer of that name: the written credential must win, a lone static one is the credential carried;
//   - Runtime.Debug on (the request is dumped before it is sent) with every kind of header credential, really sent;
//   - sessions: the application REPLACES Runtime.DefaultAuthentication / Debug / the base path between requests.
func genExtra(thorough bool, apool []Auth, emit func(Step), emitSession func(...Step)) {
	// authenticators for the query keys used below
	var qauths []Auth
	for _, a := range []Auth{{Kind: "apikey", Name: "api_key", In: "query"}, {Kind: "apikey", Name: "k", In: "query"}, {Kind: "apikey", Name: "access_token", In: "query"},
		{Kind: "bearer", Scheme: "oauth", Scopes: []string{"read"}}, {Kind: "basic"}, {Kind: "apikey", Name: "X-Key", In: "header"}} {
		for _, v := range []string{"plain", "ctx"} {
			for _, e := range []bool{false, true} {
				b := a
				b.Variant, b.CbErr, b.Wrap = v, e, "scoped"
				qauths = append(qauths, b)
			}
		}
	}

	// (iv) static query parameters x query credentials
	type placement struct{ base, pat []KV }
	statics := func(name string) []placement {
		return []placement{
			{base: []KV{{name, "public-demo-key"}}},
			{pat: []KV{{name, "pattern key"}}},
			{base: []KV{{name, "base&key"}}, pat: []KV{{name, "pat=key"}}},
			{base: []KV{{"other", "o"}, {name, "b2"}}, pat: []KV{{"v", "1"}}},
		}
	}
	for _, name := range []string{"api_key", "k", "access_token"} {
		for _, pl := range statics(name) {
			ops := [][]Writer{nil, {{T: "apikey", Name: name, In: "query", P: tok(2)}}, {{T: "apikey", Name: name, In: "query", P: ""}},
				{{T: "apikey", Name: "X-Key", In: "header", P: tok(1)}, {T: "apikey", Name: name, In: "query", P: "a b+c&d=e"}}, {{T: "bearer", P: tok(4)}},
				{{T: "apikey", Name: "zz", In: "query", P: tok(3)}}}
			defs := [][]Writer{nil, {{T: "apikey", Name: name, In: "query", P: tok(5)}}, {{T: "bearer", P: tok(6)}}}
			for _, op := range ops {
				for _, def := range defs {
					for _, q := range [][]KV{nil, {{name, "from-params"}}} {
						for _, tr := range []string{"direct", "server"} {
							if tr == "server" && !thorough && (len(op)+len(def)+len(q))%2 == 1 {
								continue
							}
							emit(Step{Op: op, Def: def, Query: q, BaseStatic: pl.base, PatStatic: pl.pat, Media: "none", Transport: tr, Auths: qauths})
						}
					}
				}
			}
		}
	}

	// (v) Debug on x header credentials (per operation, default, preset), really sent and only built
	hdrOps := [][]Writer{nil, {{T: "basic", U: "u", P: "p:q"}}, {{T: "bearer", P: tok(4)}}, {{T: "apikey", Name: "X-Key", In: "header", P: tok(1)}},
		{{T: "bearer", P: tok(4)}, {T: "apikey", Name: "k", In: "query", P: tok(2)}}, {{T: "basic", U: "\xc3\xa9", P: " "}}}
	hdrDefs := [][]Writer{nil, {{T: "basic", U: "d", P: "e"}}, {{T: "bearer", P: tok(6)}}, {{T: "apikey", Name: "x-key", In: "header", P: tok(5)}}}
	for _, op := range hdrOps {
		for _, def := range hdrDefs {
			for _, authz := range []string{"", "Custom x"} {
				for _, media := range []string{"none", "urlencoded", "multipart"} {
					for _, tr := range []string{"server", "direct"} {
						cs := Step{Op: op, Def: def, Authz: authz, Debug: true, Media: media, Transport: tr, Auths: apool}
						if media != "none" {
							cs.Form = []KV{{"access_token", tok(9)}, {"other", "x"}}
						}
						emit(cs)
					}
				}
			}
		}
	}

	// (vi) sessions: the default credential is replaced between requests (token refresh, other scheme, removed, set later)
	defaults := [][]Writer{nil, {{T: "bearer", P: tok(6)}}, {{T: "bearer", P: "refreshed-" + tok(6)}}, {{T: "apikey", Name: "k", In: "query", P: tok(5)}},
		{{T: "apikey", Name: "X-Key", In: "header", P: tok(7)}}, {{T: "basic", U: "d", P: "e"}}, {{T: "basic", U: "d", P: "new:pass"}}}
	reqs := []Step{{Media: "none"}, {Op: []Writer{{T: "bearer", P: tok(4)}}, Media: "none"}, {Authz: "Custom x", Media: "none"},
		{Query: []KV{{"access_token", tok(8)}}, Media: "none"}, {Form: []KV{{"access_token", tok(9)}}, Media: "urlencoded"}}
	mk := func(r Step, def []Writer, tr string, debug bool) Step {
		r.Def, r.Transport, r.Debug, r.Auths = def, tr, debug, apool
		return r
	}
	for i, d1 := range defaults {
		for j, d2 := range defaults {
			if i == j {
				continue
			}
			for ri, r := range reqs {
				if ri >= 3 && !thorough && (i+j)%3 != 0 {
					continue
				}
				for _, tr := range []string{"direct", "server"} {
					if tr == "server" && !thorough && (i+j+ri)%2 == 0 {
						continue
					}
					emitSession(mk(r, d1, tr, false), mk(r, d2, tr, false))
				}
			}
			// back to the first one; with other requests in between
			emitSession(mk(reqs[0], d1, "direct", false), mk(reqs[1], d2, "server", false), mk(reqs[0], d2, "direct", false), mk(reqs[0], d1, "server", false))
		}
	}
	// Debug switched on and off between requests that carry header credentials; base path replaced
	for _, op := range hdrOps[:4] {
		for _, def := range hdrDefs {
			a := Step{Op: op, Def: def, Media: "none", Transport: "server", Auths: apool}
			b := a
			b.Debug = true
			c := a
			c.BaseStatic, c.Auths = []KV{{"k", "static-k"}}, qauths
			emitSession(a, b, a)
			emitSession(b, a, c, b)
		}
	}
}

// randomSession: 2-5 random requests on one Runtime, each with a random configuration (Debug, static query parameters named
// like one of the step's query keys).
func randomSession(c *drv.Ctx) []Step {
	r := c.Rng
	n := 2 + r.Intn(4)
	var steps []Step
	for i := 0; i < n; i++ {
		st := randomCase(c)
		if i > 0 && r.Intn(3) == 0 { // same request, another configuration
			st = steps[i-1]
			st.Def = randomCase(c).Def
		}
		steps = append(steps, st)
	}
	return steps
}

// randomConfig adds the configuration dimensions to a random request
func randomConfig(c *drv.Ctx, st *Step) {
	r := c.Rng
	st.Debug = r.Intn(4) == 0
	names := []string{"k", "api_key", "access_token", "other"}
	for _, w := range append(append([]Writer{}, st.Op...), st.Def...) {
		if w.T == "apikey" && w.In == "query" {
			names = append(names, w.Name, w.Name)
		}
	}
	if r.Intn(3) == 0 {
		st.BaseStatic = []KV{{names[r.Intn(len(names))], randStr(c, 6, true)}}
	}
	if r.Intn(4) == 0 {
		st.PatStatic = []KV{{names[r.Intn(len(names))], randStr(c, 6, true)}}
	}
}
