package c14

import "verifharness/internal/drv"

// Configuration dimensions and history on one Runtime.
//
//   - static query parameters in the base path / path pattern named like a query API key (or like access_token), with and
//     without a credential writer of that name: the written credential must win, a lone static one is the credential carried;
//   - Runtime.Debug on (the request is dumped before it is sent) with every kind of header credential, really sent;
//   - sessions: the application REPLACES Runtime.DefaultAuthentication / Debug / the base path between requests;
//   - the SAME ClientOperation value submitted again: after the default was rotated, removed or set, and through a second
//     Runtime with another default (the credential is the sending transport's, at the time it sends).
func genExtra(thorough bool, apool []Auth, emit func(Step), emitSession func(...Step)) {
	// authenticators for the query keys used below
	var qauths []Auth
	for _, a := range []Auth{{Kind: "apikey", Name: "api_key", In: "query"}, {Kind: "apikey", Name: "k", In: "query"}, {Kind: "apikey", Name: "access_token", In: "query"},
		{Kind: "bearer", Scheme: "oauth", Scopes: []string{"read"}}, {Kind: "basic"}, {Kind: "apikey", Name: "X-Key", In: "header"}} {
		for _, v := range []string{"plain", "ctx"} {
			for _, e := range []bool{false, true} {
				b := a
				b.Variant, b.CbErr, b.Wrap = v, e, "scoped"
				qauths = append(qauths, b)
			}
		}
	}

	// (iv) static query parameters x query credentials
	type placement struct{ base, pat []KV }
	statics := func(name string) []placement {
		return []placement{
			{base: []KV{{name, "public-demo-key"}}},
			{pat: []KV{{name, "pattern key"}}},
			{base: []KV{{name, "base&key"}}, pat: []KV{{name, "pat=key"}}},
			{base: []KV{{"other", "o"}, {name, "b2"}}, pat: []KV{{"v", "1"}}},
		}
	}
	for _, name := range []string{"api_key", "k", "access_token"} {
		for _, pl := range statics(name) {
			ops := [][]Writer{nil, {{T: "apikey", Name: name, In: "query", P: tok(2)}}, {{T: "apikey", Name: name, In: "query", P: ""}},
				{{T: "apikey", Name: "X-Key", In: "header", P: tok(1)}, {T: "apikey", Name: name, In: "query", P: "a b+c&d=e"}}, {{T: "bearer", P: tok(4)}},
				{{T: "apikey", Name: "zz", In: "query", P: tok(3)}}}
			defs := [][]Writer{nil, {{T: "apikey", Name: name, In: "query", P: tok(5)}}, {{T: "bearer", P: tok(6)}}}
			for _, op := range ops {
				for _, def := range defs {
					for _, q := range [][]KV{nil, {{name, "from-params"}}} {
						for _, tr := range []string{"direct", "server"} {
							if tr == "server" && !thorough && (len(op)+len(def)+len(q))%2 == 1 {
								continue
							}
							emit(Step{Op: op, Def: def, Query: q, BaseStatic: pl.base, PatStatic: pl.pat, Media: "none", Transport: tr, Auths: qauths})
						}
					}
				}
			}
		}
	}

	// (v) Debug on x header credentials (per operation, default, preset), really sent and only built
	hdrOps := [][]Writer{nil, {{T: "basic", U: "u", P: "p:q"}}, {{T: "bearer", P: tok(4)}}, {{T: "apikey", Name: "X-Key", In: "header", P: tok(1)}},
		{{T: "bearer", P: tok(4)}, {T: "apikey", Name: "k", In: "query", P: tok(2)}}, {{T: "basic", U: "\xc3\xa9", P: " "}}}
	hdrDefs := [][]Writer{nil, {{T: "basic", U: "d", P: "e"}}, {{T: "bearer", P: tok(6)}}, {{T: "apikey", Name: "x-key", In: "header", P: tok(5)}}}
	for _, op := range hdrOps {
		for _, def := range hdrDefs {
			for _, authz := range []string{"", "Custom x"} {
				for _, media := range []string{"none", "urlencoded", "multipart"} {
					for _, tr := range []string{"server", "direct"} {
						cs := Step{Op: op, Def: def, Authz: authz, Debug: true, Media: media, Transport: tr, Auths: apool}
						if media != "none" {
							cs.Form = []KV{{"access_token", tok(9)}, {"other", "x"}}
						}
						emit(cs)
					}
				}
			}
		}
	}

	// (vi) sessions: the default credential is replaced between requests (token refresh, other scheme, removed, set later)
	defaults := [][]Writer{nil, {{T: "bearer", P: tok(6)}}, {{T: "bearer", P: "refreshed-" + tok(6)}}, {{T: "apikey", Name: "k", In: "query", P: tok(5)}},
		{{T: "apikey", Name: "X-Key", In: "header", P: tok(7)}}, {{T: "basic", U: "d", P: "e"}}, {{T: "basic", U: "d", P: "new:pass"}}}
	reqs := []Step{{Media: "none"}, {Op: []Writer{{T: "bearer", P: tok(4)}}, Media: "none"}, {Authz: "Custom x", Media: "none"},
		{Query: []KV{{"access_token", tok(8)}}, Media: "none"}, {Form: []KV{{"access_token", tok(9)}}, Media: "urlencoded"}}
	mk := func(r Step, def []Writer, tr string, debug bool) Step {
		r.Def, r.Transport, r.Debug, r.Auths = def, tr, debug, apool
		return r
	}
	for i, d1 := range defaults {
		for j, d2 := range defaults {
			if i == j {
				continue
			}
			for ri, r := range reqs {
				if ri >= 3 && !thorough && (i+j)%3 != 0 {
					continue
				}
				for _, tr := range []string{"direct", "server"} {
					if tr == "server" && !thorough && (i+j+ri)%2 == 0 {
						continue
					}
					emitSession(mk(r, d1, tr, false), mk(r, d2, tr, false))
				}
			}
			// back to the first one; with other requests in between
			emitSession(mk(reqs[0], d1, "direct", false), mk(reqs[1], d2, "server", false), mk(reqs[0], d2, "direct", false), mk(reqs[0], d1, "server", false))
		}
	}
	// (vii) the caller keeps ONE ClientOperation value and submits it again: after the default was replaced (rotated, removed,
	// set later), through the other Runtime (other default, or none), and back
	mkx := func(r Step, def []Writer, tr string, rt, opref int) Step {
		r.Def, r.Transport, r.Rt, r.OpRef, r.Auths = def, tr, rt, opref, apool
		return r
	}
	for i, d1 := range defaults {
		for j, d2 := range defaults {
			for ri, r := range reqs {
				if i == j && ri > 0 {
					continue
				}
				if ri >= 2 && !thorough && (i+j+ri)%3 != 0 {
					continue
				}
				for ti, trs := range [][2]string{{"server", "server"}, {"direct", "direct"}, {"direct", "server"}} {
					if ti > 0 && !thorough && (i+j+ri+ti)%2 == 0 {
						continue
					}
					// one Runtime, the default replaced between the two submissions
					emitSession(mkx(r, d1, trs[0], 1, 1), mkx(r, d2, trs[1], 1, 1))
					// two Runtimes with their own defaults, the value goes A, B, A
					emitSession(mkx(r, d1, trs[0], 1, 1), mkx(r, d2, trs[1], 2, 1), mkx(r, d1, trs[0], 1, 1))
				}
			}
		}
	}
	// two values kept by the caller, interleaved with fresh ones, over both Runtimes
	for i := 0; i+2 < len(defaults); i++ {
		d1, d2, d3 := defaults[i], defaults[i+1], defaults[i+2]
		emitSession(mkx(reqs[0], d1, "server", 1, 1), mkx(reqs[1], d2, "direct", 2, 2), mkx(reqs[0], d3, "direct", 1, 0), mkx(reqs[0], d2, "server", 2, 1),
			mkx(reqs[1], d3, "server", 1, 2), mkx(reqs[0], d3, "server", 1, 1), mkx(reqs[0], nil, "direct", 2, 1))
	}

	// (viii) Compose lists with nil entries (credentials the application did not configure): before, between and after the
	// writers, alone, in the default; the other entries are applied all the same
	absent := Writer{T: "absent"}
	cpool := []Writer{{T: "basic", U: "u", P: "p:q"}, {T: "apikey", Name: "X-Key", In: "header", P: tok(1)}, {T: "apikey", Name: "k", In: "query", P: tok(2)}, {T: "bearer", P: tok(4)}}
	var lists [][]Writer
	lists = append(lists, []Writer{absent}, []Writer{absent, absent})
	for _, w1 := range cpool {
		lists = append(lists, []Writer{absent, w1}, []Writer{w1, absent}, []Writer{absent, w1, absent})
		for _, w2 := range cpool {
			lists = append(lists, []Writer{w1, absent, w2}, []Writer{absent, w1, w2})
		}
	}
	for li, l := range lists {
		for _, def := range [][]Writer{nil, {{T: "bearer", P: tok(6)}}} {
			for _, tr := range []string{"direct", "server"} {
				if tr == "server" && !thorough && li%3 != 0 {
					continue
				}
				emit(Step{Op: l, Def: def, Media: "none", Transport: tr, Auths: apool})
				if def == nil {
					emit(Step{Def: l, Media: "none", Transport: tr, Auths: apool}) // the list as transport-wide default
				}
			}
		}
	}

	// Debug switched on and off between requests that carry header credentials; base path replaced
	for _, op := range hdrOps[:4] {
		for _, def := range hdrDefs {
			a := Step{Op: op, Def: def, Media: "none", Transport: "server", Auths: apool}
			b := a
			b.Debug = true
			c := a
			c.BaseStatic, c.Auths = []KV{{"k", "static-k"}}, qauths
			emitSession(a, b, a)
			emitSession(b, a, c, b)
		}
	}
}

// randomSession: 2-5 random requests on one Runtime, each with a random configuration (Debug, static query parameters named
// like one of the step's query keys).
func randomSession(c *drv.Ctx) []Step {
	r := c.Rng
	n := 2 + r.Intn(4)
	var steps []Step
	for i := 0; i < n; i++ {
		st := randomCase(c)
		st.Rt = 1 + r.Intn(2)
		switch {
		case i > 0 && r.Intn(3) == 0: // same request with a fresh operation value, another configuration
			st = steps[i-1]
			st.Def, st.OpRef, st.Rt = randomCase(c).Def, 0, 1+r.Intn(2)
		case i > 0 && r.Intn(3) == 0: // the caller submits an operation value again: other configuration, maybe the other Runtime
			k := r.Intn(i)
			if steps[k].OpRef == 0 {
				steps[k].OpRef = k + 1
			}
			cfg := st
			st = steps[k]
			st.Def, st.Debug, st.BaseStatic, st.Transport, st.Rt = cfg.Def, cfg.Debug, cfg.BaseStatic, cfg.Transport, 1+r.Intn(2)
		}
		steps = append(steps, st)
	}
	return steps
}

// randomConfig adds the configuration dimensions to a random request
func randomConfig(c *drv.Ctx, st *Step) {
	r := c.Rng
	st.Debug = r.Intn(4) == 0
	names := []string{"k", "api_key", "access_token", "other"}
	for _, w := range append(append([]Writer{}, st.Op...), st.Def...) {
		if w.T == "apikey" && w.In == "query" {
			names = append(names, w.Name, w.Name)
		}
	}
	if r.Intn(3) == 0 {
		st.BaseStatic = []KV{{names[r.Intn(len(names))], randStr(c, 6, true)}}
	}
	if r.Intn(4) == 0 {
		st.PatStatic = []KV{{names[r.Intn(len(names))], randStr(c, 6, true)}}
	}
}
