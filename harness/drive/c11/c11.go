// Package c11 drives the client's body construction for property C11.
//
// A case is an abstract payload (value / reader / form fields / files with a content
// description / media type / auth writer calling GetBody k times).  The driver renders
// it, lets the real client build (Runtime.CreateHttpRequest) or send (Runtime.Submit with
// a recording RoundTripper) the request, reads what was sent and parses it back with
// mime / mime/multipart (abstraction functions); contents are identified by SHA-256.
// The TLA+ trace spec decides.
package c11

import (
	"bytes"
	"crypto/sha256"
	"encoding/hex"
	"encoding/xml"
	"errors"
	"fmt"
	"io"
	"mime"
	"mime/multipart"
	"net/http"
	"os"
	"path/filepath"
	goruntime "runtime"
	"strings"
	"sync"
	"time"

	"github.com/go-openapi/runtime"
	"github.com/go-openapi/runtime/client"
	"github.com/go-openapi/strfmt"

	"verifharness/internal/drv"
	"verifharness/internal/trace"
)

type M = drv.M

func init() {
	drv.Register(&drv.Driver{Name: "c11", Generate: generate, Execute: execute})
}

// ---- abstract case -------------------------------------------------------------

type Item struct {
	Name     string
	Declared string
	Len      int
	Head     string // text | bin | png | pdf | gif
	Nul      int    // 1-based position of a NUL byte in text content, 0 = none
	Chunk    int    // size of the source's reads, 0 = as much as asked
	Seed     int
	Src      string // "reader" | "osfile" | "seeker" (in-memory io.Seeker)
	Skip     int    // bytes of the source before the position at which it is handed to SetFileParam (seekable sources)
	EOFData  bool   // last data is returned together with io.EOF
}

type FileField struct {
	Field string
	Items []Item
}

type KV struct {
	K  string
	Vs []string
}

type Payload struct {
	Fail   bool   // the reader fails once (transiently) ...
	FailAt int    // ... when it reaches this offset
	Kind   string // none | value | reader | readcloser
	VKind  string // value: json-map | text | bytes | xml | yaml | csv | html ; reader: chunked | bytesbuffer | stringsreader | bytesreader | osfile
	Skip   int    // seekable readers (stringsreader, bytesreader, osfile): bytes of a preamble the caller consumed before handing the reader over
	Len    int
	Seed   int
	Chunk  int
}

type Case struct {
	Method   string // "" = POST
	PresetCT string // a Content-Type header set by the params writer
	Debug    bool   // Runtime.Debug = true (with a silent logger)
	DefAuth  bool   // Runtime.DefaultAuthentication is a body-inspecting writer (calls GetBody K times)
	CSVSkip  int    // > 0: the text/csv producer is runtime.CSVProducer(runtime.WithCSVSkipLines(n))
	Media    string
	Payload  Payload
	Fields   []KV
	Files    []FileField
	Auth     bool
	K        int
	Via      string // create | submit
}

func (c Case) JSON() M {
	fields := make([]M, 0)
	for _, f := range c.Fields {
		fields = append(fields, M{"k": trace.B(f.K), "vs": trace.BB(f.Vs)})
	}
	files := make([]M, 0)
	for _, ff := range c.Files {
		items := make([]M, 0)
		for _, it := range ff.Items {
			items = append(items, M{"name": trace.B(it.Name), "declared": it.Declared, "len": it.Len, "head": it.Head,
				"nul": it.Nul, "chunk": it.Chunk, "seed": it.Seed, "src": it.Src, "eofdata": it.EOFData,
				"skip": it.Skip, "seekable": it.Src == "osfile" || it.Src == "seeker"})
		}
		files = append(files, M{"field": trace.B(ff.Field), "items": items})
	}
	if c.Payload.Kind == "" {
		c.Payload.Kind = "none"
	}
	method := c.Method
	if method == "" {
		method = "POST"
	}
	return M{"media": c.Media, "method": method, "presetct": c.PresetCT, "debug": c.Debug, "defauth": c.DefAuth, "csvskip": c.CSVSkip,
		"payload": M{"kind": c.Payload.Kind, "vkind": c.Payload.VKind, "len": c.Payload.Len, "seed": c.Payload.Seed, "chunk": c.Payload.Chunk,
			"fail": c.Payload.Fail, "fail_at": c.Payload.FailAt, "skip": c.Payload.Skip,
			"seekable": c.Payload.VKind == "stringsreader" || c.Payload.VKind == "bytesreader" || c.Payload.VKind == "osfile"},
		"fields": fields, "files": files, "auth": c.Auth, "k": c.K, "via": c.Via}
}

// Batch is what one trace case is: one request, or several requests overlapping in time.
type Batch struct {
	Reqs  []Case
	Mode  string // single | build-then-send | concurrent
	Procs int    // GOMAXPROCS while building (0 = unchanged)
}

func (b Batch) JSON() M {
	rs := make([]M, 0, len(b.Reqs))
	for _, r := range b.Reqs {
		rs = append(rs, r.JSON())
	}
	return M{"reqs": rs, "mode": b.Mode, "procs": b.Procs}
}

func batchFrom(d M) Batch {
	b := Batch{Mode: drv.Str(d["mode"]), Procs: drv.Int(d["procs"])}
	for _, r := range drv.List(d["reqs"]) {
		b.Reqs = append(b.Reqs, caseFrom(drv.Map(r)))
	}
	return b
}

func caseFrom(d M) Case {
	var c Case
	c.Media = drv.Str(d["media"])
	p := drv.Map(d["payload"])
	c.Payload = Payload{Kind: drv.Str(p["kind"]), VKind: drv.Str(p["vkind"]), Len: drv.Int(p["len"]), Seed: drv.Int(p["seed"]), Chunk: drv.Int(p["chunk"]),
		Fail: drv.Bool(p["fail"]), FailAt: drv.Int(p["fail_at"]), Skip: drv.Int(p["skip"])}
	for _, f := range drv.List(d["fields"]) {
		m := drv.Map(f)
		kv := KV{K: trace.Str(m["k"])}
		for _, v := range drv.List(m["vs"]) {
			kv.Vs = append(kv.Vs, trace.Str(v))
		}
		c.Fields = append(c.Fields, kv)
	}
	for _, f := range drv.List(d["files"]) {
		m := drv.Map(f)
		ff := FileField{Field: trace.Str(m["field"])}
		for _, it := range drv.List(m["items"]) {
			im := drv.Map(it)
			ff.Items = append(ff.Items, Item{Name: trace.Str(im["name"]), Declared: drv.Str(im["declared"]), Len: drv.Int(im["len"]),
				Head: drv.Str(im["head"]), Nul: drv.Int(im["nul"]), Chunk: drv.Int(im["chunk"]), Seed: drv.Int(im["seed"]),
				Src: drv.Str(im["src"]), EOFData: drv.Bool(im["eofdata"]), Skip: drv.Int(im["skip"])})
		}
		c.Files = append(c.Files, ff)
	}
	c.Auth, c.K, c.Via = drv.Bool(d["auth"]), drv.Int(d["k"]), drv.Str(d["via"])
	c.Method, c.PresetCT, c.Debug = drv.Str(d["method"]), drv.Str(d["presetct"]), drv.Bool(d["debug"])
	c.DefAuth, c.CSVSkip = drv.Bool(d["defauth"]), drv.Int(d["csvskip"])
	return c
}

// ---- rendering: content description -> bytes -------------------------------------

const textAlpha = "abcdefghijklmnopqrstuvwxyz0123456789 .,\n"

type lcg uint32

func (g *lcg) next() uint32 { *g = *g*1664525 + 1013904223; return uint32(*g >> 8) }

var sigs = map[string]string{"png": "\x89PNG\r\n\x1a\n", "pdf": "%PDF-", "gif": "GIF89a"}

func content(it Item) []byte {
	g := lcg(uint32(it.Seed)*2654435761 + 12345)
	b := make([]byte, it.Len)
	switch it.Head {
	case "bin":
		for i := range b {
			b[i] = byte(g.next())
		}
		if len(b) > 0 {
			b[0] = 0
		}
	default:
		for i := range b {
			b[i] = textAlpha[int(g.next())%len(textAlpha)]
		}
		if len(b) > 0 {
			b[0] = 'a' + byte(it.Seed%26)
		}
		copy(b, sigs[it.Head])
		if it.Nul > 0 && it.Nul <= len(b) {
			b[it.Nul-1] = 0
		}
	}
	return b
}

func sha(b []byte) string { h := sha256.Sum256(b); return hex.EncodeToString(h[:]) }

// chunked upload source
type source struct {
	data    []byte
	off     int
	chunk   int
	eofData bool
	closed  int
	fail    bool // fails once when reaching failAt
	failAt  int
	failed  bool
}

var errTransient = errors.New("transient read failure")

func (s *source) Read(p []byte) (int, error) {
	if s.fail && !s.failed && s.off >= s.failAt {
		s.failed = true
		return 0, errTransient
	}
	if s.off >= len(s.data) {
		return 0, io.EOF
	}
	n := len(p)
	if s.fail && !s.failed && s.off+n > s.failAt {
		n = s.failAt - s.off
	}
	if s.chunk > 0 && n > s.chunk {
		n = s.chunk
	}
	if n > len(s.data)-s.off {
		n = len(s.data) - s.off
	}
	copy(p, s.data[s.off:s.off+n])
	s.off += n
	if s.eofData && s.off >= len(s.data) {
		return n, io.EOF
	}
	return n, nil
}
func (s *source) Close() error { s.closed++; return nil }

type readOnly struct{ s *source } // an io.Reader that is not an io.Closer

func (r readOnly) Read(p []byte) (int, error) { return r.s.Read(p) }

type namedSource struct {
	*source
	name string
}

func (n namedSource) Name() string { return n.name }

type declaredSource struct {
	namedSource
	ct string
}

func (d declaredSource) ContentType() string { return d.ct }

// seekSource is an in-memory upload that implements io.Seeker (like a file).
type seekSource struct {
	*bytes.Reader
	name string
}

func (s seekSource) Name() string { return s.name }
func (s seekSource) Close() error { return nil }

type declaredSeek struct {
	seekSource
	ct string
}

func (d declaredSeek) ContentType() string { return d.ct }

// lead is what a seekable source holds before the position at which it is handed over: it looks like a PNG.
func lead(n int) []byte {
	b := make([]byte, n)
	copy(b, "\x89PNG\r\n\x1a\n")
	return b
}

type silent struct{}

func (silent) Printf(string, ...interface{}) {}
func (silent) Debugf(string, ...interface{}) {}

type declaredFile struct {
	*os.File
	ct string
}

func (d declaredFile) ContentType() string { return d.ct }

// ---- value payloads ---------------------------------------------------------------

type xmlDoc struct {
	XMLName xml.Name `xml:"doc"`
	A       string   `xml:"a"`
	N       int      `xml:"n"`
}

func mkValue(p Payload) any {
	g := lcg(uint32(p.Seed) + 7)
	txt := make([]byte, p.Len)
	for i := range txt {
		txt[i] = textAlpha[int(g.next())%len(textAlpha)]
	}
	switch p.VKind {
	case "json-map", "yaml":
		return map[string]any{"s": string(txt), "n": p.Seed, "l": []any{"x", 1, true}}
	case "text", "html":
		return string(txt)
	case "bytes":
		b := make([]byte, p.Len)
		for i := range b {
			b[i] = byte(g.next())
		}
		return b
	case "xml":
		return xmlDoc{A: string(txt), N: p.Seed}
	case "csv":
		return [][]string{{"a", "b"}, {string(txt), fmt.Sprint(p.Seed)}, {"x", "y"}}
	case "csv-string":
		return fmt.Sprintf("a,b\nq%d,r\nx,y\n", p.Seed)
	case "csv-bytes":
		return []byte(fmt.Sprintf("a,b\nq%d,r\nx,y\n", p.Seed))
	}
	return string(txt)
}

// ---- recording -----------------------------------------------------------------------

type recorder struct {
	hdr  http.Header
	body []byte
	had  bool
	err  error
}

func (r *recorder) RoundTrip(req *http.Request) (*http.Response, error) {
	r.hdr = req.Header.Clone()
	if req.Body != nil && req.Body != http.NoBody {
		r.had = true
		b, err := io.ReadAll(req.Body)
		req.Body.Close()
		r.body, r.err = b, err
	}
	return &http.Response{StatusCode: http.StatusNoContent, Status: "204 No Content", Proto: "HTTP/1.1", ProtoMajor: 1, ProtoMinor: 1,
		Header: http.Header{}, Body: http.NoBody, Request: req}, nil
}

func ascii(s string) string {
	var b strings.Builder
	for i := 0; i < len(s); i++ {
		if s[i] < 0x20 || s[i] >= 0x7f {
			fmt.Fprintf(&b, "\\x%02x", s[i])
		} else {
			b.WriteByte(s[i])
		}
	}
	return b.String()
}

var tmpDir string

func scratchDir() string {
	if tmpDir == "" {
		base := os.Getenv("VERIF_SCRATCH")
		if base == "" {
			base = os.TempDir()
		}
		d, err := os.MkdirTemp(base, "c11files")
		if err != nil {
			panic(err)
		}
		tmpDir = d
	}
	return tmpDir
}

// prepared is one request ready to be built / sent, with its observers.
type prepared struct {
	cs              Case
	rt              *client.Runtime
	op              *runtime.ClientOperation
	rec             *recorder
	supplied        M
	authSaw         []string
	defSaw          []string
	producersCalled []string
	produced        []byte
	toRemove        []string
	callErr         error
	panicked        bool
}

func prepare(cs Case) *prepared {
	p := &prepared{cs: cs, rec: &recorder{}, authSaw: []string{}, defSaw: []string{}}
	rt := client.New("h:1", "/api", []string{"http"})
	p.rt = rt
	if cs.CSVSkip > 0 {
		// an option-carrying codec, as an application registers it
		rt.Producers[runtime.CSVMime] = runtime.CSVProducer(runtime.WithCSVSkipLines(cs.CSVSkip))
	}
	p.supplied = M{"payload": "", "ref": "", "files": [][]string{}}
	if cs.Payload.Kind == "value" {
		// THE encoding of the value by the registered producer instance: a reference run before the request
		if pr, ok := rt.Producers[cs.Media]; ok {
			var ref bytes.Buffer
			func() {
				defer func() { _ = recover() }()
				if err := pr.Produce(&ref, mkValue(cs.Payload)); err != nil {
					ref.WriteString("error: " + err.Error())
				}
			}()
			p.supplied["ref"] = sha(ref.Bytes())
		}
	}
	// every registered producer is wrapped so that the call and its output are observed
	for mt, pr := range rt.Producers {
		mt, pr := mt, pr
		rt.Producers[mt] = runtime.ProducerFunc(func(w io.Writer, v any) error {
			p.producersCalled = append(p.producersCalled, mt)
			var tee bytes.Buffer
			err := pr.Produce(io.MultiWriter(w, &tee), v)
			p.produced = append(p.produced, tee.Bytes()...)
			return err
		})
	}
	var payload any
	switch cs.Payload.Kind {
	case "value":
		payload = mkValue(cs.Payload)
	case "reader", "readcloser":
		data := content(Item{Len: cs.Payload.Len, Head: "bin", Seed: cs.Payload.Seed})
		p.supplied["payload"] = sha(data)
		src := &source{data: data, chunk: cs.Payload.Chunk, fail: cs.Payload.Fail, failAt: cs.Payload.FailAt}
		// seekable readers hold a preamble of Skip bytes which the caller has consumed: the payload is what they yield from there
		whole := append(lead(cs.Payload.Skip), data...)
		switch {
		case cs.Payload.VKind == "osfile":
			dir, err := os.MkdirTemp(scratchDir(), "p")
			if err != nil {
				panic(err)
			}
			path := filepath.Join(dir, "payload.bin")
			if err := os.WriteFile(path, whole, 0o600); err != nil {
				panic(err)
			}
			p.toRemove = append(p.toRemove, dir)
			f, err := os.Open(path)
			if err != nil {
				panic(err)
			}
			if _, err := f.Seek(int64(cs.Payload.Skip), io.SeekStart); err != nil {
				panic(err)
			}
			payload = f
		case cs.Payload.VKind == "bytesreader":
			rd := bytes.NewReader(whole)
			_, _ = rd.Seek(int64(cs.Payload.Skip), io.SeekStart)
			payload = rd
		case cs.Payload.VKind == "stringsreader":
			rd := strings.NewReader(string(whole))
			_, _ = rd.Seek(int64(cs.Payload.Skip), io.SeekStart)
			payload = rd
		case cs.Payload.Kind == "readcloser":
			payload = src
		case cs.Payload.VKind == "bytesbuffer":
			payload = bytes.NewBuffer(append([]byte{}, data...))
		default:
			payload = readOnly{src}
		}
	}
	fileShas := [][]string{}
	type upl struct {
		field string
		files []runtime.NamedReadCloser
	}
	var uploads []upl
	for _, ff := range cs.Files {
		var shas []string
		u := upl{field: ff.Field}
		for _, it := range ff.Items {
			data := content(it)
			shas = append(shas, sha(data))
			if it.Src == "osfile" {
				// a real file; its Name() is the full path (the base name is what must be sent)
				dir, err := os.MkdirTemp(scratchDir(), "u")
				if err != nil {
					panic(err)
				}
				path := filepath.Join(dir, filepath.Base(it.Name))
				if err := os.WriteFile(path, append(lead(it.Skip), data...), 0o600); err != nil {
					panic(err)
				}
				p.toRemove = append(p.toRemove, dir)
				f, err := os.Open(path)
				if err != nil {
					panic(err)
				}
				// the caller has consumed / skipped the first it.Skip bytes
				if _, err := f.Seek(int64(it.Skip), io.SeekStart); err != nil {
					panic(err)
				}
				if it.Declared != "" {
					u.files = append(u.files, declaredFile{f, it.Declared})
				} else {
					u.files = append(u.files, f)
				}
				continue
			}
			if it.Src == "seeker" {
				rd := bytes.NewReader(append(lead(it.Skip), data...))
				if _, err := rd.Seek(int64(it.Skip), io.SeekStart); err != nil {
					panic(err)
				}
				if it.Declared != "" {
					u.files = append(u.files, declaredSeek{seekSource{rd, it.Name}, it.Declared})
				} else {
					u.files = append(u.files, seekSource{rd, it.Name})
				}
				continue
			}
			ns := namedSource{&source{data: data, chunk: it.Chunk, eofData: it.EOFData}, it.Name}
			if it.Declared != "" {
				u.files = append(u.files, declaredSource{ns, it.Declared})
			} else {
				u.files = append(u.files, ns)
			}
		}
		fileShas = append(fileShas, shas)
		uploads = append(uploads, u)
	}
	p.supplied["files"] = fileShas

	params := runtime.ClientRequestWriterFunc(func(r runtime.ClientRequest, _ strfmt.Registry) error {
		if cs.PresetCT != "" {
			// a header parameter / decorator of the caller
			if err := r.SetHeaderParam("Content-Type", cs.PresetCT); err != nil {
				return err
			}
		}
		if payload != nil {
			if err := r.SetBodyParam(payload); err != nil {
				return err
			}
		}
		for _, f := range cs.Fields {
			if err := r.SetFormParam(f.K, f.Vs...); err != nil {
				return err
			}
		}
		for _, u := range uploads {
			if err := r.SetFileParam(u.field, u.files...); err != nil {
				return err
			}
		}
		return nil
	})
	var auth runtime.ClientAuthInfoWriter
	if cs.Auth {
		auth = runtime.ClientAuthInfoWriterFunc(func(r runtime.ClientRequest, _ strfmt.Registry) error {
			for i := 0; i < cs.K; i++ {
				p.authSaw = append(p.authSaw, sha(r.GetBody()))
			}
			return nil
		})
	}
	if cs.DefAuth {
		rt.DefaultAuthentication = runtime.ClientAuthInfoWriterFunc(func(r runtime.ClientRequest, _ strfmt.Registry) error {
			for i := 0; i < cs.K; i++ {
				p.defSaw = append(p.defSaw, sha(r.GetBody()))
			}
			return nil
		})
	}
	method := cs.Method
	if method == "" {
		method = http.MethodPost
	}
	p.op = &runtime.ClientOperation{ID: "op", Method: method, PathPattern: "/upload",
		ConsumesMediaTypes: []string{cs.Media}, ProducesMediaTypes: []string{"application/json"},
		Params: params, AuthInfo: auth,
		Reader: runtime.ClientResponseReaderFunc(func(runtime.ClientResponse, runtime.Consumer) (any, error) { return nil, nil })}
	return p
}

func (p *prepared) guard(f func()) {
	defer func() {
		if e := recover(); e != nil {
			p.panicked = true
			p.callErr = fmt.Errorf("panic: %v", e)
		}
	}()
	f()
}

// build creates the request (the multipart writer goroutine starts here); send reads it.
func (p *prepared) build() (req *http.Request) {
	p.guard(func() {
		r, err := p.rt.CreateHttpRequest(p.op)
		if err != nil {
			p.callErr = err
			return
		}
		req = r
	})
	return req
}

func (p *prepared) send(req *http.Request) {
	if req == nil {
		return
	}
	p.guard(func() {
		_, _ = p.rec.RoundTrip(req)
		if p.callErr == nil && p.rec.err != nil {
			p.callErr = p.rec.err
		}
	})
}

func (p *prepared) submit() {
	p.guard(func() {
		p.rt.Transport = p.rec
		if p.cs.Debug {
			p.rt.SetLogger(silent{})
			p.rt.Debug = true
		}
		_, p.callErr = p.rt.Submit(p.op)
		if p.callErr == nil && p.rec.err != nil {
			p.callErr = p.rec.err
		}
	})
}

func (p *prepared) event(idx int) M {
	for _, d := range p.toRemove {
		os.RemoveAll(d)
	}
	if p.cs.Payload.Kind == "value" {
		p.supplied["payload"] = sha(p.produced)
	}
	ev := M{"req": idx, "err": p.callErr != nil, "panic": p.panicked, "supplied": p.supplied, "auth_saw": p.authSaw, "def_saw": p.defSaw,
		"producers": trace.S(p.producersCalled), "body_len": len(p.rec.body), "body_sha": sha(p.rec.body),
		"ct": ascii(p.rec.hdr.Get("Content-Type")), "ctmedia": "", "boundary": false, "kind": "bytes",
		"raw": []int{}, "pairs": []M{}, "parts": []M{}, "payload": []string{}}
	if p.callErr == nil {
		describe(ev, p.cs, p.rec)
	}
	return ev
}

func execute(c *drv.Ctx, d M) bool {
	b := batchFrom(d)
	ps := make([]*prepared, len(b.Reqs))
	for i, cs := range b.Reqs {
		ps[i] = prepare(cs)
	}
	switch b.Mode {
	case "build-then-send":
		// all requests are built (their writer goroutines sniff and block on their pipes) before
		// the first body is read; bodies are then read in reverse order
		old := 0
		if b.Procs > 0 {
			old = goruntime.GOMAXPROCS(b.Procs)
		}
		reqs := make([]*http.Request, len(ps))
		for i, p := range ps {
			reqs[i] = p.build()
			for k := 0; k < 4; k++ {
				goruntime.Gosched()
			}
		}
		time.Sleep(2 * time.Millisecond)
		for i := len(ps) - 1; i >= 0; i-- {
			ps[i].send(reqs[i])
		}
		if b.Procs > 0 {
			goruntime.GOMAXPROCS(old)
		}
	case "concurrent":
		var wg sync.WaitGroup
		start := make(chan struct{})
		for _, p := range ps {
			wg.Add(1)
			go func(p *prepared) {
				defer wg.Done()
				<-start
				p.submit()
			}(p)
		}
		close(start)
		wg.Wait()
	default:
		for _, p := range ps {
			if p.cs.Via == "submit" {
				p.submit()
			} else {
				p.send(p.build())
			}
		}
	}
	nt := false
	for i, p := range ps {
		c.W.Event("sent", p.event(i+1))
		nt = nt || nontrivial(p.cs)
	}
	return nt
}

// describe parses what was sent (abstraction functions: mime, mime/multipart).
func describe(ev M, cs Case, rec *recorder) {
	ct := rec.hdr.Get("Content-Type")
	media, params, err := mime.ParseMediaType(ct)
	if err == nil {
		ev["ctmedia"] = ascii(media)
	}
	boundary, hasB := params["boundary"]
	if len(rec.body) == 0 {
		ev["kind"] = "empty"
		ev["boundary"] = hasB
		ev["payload"] = []string{sha(rec.body)}
		return
	}
	if hasB {
		if pairs, parts, err := parseMultipart(rec.body, boundary); err == nil {
			ev["kind"], ev["boundary"], ev["pairs"], ev["parts"] = "multipart", true, pairs, parts
			return
		}
	}
	ev["payload"] = []string{sha(rec.body)}
	if len(cs.Fields) > 0 && len(cs.Files) == 0 && len(rec.body) <= 1<<12 {
		ev["raw"] = trace.B(string(rec.body)) // the spec decodes the urlencoded form itself
	}
}

func parseMultipart(body []byte, boundary string) (pairs, parts []M, err error) {
	pairs, parts = []M{}, []M{}
	mr := multipart.NewReader(bytes.NewReader(body), boundary)
	for {
		p, e := mr.NextRawPart()
		if e == io.EOF {
			return pairs, parts, nil
		}
		if e != nil {
			return nil, nil, e
		}
		data, e := io.ReadAll(p)
		if e != nil {
			return nil, nil, e
		}
		_, dp, e := mime.ParseMediaType(p.Header.Get("Content-Disposition"))
		if e != nil {
			return nil, nil, e
		}
		name := dp["name"]
		if fn, ok := dp["filename"]; ok {
			parts = append(parts, M{"field": trace.B(name), "filename": trace.B(fn), "ctype": ascii(p.Header.Get("Content-Type")),
				"len": len(data), "cid": sha(data)})
		} else {
			if len(data) > 1<<12 {
				return nil, nil, errors.New("oversized field part")
			}
			pairs = append(pairs, M{"k": trace.B(name), "v": trace.B(string(data))})
		}
	}
}

// non-trivial: something is sent whose description is not fixed by the media type alone:
// a file part, a form with a value needing escapes or several values, a streaming payload, or
// an auth writer that looks at the body.
func nontrivial(c Case) bool {
	if len(c.Files) > 0 || ((c.Auth || c.DefAuth) && c.K > 0) {
		return true
	}
	n := 0
	for _, f := range c.Fields {
		n += len(f.Vs)
	}
	return n > 1 || c.Payload.Kind == "reader" || c.Payload.Kind == "readcloser" || c.Payload.Kind == "value"
}

// ---- generation ------------------------------------------------------------------------

const (
	mJSON  = "application/json"
	mForm  = "application/x-www-form-urlencoded"
	mMulti = "multipart/form-data"
)

var fileNames = []string{"f.txt", "dir/f.txt", "/abs/path/to/report.pdf", "a\"b.txt", "back\\slash.bin", "sp ace;semi.txt",
	"caf\xc3\xa9.png", "trailing/", "", "..", "x/../y", "report\\(1).pdf", "double\\\\backslash.txt", "unc\\\\server\\share\\doc.txt", "trailing\\", "a\\;b=c\\?.txt", "very" + strings.Repeat("long", 40) + ".dat", "=?utf-8?q?enc?=", "a'b", "100%.txt"}
var fieldNames = []string{"file", "files[]", "up\"load", "a b", "\xc3\xa9", "f\\g", "x;y=z", "f\\\\g", "fld\\", "f\\(1)"}
var formKeys = []string{"k", "name", "a b", "x&y=z", "q\"uote", "\xc3\xa9", "k[]", "k\\\\", "key\\", "p\\(x)"}
var formVals = []string{"", "v", "a b", "a+b&c=d", "100%", "\xc3\xa9\xe2\x98\x83", "line1\r\nline2", "--boundary", "\"q\"", strings.Repeat("long ", 40), "\x00\x01"}

func wellFormed(it Item) bool {
	if (it.Head == "png" || it.Head == "pdf" || it.Head == "gif") && it.Len < 16 {
		return false
	}
	if it.Head == "bin" && it.Len < 1 {
		return false
	}
	if it.Nul != 0 && (it.Head != "text" || it.Nul > it.Len) {
		return false
	}
	return true
}

func generate(c *drv.Ctx) {
	thorough := c.Tier == "thorough"
	n := 0
	emit := func(cs Case) { c.Case(Batch{Reqs: []Case{cs}, Mode: "single"}.JSON()); n++ }
	emitBatch := func(b Batch) { c.Case(b.JSON()); n++ }
	// (i) sniffing window, exhaustive
	lens := []int{0, 1, 2, 16, 100, 511, 512, 513, 1024, 1500}
	chunks := []int{0, 1, 7, 511, 512, 513}
	if thorough {
		lens = append(lens, 3, 15, 17, 510, 514, 4096, 70000)
		chunks = append(chunks, 2, 8, 100, 510, 514, 1000)
	}
	seed := 0
	for _, l := range lens {
		for _, h := range []string{"text", "bin", "png", "pdf", "gif"} {
			for _, z := range []int{0, 1, l, 512, 513} {
				for _, ch := range chunks {
					for _, decl := range []string{"", "text/csv"} {
						for _, eofd := range []bool{false, true} {
							it := Item{Name: "f.dat", Declared: decl, Len: l, Head: h, Nul: z, Chunk: ch, Src: "reader", EOFData: eofd}
							if !wellFormed(it) || (z == l && (l == 1 || l == 512 || l == 513 || l == 0)) && z != 0 && false {
								continue
							}
							seed++
							it.Seed = seed
							emit(Case{Media: mMulti, Files: []FileField{{"file", []Item{it}}}, Via: "create"})
						}
					}
				}
			}
		}
	}
	// real files (*os.File), short and long
	for _, l := range []int{0, 11, 511, 512, 513, 5000} {
		for _, h := range []string{"text", "png", "bin"} {
			for _, decl := range []string{"", "application/x-custom"} {
				it := Item{Name: fileNames[seed%len(fileNames)], Declared: decl, Len: l, Head: h, Src: "osfile", Seed: seed}
				if it.Name == "" || it.Name == ".." || strings.HasSuffix(it.Name, "/") {
					it.Name = "real.txt"
				}
				if wellFormed(it) {
					seed++
					emit(Case{Media: mMulti, Files: []FileField{{"file", []Item{it}}}, Via: "submit"})
				}
			}
		}
	}
	// files force multipart whatever media type the operation was given
	for _, media := range []string{mJSON, "text/plain", "application/octet-stream"} {
		for _, decl := range []string{"", "text/csv"} {
			seed++
			emit(Case{Media: media, Files: []FileField{{"file", []Item{{Name: "a.txt", Declared: decl, Len: 700, Head: "text", Src: "reader", Seed: seed}}}}, Via: "create"})
			emit(Case{Media: media, Files: []FileField{{"file", []Item{{Name: "a.txt", Declared: decl, Len: 700, Head: "text", Src: "reader", Seed: seed}}}},
				Fields: []KV{{"k", []string{"v"}}}, Auth: true, K: 2, Via: "submit"})
		}
	}
	// (ii) structure: file fields x items x names x declared, with and without form fields, both form media types
	plain := func(name, decl string) Item {
		seed++
		return Item{Name: name, Declared: decl, Len: 600 + seed%900, Head: "text", Src: "reader", Seed: seed}
	}
	for _, media := range []string{mMulti, mForm} {
		for i, n1 := range fileNames {
			for _, decl := range []string{"", "text/csv"} {
				for nf := 0; nf <= 2; nf++ {
					cs := Case{Media: media, Via: "create"}
					cs.Files = []FileField{{fieldNames[i%len(fieldNames)], []Item{plain(n1, decl)}}}
					if i%2 == 0 {
						cs.Files[0].Items = append(cs.Files[0].Items, plain(fileNames[(i+3)%len(fileNames)], ""))
					}
					if i%3 == 0 {
						cs.Files = append(cs.Files, FileField{fieldNames[(i+1)%len(fieldNames)], []Item{plain(n1, ""), plain(n1, decl)}})
					}
					for f := 0; f < nf; f++ {
						cs.Fields = append(cs.Fields, KV{formKeys[(i+f)%len(formKeys)], []string{formVals[(i+f)%len(formVals)], formVals[(i+2*f+1)%len(formVals)]}[:1+(i+f)%2]})
					}
					emit(cs)
				}
			}
		}
		// form fields only: every key x one or two values
		for i, k := range formKeys {
			for j, v := range formVals {
				emit(Case{Media: media, Fields: []KV{{k, []string{v}}}, Via: "create"})
				emit(Case{Media: media, Fields: []KV{{k, []string{v, formVals[(j+1)%len(formVals)]}}, {formKeys[(i+1)%len(formKeys)], []string{v}}}, Via: "create"})
			}
			emit(Case{Media: media, Fields: []KV{{k, nil}}, Via: "create"})
		}
	}
	// (iii) payload kinds x media types x auth writer k x via
	type pk struct {
		kind, vkind, media string
	}
	var pks []pk
	for _, v := range [][2]string{{"json-map", mJSON}, {"yaml", "application/x-yaml"}, {"xml", "application/xml"}, {"text", "text/plain"},
		{"html", "text/html"}, {"csv", "text/csv"}, {"bytes", "application/octet-stream"}} {
		pks = append(pks, pk{"value", v[0], v[1]})
	}
	for _, m := range []string{mJSON, "text/plain", "application/octet-stream"} {
		pks = append(pks, pk{"none", "", m})
		for _, rk := range []string{"chunked", "bytesbuffer", "stringsreader"} {
			pks = append(pks, pk{"reader", rk, m})
		}
		pks = append(pks, pk{"readcloser", "chunked", m})
	}
	for _, p := range pks {
		for _, l := range []int{0, 1, 100, 5000} {
			for _, ch := range []int{0, 1, 512} {
				if (p.kind == "value" || p.kind == "none" || p.vkind != "chunked") && ch != 0 {
					continue
				}
				if p.kind == "none" && l != 0 {
					continue
				}
				for k := -1; k <= 3; k++ {
					for _, via := range []string{"create", "submit"} {
						seed++
						cs := Case{Media: p.media, Payload: Payload{Kind: p.kind, VKind: p.vkind, Len: l, Seed: seed, Chunk: ch}, Via: via}
						if k >= 0 {
							cs.Auth, cs.K = true, k
						}
						emit(cs)
					}
				}
			}
		}
	}
	// (iv) auth writers looking at form bodies (buffered urlencoded, streaming multipart)
	for k := 0; k <= 3; k++ {
		for _, via := range []string{"create", "submit"} {
			for _, media := range []string{mForm, mMulti} {
				emit(Case{Media: media, Fields: []KV{{"k", []string{"v", "a b"}}, {"q", []string{"1"}}}, Auth: true, K: k, Via: via})
				for _, l := range []int{0, 11, 512, 100000} {
					seed++
					emit(Case{Media: media, Fields: []KV{{"k", []string{"v"}}}, Auth: true, K: k, Via: via,
						Files: []FileField{{"file", []Item{{Name: "a.txt", Len: l, Head: "text", Src: "reader", Chunk: 0, Seed: seed}, plain("b.bin", "application/x-b")}}}})
				}
			}
		}
	}
	// (iv-b) stream and value payloads x methods (also those "without body") x a Content-Type already set by the params writer
	for _, p := range []Payload{{Kind: "reader", VKind: "chunked"}, {Kind: "readcloser", VKind: "chunked"}, {Kind: "reader", VKind: "bytesbuffer"},
		{Kind: "value", VKind: "json-map"}, {Kind: "none"}} {
		for _, method := range []string{"GET", "OPTIONS", "POST", "PUT", "PATCH", "DELETE"} {
			for _, preset := range []string{"", "application/json", "text/plain", "application/octet-stream"} {
				for _, media := range []string{mJSON, "application/octet-stream"} {
					if p.Kind == "value" && media != mJSON {
						continue
					}
					for k := -1; k <= 1; k++ {
						seed++
						q := p
						q.Len, q.Seed = 300, seed
						cs := Case{Method: method, PresetCT: preset, Media: media, Payload: q, Via: []string{"create", "submit"}[seed%2]}
						if k >= 0 {
							cs.Auth, cs.K = true, k
						}
						emit(cs)
					}
				}
			}
		}
	}
	for _, media := range []string{mForm, mMulti} {
		for _, preset := range []string{"application/json", "text/plain"} {
			emit(Case{PresetCT: preset, Media: media, Fields: []KV{{"k", []string{"v"}}}, Via: "create"})
			seed++
			emit(Case{PresetCT: preset, Media: media, Files: []FileField{{"file", []Item{{Name: "a.txt", Len: 700, Head: "text", Src: "reader", Seed: seed}}}}, Via: "submit"})
		}
	}
	// (iv-d) Runtime.Debug = true (the request is dumped before it is sent) x auth writers that do or do not look at the body
	for _, k := range []int{-1, 0, 1, 2} {
		var cases []Case
		for _, p := range []Payload{{Kind: "reader", VKind: "chunked"}, {Kind: "readcloser", VKind: "chunked", Chunk: 7}, {Kind: "reader", VKind: "bytesbuffer"},
			{Kind: "reader", VKind: "stringsreader"}, {Kind: "value", VKind: "json-map"}, {Kind: "none"}} {
			for _, l := range []int{0, 1, 3000} {
				seed++
				p.Len, p.Seed = l, seed
				media := "application/octet-stream"
				if p.Kind == "value" {
					media = mJSON
				}
				cases = append(cases, Case{Media: media, Payload: p})
			}
		}
		for _, media := range []string{mForm, mMulti} {
			cases = append(cases, Case{Media: media, Fields: []KV{{"k", []string{"v", "a b"}}}})
			for _, l := range []int{0, 11, 600, 100000} {
				seed++
				cases = append(cases, Case{Media: media, Fields: []KV{{"k", []string{"v"}}},
					Files: []FileField{{"file", []Item{{Name: "a.txt", Len: l, Head: "text", Src: "reader", Seed: seed}, plain("b.bin", "application/x-b")}}}})
			}
		}
		for _, cs := range cases {
			cs.Debug, cs.Via = true, "submit"
			if k >= 0 {
				cs.Auth, cs.K = true, k
			}
			emit(cs)
		}
	}
	// (iv-e) a reader payload that fails once, transiently, at some offset x auth writers calling GetBody 0..3 times:
	// the call fails, or what auth saw = what is sent = the whole payload
	for _, kind := range []string{"reader", "readcloser"} {
		for _, l := range []int{1, 100, 5000} {
			for _, at := range []int{0, 1, l / 2, l - 1} {
				if at >= l || at < 0 {
					continue
				}
				for _, ch := range []int{0, 1, 512} {
					if ch == 1 && l > 200 {
						continue
					}
					for k := -1; k <= 3; k++ {
						for _, via := range []string{"create", "submit"} {
							seed++
							cs := Case{Media: "application/octet-stream", Via: via,
								Payload: Payload{Kind: kind, VKind: "chunked", Len: l, Seed: seed, Chunk: ch, Fail: true, FailAt: at}}
							if k >= 0 {
								cs.Auth, cs.K = true, k
							}
							emit(cs)
						}
					}
				}
			}
		}
	}
	// (iv-f) seekable uploads (real files, in-memory seekers) handed over at a position > 0: what the reader yields from there is the file
	for _, src := range []string{"osfile", "seeker"} {
		for _, skip := range []int{0, 1, 8, 100, 600} {
			for _, l := range []int{0, 11, 512, 5000} {
				for _, h := range []string{"text", "png", "bin"} {
					for _, decl := range []string{"", "application/x-custom"} {
						seed++
						it := Item{Name: "data.bin", Declared: decl, Len: l, Head: h, Src: src, Skip: skip, Seed: seed}
						if !wellFormed(it) {
							continue
						}
						emit(Case{Media: mMulti, Files: []FileField{{"file", []Item{it}}}, Via: []string{"create", "submit"}[seed%2]})
					}
				}
			}
		}
	}
	// (iv-g) the body-inspecting writer as Runtime.DefaultAuthentication (operation without AuthInfo), and both set (the operation's wins)
	for _, place := range []string{"default", "both"} {
		var cases []Case
		for _, p := range []Payload{{Kind: "value", VKind: "json-map"}, {Kind: "value", VKind: "text"}, {Kind: "reader", VKind: "chunked", Chunk: 7},
			{Kind: "readcloser", VKind: "chunked"}, {Kind: "reader", VKind: "bytesbuffer"}, {Kind: "none"}} {
			seed++
			p.Len, p.Seed = 700, seed
			media := "application/octet-stream"
			switch p.VKind {
			case "json-map":
				media = mJSON
			case "text":
				media = "text/plain"
			}
			cases = append(cases, Case{Media: media, Payload: p})
		}
		for _, media := range []string{mForm, mMulti} {
			cases = append(cases, Case{Media: media, Fields: []KV{{"k", []string{"v", "a b"}}}})
			seed++
			cases = append(cases, Case{Media: media, Fields: []KV{{"k", []string{"v"}}},
				Files: []FileField{{"file", []Item{{Name: "a.txt", Len: 900, Head: "text", Src: "reader", Seed: seed}, plain("b.bin", "application/x-b")}}}})
		}
		for _, cs := range cases {
			for k := 0; k <= 3; k++ {
				for _, via := range []string{"create", "submit"} {
					cs := cs
					cs.DefAuth, cs.Auth, cs.K, cs.Via = true, place == "both", k, via
					emit(cs)
				}
			}
		}
	}
	// (iv-h) an option-carrying codec in the producer registry: CSV with skipped lines; the body is THE encoding of the value by
	// that producer instance (reference encoding made with the same instance before the request)
	for _, skip := range []int{0, 1, 2} {
		for _, vk := range []string{"csv", "csv-string", "csv-bytes"} {
			for k := -1; k <= 1; k++ {
				for _, via := range []string{"create", "submit"} {
					seed++
					cs := Case{Media: "text/csv", CSVSkip: skip, Payload: Payload{Kind: "value", VKind: vk, Len: 20, Seed: seed}, Via: via}
					if k >= 0 {
						cs.Auth, cs.K = true, k
					}
					emit(cs)
				}
			}
		}
	}
	// (iv-i) seekable reader payloads (strings.Reader, bytes.Reader, *os.File) handed over past a consumed preamble x GetBody 0/1/3
	// times x operation / default / both writer placement: the payload is what the reader yields from its position
	for _, vk := range []string{"stringsreader", "bytesreader", "osfile"} {
		for _, skip := range []int{0, 1, 8, 600} {
			for _, l := range []int{0, 1, 700, 5000} {
				for _, place := range []string{"none", "op", "default", "both"} {
					for _, k := range []int{0, 1, 3} {
						if place == "none" && k > 0 {
							continue
						}
						for _, via := range []string{"create", "submit"} {
							seed++
							kind := "reader"
							if vk == "osfile" {
								kind = "readcloser"
							}
							cs := Case{Media: "application/octet-stream", Via: via, K: k,
								Payload: Payload{Kind: kind, VKind: vk, Len: l, Seed: seed, Skip: skip}}
							cs.Auth = place == "op" || place == "both"
							cs.DefAuth = place == "default" || place == "both"
							emit(cs)
						}
					}
				}
			}
		}
	}
	// (iv-c) uploads overlapping in time: all requests of a batch are built before the first is sent (single P, then all Ps),
	// or submitted concurrently; every file without declared type, distinct contents
	mkUpload := func(i, l int, declared string) Case {
		seed++
		cs := Case{Media: mMulti, Via: "create", Files: []FileField{{"file", []Item{{Name: fmt.Sprintf("f%d.txt", i), Declared: declared, Len: l, Head: "text", Src: "reader", Seed: seed}}}}}
		if i%3 == 0 {
			seed++
			cs.Files = append(cs.Files, FileField{"more", []Item{{Name: "g.bin", Len: 100 + l, Head: "bin", Src: "reader", Seed: seed}}})
			cs.Fields = []KV{{"k", []string{"v"}}}
		}
		return cs
	}
	nBatches := 3
	if thorough {
		nBatches = 12
	}
	for bi := 0; bi < nBatches; bi++ {
		for _, cfg := range []struct {
			mode  string
			procs int
			n     int
		}{{"build-then-send", 1, 8}, {"build-then-send", 0, 48}, {"concurrent", 0, 48}} {
			b := Batch{Mode: cfg.mode, Procs: cfg.procs}
			for i := 0; i < cfg.n; i++ {
				decl := ""
				if i%7 == 6 {
					decl = "text/csv"
				}
				b.Reqs = append(b.Reqs, mkUpload(i, []int{11, 600, 511, 513, 5000}[(i+bi)%5], decl))
			}
			emitBatch(b)
		}
	}
	c.Extra["exhaustive_cases"] = n
	// (v) seeded random mixtures
	nr := 6000
	if thorough {
		nr = 40000
	}
	for i := 0; i < nr; i++ {
		emit(randomCase(c))
	}
}

func randomCase(c *drv.Ctx) Case {
	r := c.Rng
	cs := Case{Via: []string{"create", "submit"}[r.Intn(2)]}
	cs.Debug = cs.Via == "submit" && r.Intn(4) == 0
	cs.DefAuth = r.Intn(4) == 0
	if cs.DefAuth {
		cs.K = r.Intn(4)
	}
	if r.Intn(3) > 0 {
		cs.Auth, cs.K = true, r.Intn(4)
	}
	switch r.Intn(5) {
	case 0: // payload
		m := []string{mJSON, "text/plain", "application/octet-stream"}[r.Intn(3)]
		kinds := []Payload{{Kind: "reader", VKind: "chunked"}, {Kind: "readcloser", VKind: "chunked"}, {Kind: "reader", VKind: "bytesbuffer"},
			{Kind: "reader", VKind: "bytesreader", Skip: []int{0, 3, 1000}[r.Intn(3)]}, {Kind: "reader", VKind: "stringsreader", Skip: []int{0, 5}[r.Intn(2)]},
			{Kind: "value", VKind: map[string]string{mJSON: "json-map", "text/plain": "text", "application/octet-stream": "bytes"}[m]}}
		p := kinds[r.Intn(len(kinds))]
		p.Len, p.Seed = r.Intn(20000), r.Intn(1<<20)
		if p.VKind == "chunked" && p.Len > 0 && r.Intn(5) == 0 {
			p.Fail, p.FailAt = true, r.Intn(p.Len)
		}
		if p.VKind == "chunked" {
			p.Chunk = []int{0, 1, 3, 512, 4096}[r.Intn(5)]
			if p.Chunk == 1 && p.Len > 3000 {
				p.Len = 3000
			}
		}
		cs.Media, cs.Payload = m, p
		cs.Method = []string{"POST", "POST", "PUT", "PATCH", "DELETE", "GET", "OPTIONS"}[r.Intn(7)]
		if r.Intn(4) == 0 {
			cs.PresetCT = []string{"application/json", "text/plain", "application/xml"}[r.Intn(3)]
		}
		return cs
	case 1: // fields only
		cs.Media = []string{mForm, mMulti}[r.Intn(2)]
	default: // files (and fields)
		cs.Media = []string{mMulti, mMulti, mForm}[r.Intn(3)]
		seenF := map[string]bool{}
		for i, nf := 0, 1+r.Intn(3); i < nf; i++ {
			fn := fieldNames[r.Intn(len(fieldNames))]
			if seenF[fn] {
				continue
			}
			seenF[fn] = true
			ff := FileField{Field: fn}
			for j, ni := 0, 1+r.Intn(3); j < ni; j++ {
				it := Item{Name: fileNames[r.Intn(len(fileNames))], Head: []string{"text", "text", "bin", "png", "pdf", "gif"}[r.Intn(6)],
					Seed: r.Intn(1 << 20), Src: "reader", EOFData: r.Intn(2) == 0}
				switch r.Intn(4) {
				case 0:
					it.Len = r.Intn(20)
				case 1:
					it.Len = 500 + r.Intn(30)
				case 2:
					it.Len = r.Intn(3000)
				default:
					it.Len = r.Intn(200000)
				}
				if r.Intn(3) == 0 {
					it.Declared = []string{"text/csv", "application/x-custom; v=1", "image/jpeg"}[r.Intn(3)]
				}
				if it.Head == "text" && it.Len > 0 && r.Intn(3) == 0 {
					it.Nul = 1 + r.Intn(it.Len)
				}
				it.Chunk = []int{0, 0, 1, 2, 7, 100, 511, 512, 513, 4096}[r.Intn(10)]
				if it.Chunk > 0 && it.Chunk < 100 && it.Len > 5000 {
					it.Len = 5000
				}
				if r.Intn(8) == 0 && it.Name != "" && it.Name != ".." && !strings.HasSuffix(it.Name, "/") {
					it.Src, it.Chunk, it.EOFData = "osfile", 0, false
					it.Skip = []int{0, 0, 3, 700}[r.Intn(4)]
				} else if r.Intn(8) == 0 {
					it.Src, it.Chunk, it.EOFData = "seeker", 0, false
					it.Skip = []int{0, 5, 512, 2000}[r.Intn(4)]
				}
				if !wellFormed(it) {
					it.Head, it.Nul = "text", 0
				}
				ff.Items = append(ff.Items, it)
			}
			cs.Files = append(cs.Files, ff)
		}
	}
	seenK := map[string]bool{}
	for i, nf := 0, r.Intn(4); i < nf || (len(cs.Files) == 0 && len(cs.Fields) == 0); i++ {
		k := formKeys[r.Intn(len(formKeys))]
		if seenK[k] {
			continue
		}
		seenK[k] = true
		kv := KV{K: k}
		for j, nv := 0, 1+r.Intn(3); j < nv; j++ {
			kv.Vs = append(kv.Vs, formVals[r.Intn(len(formVals))])
		}
		cs.Fields = append(cs.Fields, kv)
	}
	return cs
}
