// Package c04 joins the real client transport with the real server middleware (property C04).
//
// A case is a generated API description (several operations) and a SESSION: one or more calls,
// each of one operation with a value for each of its parameters, the media type to send the
// body with and a response the handler is told to return.  All calls of a session go through
// ONE client.Runtime to ONE server (client.Runtime.Submit -> httptest.Server running
// middleware.Serve(doc, untyped API)): single-step sessions use a long-lived server shared by
// all cases with the same API, multi-step sessions a server built for the case, so that the
// case is the whole history of that server.  The untyped handler logs what it received, the
// client's response reader logs what it saw, one `exchange` event per call.  The TLA+ trace
// spec decides.
package c04

import (
	"bufio"
	"bytes"
	"context"
	"crypto/sha256"
	"encoding/hex"
	"encoding/json"
	"fmt"
	"io"
	"net/http"
	"net/http/httptest"
	"net/url"
	"os"
	"path/filepath"
	"regexp"
	goruntime "runtime"
	"sort"
	"strconv"
	"strings"
	"sync"
	"sync/atomic"
	"time"

	"github.com/go-openapi/loads"
	"github.com/go-openapi/runtime"
	"github.com/go-openapi/runtime/client"
	"github.com/go-openapi/runtime/middleware"
	"github.com/go-openapi/runtime/middleware/untyped"
	"github.com/go-openapi/runtime/security"
	"github.com/go-openapi/strfmt"

	"verifharness/internal/drv"
	"verifharness/internal/trace"
)

type M = drv.M

func init() {
	drv.Register(&drv.Driver{Name: "c04", Generate: generate, Execute: execute})
}

// ---- abstract case ---------------------------------------------------------------

type Seg struct {
	Ph bool
	S  string // literal text or placeholder name
}

type Param struct {
	Name string
	Loc  string   // path | query | header | urlform | multiform | form (either, by the media type of the call) | file | body
	Kind string   // scalar | multi | file | body (JSON object / array) | strbody (a string, sent as JSON or as text)
	Type string   // string | integer | boolean | object | array
	Req  bool     // declared required (path parameters always are)
	Def  []string // multi arrays: the default declared in the description (nil = none)
}

type Op struct {
	ID       string
	Method   string
	Template []Seg
	Params   []Param
	Consumes string   // the media type a call uses unless its step says otherwise
	Alt      []string // further media types the operation consumes
	Produces []string
	Secured  bool
	Success  int // declared success status (used when the handler returns plain data)
}

type API struct {
	Base string
	Ops  []Op
	// the apiKey security scheme of secured operations ("" = header X-Token, plain authenticator)
	KeyIn   string // header | query
	KeyName string
	KeyCtx  bool // served with security.APIKeyAuthCtx instead of security.APIKeyAuth
}

func (a API) key() (in, name string) {
	in, name = a.KeyIn, a.KeyName
	if in == "" {
		in = "header"
	}
	if name == "" {
		name = "X-Token"
	}
	return in, name
}

type Arg struct {
	Name string
	Omit bool     // the caller does not supply this (optional) parameter at all
	Vs   []string // scalar: one; multi: any number
	// file: the underlying file is blob(Len, Seed); it is handed over as a Src positioned at Off
	FileName string
	Len      int
	Seed     int
	Src      string // reader (runtime.NamedReader, not seekable) | memseek (in-memory, seekable) | osfile (*os.File) | typed (seekable, reports its ContentType)
	Off      int
	Fails    bool // the source fails (I/O error) ...
	FailAt   int  // ... once that many of the remaining bytes have been read
	// body
	Body string // JSON text of the value
}

type Hdr struct {
	K  string
	Vs []string
}

type Resp struct {
	Mode    string // responder | plain
	Code    int
	Hdrs    []Hdr
	Len     int // size of the payload text
	Seed    int
	None    bool // no body at all (responder only)
	Chunks  int  // > 1: the responder writes the body in that many flushed pieces ...
	PauseUs int  // ... pausing that many microseconds in between
}

type KV struct{ K, V string }

type Step struct {
	Op        string
	Args      []Arg
	Auth      string // none | apikey | signing
	Resp      Resp
	Media     string // media type of the request body ("" = the operation has none)
	Debug     bool   // Runtime.Debug is on for this call (dumps go to a silent logger)
	PatStatic []KV   // static query parameters written into the operation's path pattern
	Before    string // "" | a customisation (see customise) of ANOTHER Runtime the application creates right before this call
}

// Batch describes the calls of a concurrent case compactly: Count calls of Op, call i with values of its own derived from (Seed, i).
type Batch struct {
	Op    string
	Count int
	Seed  int
	Lean  bool // the calls are recorded by `call` events: the projection of `exchange` to what identifies a batch call
}

type Case struct {
	API        API
	Shared     bool // served by the long-lived server of this API (single calls); otherwise by a server built for the case
	Steps      []Step
	BaseStatic []KV   // static query parameters written into the Runtime's base path
	Reuse      bool   // Runtime.EnableConnectionReuse()
	PreCustom  string // "" | a customisation of another Runtime created BEFORE the session's Runtime
	// concurrent cases: the calls (Batch) are made by Conc goroutines at a time through the one Runtime, at GOMAXPROCS Procs
	Conc  int
	Procs int
	Yield bool   // the server is built in debug mode with a logger that yields the processor at every log call
	Via   string // "" | http: over the wire to the httptest.Server; inproc: served in the calling goroutine
	Gate  int    // > 1: requests rendezvous in groups of Gate right after they are bound (middleware.VerifHook, stage "bound")
	Batch Batch
}

func kvJSON(kvs []KV) []M {
	out := make([]M, 0, len(kvs))
	for _, e := range kvs {
		out = append(out, M{"k": trace.B(e.K), "v": trace.B(e.V)})
	}
	return out
}

func kvFrom(v any) []KV {
	var out []KV
	for _, e := range drv.List(v) {
		m := drv.Map(e)
		out = append(out, KV{trace.Str(m["k"]), trace.Str(m["v"])})
	}
	return out
}

func defFrom(pm M) []string {
	if !drv.Bool(pm["hasdef"]) {
		return nil
	}
	out := []string{}
	for _, v := range drv.List(pm["def"]) {
		out = append(out, trace.Str(v))
	}
	return out
}

func (p Param) JSON() M {
	return M{"name": p.Name, "loc": p.Loc, "kind": p.Kind, "type": p.Type, "req": p.Req, "hasdef": p.Def != nil, "def": trace.BB(p.Def)}
}

func (c Case) JSON() M {
	ops := make([]M, 0)
	for _, o := range c.API.Ops {
		tm := make([]M, 0)
		for _, s := range o.Template {
			if s.Ph {
				tm = append(tm, M{"k": "ph", "s": []int{}, "n": s.S})
			} else {
				tm = append(tm, M{"k": "lit", "s": trace.B(s.S), "n": ""})
			}
		}
		ps := make([]M, 0)
		for _, p := range o.Params {
			ps = append(ps, p.JSON())
		}
		ops = append(ops, M{"id": o.ID, "method": o.Method, "template": tm, "params": ps, "consumes": o.Consumes, "alt": trace.S(o.Alt),
			"produces": trace.S(o.Produces), "secured": o.Secured, "success": o.Success})
	}
	steps := make([]M, 0)
	for _, st := range c.Steps {
		args := make([]M, 0)
		for _, a := range st.Args {
			args = append(args, M{"name": a.Name, "omit": a.Omit, "vs": trace.BB(a.Vs), "filename": trace.B(a.FileName), "len": a.Len, "seed": a.Seed,
				"src": a.Src, "off": a.Off, "fails": a.Fails, "failat": a.FailAt, "body": trace.B(a.Body)})
		}
		hdrs := make([]M, 0)
		for _, h := range st.Resp.Hdrs {
			hdrs = append(hdrs, M{"k": h.K, "vs": trace.BB(h.Vs)})
		}
		steps = append(steps, M{"op": st.Op, "args": args, "auth": st.Auth, "media": st.Media, "debug": st.Debug, "pstatic": kvJSON(st.PatStatic), "before": st.Before,
			"resp": M{"mode": st.Resp.Mode, "code": st.Resp.Code, "hdrs": hdrs, "len": st.Resp.Len, "seed": st.Resp.Seed, "none": st.Resp.None,
				"chunks": st.Resp.Chunks, "pause_us": st.Resp.PauseUs}})
	}
	if c.Batch.Count > 0 {
		steps = []M{} // derived from the batch description
	}
	return M{"kind": "session", "api": M{"base": c.API.Base, "ops": ops, "key_in": c.API.KeyIn, "key_name": c.API.KeyName, "key_ctx": c.API.KeyCtx}, "shared": c.Shared, "steps": steps, "bstatic": kvJSON(c.BaseStatic), "reuse": c.Reuse, "precustom": c.PreCustom,
		"conc": c.Conc, "procs": c.Procs, "yield": c.Yield, "via": c.Via, "gate": c.Gate, "batch": M{"op": c.Batch.Op, "count": c.Batch.Count, "seed": c.Batch.Seed, "lean": c.Batch.Lean}}
}

func caseFrom(d M) Case {
	var c Case
	a := drv.Map(d["api"])
	c.API.Base = drv.Str(a["base"])
	c.API.KeyIn, c.API.KeyName, c.API.KeyCtx = drv.Str(a["key_in"]), drv.Str(a["key_name"]), drv.Bool(a["key_ctx"])
	for _, o := range drv.List(a["ops"]) {
		m := drv.Map(o)
		op := Op{ID: drv.Str(m["id"]), Method: drv.Str(m["method"]), Consumes: drv.Str(m["consumes"]), Secured: drv.Bool(m["secured"]), Success: drv.Int(m["success"])}
		for _, p := range drv.List(m["alt"]) {
			op.Alt = append(op.Alt, drv.Str(p))
		}
		for _, s := range drv.List(m["template"]) {
			sm := drv.Map(s)
			if drv.Str(sm["k"]) == "ph" {
				op.Template = append(op.Template, Seg{Ph: true, S: drv.Str(sm["n"])})
			} else {
				op.Template = append(op.Template, Seg{S: trace.Str(sm["s"])})
			}
		}
		for _, p := range drv.List(m["params"]) {
			pm := drv.Map(p)
			op.Params = append(op.Params, Param{Name: drv.Str(pm["name"]), Loc: drv.Str(pm["loc"]), Kind: drv.Str(pm["kind"]), Type: drv.Str(pm["type"]), Req: drv.Bool(pm["req"]), Def: defFrom(pm)})
		}
		for _, p := range drv.List(m["produces"]) {
			op.Produces = append(op.Produces, drv.Str(p))
		}
		c.API.Ops = append(c.API.Ops, op)
	}
	c.Shared = drv.Bool(d["shared"])
	for _, sx := range drv.List(d["steps"]) {
		sm := drv.Map(sx)
		st := Step{Op: drv.Str(sm["op"]), Auth: drv.Str(sm["auth"]), Media: drv.Str(sm["media"]), Debug: drv.Bool(sm["debug"]), PatStatic: kvFrom(sm["pstatic"]), Before: drv.Str(sm["before"])}
		for _, x := range drv.List(sm["args"]) {
			m := drv.Map(x)
			arg := Arg{Name: drv.Str(m["name"]), Omit: drv.Bool(m["omit"]), FileName: trace.Str(m["filename"]), Len: drv.Int(m["len"]), Seed: drv.Int(m["seed"]),
				Src: drv.Str(m["src"]), Off: drv.Int(m["off"]), Fails: drv.Bool(m["fails"]), FailAt: drv.Int(m["failat"]), Body: trace.Str(m["body"])}
			for _, v := range drv.List(m["vs"]) {
				arg.Vs = append(arg.Vs, trace.Str(v))
			}
			st.Args = append(st.Args, arg)
		}
		r := drv.Map(sm["resp"])
		st.Resp = Resp{Mode: drv.Str(r["mode"]), Code: drv.Int(r["code"]), Len: drv.Int(r["len"]), Seed: drv.Int(r["seed"]), None: drv.Bool(r["none"]),
			Chunks: drv.Int(r["chunks"]), PauseUs: drv.Int(r["pause_us"])}
		for _, h := range drv.List(r["hdrs"]) {
			m := drv.Map(h)
			hd := Hdr{K: drv.Str(m["k"])}
			for _, v := range drv.List(m["vs"]) {
				hd.Vs = append(hd.Vs, trace.Str(v))
			}
			st.Resp.Hdrs = append(st.Resp.Hdrs, hd)
		}
		c.Steps = append(c.Steps, st)
	}
	c.BaseStatic, c.Reuse, c.PreCustom = kvFrom(d["bstatic"]), drv.Bool(d["reuse"]), drv.Str(d["precustom"])
	c.Conc, c.Procs, c.Yield, c.Via, c.Gate = drv.Int(d["conc"]), drv.Int(d["procs"]), drv.Bool(d["yield"]), drv.Str(d["via"]), drv.Int(d["gate"])
	if b := drv.Map(d["batch"]); b != nil {
		c.Batch = Batch{Op: drv.Str(b["op"]), Count: drv.Int(b["count"]), Seed: drv.Int(b["seed"]), Lean: drv.Bool(b["lean"])}
	}
	if c.Batch.Count > 0 {
		c.Steps = batchSteps(c.API, c.Batch)
	}
	return c
}

// ---- rendering the API description -------------------------------------------------

func (o Op) path() string {
	var b strings.Builder
	for _, s := range o.Template {
		b.WriteByte('/')
		if s.Ph {
			b.WriteString("{" + s.S + "}")
		} else {
			b.WriteString(s.S)
		}
	}
	return b.String()
}

func (p Param) spec() M {
	m := M{"name": p.Name}
	switch p.Loc {
	case "path":
		m["in"], m["required"] = "path", true
	case "query", "header":
		m["in"] = p.Loc
		if p.Req {
			m["required"] = true
		}
	case "urlform", "multiform", "form", "file":
		m["in"] = "formData"
	case "body":
		m["in"] = "body"
		m["schema"] = M{"type": p.Type}
		return m
	}
	switch p.Kind {
	case "multi":
		m["type"], m["collectionFormat"], m["items"] = "array", "multi", M{"type": "string"}
		if p.Def != nil {
			m["default"] = p.Def
		}
	case "file":
		m["type"] = "file"
	default:
		m["type"] = p.Type
		if p.Type == "integer" {
			m["format"] = "int64"
		}
	}
	return m
}

func (a API) doc() []byte {
	paths := M{}
	secured := false
	for _, o := range a.Ops {
		params := []any{}
		for _, p := range o.Params {
			params = append(params, p.spec())
		}
		op := M{"operationId": o.ID, "parameters": params, "produces": o.Produces,
			"responses": M{strconv.Itoa(o.Success): M{"description": "ok"}, "default": M{"description": "other"}}}
		if o.Consumes != "" {
			op["consumes"] = append([]string{o.Consumes}, o.Alt...)
		}
		if o.Secured {
			op["security"] = []any{M{"key": []string{}}}
			secured = true
		}
		pi, _ := paths[o.path()].(M)
		if pi == nil {
			pi = M{}
		}
		pi[strings.ToLower(o.Method)] = op
		paths[o.path()] = pi
	}
	doc := M{"swagger": "2.0", "info": M{"title": "c04", "version": "1"}, "basePath": a.Base,
		"consumes": []string{"application/json"}, "produces": []string{"application/json"}, "paths": paths}
	if secured {
		in, name := a.key()
		doc["securityDefinitions"] = M{"key": M{"type": "apiKey", "in": in, "name": name}}
	}
	raw, err := json.Marshal(doc)
	if err != nil {
		panic(err)
	}
	return raw
}

// ---- the server ---------------------------------------------------------------------

const secret = "s3cr3t token/+="

// exchange is what the server side observed for one call.
type exchange struct {
	mu        sync.Mutex
	idx       int
	step      *Step
	invoked   int // handler invocations filed under this call
	handledOp string
	received  []M
	handler   M
	wirePath  string
	wireQuery string
}

func newExchange(idx int, st *Step) *exchange {
	return &exchange{idx: idx, step: st, handler: M{"code": 0, "hdrs": []M{}, "body": ""}}
}

// Calls made one after the other are observed through `seq`.  Concurrent calls (batches) are kept apart by their NUMBER:
// the client side puts it into the operation's context, the tagging transport writes it into the request (header
// X-C04-Call) for the server's outermost handler; the operation handler, which gets no request, reads it off the values it
// was invoked with - every value of a batch call ends in "<seed>-<number>" - so that an invocation is filed under the call
// whose values it carries (a call whose values go to nobody, or twice, shows as such).
var (
	seqMu       sync.Mutex
	seq         = newExchange(0, &Step{})
	batchActive atomic.Bool
	batchCalls  sync.Map // call number -> *exchange (of the running concurrent batch)
)

const callHeader = "X-C04-Call"

type callKey struct{}

func sequential() *exchange {
	seqMu.Lock()
	defer seqMu.Unlock()
	return seq
}

var tagRE = regexp.MustCompile(`[0-9]+-([0-9]+)$`)

// observed returns the record of the call a handler invocation belongs to.
func observed(params map[string]interface{}) *exchange {
	if !batchActive.Load() {
		return sequential()
	}
	for _, v := range params {
		var text string
		switch x := v.(type) {
		case string:
			text = x
		case []string:
			if len(x) > 0 {
				text = x[0]
			}
		}
		if m := tagRE.FindStringSubmatch(text); m != nil {
			n, _ := strconv.Atoi(m[1])
			if x, ok := batchCalls.Load(n + 1); ok {
				return x.(*exchange)
			}
		}
	}
	return newExchange(0, &Step{Resp: Resp{Mode: "responder", Code: 500}}) // values of no call of the batch
}

// tagTransport marks the requests of concurrent calls with their call number.
type tagTransport struct{ base http.RoundTripper }

func (t tagTransport) RoundTrip(req *http.Request) (*http.Response, error) {
	if n, ok := req.Context().Value(callKey{}).(int); ok {
		req = req.Clone(req.Context())
		req.Header.Set(callHeader, strconv.Itoa(n))
	}
	return t.base.RoundTrip(req)
}

// inproc serves the request in the calling goroutine: it is written out as HTTP/1.1, read back as a server does and given
// to the active handler; no sockets, so that many calls are really served in parallel.
type inproc struct{}

func (inproc) RoundTrip(req *http.Request) (*http.Response, error) {
	var wire bytes.Buffer
	if err := req.Write(&wire); err != nil {
		return nil, err
	}
	sreq, err := http.ReadRequest(bufio.NewReader(&wire))
	if err != nil {
		return nil, err
	}
	sreq.RemoteAddr = "127.0.0.1:1"
	active.mu.Lock()
	h := active.h
	active.mu.Unlock()
	rec := httptest.NewRecorder()
	h.ServeHTTP(rec, sreq)
	resp := rec.Result()
	resp.Request = req
	return resp, nil
}

// gate is a rendezvous of n goroutines: arrivals wait (spinning, yielding now and then) until the group is full - or a short
// time has passed - and then all spin on the clock until a common instant shortly after, so that the group goes on within a
// few nanoseconds.  A scheduling aid only: whoever passes, and when, has no influence on what is observed.
type gate struct {
	n   int64
	cur atomic.Pointer[gateGroup]
}

type gateGroup struct {
	cnt int64
	at  int64 // the instant the group goes on (0: not full yet)
}

var gateEpoch = time.Now()

func nanos() int64 { return int64(time.Since(gateEpoch)) }

func newGate(n int) *gate {
	g := &gate{n: int64(n)}
	g.cur.Store(&gateGroup{})
	return g
}

func (g *gate) wait() {
	grp := g.cur.Load()
	k := atomic.AddInt64(&grp.cnt, 1)
	switch {
	case k > g.n:
		return
	case k == g.n:
		g.cur.Store(&gateGroup{})
		atomic.StoreInt64(&grp.at, nanos()+30_000)
	default:
		giveUp := nanos() + 400_000
		for i := 0; atomic.LoadInt64(&grp.at) == 0; i++ {
			if i%32 == 31 {
				if nanos() > giveUp {
					return // nobody came: go on alone
				}
				goruntime.Gosched()
			}
		}
	}
	for at := atomic.LoadInt64(&grp.at); nanos() < at; {
	}
}

var wireTransport = &http.Transport{MaxIdleConns: 512, MaxIdleConnsPerHost: 256}

// yieldLogger turns every debug log call of the middleware into a scheduling point (concurrent batches only).
type yieldLogger struct{}

func (yieldLogger) Printf(string, ...interface{}) {}
func (yieldLogger) Debugf(string, ...interface{}) { goruntime.Gosched() }

type responder struct {
	code   int
	hdrs   []Hdr
	body   func(ct string) any
	chunks int // > 1: the body is written in that many pieces, flushed, with a pause in between
	pause  time.Duration
}

func (r responder) WriteResponse(rw http.ResponseWriter, p runtime.Producer) {
	for _, h := range r.hdrs {
		for _, v := range h.Vs {
			rw.Header().Add(h.K, v)
		}
	}
	payload := r.body(rw.Header().Get("Content-Type"))
	rw.WriteHeader(r.code)
	if payload == nil {
		return
	}
	if r.chunks <= 1 {
		if err := p.Produce(rw, payload); err != nil {
			panic(err)
		}
		return
	}
	// a handler that delivers its body progressively
	var buf bytes.Buffer
	if err := p.Produce(&buf, payload); err != nil {
		panic(err)
	}
	b := buf.Bytes()
	size := (len(b) + r.chunks - 1) / r.chunks
	if size == 0 {
		size = 1
	}
	fl, _ := rw.(http.Flusher)
	for len(b) > 0 {
		n := size
		if n > len(b) {
			n = len(b)
		}
		if _, err := rw.Write(b[:n]); err != nil {
			return
		}
		b = b[n:]
		if fl != nil {
			fl.Flush()
		}
		if len(b) > 0 && r.pause > 0 {
			time.Sleep(r.pause)
		}
	}
}

func sha(b []byte) string { h := sha256.Sum256(b); return hex.EncodeToString(h[:]) }

type lcg uint32

func (g *lcg) next() uint32 { *g = *g*1664525 + 1013904223; return uint32(*g >> 8) }

func blob(n, seed int, text bool) []byte {
	g := lcg(uint32(seed)*2654435761 + 99)
	b := make([]byte, n)
	const alpha = "abcdefghijklmnopqrstuvwxyz \xc3\xa9\"\\/+%&=?#\n"
	for i := range b {
		if text {
			b[i] = alpha[int(g.next())%len(alpha)]
		} else {
			b[i] = byte(g.next())
		}
	}
	if text {
		return []byte(strings.ToValidUTF8(string(b), "?"))
	}
	return b
}

// payloadFor builds the handler's payload for the negotiated media type and its canonical bytes.
func payloadFor(ct string, r Resp) (any, []byte) {
	txt := string(blob(r.Len, r.Seed, true))
	switch {
	case strings.HasPrefix(ct, "text/plain"):
		return txt, []byte(txt)
	case strings.HasPrefix(ct, "application/octet-stream"):
		b := blob(r.Len, r.Seed, false)
		return b, b
	default:
		v := map[string]any{"s": txt, "n": json.Number(strconv.Itoa(r.Seed)), "big": json.Number("9223372036854775807"), "l": []any{true, nil, "x"}}
		cb, _ := json.Marshal(v)
		return v, cb
	}
}

func canonJSON(v any) []byte {
	b, err := json.Marshal(v)
	if err != nil {
		return []byte("unmarshalable:" + err.Error())
	}
	return b
}

func render(v any) []any {
	switch x := v.(type) {
	case string:
		return []any{trace.B(x)}
	case int64:
		return []any{trace.B(strconv.FormatInt(x, 10))}
	case int32:
		return []any{trace.B(strconv.FormatInt(int64(x), 10))}
	case bool:
		return []any{trace.B(strconv.FormatBool(x))}
	case []string:
		out := []any{}
		for _, s := range x {
			out = append(out, trace.B(s))
		}
		return out
	case runtime.File:
		if x.Data == nil { // an optional file that was not uploaded
			return []any{}
		}
		b, _ := io.ReadAll(x.Data)
		x.Data.Close()
		return []any{trace.B(x.Header.Filename), contentID(b)}
	case nil:
		return []any{}
	default:
		return []any{trace.B(sha(canonJSON(v)))}
	}
}

// contentID identifies the content of a file: small contents are given as they are (the spec computes
// what an upload source at an offset supplies), large ones by digest.
const smallFile = 48

func contentID(b []byte) []int {
	if len(b) <= smallFile {
		return trace.B(string(b))
	}
	return trace.B(sha(b))
}

// textAny is runtime.TextConsumer for the untyped binder: a body parameter whose schema is a string is
// bound to an interface{} target, which the text consumer itself does not fill.
var textAny = runtime.ConsumerFunc(func(r io.Reader, target interface{}) error {
	if t, ok := target.(*interface{}); ok {
		var sv string
		if err := runtime.TextConsumer().Consume(r, &sv); err != nil {
			return err
		}
		*t = sv
		return nil
	}
	return runtime.TextConsumer().Consume(r, target)
})

type built struct {
	handler http.Handler
}

var apiCache = map[string]*built{}

// build returns the long-lived server of an API (shared by all single-call cases).
func build(a API) (*built, error) {
	raw := a.doc()
	if b, ok := apiCache[string(raw)]; ok {
		return b, nil
	}
	b, err := buildFresh(a, raw)
	if err != nil {
		return nil, err
	}
	if len(apiCache) > 512 {
		apiCache = map[string]*built{}
	}
	apiCache[string(raw)] = b
	return b, nil
}

// buildFresh builds a server (analyzed document, untyped API, middleware.Context, router) that has served nothing yet.
func buildFresh(a API, raw []byte) (*built, error) {
	ld, err := loads.Embedded(json.RawMessage(raw), json.RawMessage(raw)) // (Analyzed gob-clones the document: 10x slower)
	if err != nil {
		return nil, err
	}
	api := untyped.NewAPI(ld)
	noop := runtime.ConsumerFunc(func(io.Reader, interface{}) error { return nil })
	api.RegisterConsumer("application/x-www-form-urlencoded", noop)
	api.RegisterConsumer("multipart/form-data", noop)
	api.RegisterConsumer("text/plain", textAny)
	api.RegisterProducer("text/plain", runtime.TextProducer())
	api.RegisterProducer("application/octet-stream", runtime.ByteStreamProducer())
	keyIn, keyName := a.key()
	checkKey := func(tok string) (interface{}, error) {
		if tok == secret {
			return "principal", nil
		}
		return nil, fmt.Errorf("bad token")
	}
	if a.KeyCtx {
		api.RegisterAuth("key", security.APIKeyAuthCtx(keyName, keyIn, func(ctx context.Context, tok string) (context.Context, interface{}, error) {
			p, err := checkKey(tok)
			return ctx, p, err
		}))
	} else {
		api.RegisterAuth("key", security.APIKeyAuth(keyName, keyIn, checkKey))
	}
	for _, o := range a.Ops {
		o := o
		api.RegisterOperation(o.Method, o.path(), runtime.OperationHandlerFunc(func(params interface{}) (interface{}, error) {
			m, _ := params.(map[string]interface{})
			names := make([]string, 0, len(m))
			for k := range m {
				names = append(names, k)
			}
			sort.Strings(names)
			var rec []M
			for _, k := range names {
				rec = append(rec, M{"name": k, "vs": render(m[k])})
			}
			cur := observed(m)
			cur.mu.Lock()
			cur.invoked++
			cur.handledOp, cur.received = o.ID, rec
			r := cur.step.Resp
			cur.mu.Unlock()
			if r.Mode == "plain" {
				// the negotiated type is not known here: plain data is offered for single-produces operations only
				p, cb := payloadFor(o.Produces[0], r)
				cur.mu.Lock()
				cur.handler = M{"code": o.Success, "hdrs": []M{}, "body": sha(cb)}
				cur.mu.Unlock()
				return p, nil
			}
			return responder{code: r.Code, hdrs: r.Hdrs, chunks: r.Chunks, pause: time.Duration(r.PauseUs) * time.Microsecond, body: func(ct string) any {
				var p any
				cb := []byte{}
				if !r.None {
					p, cb = payloadFor(ct, r)
				}
				hs := make([]M, 0)
				for _, h := range r.Hdrs {
					hs = append(hs, M{"k": http.CanonicalHeaderKey(h.K), "vs": trace.BB(h.Vs)})
				}
				cur.mu.Lock()
				cur.handler = M{"code": r.Code, "hdrs": hs, "body": sha(cb)}
				cur.mu.Unlock()
				return p
			}}, nil
		}))
	}
	inner := middleware.Serve(ld, api)
	b := &built{handler: http.HandlerFunc(func(w http.ResponseWriter, r *http.Request) {
		cur := sequential()
		if tag := r.Header.Get(callHeader); tag != "" { // a call of a concurrent batch
			if n, err := strconv.Atoi(tag); err == nil {
				if x, ok := batchCalls.Load(n); ok {
					cur = x.(*exchange)
				}
			}
		}
		cur.mu.Lock()
		cur.wirePath, cur.wireQuery = r.URL.EscapedPath(), r.URL.RawQuery
		cur.mu.Unlock()
		inner.ServeHTTP(w, r)
	})}
	return b, nil
}

var (
	srvOnce sync.Once
	srv     *httptest.Server
	active  struct {
		mu sync.Mutex
		h  http.Handler
	}
)

func server() *httptest.Server {
	srvOnce.Do(func() {
		srv = httptest.NewServer(http.HandlerFunc(func(w http.ResponseWriter, r *http.Request) {
			active.mu.Lock()
			h := active.h
			active.mu.Unlock()
			h.ServeHTTP(w, r)
		}))
	})
	return srv
}

// ---- one session ----------------------------------------------------------------------

type signing struct{ in, name string }

func (s signing) AuthenticateRequest(r runtime.ClientRequest, _ strfmt.Registry) error {
	_ = r.GetBody() // a signing writer looks at the body (twice)
	_ = r.GetBody()
	if s.in == "query" {
		return r.SetQueryParam(s.name, secret)
	}
	return r.SetHeaderParam(s.name, secret)
}

type silentLogger struct{}

func (silentLogger) Printf(string, ...interface{}) {}
func (silentLogger) Debugf(string, ...interface{}) {}

// upload sources ------------------------------------------------------------------------

// memFile is an in-memory file: a NamedReadCloser that can seek.
type memFile struct {
	*bytes.Reader
	name string
}

func (f memFile) Name() string { return f.name }
func (f memFile) Close() error { return nil }

// typedFile also reports its content type (nothing is sniffed).
type typedFile struct{ memFile }

func (typedFile) ContentType() string { return "application/x-c04" }

// errSource is the I/O error of a failing upload source.
var errSource = fmt.Errorf("c04: the upload source failed")

// failing makes the reads of a source fail once `left` more bytes have been delivered.
type failing struct {
	r    io.Reader
	left int
}

func (f *failing) Read(p []byte) (int, error) {
	if f.left <= 0 {
		return 0, errSource
	}
	if len(p) > f.left {
		p = p[:f.left]
	}
	n, err := f.r.Read(p)
	f.left -= n
	return n, err
}

// failingFile: a seekable in-memory file whose reads fail after some bytes (no WriteTo / ReadFrom short cuts: io.Copy reads it).
type failingFile struct {
	name string
	rd   *bytes.Reader
	f    *failing
}

func (f failingFile) Read(p []byte) (int, error)                { return f.f.Read(p) }
func (f failingFile) Seek(off int64, whence int) (int64, error) { return f.rd.Seek(off, whence) }
func (f failingFile) Name() string                              { return f.name }
func (f failingFile) Close() error                              { return nil }

type failingTyped struct{ failingFile }

func (failingTyped) ContentType() string { return "application/x-c04" }

// source opens the upload source of a file argument positioned at its offset, as the caller hands it over.
func source(a Arg, cleanup *[]string) (runtime.NamedReadCloser, error) {
	if a.Fails {
		content := blob(a.Len, a.Seed, false)
		off := a.Off
		if off > len(content) {
			off = len(content)
		}
		mf := memFile{Reader: bytes.NewReader(content), name: a.FileName}
		if _, err := io.CopyN(io.Discard, mf, int64(off)); err != nil {
			return nil, err
		}
		ff := failingFile{name: a.FileName, rd: mf.Reader, f: &failing{r: mf.Reader, left: a.FailAt}}
		switch a.Src {
		case "typed":
			return failingTyped{ff}, nil
		case "memseek":
			return ff, nil
		}
		return runtime.NamedReader(a.FileName, ff.f), nil
	}
	content := blob(a.Len, a.Seed, false)
	off := a.Off
	if off > len(content) {
		off = len(content)
	}
	switch a.Src {
	case "memseek", "typed":
		f := memFile{Reader: bytes.NewReader(content), name: a.FileName}
		if _, err := io.CopyN(io.Discard, f, int64(off)); err != nil { // the caller has read the beginning
			return nil, err
		}
		if a.Src == "typed" {
			return typedFile{f}, nil
		}
		return f, nil
	case "osfile":
		dir, err := os.MkdirTemp("", "bH-c04-")
		if err != nil {
			return nil, err
		}
		*cleanup = append(*cleanup, dir)
		name := filepath.Join(dir, filepath.Base(a.FileName))
		if err := os.WriteFile(name, content, 0o600); err != nil {
			return nil, err
		}
		f, err := os.Open(name)
		if err != nil {
			return nil, err
		}
		if _, err := f.Seek(int64(off), io.SeekStart); err != nil {
			return nil, err
		}
		return f, nil
	}
	return runtime.NamedReader(a.FileName, bytes.NewReader(content[off:])), nil
}

// errText is the client's error, for diagnosis only
func errText(err error) string {
	if err == nil {
		return ""
	}
	if t := err.Error(); len(t) > 200 {
		return t[:200]
	}
	return err.Error()
}

func mediaName(mt string) string {
	switch mt {
	case mJSON:
		return "json"
	case mText:
		return "text"
	case mForm:
		return "urlencoded"
	case mMulti:
		return "multipart"
	}
	return "none"
}

// customise changes the codec tables of a Runtime, as an application does for a gateway that wants another wire format.
func customise(rt *client.Runtime, what string) {
	broken := runtime.ConsumerFunc(func(io.Reader, interface{}) error { return fmt.Errorf("c04: codec of another Runtime") })
	switch what {
	case "envelope": // JSON and text bodies are wrapped, responses are not understood
		rt.Producers[mJSON] = runtime.ProducerFunc(func(w io.Writer, v interface{}) error {
			return runtime.JSONProducer().Produce(w, map[string]interface{}{"envelope": v})
		})
		rt.Producers[mText] = runtime.ProducerFunc(func(w io.Writer, v interface{}) error {
			_, err := fmt.Fprintf(w, "<<%v>>", v)
			return err
		})
		rt.Consumers[mJSON] = broken
	case "consumers":
		rt.Consumers[mJSON], rt.Consumers[mText], rt.Consumers[mBin] = broken, broken, broken
	case "delete":
		delete(rt.Producers, mJSON)
		delete(rt.Producers, mText)
		delete(rt.Consumers, mJSON)
	case "swap":
		rt.Producers[mJSON], rt.Producers[mText] = runtime.TextProducer(), runtime.JSONProducer()
		rt.Consumers[mJSON], rt.Consumers[mText] = runtime.TextConsumer(), runtime.JSONConsumer()
	}
}

// staticQuery renders static query parameters as they are written into a base path or a path pattern
func staticQuery(kvs []KV) string {
	if len(kvs) == 0 {
		return ""
	}
	parts := make([]string, 0, len(kvs))
	for _, e := range kvs {
		parts = append(parts, url.QueryEscape(e.K)+"="+url.QueryEscape(e.V))
	}
	return "?" + strings.Join(parts, "&")
}

func execute(c *drv.Ctx, d M) bool {
	cs := caseFrom(d)
	noEvent := func(i int, st Step) {
		c.W.Event("exchange", M{"step": i + 1, "op": st.Op, "media": mediaName(st.Media), "supplied": []M{}, "setup": false, "err": true, "handled_op": "", "received": []M{},
			"handler": M{"code": 0, "hdrs": []M{}, "body": ""}, "seen": M{"code": 0, "hdrs": []M{}, "body": ""}, "wire_path": []int{}, "wire_query": []int{}, "err_text": []int{}, "invoked": 0})
	}
	concurrent := cs.Conc > 1
	if concurrent && cs.Yield {
		// debug mode is read from the environment when the context, router and binders are constructed
		os.Setenv("SWAGGER_DEBUG", "1")
		prev := middleware.Logger
		middleware.Logger = yieldLogger{}
		defer func() {
			os.Unsetenv("SWAGGER_DEBUG")
			middleware.Logger = prev
		}()
	}
	var b *built
	var err error
	if cs.Shared && !(concurrent && cs.Yield) {
		b, err = build(cs.API)
	} else {
		b, err = buildFresh(cs.API, cs.API.doc())
	}
	if err != nil {
		for i, st := range cs.Steps {
			noEvent(i, st)
		}
		return false
	}
	s := server()
	active.mu.Lock()
	active.h = b.handler
	active.mu.Unlock()
	// other Runtimes of the application: created and customised (their own codec tables) before / while the session's
	// Runtime is used; they make no calls
	var others []*client.Runtime
	another := func(when string, step int, what string) {
		o := client.New(s.Listener.Addr().String(), cs.API.Base, []string{"http"})
		customise(o, what)
		if len(others) > 0 { // ... and an existing one is customised once more
			customise(others[0], what)
		}
		others = append(others, o)
		c.W.Event("customise", M{"when": when, "step": step, "what": what})
	}
	if cs.PreCustom != "" {
		another("before-runtime", 0, cs.PreCustom)
	}
	// one Runtime for the whole session
	rt := client.New(s.Listener.Addr().String(), cs.API.Base+staticQuery(cs.BaseStatic), []string{"http"})
	rt.Consumers["application/octet-stream"] = runtime.ByteStreamConsumer()
	if !(concurrent && cs.Yield) {
		rt.SetLogger(silentLogger{}) // (sets the middleware's logger too)
	}
	if cs.Via == "inproc" {
		rt.Transport = tagTransport{inproc{}}
	} else {
		rt.Transport = tagTransport{wireTransport}
	}
	if cs.Reuse {
		rt.EnableConnectionReuse()
	}
	rt.Debug = false // (client.New reads it from the environment)
	ops := map[string]*Op{}
	for j := range cs.API.Ops {
		ops[cs.API.Ops[j].ID] = &cs.API.Ops[j]
	}
	nontrivial := false
	if !concurrent {
		for i := range cs.Steps {
			st := &cs.Steps[i]
			op := ops[st.Op]
			if op == nil {
				noEvent(i, *st)
				continue
			}
			if st.Before != "" {
				another("before-step", i+1, st.Before)
			}
			x := newExchange(i+1, st)
			seqMu.Lock()
			seq = x
			seqMu.Unlock()
			ev, ok := exchangeOnce(rt, &cs.API, x, op, false)
			c.W.Event("exchange", ev)
			if ok {
				nontrivial = true
			}
		}
		return nontrivial
	}
	// concurrent: the calls are made Conc at a time, each by a goroutine of its own, through the one Runtime to the one
	// server; every call keeps its own event, emitted in call order afterwards
	if cs.Procs > 0 {
		defer goruntime.GOMAXPROCS(goruntime.GOMAXPROCS(cs.Procs))
	}
	if cs.Gate > 1 {
		g := newGate(cs.Gate)
		middleware.VerifHook = func(stage string, _ *http.Request, _ ...any) {
			if stage == "bound" {
				g.wait()
			}
		}
		defer func() { middleware.VerifHook = nil }()
	}
	evs := make([]M, len(cs.Steps))
	oks := make([]bool, len(cs.Steps))
	for i := range cs.Steps {
		batchCalls.Store(i+1, newExchange(i+1, &cs.Steps[i]))
	}
	batchActive.Store(true)
	defer batchActive.Store(false)
	var next int64 = -1
	var wg sync.WaitGroup
	start := make(chan struct{})
	for w := 0; w < cs.Conc; w++ {
		wg.Add(1)
		go func() {
			defer wg.Done()
			<-start
			for {
				i := int(atomic.AddInt64(&next, 1))
				if i >= len(cs.Steps) {
					return
				}
				xv, _ := batchCalls.Load(i + 1)
				x := xv.(*exchange)
				op := ops[x.step.Op]
				if op == nil {
					continue
				}
				evs[i], oks[i] = exchangeOnce(rt, &cs.API, x, op, true)
				if cs.Batch.Lean {
					evs[i] = lean(evs[i], cs.Batch, i)
				}
			}
		}()
	}
	close(start)
	wg.Wait()
	for i := range cs.Steps {
		batchCalls.Delete(i + 1)
		if evs[i] == nil {
			noEvent(i, cs.Steps[i])
			continue
		}
		if cs.Batch.Lean {
			c.W.Event("call", evs[i])
		} else {
			c.W.Event("exchange", evs[i])
		}
		if oks[i] {
			nontrivial = true
		}
	}
	return nontrivial
}

// lean projects the exchange event of a batch call: every value the call supplies ends in its tag "<seed>-<number>" (sent),
// handler invocations are filed under the call whose tag their values carry (invoked, handled_op), and the handler echoes
// the tag of the call it was invoked for in the response header X-Out (echoed: the values the caller's reader saw).
func lean(ev M, b Batch, i int) M {
	var echoed any = [][]int{}
	if seen, ok := ev["seen"].(M); ok {
		if hs, ok := seen["hdrs"].([]M); ok && len(hs) > 0 {
			echoed = hs[0]["vs"]
		}
	}
	return M{"step": ev["step"], "op": ev["op"], "err": ev["err"], "handled_op": ev["handled_op"], "invoked": ev["invoked"],
		"sent": trace.B(fmt.Sprintf("%d-%d", b.Seed, i)), "echoed": echoed}
}

// exchangeOnce makes the call x.step of operation op through rt and returns its event.
func exchangeOnce(rt *client.Runtime, api *API, cur *exchange, op *Op, concurrent bool) (M, bool) {
	st, idx := cur.step, cur.idx-1

	params := map[string]Param{}
	for _, p := range op.Params {
		if p.Loc == "form" { // sent as the media type of this call says
			p.Loc = "urlform"
			if st.Media == mMulti {
				p.Loc = "multiform"
			}
		}
		params[p.Name] = p
	}
	var cleanup []string
	defer func() {
		for _, dir := range cleanup {
			_ = os.RemoveAll(dir)
		}
	}()
	supplied := make([]M, 0)
	writer := runtime.ClientRequestWriterFunc(func(r runtime.ClientRequest, _ strfmt.Registry) error {
		for _, a := range st.Args {
			if a.Omit {
				continue
			}
			p := params[a.Name]
			switch p.Loc {
			case "path":
				_ = r.SetPathParam(a.Name, a.Vs[0])
			case "query":
				_ = r.SetQueryParam(a.Name, a.Vs...)
			case "header":
				_ = r.SetHeaderParam(a.Name, a.Vs...)
			case "urlform", "multiform":
				_ = r.SetFormParam(a.Name, a.Vs...)
			case "file":
				f, err := source(a, &cleanup)
				if err != nil {
					return err
				}
				_ = r.SetFileParam(a.Name, f)
			case "body":
				if p.Kind == "strbody" {
					_ = r.SetBodyParam(a.Vs[0])
					break
				}
				var v any
				dec := json.NewDecoder(strings.NewReader(a.Body))
				dec.UseNumber()
				if err := dec.Decode(&v); err != nil {
					return err
				}
				_ = r.SetBodyParam(v)
			}
		}
		return nil
	})
	for _, a := range st.Args {
		if a.Omit {
			continue
		}
		p := params[a.Name]
		var vs any
		off := 0
		switch {
		case p.Loc == "file":
			// the underlying file and the position it is handed over at; of a large file the digest of what remains
			content := blob(a.Len, a.Seed, false)
			o := a.Off
			if o > len(content) {
				o = len(content)
			}
			if len(content) <= smallFile {
				vs, off = []any{trace.B(filepath.Base(a.FileName)), trace.B(string(content))}, o
			} else {
				vs = []any{trace.B(filepath.Base(a.FileName)), contentID(content[o:])}
			}
		case p.Kind == "strbody":
			vs = trace.BB(a.Vs[:1])
		case p.Loc == "body":
			var v any
			dec := json.NewDecoder(strings.NewReader(a.Body))
			dec.UseNumber()
			_ = dec.Decode(&v)
			vs = []any{trace.B(sha(canonJSON(v)))}
		default:
			vs = trace.BB(a.Vs)
		}
		supplied = append(supplied, M{"name": a.Name, "loc": p.Loc, "kind": p.Kind, "vs": vs, "off": off, "fails": p.Loc == "file" && a.Fails})
	}

	seen := M{"code": 0, "hdrs": []M{}, "body": ""}
	reader := runtime.ClientResponseReaderFunc(func(resp runtime.ClientResponse, cons runtime.Consumer) (any, error) {
		raw, err := io.ReadAll(resp.Body())
		if err != nil {
			return nil, err
		}
		canon := raw
		ct := resp.GetHeader("Content-Type")
		if len(raw) > 0 {
			switch {
			case strings.HasPrefix(ct, "text/plain"):
				var sv string
				if err := cons.Consume(bytes.NewReader(raw), &sv); err != nil {
					return nil, err
				}
				canon = []byte(sv)
			case strings.HasPrefix(ct, "application/octet-stream"):
				var bb bytes.Buffer
				if err := cons.Consume(bytes.NewReader(raw), &bb); err != nil {
					return nil, err
				}
				canon = bb.Bytes()
			default:
				var v any
				if err := cons.Consume(bytes.NewReader(raw), &v); err != nil {
					return nil, fmt.Errorf("status %d content type %q body %.80q: %w", resp.Code(), ct, raw, err)
				}
				canon = canonJSON(v)
			}
		}
		hs := make([]M, 0)
		for _, h := range st.Resp.Hdrs {
			k := http.CanonicalHeaderKey(h.K)
			hs = append(hs, M{"k": k, "vs": trace.BB(resp.GetHeaders(k))})
		}
		seen = M{"code": resp.Code(), "hdrs": hs, "body": sha(canon)}
		return nil, nil
	})
	if !concurrent {
		rt.Debug = st.Debug
	}
	cop := &runtime.ClientOperation{ID: op.ID, Method: op.Method, PathPattern: op.path() + staticQuery(st.PatStatic), ProducesMediaTypes: op.Produces,
		ConsumesMediaTypes: []string{st.Media}, Params: writer, Reader: reader}
	// every call has 10 s (a call that cannot complete - a request body nobody ever closes - must not stall the run)
	ctx, cancel := context.WithTimeout(context.Background(), 10*time.Second)
	defer cancel()
	cop.Context = ctx
	if concurrent {
		cop.Context = context.WithValue(ctx, callKey{}, cur.idx)
	}
	keyIn, keyName := api.key()
	switch st.Auth {
	case "apikey":
		cop.AuthInfo = client.APIKeyAuth(keyName, keyIn, secret)
	case "signing":
		cop.AuthInfo = signing{keyIn, keyName}
	}
	// The call runs under a watchdog: "the call did not return" is an observation (an error the statement does not allow for a
	// servable request), not a reason for the run to stall (mechanical mutant C04[0]: a multipart body nobody ever closes).
	var callErr error
	done := make(chan error, 1)
	go func() {
		var err error
		defer func() {
			if e := recover(); e != nil {
				err = fmt.Errorf("panic: %v", e)
			}
			done <- err
		}()
		_, err = rt.Submit(cop)
	}()
	select {
	case callErr = <-done:
	case <-time.After(25 * time.Second):
		callErr = fmt.Errorf("call did not return within 25 s (context deadline 10 s)")
	}
	cur.mu.Lock()
	ev := M{"step": idx + 1, "op": st.Op, "media": mediaName(st.Media), "supplied": supplied, "setup": true, "err": callErr != nil, "handled_op": cur.handledOp, "received": cur.received, "invoked": cur.invoked,
		"handler": cur.handler, "seen": seen, "wire_path": trace.B(cur.wirePath), "wire_query": trace.B(cur.wireQuery), "err_text": trace.B(errText(callErr))}
	cur.mu.Unlock()
	if ev["received"] == nil || len(ev["received"].([]M)) == 0 {
		ev["received"] = []M{}
	}
	return ev, callErr == nil && len(supplied) > 0
}

// ---- generation ---------------------------------------------------------------------------

func lit(s string) Seg { return Seg{S: s} }
func ph(n string) Seg  { return Seg{Ph: true, S: n} }

const (
	mJSON  = "application/json"
	mText  = "text/plain"
	mBin   = "application/octet-stream"
	mForm  = "application/x-www-form-urlencoded"
	mMulti = "multipart/form-data"
)

func sp(name, loc, typ string) Param { return Param{Name: name, Loc: loc, Kind: "scalar", Type: typ} }
func mp(name, loc string) Param      { return Param{Name: name, Loc: loc, Kind: "multi", Type: "string"} }

func apiItems(base string, secured bool) API {
	return API{Base: base, Ops: []Op{
		{ID: "getItem", Method: "GET", Template: []Seg{lit("items"), ph("id")}, Produces: []string{mJSON}, Success: 200, Secured: secured,
			Params: []Param{sp("id", "path", "string"), sp("q", "query", "string"), sp("n", "query", "integer"), sp("b", "query", "boolean"),
				mp("multi", "query"), sp("X-Hdr", "header", "string"), sp("X-Num", "header", "integer"), sp("x-low", "header", "string")}},
		{ID: "putItem", Method: "PUT", Template: []Seg{lit("items"), ph("id")}, Consumes: mJSON, Produces: []string{mJSON, mText}, Success: 200, Secured: secured,
			Params: []Param{sp("id", "path", "string"), sp("q", "query", "string"), {Name: "payload", Loc: "body", Kind: "body", Type: "object"}}},
		{ID: "formItem", Method: "POST", Template: []Seg{lit("items"), ph("id"), lit("x"), ph("sub")}, Consumes: mForm, Produces: []string{mText}, Success: 201, Secured: secured,
			Params: []Param{sp("id", "path", "string"), sp("sub", "path", "string"), sp("q", "query", "string"), sp("f", "urlform", "string"),
				mp("fm", "urlform"), sp("fn", "urlform", "integer")}},
		{ID: "uploadItem", Method: "POST", Template: []Seg{lit("up"), ph("id")}, Consumes: mMulti, Produces: []string{mJSON}, Success: 200, Secured: secured,
			Params: []Param{sp("id", "path", "string"), sp("X-Hdr", "header", "string"), sp("f", "multiform", "string"), mp("fm", "multiform"),
				{Name: "up", Loc: "file", Kind: "file", Type: "file"}, {Name: "up2", Loc: "file", Kind: "file", Type: "file"}}},
		{ID: "delItem", Method: "DELETE", Template: []Seg{lit("items"), ph("id"), lit("x"), ph("sub")}, Produces: []string{mBin}, Success: 200, Secured: secured,
			Params: []Param{sp("id", "path", "string"), sp("sub", "path", "string"), mp("multi", "query")}},
		{ID: "patchArr", Method: "PATCH", Template: []Seg{lit("arr"), ph("a"), ph("b"), ph("c")}, Consumes: mJSON, Produces: []string{mJSON}, Success: 200, Secured: secured,
			Params: []Param{sp("a", "path", "string"), sp("b", "path", "string"), sp("c", "path", "string"), {Name: "payload", Loc: "body", Kind: "body", Type: "array"}}},
	}}
}

func apiRoot(base string) API {
	return API{Base: base, Ops: []Op{
		{ID: "rootAB", Method: "GET", Template: []Seg{ph("a"), ph("b")}, Produces: []string{mText, mJSON}, Success: 200,
			Params: []Param{sp("a", "path", "string"), sp("b", "path", "string"), sp("q", "query", "string")}},
		{ID: "rootABC", Method: "POST", Template: []Seg{ph("a"), ph("b"), ph("c")}, Consumes: mForm, Produces: []string{mJSON}, Success: 200,
			Params: []Param{sp("a", "path", "string"), sp("b", "path", "string"), sp("c", "path", "string"), sp("f", "urlform", "string")}},
	}}
}

const atoms = "a/%+ ?#:*{};&=.\xc3\t"

func valuesUpTo(n int) []string {
	out := []string{""}
	level := []string{""}
	for l := 1; l <= n; l++ {
		var next []string
		for _, p := range level {
			for i := 0; i < len(atoms); i++ {
				next = append(next, p+string(atoms[i]))
			}
		}
		out = append(out, next...)
		level = next
	}
	return out
}

var hostileValues = []string{"a/b", "a%2Fb", "a+b c", "?x#y", "{k}", "\xc3\xa9\xe2\x98\x83", "a;b=c", "%", "a&b=c", "a\tb", "..x", "a:b", ":", "*", "#", "x y", "%zz", "%41",
	"a//b", "/", "...", ".x.", "~", "\"q\"", "<>", "\\", "|", "^`", "[]", "@$!'()", "\xff\xfe", "a\x00b", "a\nb", "100%25", "+", "++", "%2B", "%20", "=", "==", "&&", "a=b&c=d", "\xe2\x80\xa8"}

var intValues = []string{"0", "1", "-1", "42", "2147483647", "2147483648", "-2147483649", "9223372036854775807", "-9223372036854775808", "1000000000000"}

func headerSendable(s string) bool {
	for i := 0; i < len(s); i++ {
		if (s[i] < 0x20 && s[i] != '\t') || s[i] == 0x7f {
			return false
		}
	}
	return true
}

func defaultArg(p Param, i int) Arg {
	switch {
	case p.Kind == "file":
		return Arg{Name: p.Name, FileName: "f.bin", Len: 100 + i, Seed: i}
	case p.Kind == "body" && p.Type == "array":
		return Arg{Name: p.Name, Body: `[1,"two",{"three":3}]`}
	case p.Kind == "body":
		return Arg{Name: p.Name, Body: `{"a":1,"b":["x",2.5,null],"c":"\u00e9"}`}
	case p.Kind == "strbody":
		return Arg{Name: p.Name, Vs: []string{"a note"}}
	case p.Kind == "multi":
		return Arg{Name: p.Name, Vs: []string{"m1", "m2"}}
	case p.Type == "integer":
		return Arg{Name: p.Name, Vs: []string{"7"}}
	case p.Type == "boolean":
		return Arg{Name: p.Name, Vs: []string{"true"}}
	}
	return Arg{Name: p.Name, Vs: []string{"v" + p.Name}}
}

// mkStep is a call of op: the overridden arguments, defaults for the others.
func mkStep(op Op, override map[string]Arg, auth string, resp Resp, media string) Step {
	st := Step{Op: op.ID, Auth: auth, Resp: resp, Media: media}
	if op.Secured && auth == "none" {
		st.Auth = "apikey"
	}
	if auth == "param" { // no auth writer: the caller sets the key as the declared parameter it also is
		st.Auth = "none"
	}
	for i, p := range op.Params {
		a, ok := override[p.Name]
		if !ok {
			a = defaultArg(p, i)
		}
		if p.Kind == "file" && a.Src == "" {
			a.Src = "reader"
		}
		st.Args = append(st.Args, a)
	}
	return st
}

var respCodes = []int{200, 201, 202, 204, 299, 304, 400, 401, 404, 409, 418, 422, 500, 503, 599}
var respHdrNames = []string{"X-Out", "x-lower", "X-Rate-Limit", "Etag", "X-Multi"}

func generate(c *drv.Ctx) {
	thorough := c.Tier == "thorough"
	n := 0
	simpleResp := Resp{Mode: "responder", Code: 200, Len: 20, Seed: 1}
	emit := func(cs Case) { n++; c.Case(cs.JSON()) }
	call := func(api API, op Op, override map[string]Arg, auth string, resp Resp) Case {
		return Case{API: api, Shared: true, Steps: []Step{mkStep(op, override, auth, resp, op.Consumes)}}
	}
	bases := []string{"/api", "/", "/api/v1"}
	// (i) every string parameter of every operation x every value of <=2 atoms (quick: <=1 atom plus a stride of the 2-atom ones)
	vals := valuesUpTo(2)
	k := 0
	for _, api := range []API{apiItems("/api", false), apiRoot("/")} {
		for _, op := range api.Ops {
			for _, p := range op.Params {
				if p.Type != "string" || p.Kind == "file" {
					continue
				}
				for vi, v := range vals {
					k++
					if !thorough && len(v) == 2 && (vi+k)%4 != 0 {
						continue
					}
					a := Arg{Name: p.Name, Vs: []string{v}}
					if p.Kind == "multi" {
						a.Vs = []string{v, "", v + "2"}
					}
					emit(call(api, op, map[string]Arg{p.Name: a}, "none", simpleResp))
				}
			}
		}
	}
	// (ii) the hostile list in every location at once, all operations x base paths x secured or not x auth writers
	for _, base := range bases {
		for _, sec := range []bool{false, true} {
			apis := []API{apiItems(base, sec)}
			if !sec {
				apis = append(apis, apiRoot(base))
			}
			for _, api := range apis {
				for _, op := range api.Ops {
					for hi, hv := range hostileValues {
						ov := map[string]Arg{}
						for _, p := range op.Params {
							switch {
							case p.Type == "string" && p.Kind == "scalar":
								v := hv
								if p.Loc == "header" && !headerSendable(v) {
									v = "plain"
								}
								ov[p.Name] = Arg{Name: p.Name, Vs: []string{v}}
							case p.Kind == "multi":
								ov[p.Name] = Arg{Name: p.Name, Vs: []string{hv, hostileValues[(hi+1)%len(hostileValues)], hv}}
							case p.Type == "integer":
								ov[p.Name] = Arg{Name: p.Name, Vs: []string{intValues[hi%len(intValues)]}}
							case p.Type == "boolean":
								ov[p.Name] = Arg{Name: p.Name, Vs: []string{[]string{"true", "false"}[hi%2]}}
							case p.Kind == "file":
								ov[p.Name] = Arg{Name: p.Name, FileName: []string{"a.txt", "dir/b.bin", "/abs/c", "q\"uote.txt", "caf\xc3\xa9"}[hi%5], Len: []int{0, 1, 511, 512, 513, 70000}[hi%6], Seed: hi}
							}
						}
						auth := "none"
						if sec {
							auth = []string{"apikey", "signing"}[hi%2]
						}
						code := respCodes[hi%len(respCodes)]
						resp := Resp{Mode: "responder", Code: code, Len: hi * 7, Seed: hi, None: code == 204 || code == 304,
							Hdrs: []Hdr{{respHdrNames[hi%len(respHdrNames)], []string{hostileHeader(hv)}}}}
						if hi%5 == 0 && len(op.Produces) == 1 {
							resp = Resp{Mode: "plain", Len: hi, Seed: hi}
						}
						if base != "/api" && hi%3 != 0 && !thorough {
							continue
						}
						emit(call(api, op, ov, auth, resp))
					}
				}
			}
		}
	}
	// (iii) responses: every status x bodies x header values
	api := apiItems("/api", false)
	hvals := valuesUpTo(1)
	if thorough {
		hvals = valuesUpTo(2)
	}
	for _, code := range respCodes {
		for oi, op := range api.Ops {
			for _, l := range []int{0, 1, 1000, 70000} {
				none := code == 204 || code == 304
				if none && l != 0 {
					continue
				}
				emit(call(api, op, nil, "none", Resp{Mode: "responder", Code: code, Len: l, Seed: code + oi, None: none,
					Hdrs: []Hdr{{"X-Out", []string{"a b", "c"}}, {"x-lower", []string{"v"}}}}))
			}
		}
	}
	for hi, hv := range hvals {
		if headerSendable(hv) {
			emit(call(api, api.Ops[hi%len(api.Ops)], nil, "none", Resp{Mode: "responder", Code: 200, Len: 5, Seed: hi, Hdrs: []Hdr{{"X-Out", []string{hv, "x" + hv}}}}))
		}
	}
	// (v)-(vii) upload sources at an offset; sessions: media-type sequences on parameter-free operations, sibling templates
	genSessions(c, emit)
	// (viii)-(xi) static query parameters, failing upload sources, connection re-use x chunked responses, concurrent batches
	genRound3(c, emit)
	// (xii)-(xiv) values spelling sibling placeholders, API keys that are also declared parameters, other Runtimes customised
	genRound4(c, emit)
	// (xv) calls that supply only some of the optional parameters
	genOmissions(c, emit)
	// (xvi) multi arrays that declare a default x supplied lists with empty items
	genDefaults(c, emit)
	c.Extra["exhaustive_cases"] = n
	// (iv) seeded random: single calls on the shared servers, and sessions on servers of their own
	nr, ns := 1500, 400
	if thorough {
		nr, ns = 40000, 8000
	}
	for i := 0; i < nr; i++ {
		emit(randomCase(c, call))
	}
	for i := 0; i < ns; i++ {
		emit(randomSession(c, call))
	}
}

// hostileHeader makes a value transportable as a header field value most of the time
func hostileHeader(v string) string {
	if !headerSendable(v) {
		return "plain"
	}
	return v
}

const hostile = "ab01/%+ ?#:*{};&=.,\"'\\<>[]|^~-_\xc3\xa9\xe2\x98\x83\xff\t"

func randStr(c *drv.Ctx, max int, anyByte bool) string {
	n := c.Rng.Intn(max + 1)
	b := make([]byte, n)
	for i := range b {
		if anyByte && c.Rng.Intn(5) == 0 {
			b[i] = byte(c.Rng.Intn(256))
		} else {
			b[i] = hostile[c.Rng.Intn(len(hostile))]
		}
	}
	return string(b)
}

func randJSON(c *drv.Ctx, depth int) any {
	switch c.Rng.Intn(7) {
	case 0:
		return strings.ToValidUTF8(randStr(c, 10, false), "?")
	case 1:
		return json.Number(strconv.FormatInt(c.Rng.Int63()-c.Rng.Int63(), 10))
	case 2:
		return c.Rng.Intn(2) == 0
	case 3:
		return nil
	case 4:
		return json.Number(strconv.FormatFloat(c.Rng.NormFloat64()*1e6, 'g', -1, 64))
	}
	if depth <= 0 {
		return "leaf"
	}
	if c.Rng.Intn(2) == 0 {
		l := []any{}
		for i, n := 0, c.Rng.Intn(4); i < n; i++ {
			l = append(l, randJSON(c, depth-1))
		}
		return l
	}
	m := map[string]any{}
	for i, n := 0, c.Rng.Intn(4); i < n; i++ {
		m[strings.ToValidUTF8(randStr(c, 6, false), "?")] = randJSON(c, depth-1)
	}
	return m
}

func randomCase(c *drv.Ctx, call func(API, Op, map[string]Arg, string, Resp) Case) Case {
	r := c.Rng
	base := []string{"/api", "/", "/api/v1", "/a/b/c"}[r.Intn(4)]
	sec := r.Intn(3) == 0
	var api API
	if r.Intn(4) == 0 {
		api, sec = apiRoot(base), false
	} else {
		api = apiItems(base, sec)
	}
	op := api.Ops[r.Intn(len(api.Ops))]
	ov := map[string]Arg{}
	for _, p := range op.Params {
		switch {
		case p.Kind == "file":
			n := []int{0, 1, 30, 100, 512, 5000, 200000}[r.Intn(7)]
			ov[p.Name] = Arg{Name: p.Name, FileName: []string{"a.txt", "dir/b.bin", "x y.dat", "caf\xc3\xa9", "q\"uote"}[r.Intn(5)], Len: n, Seed: r.Intn(1 << 20),
				Src: fileSrcs[r.Intn(len(fileSrcs))], Off: []int{0, 0, r.Intn(n + 1)}[r.Intn(3)]}
		case p.Kind == "body":
			var v any
			if p.Type == "array" {
				l := []any{}
				for i, n := 0, r.Intn(5); i < n; i++ {
					l = append(l, randJSON(c, 2))
				}
				v = l
			} else {
				m := map[string]any{}
				for i, n := 0, r.Intn(5); i < n; i++ {
					m[strings.ToValidUTF8(randStr(c, 6, false), "?")] = randJSON(c, 2)
				}
				v = m
			}
			b, _ := json.Marshal(v)
			ov[p.Name] = Arg{Name: p.Name, Body: string(b)}
		case p.Kind == "multi":
			var vs []string
			for i, n := 0, r.Intn(4); i < n; i++ {
				vs = append(vs, randStr(c, 8, true))
			}
			ov[p.Name] = Arg{Name: p.Name, Vs: vs}
		case p.Type == "integer":
			ov[p.Name] = Arg{Name: p.Name, Vs: []string{strconv.FormatInt(r.Int63()-r.Int63(), 10)}}
		case p.Type == "boolean":
			ov[p.Name] = Arg{Name: p.Name, Vs: []string{strconv.FormatBool(r.Intn(2) == 0)}}
		case p.Loc == "header":
			v := randStr(c, 10, false)
			if r.Intn(8) != 0 { // mostly transportable values
				v = strings.Trim(v, " \t")
			}
			ov[p.Name] = Arg{Name: p.Name, Vs: []string{v}}
		case p.Loc == "path":
			v := randStr(c, 10, true)
			if r.Intn(10) != 0 && (v == "" || v == "." || v == "..") {
				v = "p" + v
			}
			ov[p.Name] = Arg{Name: p.Name, Vs: []string{v}}
		default:
			ov[p.Name] = Arg{Name: p.Name, Vs: []string{randStr(c, 12, true)}}
		}
	}
	auth := "none"
	if sec {
		auth = []string{"apikey", "signing"}[r.Intn(2)]
	}
	code := respCodes[r.Intn(len(respCodes))]
	resp := Resp{Mode: "responder", Code: code, Len: []int{0, 1, 50, 3000, 100000}[r.Intn(5)], Seed: r.Intn(1 << 20), None: code == 204 || code == 304}
	seen := map[string]bool{}
	for i, n := 0, r.Intn(3); i < n; i++ {
		name := respHdrNames[r.Intn(len(respHdrNames))]
		if seen[strings.ToLower(name)] {
			continue
		}
		seen[strings.ToLower(name)] = true
		h := Hdr{K: name}
		for j, nv := 0, 1+r.Intn(2); j < nv; j++ {
			v := hostileHeader(randStr(c, 10, false))
			if r.Intn(8) != 0 {
				v = strings.Trim(v, " \t")
			}
			h.Vs = append(h.Vs, v)
		}
		resp.Hdrs = append(resp.Hdrs, h)
	}
	if r.Intn(6) == 0 && len(op.Produces) == 1 {
		resp = Resp{Mode: "plain", Len: r.Intn(500), Seed: r.Intn(1 << 20)}
	}
	return call(api, op, ov, auth, resp)
}
