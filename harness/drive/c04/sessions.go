package c04

import (
	"fmt"
	"strings"

	"verifharness/internal/drv"
)

func toValid(s string) string { return strings.ToValidUTF8(s, "?") }

// History on one server / one Runtime, and upload sources that are not at their start.
//
// apiFiles has what the single-call APIs lack:
//   - sibling templates /files/{name}, /files/{dir}/{name}, /files/{dir}/{sub}/{name} whose request paths
//     coincide once decoded when a value contains '/' ("a/b" vs "a","b");
//   - parameter-free operations (POST /notes, PUT /notes, POST /forms) that consume several media types,
//     called with one and then with another;
//   - a parameter-free upload (POST /uploads; /docs is the documentation UI of middleware.Serve).
func apiFiles(base string) API {
	return API{Base: base, Ops: []Op{
		{ID: "getFile", Method: "GET", Template: []Seg{lit("files"), ph("name")}, Produces: []string{mJSON}, Success: 200,
			Params: []Param{sp("name", "path", "string"), sp("q", "query", "string")}},
		{ID: "getNested", Method: "GET", Template: []Seg{lit("files"), ph("dir"), ph("name")}, Produces: []string{mJSON}, Success: 200,
			Params: []Param{sp("dir", "path", "string"), sp("name", "path", "string")}},
		{ID: "getDeep", Method: "GET", Template: []Seg{lit("files"), ph("dir"), ph("sub"), ph("name")}, Produces: []string{mText}, Success: 200,
			Params: []Param{sp("dir", "path", "string"), sp("sub", "path", "string"), sp("name", "path", "string")}},
		{ID: "addNote", Method: "POST", Template: []Seg{lit("notes")}, Consumes: mJSON, Alt: []string{mText}, Produces: []string{mJSON}, Success: 200,
			Params: []Param{sp("q", "query", "string"), {Name: "note", Loc: "body", Kind: "strbody", Type: "string"}}},
		{ID: "putNote", Method: "PUT", Template: []Seg{lit("notes")}, Consumes: mText, Alt: []string{mJSON}, Produces: []string{mJSON, mText}, Success: 200,
			Params: []Param{{Name: "note", Loc: "body", Kind: "strbody", Type: "string"}}},
		{ID: "listNotes", Method: "GET", Template: []Seg{lit("notes")}, Produces: []string{mJSON}, Success: 200,
			Params: []Param{sp("q", "query", "string"), mp("multi", "query")}},
		{ID: "postForm", Method: "POST", Template: []Seg{lit("forms")}, Consumes: mForm, Alt: []string{mMulti}, Produces: []string{mJSON}, Success: 201,
			Params: []Param{sp("f", "form", "string"), mp("fm", "form"), sp("fn", "form", "integer")}},
		{ID: "upDoc", Method: "POST", Template: []Seg{lit("uploads")}, Consumes: mMulti, Produces: []string{mJSON}, Success: 200,
			Params: []Param{sp("f", "multiform", "string"), {Name: "doc", Loc: "file", Kind: "file", Type: "file"}}},
	}}
}

func (a API) op(id string) Op {
	for _, o := range a.Ops {
		if o.ID == id {
			return o
		}
	}
	panic("no operation " + id)
}

func (o Op) medias() []string {
	if o.Consumes == "" {
		return []string{""}
	}
	return append([]string{o.Consumes}, o.Alt...)
}

var okResp = Resp{Mode: "responder", Code: 200, Len: 12, Seed: 3}

func one(name string, vs ...string) Arg { return Arg{Name: name, Vs: vs} }

// a call of apiFiles in short
type fcall struct {
	op    string
	media string
	args  []Arg
}

func (f fcall) step(api API) Step {
	op := api.op(f.op)
	ov := map[string]Arg{}
	for _, a := range f.args {
		ov[a.Name] = a
	}
	media := f.media
	if media == "" {
		media = op.Consumes
	}
	return mkStep(op, ov, "none", okResp, media)
}

func session(api API, calls ...fcall) Case {
	cs := Case{API: api}
	for _, f := range calls {
		cs.Steps = append(cs.Steps, f.step(api))
	}
	return cs
}

var noteTexts = []string{"first note", "say \"hi\"\\ \n2nd line", "\xc3\xa9\xe2\x98\x83 {\"a\":1}", "\"", "[1,2]", "null", " "}

var fileSrcs = []string{"reader", "memseek", "osfile", "typed"}

// offsets worth trying for a file of n bytes
func offsets(n int) []int {
	seen := map[int]bool{}
	var out []int
	for _, o := range []int{0, 1, n / 2, n - 1, n, 512, 513} {
		if o >= 0 && o <= n && !seen[o] {
			seen[o] = true
			out = append(out, o)
		}
	}
	return out
}

func genSessions(c *drv.Ctx, emit func(Case)) {
	thorough := c.Tier == "thorough"
	api := apiFiles("/api")

	// (v) upload sources: every kind of source x sizes around the sniffing window x offsets; alone on the shared
	// server, and as sessions of uploads of the same document at different positions
	lens := []int{0, 1, 5, 40, 48, 49, 511, 512, 513, 600, 70000}
	items := apiItems("/api", false)
	for _, src := range fileSrcs {
		for _, n := range lens {
			var steps []Step
			for oi, off := range offsets(n) {
				f := Arg{Name: "doc", FileName: []string{"doc.txt", "dir/d.bin", "q\"uote.txt"}[oi%3], Len: n, Seed: n + oi, Src: src, Off: off}
				st := mkStep(api.op("upDoc"), map[string]Arg{"doc": f}, "none", okResp, mMulti)
				emit(Case{API: api, Shared: true, Steps: []Step{st}})
				steps = append(steps, st)
				// two files in one request, the second from another kind of source
				f1, f2 := f, f
				f1.Name, f2.Name = "up", "up2"
				f2.Src, f2.Off = fileSrcs[(oi+1)%len(fileSrcs)], n-off
				up := items.op("uploadItem")
				emit(Case{API: items, Shared: true, Steps: []Step{mkStep(up, map[string]Arg{"up": f1, "up2": f2}, "none", okResp, mMulti)}})
			}
			emit(Case{API: api, Steps: steps})
		}
	}

	// (vi) one parameter-free operation called with every sequence of the media types it consumes
	for _, id := range []string{"addNote", "putNote", "postForm"} {
		op := api.op(id)
		ms := op.medias()
		for l := 2; l <= 3; l++ {
			total := 1
			for i := 0; i < l; i++ {
				total *= len(ms)
			}
			for code := 0; code < total; code++ {
				for variant := 0; variant < 2; variant++ {
					var calls []fcall
					x := code
					for i := 0; i < l; i++ {
						m := ms[x%len(ms)]
						x /= len(ms)
						var args []Arg
						if id == "postForm" {
							args = []Arg{one("f", hostileValues[(code+i+7*variant)%len(hostileValues)]), one("fm", "m1", "", "a&b=c"), one("fn", intValues[(code+i)%len(intValues)])}
						} else {
							args = []Arg{one("note", noteTexts[(code+i+3*variant)%len(noteTexts)])}
						}
						calls = append(calls, fcall{op: id, media: m, args: args})
					}
					emit(session(api, calls...))
				}
			}
		}
	}
	// the operations of /notes interleaved
	for i, seq := range [][]fcall{
		{{op: "addNote", media: mJSON}, {op: "putNote", media: mText}, {op: "addNote", media: mText}, {op: "putNote", media: mJSON}, {op: "listNotes"}},
		{{op: "putNote", media: mJSON}, {op: "listNotes"}, {op: "addNote", media: mText}, {op: "putNote", media: mText}, {op: "addNote", media: mJSON}},
		{{op: "listNotes"}, {op: "addNote", media: mText}, {op: "listNotes"}, {op: "addNote", media: mJSON}, {op: "upDoc"}, {op: "postForm", media: mMulti}, {op: "postForm", media: mForm}},
	} {
		for j := range seq {
			if seq[j].op == "addNote" || seq[j].op == "putNote" {
				seq[j].args = []Arg{one("note", noteTexts[(i+j)%len(noteTexts)])}
			}
		}
		emit(session(api, seq...))
	}

	// (vii) sibling templates: every ordered pair of calls from a pool whose decoded request paths collide
	names := []string{"a", "b", "a/b", "a%2Fb", "a/b/c", "b/c", "a/b%2Fc"}
	parts := []string{"a", "b", "a/b", "b/c", "a%2Fb"}
	if !thorough {
		names = names[:6]
		parts = parts[:4]
	}
	var pool []fcall
	for _, v := range names {
		pool = append(pool, fcall{op: "getFile", args: []Arg{one("name", v), one("q", "q-"+v)}})
	}
	for _, d := range parts {
		for _, v := range parts {
			pool = append(pool, fcall{op: "getNested", args: []Arg{one("dir", d), one("name", v)}})
		}
	}
	for _, t := range [][3]string{{"a", "b", "c"}, {"a/b", "c", "d"}, {"a", "b/c", "d"}, {"a", "b", "a/b"}} {
		pool = append(pool, fcall{op: "getDeep", args: []Arg{one("dir", t[0]), one("sub", t[1]), one("name", t[2])}})
	}
	for _, base := range []string{"/api", "/"} {
		fa := apiFiles(base)
		for i, x := range pool {
			for j, y := range pool {
				if i == j || (base == "/" && (i+j)%5 != 0 && !thorough) {
					continue
				}
				emit(session(fa, x, y))
			}
		}
	}
}

// randomSession is a seeded session of 2-6 calls on a server of its own: apiFiles with values built from few
// pieces (so that decoded paths collide and media types alternate), or the items API with random calls.
func randomSession(c *drv.Ctx, call func(API, Op, map[string]Arg, string, Resp) Case) Case {
	r := c.Rng
	n := 2 + r.Intn(5)
	if r.Intn(3) == 0 {
		// random calls of one items / root API (secured or not), one server
		first := randomCase(c, call)
		cs := Case{API: first.API, Steps: first.Steps}
		for tries := 0; len(cs.Steps) < n && tries < 40; tries++ {
			next := randomCase(c, call)
			if string(next.API.doc()) == string(cs.API.doc()) {
				cs.Steps = append(cs.Steps, next.Steps...)
			}
		}
		return cs
	}
	api := apiFiles([]string{"/api", "/", "/api/v1"}[r.Intn(3)])
	pieces := []string{"a", "b", "a/b", "b/c", "a%2Fb", "/", "a b", "c+d", "%", "a/b/c", "\xc3\xa9", "{name}", "{dir}", "{sub}", "%7Bname%7D"}
	piece := func() string { return pieces[r.Intn(len(pieces))] }
	var calls []fcall
	for i := 0; i < n; i++ {
		switch r.Intn(9) {
		case 0, 1:
			calls = append(calls, fcall{op: "getFile", args: []Arg{one("name", piece()), one("q", piece())}})
		case 2, 3:
			calls = append(calls, fcall{op: "getNested", args: []Arg{one("dir", piece()), one("name", piece())}})
		case 4:
			calls = append(calls, fcall{op: "getDeep", args: []Arg{one("dir", piece()), one("sub", piece()), one("name", piece())}})
		case 5, 6:
			id := []string{"addNote", "putNote"}[r.Intn(2)]
			txt := noteTexts[r.Intn(len(noteTexts))]
			if r.Intn(3) == 0 {
				txt = "n" + toValid(randStr(c, 12, false))
			}
			calls = append(calls, fcall{op: id, media: []string{mJSON, mText}[r.Intn(2)], args: []Arg{one("note", txt), one("q", piece())}})
		case 7:
			calls = append(calls, fcall{op: "postForm", media: []string{mForm, mMulti}[r.Intn(2)],
				args: []Arg{one("f", randStr(c, 8, true)), one("fm", piece(), randStr(c, 5, true)), one("fn", intValues[r.Intn(len(intValues))])}})
		default:
			n := []int{0, 3, 40, 600, 5000}[r.Intn(5)]
			calls = append(calls, fcall{op: "upDoc", args: []Arg{one("f", piece()),
				{Name: "doc", FileName: "d" + piece(), Len: n, Seed: r.Intn(1 << 16), Src: fileSrcs[r.Intn(len(fileSrcs))], Off: r.Intn(n + 1)}}})
		}
	}
	cs := session(api, calls...)
	customs := []string{"envelope", "consumers", "delete", "swap"}
	for i := range cs.Steps {
		cs.Steps[i].Debug = r.Intn(6) == 0
		if r.Intn(12) == 0 {
			cs.Steps[i].Before = customs[r.Intn(len(customs))]
		}
	}
	if r.Intn(10) == 0 {
		cs.PreCustom = customs[r.Intn(len(customs))]
	}
	return cs
}

// ---- concurrent batches ------------------------------------------------------------------

// batchSteps derives the calls of a concurrent case: Count calls of one operation of apiFiles, call i with values of its
// own (its number is part of every value), so that a value delivered to the wrong call is seen.
func batchSteps(api API, b Batch) []Step {
	op := api.op(b.Op)
	steps := make([]Step, 0, b.Count)
	for i := 0; i < b.Count; i++ {
		tag := fmt.Sprintf("%d-%d", b.Seed, i)
		ov := map[string]Arg{}
		media := op.Consumes
		for _, p := range op.Params {
			switch {
			case p.Kind == "strbody":
				ov[p.Name] = one(p.Name, "note "+tag)
				if i%2 == 1 && len(op.Alt) > 0 {
					media = op.Alt[0]
				}
			case p.Kind == "multi":
				ov[p.Name] = one(p.Name, "m"+tag, "", "n/"+tag)
			case p.Type == "integer":
				ov[p.Name] = one(p.Name, fmt.Sprint(1000*b.Seed+i))
			case p.Kind == "file":
				ov[p.Name] = Arg{Name: p.Name, FileName: "f" + tag, Len: 20 + i%600, Seed: b.Seed + i, Src: fileSrcs[i%2], Off: i % 7}
			case p.Loc == "path":
				ov[p.Name] = one(p.Name, p.Name+"/"+tag)
			default:
				ov[p.Name] = one(p.Name, p.Name+" "+tag)
			}
		}
		resp := Resp{Mode: "responder", Code: 200, Len: 5 + i%40, Seed: b.Seed + i, Hdrs: []Hdr{{"X-Out", []string{tag}}}}
		steps = append(steps, mkStep(op, ov, "none", resp, media))
	}
	return steps
}

// genRound3 adds: (viii) static query parameters of the base path / path pattern named like form fields and query
// parameters; (ix) failing upload sources; (x) connection re-use x responses delivered in pieces; (xi) concurrent batches.
func genRound3(c *drv.Ctx, emit func(Case)) {
	thorough := c.Tier == "thorough"
	api := apiFiles("/api")
	items := apiItems("/api", false)

	// (viii) a query key of the request URL named like a form field must not reach the form parameter (and a client-set
	// query parameter beats a static one of its name)
	statics := [][2][]KV{
		{{{"f", "from-base"}}, nil},
		{nil, {{"f", "from-pattern"}}},
		{{{"f", "b"}, {"fm", "bm"}, {"fn", "7"}}, {{"fm", "pm"}, {"q", "static-q"}}},
		{{{"fn", "not-a-number"}, {"other", "o"}}, {{"multi", "static-multi"}}},
		{{{"q", "bq"}, {"multi", "bm1"}, {"id", "zz"}, {"note", "n"}}, nil},
	}
	for si, stc := range statics {
		for _, fc := range []struct {
			api   API
			op    string
			media string
		}{{api, "postForm", mForm}, {api, "postForm", mMulti}, {items, "formItem", mForm}, {items, "uploadItem", mMulti}, {api, "listNotes", ""}, {api, "addNote", mJSON}, {items, "getItem", ""}} {
			op := fc.api.op(fc.op)
			for vi := 0; vi < 2; vi++ {
				ov := map[string]Arg{}
				for _, p := range op.Params {
					switch {
					case p.Type == "string" && p.Kind == "scalar" && p.Loc != "header" && p.Loc != "path":
						ov[p.Name] = one(p.Name, hostileValues[(si*7+vi*3+len(p.Name))%len(hostileValues)])
					case p.Kind == "multi":
						ov[p.Name] = one(p.Name, []string{"m1", "", "a&b=c"}[:1+2*vi]...)
					}
				}
				st := mkStep(op, ov, "none", okResp, fc.media)
				st.PatStatic = stc[1]
				emit(Case{API: fc.api, Shared: true, BaseStatic: stc[0], Steps: []Step{st}})
				// and as a session: with, without, with
				plain := st
				plain.PatStatic = nil
				if vi == 0 {
					emit(Case{API: fc.api, BaseStatic: stc[0], Steps: []Step{st, plain, st}})
				}
			}
		}
	}

	// (ix) upload sources that fail: at the first byte, inside and at the end of the sniffing window, right after it, in the
	// middle, at the last byte - alone, as second file, and followed by a healthy upload on the same Runtime
	for _, src := range []string{"reader", "memseek", "typed"} {
		for _, n := range []int{1, 40, 512, 513, 600, 5000, 70000} {
			for _, off := range []int{0, 3} {
				if off >= n {
					continue
				}
				rem := n - off
				seen := map[int]bool{}
				for _, at := range []int{0, 1, 511, 512, 513, rem / 2, rem - 1} {
					if at < 0 || at >= rem || seen[at] {
						continue
					}
					seen[at] = true
					f := Arg{Name: "doc", FileName: "doc.bin", Len: n, Seed: n + at, Src: src, Off: off, Fails: true, FailAt: at}
					bad := mkStep(api.op("upDoc"), map[string]Arg{"doc": f}, "none", okResp, mMulti)
					good := mkStep(api.op("upDoc"), map[string]Arg{"doc": {Name: "doc", FileName: "ok.bin", Len: n, Seed: n, Src: src, Off: off}}, "none", okResp, mMulti)
					emit(Case{API: api, Shared: true, Steps: []Step{bad}})
					emit(Case{API: api, Steps: []Step{good, bad, good}})
					f1, f2 := f, f
					f1.Name, f1.Fails, f2.Name = "up", false, "up2"
					emit(Case{API: items, Shared: true, Steps: []Step{mkStep(items.op("uploadItem"), map[string]Arg{"up": f1, "up2": f2}, "none", okResp, mMulti)}})
					f1.Fails, f1.FailAt, f2.Fails = true, at, false
					emit(Case{API: items, Shared: true, Steps: []Step{mkStep(items.op("uploadItem"), map[string]Arg{"up": f1, "up2": f2}, "none", okResp, mMulti)}})
				}
			}
		}
	}

	// (x) Runtime.EnableConnectionReuse() on/off x handlers that deliver their body in flushed pieces x body sizes x produced
	// media types x statuses; several calls per Runtime so that connections are really re-used
	sizes := []int{0, 1, 700, 5000, 100000}
	if thorough {
		sizes = append(sizes, 1000000)
	}
	for _, reuse := range []bool{true, false} {
		for _, chunks := range []int{1, 2, 5, 40} {
			for si, size := range sizes {
				var steps []Step
				for oi, op := range items.Ops {
					code := []int{200, 201, 404, 500}[(oi+si)%4]
					resp := Resp{Mode: "responder", Code: code, Len: size, Seed: size + oi, Chunks: chunks, PauseUs: []int{0, 200, 1500}[(oi+si+chunks)%3],
						Hdrs: []Hdr{{"X-Out", []string{"a b", "c"}}}}
					st := mkStep(op, nil, "none", resp, op.Consumes)
					steps = append(steps, st)
				}
				if !thorough && !reuse && chunks > 2 && si%2 == 1 {
					continue
				}
				emit(Case{API: items, Reuse: reuse, Steps: steps})
				emit(Case{API: items, Shared: true, Reuse: reuse, Steps: steps[si%len(steps) : si%len(steps)+1]})
			}
		}
	}

	// (xi) concurrent batches: Conc goroutines at a time make calls of ONE operation, every call with values of its own,
	// through one Runtime to one server, at GOMAXPROCS 1 / 4 / 16; over the wire and served in the calling goroutine;
	// requests optionally rendezvous in groups right after they are bound
	nb := 0
	for _, opid := range []string{"getNested", "listNotes", "addNote", "postForm", "putNote", "upDoc", "getFile"} {
		for _, conc := range []int{8, 64} {
			for _, procs := range []int{1, 4, 16} {
				for _, via := range []string{"http", "inproc"} {
					nb++
					gate := []int{0, 2, 4, 8}[nb%4]
					if procs == 1 {
						gate = 0
					}
					emit(Case{API: api, Shared: nb%2 == 0, Conc: conc, Procs: procs, Yield: nb%3 == 0, Via: via, Gate: gate, Reuse: nb%5 == 0, Batch: Batch{Op: opid, Count: 4 * conc, Seed: nb}})
				}
			}
		}
	}
	// ... and long batches under pressure: groups of 8 requests bound at the same instant, 16 cores
	for _, opid := range []string{"getNested", "listNotes", "addNote", "postForm"} {
		nb++
		emit(Case{API: api, Conc: 16, Procs: 16, Via: "inproc", Gate: 8, Batch: Batch{Op: opid, Count: 2000, Seed: nb}})
		nb++
		emit(Case{API: api, Conc: 64, Procs: 16, Via: "http", Gate: 8, Batch: Batch{Op: opid, Count: 2000, Seed: nb}})
		// ... the long ones recorded by lean `call` events
		for _, gate := range []int{8, 4} {
			nb++
			emit(Case{API: api, Conc: 4 * gate, Procs: 16, Via: "inproc", Gate: gate, Batch: Batch{Op: opid, Count: batchSize(thorough), Seed: nb, Lean: true}})
		}
	}
}

func batchSize(thorough bool) int {
	if thorough {
		return 120000
	}
	return 50000
}

// ---- round 4 -----------------------------------------------------------------------------

// apiKeyed: operations protected by an apiKey scheme (header or query; plain or Ctx authenticator) that ALSO declare the key
// as an ordinary parameter of the same name and location, required or not - the handler must get it like any other.
func apiKeyed(base, in string, ctx, req bool) API {
	name := "X-Api-Key"
	if in == "query" {
		name = "api_key"
	}
	key := Param{Name: name, Loc: in, Kind: "scalar", Type: "string", Req: req}
	return API{Base: base, KeyIn: in, KeyName: name, KeyCtx: ctx, Ops: []Op{
		{ID: "getKeyed", Method: "GET", Template: []Seg{lit("keyed"), ph("id")}, Produces: []string{mJSON}, Success: 200, Secured: true,
			Params: []Param{sp("id", "path", "string"), key, sp("q", "query", "string"), sp("X-Hdr", "header", "string")}},
		{ID: "postKeyed", Method: "POST", Template: []Seg{lit("keyed")}, Consumes: mForm, Alt: []string{mMulti}, Produces: []string{mJSON}, Success: 201, Secured: true,
			Params: []Param{key, sp("f", "form", "string"), mp("multi", "query")}},
		{ID: "putKeyed", Method: "PUT", Template: []Seg{lit("keyed"), ph("id")}, Consumes: mJSON, Produces: []string{mJSON}, Success: 200, Secured: true,
			Params: []Param{sp("id", "path", "string"), key, {Name: "payload", Loc: "body", Kind: "body", Type: "object"}}},
		{ID: "openKeyed", Method: "GET", Template: []Seg{lit("open")}, Produces: []string{mJSON}, Success: 200,
			Params: []Param{key, sp("q", "query", "string")}},
	}}
}

func genRound4(c *drv.Ctx, emit func(Case)) {
	thorough := c.Tier == "thorough"

	// (xii) path values that spell a SIBLING placeholder of the template ("{sub}", also inside other text, doubled, and in the
	// escaped spelling "%7Bsub%7D"): substitution is one pass, a substituted value is never scanned again.  Every call is
	// made four times (the client keeps path parameters in a map).
	type tcase struct {
		api API
		op  string
	}
	for _, tc := range []tcase{{apiItems("/api", false), "formItem"}, {apiItems("/api", false), "delItem"}, {apiItems("/", false), "patchArr"},
		{apiRoot("/"), "rootAB"}, {apiRoot("/api"), "rootABC"}, {apiFiles("/api"), "getNested"}, {apiFiles("/api/v1"), "getDeep"}} {
		op := tc.api.op(tc.op)
		var pnames []string
		for _, p := range op.Params {
			if p.Loc == "path" {
				pnames = append(pnames, p.Name)
			}
		}
		for _, pn := range pnames {
			for _, qn := range pnames {
				texts := []string{"{" + qn + "}", "x{" + qn + "}y", "{" + qn + "}{" + qn + "}", "%7B" + qn + "%7D", "{" + qn, qn + "}"}
				if pn == qn {
					texts = texts[:2]
				}
				for ti, text := range texts {
					if !thorough && ti >= 4 && len(pnames) > 2 {
						continue
					}
					ov := map[string]Arg{pn: one(pn, text)}
					for _, other := range pnames {
						if other != pn {
							ov[other] = one(other, "val-"+other)
						}
					}
					st := mkStep(op, ov, "none", okResp, op.Consumes)
					emit(Case{API: tc.api, Steps: []Step{st, st, st, st}})
				}
			}
		}
		// every path parameter spells another one at once (a cycle)
		ov := map[string]Arg{}
		for i, pn := range pnames {
			ov[pn] = one(pn, "{"+pnames[(i+1)%len(pnames)]+"}")
		}
		st := mkStep(op, ov, "none", okResp, op.Consumes)
		emit(Case{API: tc.api, Steps: []Step{st, st, st, st}})
	}

	// (xiii) the apiKey of a secured operation is also a declared parameter: authenticated by the client's auth writer (the caller
	// sets the parameter to the same key), by a body-reading signing writer, or by the parameter alone
	for _, in := range []string{"header", "query"} {
		for _, ctx := range []bool{false, true} {
			for _, req := range []bool{false, true} {
				api := apiKeyed("/api", in, ctx, req)
				_, kname := api.key()
				var steps []Step
				for _, op := range api.Ops {
					for ai, auth := range []string{"apikey", "signing", "param"} {
						if !op.Secured && auth != "param" {
							continue
						}
						for _, media := range op.medias() {
							ov := map[string]Arg{kname: one(kname, secret), "q": one("q", hostileValues[(ai*5+len(op.ID))%len(hostileValues)])}
							st := mkStep(op, ov, auth, okResp, media)
							emit(Case{API: api, Shared: true, Steps: []Step{st}})
							steps = append(steps, st)
						}
					}
				}
				emit(Case{API: api, Steps: steps})
			}
		}
	}

	// (xiv) another Runtime of the application is created and its codec tables customised - before the session's Runtime
	// exists, and between its calls: the session's exchanges are not affected
	items := apiItems("/api", false)
	files := apiFiles("/api")
	for _, what := range []string{"envelope", "consumers", "delete", "swap"} {
		for _, pre := range []bool{false, true} {
			for _, ss := range []struct {
				api   API
				calls []Step
			}{
				{items, []Step{mkStep(items.op("putItem"), nil, "none", okResp, mJSON), mkStep(items.op("patchArr"), nil, "none", okResp, mJSON),
					mkStep(items.op("formItem"), nil, "none", okResp, mForm), mkStep(items.op("delItem"), nil, "none", okResp, ""), mkStep(items.op("putItem"), nil, "none", okResp, mJSON)}},
				{files, []Step{fcall{op: "addNote", media: mJSON}.step(files), fcall{op: "putNote", media: mText}.step(files), fcall{op: "addNote", media: mText}.step(files),
					fcall{op: "getDeep"}.step(files), fcall{op: "putNote", media: mJSON}.step(files)}},
			} {
				for at := 1; at < len(ss.calls); at += 2 {
					steps := append([]Step{}, ss.calls...)
					steps[at].Before = what
					if at+2 < len(steps) {
						steps[at+2].Before = what
					}
					cs := Case{API: ss.api, Steps: steps}
					if pre {
						cs.PreCustom = what
						if at > 1 {
							for i := range cs.Steps {
								cs.Steps[i].Before = ""
							}
						}
					}
					emit(cs)
				}
			}
		}
	}
}

// genOmissions: the caller supplies a SUBSET of an operation's optional parameters (none of them, all but one, only the query
// ones, only the body-side ones): what it supplies arrives, and the call completes.
func genOmissions(c *drv.Ctx, emit func(Case)) {
	for _, api := range []API{apiItems("/api", false), apiFiles("/api"), apiRoot("/"), apiItems("/api/v1", true)} {
		for _, op := range api.Ops {
			bodySide := func(p Param) bool {
				return p.Loc == "urlform" || p.Loc == "multiform" || p.Loc == "form" || p.Loc == "file" || p.Loc == "body"
			}
			var optional []int
			for i, p := range op.Params {
				if p.Loc != "path" && !p.Req {
					optional = append(optional, i)
				}
			}
			if len(optional) == 0 {
				continue
			}
			var subsets []map[int]bool // the omitted ones
			all, bodyOnly, otherOnly := map[int]bool{}, map[int]bool{}, map[int]bool{}
			for _, i := range optional {
				all[i] = true
				if bodySide(op.Params[i]) {
					bodyOnly[i] = true
				} else {
					otherOnly[i] = true
				}
				subsets = append(subsets, map[int]bool{i: true})
				but := map[int]bool{}
				for _, j := range optional {
					if j != i {
						but[j] = true
					}
				}
				subsets = append(subsets, but)
			}
			subsets = append(subsets, all, bodyOnly, otherOnly)
			for _, media := range op.medias() {
				var steps []Step
				for _, om := range subsets {
					if len(om) == 0 {
						continue
					}
					st := mkStep(op, nil, "none", okResp, media)
					for i := range st.Args {
						st.Args[i].Omit = om[i]
					}
					emit(Case{API: api, Shared: true, Steps: []Step{st}})
					steps = append(steps, st)
				}
				emit(Case{API: api, Steps: steps})
			}
		}
	}
}

// apiDefaults: collectionFormat multi arrays (query and formData) that DECLARE A DEFAULT in the description, next to the same
// arrays without one.  A default stands in for a parameter the caller did not supply; whatever list the caller does supply -
// also [""] - is what the handler gets.
func apiDefaults(base string) API {
	md := func(name, loc string, def ...string) Param {
		return Param{Name: name, Loc: loc, Kind: "multi", Type: "string", Def: def}
	}
	return API{Base: base, Ops: []Op{
		{ID: "getDefs", Method: "GET", Template: []Seg{lit("defs"), ph("id")}, Produces: []string{mJSON}, Success: 200,
			Params: []Param{sp("id", "path", "string"), md("tags", "query", "x", "y"), md("one", "query", "only"), md("none", "query"), mp("plain", "query")}},
		{ID: "postDefs", Method: "POST", Template: []Seg{lit("defs")}, Consumes: mForm, Alt: []string{mMulti}, Produces: []string{mJSON}, Success: 201,
			Params: []Param{md("ftags", "form", "p", "q"), md("fone", "form", ""), mp("fplain", "form"), md("tags", "query", "x", "y")}},
	}}
}

func genDefaults(c *drv.Ctx, emit func(Case)) {
	lists := [][]string{{""}, {"", ""}, {"a", ""}, {"", "a"}, {"a"}, {"x", "y"}, {"x"}, {" "}, {"", "", ""}}
	for _, base := range []string{"/api", "/"} {
		api := apiDefaults(base)
		for _, op := range api.Ops {
			var multis []string
			for _, p := range op.Params {
				if p.Kind == "multi" {
					multis = append(multis, p.Name)
				}
			}
			for _, media := range op.medias() {
				var steps []Step
				for li, l := range lists {
					// the list in every array at once, and in one array while the others are omitted
					all := map[string]Arg{}
					for _, n := range multis {
						all[n] = one(n, l...)
					}
					st := mkStep(op, all, "none", okResp, media)
					emit(Case{API: api, Shared: true, Steps: []Step{st}})
					steps = append(steps, st)
					for mi, n := range multis {
						if base != "/api" && (li+mi)%2 == 1 {
							continue
						}
						solo := mkStep(op, map[string]Arg{n: one(n, l...)}, "none", okResp, media)
						for i := range solo.Args {
							if a := solo.Args[i]; a.Name != n && a.Name != "id" {
								solo.Args[i].Omit = true
							}
						}
						emit(Case{API: api, Shared: true, Steps: []Step{solo}})
						steps = append(steps, solo)
					}
				}
				emit(Case{API: api, Steps: steps})
			}
		}
	}
}
