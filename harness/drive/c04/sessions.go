package c04

import (
	"strings"

	"verifharness/internal/drv"
)

func toValid(s string) string { return strings.ToValidUTF8(s, "?") }

// History on one server / one Runtime, and upload sources that are not at their start.
//
// apiFiles has what the single-call APIs lack:
//   - sibling templates /files/{name}, /files/{dir}/{name}, /files/{dir}/{sub}/{name} whose request paths
//     coincide once decoded when a value contains '/' ("a/b" vs "a","b");
//   - parameter-free operations (POST /notes, PUT /notes, POST /forms) that consume several media types,
//     called with one and then with another;
//   - a parameter-free upload (POST /uploads; /docs is the documentation UI of middleware.Serve).
func apiFiles(base string) API {
	return API{Base: base, Ops: []Op{
		{ID: "getFile", Method: "GET", Template: []Seg{lit("files"), ph("name")}, Produces: []string{mJSON}, Success: 200,
			Params: []Param{sp("name", "path", "string"), sp("q", "query", "string")}},
		{ID: "getNested", Method: "GET", Template: []Seg{lit("files"), ph("dir"), ph("name")}, Produces: []string{mJSON}, Success: 200,
			Params: []Param{sp("dir", "path", "string"), sp("name", "path", "string")}},
		{ID: "getDeep", Method: "GET", Template: []Seg{lit("files"), ph("dir"), ph("sub"), ph("name")}, Produces: []string{mText}, Success: 200,
			Params: []Param{sp("dir", "path", "string"), sp("sub", "path", "string"), sp("name", "path", "string")}},
		{ID: "addNote", Method: "POST", Template: []Seg{lit("notes")}, Consumes: mJSON, Alt: []string{mText}, Produces: []string{mJSON}, Success: 200,
			Params: []Param{sp("q", "query", "string"), {Name: "note", Loc: "body", Kind: "strbody", Type: "string"}}},
		{ID: "putNote", Method: "PUT", Template: []Seg{lit("notes")}, Consumes: mText, Alt: []string{mJSON}, Produces: []string{mJSON, mText}, Success: 200,
			Params: []Param{{Name: "note", Loc: "body", Kind: "strbody", Type: "string"}}},
		{ID: "listNotes", Method: "GET", Template: []Seg{lit("notes")}, Produces: []string{mJSON}, Success: 200,
			Params: []Param{sp("q", "query", "string"), mp("multi", "query")}},
		{ID: "postForm", Method: "POST", Template: []Seg{lit("forms")}, Consumes: mForm, Alt: []string{mMulti}, Produces: []string{mJSON}, Success: 201,
			Params: []Param{sp("f", "form", "string"), mp("fm", "form"), sp("fn", "form", "integer")}},
		{ID: "upDoc", Method: "POST", Template: []Seg{lit("uploads")}, Consumes: mMulti, Produces: []string{mJSON}, Success: 200,
			Params: []Param{sp("f", "multiform", "string"), {Name: "doc", Loc: "file", Kind: "file", Type: "file"}}},
	}}
}

func (a API) op(id string) Op {
	for _, o := range a.Ops {
		if o.ID == id {
			return o
		}
	}
	panic("no operation " + id)
}

func (o Op) medias() []string {
	if o.Consumes == "" {
		return []string{""}
	}
	return append([]string{o.Consumes}, o.Alt...)
}

var okResp = Resp{Mode: "responder", Code: 200, Len: 12, Seed: 3}

func one(name string, vs ...string) Arg { return Arg{Name: name, Vs: vs} }

// a call of apiFiles in short
type fcall struct {
	op    string
	media string
	args  []Arg
}

func (f fcall) step(api API) Step {
	op := api.op(f.op)
	ov := map[string]Arg{}
	for _, a := range f.args {
		ov[a.Name] = a
	}
	media := f.media
	if media == "" {
		media = op.Consumes
	}
	return mkStep(op, ov, "none", okResp, media)
}

func session(api API, calls ...fcall) Case {
	cs := Case{API: api}
	for _, f := range calls {
		cs.Steps = append(cs.Steps, f.step(api))
	}
	return cs
}

var noteTexts = []string{"first note", "say \"hi\"\\ \n2nd line", "\xc3\xa9\xe2\x98\x83 {\"a\":1}", "\"", "[1,2]", "null", " "}

var fileSrcs = []string{"reader", "memseek", "osfile", "typed"}

// offsets worth trying for a file of n bytes
func offsets(n int) []int {
	seen := map[int]bool{}
	var out []int
	for _, o := range []int{0, 1, n / 2, n - 1, n, 512, 513} {
		if o >= 0 && o <= n && !seen[o] {
			seen[o] = true
			out = append(out, o)
		}
	}
	return out
}

func genSessions(c *drv.Ctx, emit func(Case)) {
	thorough := c.Tier == "thorough"
	api := apiFiles("/api")

	// (v) upload sources: every kind of source x sizes around the sniffing window x offsets; alone on the shared
	// server, and as sessions of uploads of the same document at different positions
	lens := []int{0, 1, 5, 40, 48, 49, 511, 512, 513, 600, 70000}
	items := apiItems("/api", false)
	for _, src := range fileSrcs {
		for _, n := range lens {
			var steps []Step
			for oi, off := range offsets(n) {
				f := Arg{Name: "doc", FileName: []string{"doc.txt", "dir/d.bin", "q\"uote.txt"}[oi%3], Len: n, Seed: n + oi, Src: src, Off: off}
				st := mkStep(api.op("upDoc"), map[string]Arg{"doc": f}, "none", okResp, mMulti)
				emit(Case{API: api, Shared: true, Steps: []Step{st}})
				steps = append(steps, st)
				// two files in one request, the second from another kind of source
				f1, f2 := f, f
				f1.Name, f2.Name = "up", "up2"
				f2.Src, f2.Off = fileSrcs[(oi+1)%len(fileSrcs)], n-off
				up := items.op("uploadItem")
				emit(Case{API: items, Shared: true, Steps: []Step{mkStep(up, map[string]Arg{"up": f1, "up2": f2}, "none", okResp, mMulti)}})
			}
			emit(Case{API: api, Steps: steps})
		}
	}

	// (vi) one parameter-free operation called with every sequence of the media types it consumes
	for _, id := range []string{"addNote", "putNote", "postForm"} {
		op := api.op(id)
		ms := op.medias()
		for l := 2; l <= 3; l++ {
			total := 1
			for i := 0; i < l; i++ {
				total *= len(ms)
			}
			for code := 0; code < total; code++ {
				for variant := 0; variant < 2; variant++ {
					var calls []fcall
					x := code
					for i := 0; i < l; i++ {
						m := ms[x%len(ms)]
						x /= len(ms)
						var args []Arg
						if id == "postForm" {
							args = []Arg{one("f", hostileValues[(code+i+7*variant)%len(hostileValues)]), one("fm", "m1", "", "a&b=c"), one("fn", intValues[(code+i)%len(intValues)])}
						} else {
							args = []Arg{one("note", noteTexts[(code+i+3*variant)%len(noteTexts)])}
						}
						calls = append(calls, fcall{op: id, media: m, args: args})
					}
					emit(session(api, calls...))
				}
			}
		}
	}
	// the operations of /notes interleaved
	for i, seq := range [][]fcall{
		{{op: "addNote", media: mJSON}, {op: "putNote", media: mText}, {op: "addNote", media: mText}, {op: "putNote", media: mJSON}, {op: "listNotes"}},
		{{op: "putNote", media: mJSON}, {op: "listNotes"}, {op: "addNote", media: mText}, {op: "putNote", media: mText}, {op: "addNote", media: mJSON}},
		{{op: "listNotes"}, {op: "addNote", media: mText}, {op: "listNotes"}, {op: "addNote", media: mJSON}, {op: "upDoc"}, {op: "postForm", media: mMulti}, {op: "postForm", media: mForm}},
	} {
		for j := range seq {
			if seq[j].op == "addNote" || seq[j].op == "putNote" {
				seq[j].args = []Arg{one("note", noteTexts[(i+j)%len(noteTexts)])}
			}
		}
		emit(session(api, seq...))
	}

	// (vii) sibling templates: every ordered pair of calls from a pool whose decoded request paths collide
	names := []string{"a", "b", "a/b", "a%2Fb", "a/b/c", "b/c", "a/b%2Fc"}
	parts := []string{"a", "b", "a/b", "b/c", "a%2Fb"}
	if !thorough {
		names = names[:6]
		parts = parts[:4]
	}
	var pool []fcall
	for _, v := range names {
		pool = append(pool, fcall{op: "getFile", args: []Arg{one("name", v), one("q", "q-"+v)}})
	}
	for _, d := range parts {
		for _, v := range parts {
			pool = append(pool, fcall{op: "getNested", args: []Arg{one("dir", d), one("name", v)}})
		}
	}
	for _, t := range [][3]string{{"a", "b", "c"}, {"a/b", "c", "d"}, {"a", "b/c", "d"}, {"a", "b", "a/b"}} {
		pool = append(pool, fcall{op: "getDeep", args: []Arg{one("dir", t[0]), one("sub", t[1]), one("name", t[2])}})
	}
	for _, base := range []string{"/api", "/"} {
		fa := apiFiles(base)
		for i, x := range pool {
			for j, y := range pool {
				if i == j || (base == "/" && (i+j)%5 != 0 && !thorough) {
					continue
				}
				emit(session(fa, x, y))
			}
		}
	}
}

// randomSession is a seeded session of 2-6 calls on a server of its own: apiFiles with values built from few
// pieces (so that decoded paths collide and media types alternate), or the items API with random calls.
func randomSession(c *drv.Ctx, call func(API, Op, map[string]Arg, string, Resp) Case) Case {
	r := c.Rng
	n := 2 + r.Intn(5)
	if r.Intn(3) == 0 {
		// random calls of one items / root API (secured or not), one server
		first := randomCase(c, call)
		cs := Case{API: first.API, Steps: first.Steps}
		for tries := 0; len(cs.Steps) < n && tries < 40; tries++ {
			next := randomCase(c, call)
			if string(next.API.doc()) == string(cs.API.doc()) {
				cs.Steps = append(cs.Steps, next.Steps...)
			}
		}
		return cs
	}
	api := apiFiles([]string{"/api", "/", "/api/v1"}[r.Intn(3)])
	pieces := []string{"a", "b", "a/b", "b/c", "a%2Fb", "/", "a b", "c+d", "%", "a/b/c", "\xc3\xa9"}
	piece := func() string { return pieces[r.Intn(len(pieces))] }
	var calls []fcall
	for i := 0; i < n; i++ {
		switch r.Intn(9) {
		case 0, 1:
			calls = append(calls, fcall{op: "getFile", args: []Arg{one("name", piece()), one("q", piece())}})
		case 2, 3:
			calls = append(calls, fcall{op: "getNested", args: []Arg{one("dir", piece()), one("name", piece())}})
		case 4:
			calls = append(calls, fcall{op: "getDeep", args: []Arg{one("dir", piece()), one("sub", piece()), one("name", piece())}})
		case 5, 6:
			id := []string{"addNote", "putNote"}[r.Intn(2)]
			txt := noteTexts[r.Intn(len(noteTexts))]
			if r.Intn(3) == 0 {
				txt = "n" + toValid(randStr(c, 12, false))
			}
			calls = append(calls, fcall{op: id, media: []string{mJSON, mText}[r.Intn(2)], args: []Arg{one("note", txt), one("q", piece())}})
		case 7:
			calls = append(calls, fcall{op: "postForm", media: []string{mForm, mMulti}[r.Intn(2)],
				args: []Arg{one("f", randStr(c, 8, true)), one("fm", piece(), randStr(c, 5, true)), one("fn", intValues[r.Intn(len(intValues))])}})
		default:
			n := []int{0, 3, 40, 600, 5000}[r.Intn(5)]
			calls = append(calls, fcall{op: "upDoc", args: []Arg{one("f", piece()),
				{Name: "doc", FileName: "d" + piece(), Len: n, Seed: r.Intn(1 << 16), Src: fileSrcs[r.Intn(len(fileSrcs))], Off: r.Intn(n + 1)}}})
		}
	}
	cs := session(api, calls...)
	for i := range cs.Steps {
		cs.Steps[i].Debug = r.Intn(6) == 0
	}
	return cs
}
