// Package g04 drives the client's Accept header (growth check G04): the request built for an
// operation carries the operation's produces list as the values of its Accept header, unless
// the params writer or the auth writer set one; the same through every entry point
// (CreateHttpRequest, Submit, WithOpenTelemetry, WithOpenTracing) and for every operation of a
// history on one Runtime.  The TLA+ trace spec (TraceClientAccept) decides.
package g04

import (
	"context"
	"net/http"
	"strings"

	"github.com/go-openapi/runtime"
	"github.com/go-openapi/runtime/client"
	"github.com/go-openapi/strfmt"

	"verifharness/internal/drv"
	"verifharness/internal/trace"
)

type M = drv.M

func init() {
	drv.Register(&drv.Driver{Name: "g04", Generate: generate, Execute: execute})
}

// Setting is an optional list of Accept values set by a writer.
type Setting struct {
	Set bool
	Vs  []string
}

func (s Setting) JSON() [][]string {
	if !s.Set {
		return [][]string{}
	}
	return [][]string{trace.S(s.Vs)}
}

func settingFrom(v any) Setting {
	l := drv.List(v)
	if len(l) == 0 {
		return Setting{}
	}
	s := Setting{Set: true}
	for _, x := range drv.List(l[0]) {
		s.Vs = append(s.Vs, drv.Str(x))
	}
	return s
}

type Step struct {
	Produces []string
	PSet     Setting // params writer
	ASet     Setting // auth writer ...
	DefAuth  bool    // ... installed as Runtime.DefaultAuthentication instead of the operation's AuthInfo
}

type Case struct{ Steps []Step }

func (c Case) JSON() M {
	steps := make([]M, 0, len(c.Steps))
	for _, s := range c.Steps {
		steps = append(steps, M{"produces": trace.S(s.Produces), "pset": s.PSet.JSON(), "aset": s.ASet.JSON(), "defauth": s.DefAuth})
	}
	return M{"steps": steps}
}

func caseFrom(d M) Case {
	var c Case
	for _, sv := range drv.List(d["steps"]) {
		m := drv.Map(sv)
		st := Step{PSet: settingFrom(m["pset"]), ASet: settingFrom(m["aset"]), DefAuth: drv.Bool(m["defauth"])}
		for _, p := range drv.List(m["produces"]) {
			st.Produces = append(st.Produces, drv.Str(p))
		}
		c.Steps = append(c.Steps, st)
	}
	return c
}

// recorder notes the request that is really sent.
type recorder struct{ last *http.Request }

func (u *recorder) RoundTrip(req *http.Request) (*http.Response, error) {
	u.last = req
	return &http.Response{StatusCode: http.StatusNoContent, Status: "204 No Content", Proto: "HTTP/1.1", ProtoMajor: 1, ProtoMinor: 1,
		Header: http.Header{}, Body: http.NoBody, Request: req}, nil
}

var entries = []string{"create", "submit", "otel", "opentracing"}

func acceptWriter(s Setting) runtime.ClientAuthInfoWriter {
	return runtime.ClientAuthInfoWriterFunc(func(r runtime.ClientRequest, _ strfmt.Registry) error {
		return r.SetHeaderParam("Accept", s.Vs...)
	})
}

func build(rt *client.Runtime, rec *recorder, st Step, entry string) (vals []string, failed bool) {
	defer func() {
		if e := recover(); e != nil {
			vals, failed = nil, true
		}
	}()
	op := &runtime.ClientOperation{ID: "op", Method: "GET", PathPattern: "/x", ProducesMediaTypes: st.Produces,
		Params: runtime.ClientRequestWriterFunc(func(r runtime.ClientRequest, _ strfmt.Registry) error {
			if st.PSet.Set {
				return r.SetHeaderParam("accept", st.PSet.Vs...) // any spelling: header names are canonicalised
			}
			return nil
		}),
		Reader: runtime.ClientResponseReaderFunc(func(runtime.ClientResponse, runtime.Consumer) (any, error) { return nil, nil })}
	rt.DefaultAuthentication = nil
	if st.ASet.Set {
		if st.DefAuth {
			rt.DefaultAuthentication = acceptWriter(st.ASet)
		} else {
			op.AuthInfo = acceptWriter(st.ASet)
		}
	}
	var req *http.Request
	var err error
	if entry == "create" {
		req, err = rt.CreateHttpRequest(op)
	} else {
		op.Context = context.Background()
		var tr runtime.ClientTransport = rt
		switch entry {
		case "otel":
			tr = rt.WithOpenTelemetry()
		case "opentracing":
			tr = rt.WithOpenTracing()
		}
		rec.last = nil
		_, err = tr.Submit(op)
		req = rec.last
	}
	if err != nil || req == nil {
		return nil, true
	}
	return append([]string{}, req.Header.Values("Accept")...), false
}

func execute(c *drv.Ctx, d M) bool {
	cs := caseFrom(d)
	rt := client.New("h:1", "/api", []string{"http"})
	rec := &recorder{}
	rt.Transport = rec
	nt := false
	for si, st := range cs.Steps {
		var seen [][]string
		failed := false
		for _, e := range entries {
			v, f := build(rt, rec, st, e)
			failed = failed || f
			key := strings.Join(v, "\x00")
			dup := false
			for _, s := range seen {
				if strings.Join(s, "\x00") == key && len(s) == len(v) {
					dup = true
				}
			}
			if !dup {
				seen = append(seen, trace.S(v))
			}
		}
		c.W.Event("accept", M{"step": si + 1, "err": failed, "obs": seen})
		nt = nt || len(st.Produces) > 0 || st.PSet.Set || st.ASet.Set
	}
	return nt
}

var medias = []string{"application/json", "text/plain", "application/xml; q=0.5", "application/octet-stream", "*/*", "text/csv;header=present"}

func generate(c *drv.Ctx) {
	settings := []Setting{{}, {Set: true}, {Set: true, Vs: []string{"x/p"}}, {Set: true, Vs: []string{"x/p", "x/q; q=0.1"}}}
	// produces lists: all sequences up to length 2 over the pool, plus longer ones
	lists := [][]string{nil}
	for _, a := range medias {
		lists = append(lists, []string{a})
		for _, b := range medias {
			lists = append(lists, []string{a, b})
		}
	}
	lists = append(lists, medias, []string{"text/plain", "text/plain", "application/json"})
	n := 0
	for _, p := range lists {
		for _, ps := range settings {
			for _, as := range settings {
				for _, def := range []bool{false, true} {
					if def && !as.Set {
						continue
					}
					// a history: the operation, then one with other produces and no writers, then the operation again
					c.Case(Case{Steps: []Step{{Produces: p, PSet: ps, ASet: as, DefAuth: def}, {Produces: lists[(n+7)%len(lists)]}, {Produces: p, PSet: ps, ASet: as, DefAuth: def}}}.JSON())
					n++
				}
			}
		}
	}
	c.Extra["exhaustive_cases"] = n
	nr := 500
	if c.Tier == "thorough" {
		nr = 10000
	}
	for i := 0; i < nr; i++ {
		var cs Case
		for k, m := 0, 1+c.Rng.Intn(5); k < m; k++ {
			st := Step{PSet: settings[c.Rng.Intn(len(settings))], ASet: settings[c.Rng.Intn(len(settings))], DefAuth: c.Rng.Intn(2) == 0}
			for j, l := 0, c.Rng.Intn(5); j < l; j++ {
				st.Produces = append(st.Produces, medias[c.Rng.Intn(len(medias))])
			}
			cs.Steps = append(cs.Steps, st)
		}
		c.Case(cs.JSON())
	}
}
