// Package c05 drives the real denco router for property C05.
package c05

import (
	"fmt"
	"net/http"
	"net/http/httptest"
	"net/url"
	"sort"
	"strings"

	"github.com/go-openapi/runtime/middleware/denco"

	"verifharness/internal/drv"
	"verifharness/internal/trace"
)

type M = drv.M

func init() {
	drv.Register(&drv.Driver{Name: "c05", Generate: generate, Execute: execute})
}

// ---- abstract patterns -----------------------------------------------------

// Tok is a pattern token.
type Tok struct {
	K string // lit | param | wild
	S string // literal bytes
	N string // placeholder name
}

type Pat []Tok

func (p Pat) Key() string {
	var b strings.Builder
	for _, t := range p {
		switch t.K {
		case "lit":
			b.WriteString(t.S)
		case "param":
			b.WriteString(":" + t.N)
		case "wild":
			b.WriteString("*" + t.N)
		}
	}
	return b.String()
}

func (p Pat) Shape() string {
	var b strings.Builder
	for _, t := range p {
		switch t.K {
		case "lit":
			b.WriteString(t.S)
		case "param":
			b.WriteString(":")
		case "wild":
			b.WriteString("*")
		}
	}
	return b.String()
}

func (p Pat) HasPlaceholder() bool {
	for _, t := range p {
		if t.K != "lit" {
			return true
		}
	}
	return false
}

func (p Pat) DupNames() bool {
	seen := map[string]bool{}
	for _, t := range p {
		if t.K != "lit" {
			if seen[t.N] {
				return true
			}
			seen[t.N] = true
		}
	}
	return false
}

func (p Pat) JSON() []M {
	out := make([]M, 0, len(p))
	for _, t := range p {
		out = append(out, M{"k": t.K, "s": trace.B(t.S), "n": t.N})
	}
	return out
}

func patFromJSON(v any) Pat {
	var p Pat
	for _, e := range drv.List(v) {
		m := drv.Map(e)
		p = append(p, Tok{K: drv.Str(m["k"]), S: trace.Str(m["s"]), N: drv.Str(m["n"])})
	}
	return p
}

// segs -> pattern; a segment spec is "lit", ":name", "*name" or "lit=:name".
func mkPat(segs []string, trailing bool) Pat {
	var p Pat
	lit := func(s string) {
		if n := len(p); n > 0 && p[n-1].K == "lit" {
			p[n-1].S += s
		} else {
			p = append(p, Tok{K: "lit", S: s})
		}
	}
	for _, s := range segs {
		lit("/")
		switch {
		case strings.HasPrefix(s, ":"):
			p = append(p, Tok{K: "param", N: s[1:]})
		case strings.HasPrefix(s, "*"):
			p = append(p, Tok{K: "wild", N: s[1:]})
		case strings.Contains(s, "=:"):
			i := strings.Index(s, "=:")
			lit(s[:i+1])
			p = append(p, Tok{K: "param", N: s[i+2:]})
		default:
			lit(s)
		}
	}
	if trailing {
		lit("/")
	}
	return p
}

// ---- generation ------------------------------------------------------------

func pool(mid, last []string, maxSegs int) []Pat {
	var out []Pat
	var rec func(prefix []string, n int)
	rec = func(prefix []string, n int) {
		for _, s := range last {
			segs := append(append([]string{}, prefix...), s)
			p := mkPat(segs, false)
			out = append(out, p)
			if !strings.HasPrefix(s, "*") {
				out = append(out, mkPat(segs, true))
			}
		}
		if n > 1 {
			for _, s := range mid {
				rec(append(append([]string{}, prefix...), s), n-1)
			}
		}
	}
	rec(nil, maxSegs)
	return out
}

func allPaths(alpha string, maxLen int) []string {
	out := []string{""}
	level := []string{""}
	for l := 1; l <= maxLen; l++ {
		var next []string
		for _, p := range level {
			for i := 0; i < len(alpha); i++ {
				next = append(next, p+string(alpha[i]))
			}
		}
		out = append(out, next...)
		level = next
	}
	return out
}

func desc(pats []Pat, orders [][]int, paths []string) M {
	return descEnum(pats, orders, paths, "", 0)
}

// descEnum: besides the explicit paths, every path of length <= pmax over palpha is looked up.
func descEnum(pats []Pat, orders [][]int, paths []string, palpha string, pmax int) M {
	recs := make([]M, len(pats))
	for i, p := range pats {
		recs[i] = M{"pat": p.JSON(), "value": i + 1}
	}
	return M{"kind": "table", "records": recs, "orders": orders, "paths": trace.BB(paths), "palpha": trace.B(palpha), "pmax": pmax}
}

func perms(n int) [][]int {
	if n == 0 {
		return [][]int{{}}
	}
	var out [][]int
	var rec func(cur []int, used []bool)
	rec = func(cur []int, used []bool) {
		if len(cur) == n {
			out = append(out, append([]int{}, cur...))
			return
		}
		for i := 0; i < n; i++ {
			if !used[i] {
				used[i] = true
				rec(append(cur, i), used)
				used[i] = false
			}
		}
	}
	rec(nil, make([]bool, n))
	return out
}

func shapeDistinct(ps []Pat) bool {
	seen := map[string]bool{}
	for _, p := range ps {
		if seen[p.Shape()] {
			return false
		}
		seen[p.Shape()] = true
	}
	return true
}

func generate(c *drv.Ctx) {
	thorough := c.Tier == "thorough"
	// (i) exhaustive small scope
	var pl []Pat
	var paths []string
	var palpha string
	var pmax int
	if thorough {
		pl = pool([]string{"a", "b", ":x", ":y"}, []string{"a", "b", ":x", ":y", "*w"}, 2)
		palpha, pmax = "ab/:*#", 4
	} else {
		pl = pool([]string{"a", "b", ":x"}, []string{"a", "b", ":x", "*w"}, 2)
		palpha, pmax = "ab/:#", 4
	}
	paths = allPaths(palpha, pmax)
	var good []Pat
	for _, p := range pl {
		if !p.DupNames() {
			good = append(good, p)
		}
	}
	nExh := 0
	for i := range good {
		c.Case(descEnum([]Pat{good[i]}, perms(1), nil, palpha, pmax))
		nExh++
		for j := i + 1; j < len(good); j++ {
			if !shapeDistinct([]Pat{good[i], good[j]}) {
				continue
			}
			c.Case(descEnum([]Pat{good[i], good[j]}, perms(2), nil, palpha, pmax))
			nExh++
		}
	}
	c.Extra["exhaustive_tables"] = nExh
	c.Extra["exhaustive_paths_per_table"] = len(paths)
	// triples: seeded sample of the 3-record tables with all 6 orders
	pl3 := pool([]string{"a", "ab", "b", ":x", ":y"}, []string{"a", "ab", "b", ":x", ":y", "*w", "a=:x"}, 3)
	var good3 []Pat
	for _, p := range pl3 {
		if !p.DupNames() {
			good3 = append(good3, p)
		}
	}
	nTri := 300
	if thorough {
		nTri = 3000
	}
	for n := 0; n < nTri; n++ {
		ps := []Pat{good3[c.Rng.Intn(len(good3))], good3[c.Rng.Intn(len(good3))], good3[c.Rng.Intn(len(good3))]}
		if !shapeDistinct(ps) {
			continue
		}
		// paths: all short ones plus instantiations/mutations
		pp := []string{}
		for k := 0; k < 40; k++ {
			pp = append(pp, mutate(c, instantiate(c, ps[c.Rng.Intn(3)], "ab/:*#=")))
		}
		c.Case(descEnum(ps, perms(3), pp, "ab/:*#=", 3))
	}
	// (ii) seeded random large tables
	nBig, maxRecs, nLook := 12, 300, 60
	if thorough {
		nBig, maxRecs, nLook = 60, 3000, 120
	}
	for n := 0; n < nBig; n++ {
		size := 1 + c.Rng.Intn(maxRecs)
		if n%3 == 0 {
			size = 1 + c.Rng.Intn(12)
		}
		ps := randomTable(c, size)
		var pp []string
		for k := 0; k < nLook; k++ {
			base := instantiate(c, ps[c.Rng.Intn(len(ps))], "abcxyz019-_.~:*#=%é")
			switch c.Rng.Intn(4) {
			case 0:
				pp = append(pp, base)
			case 1:
				pp = append(pp, mutate(c, base))
			case 2:
				pp = append(pp, mutate(c, mutate(c, base)))
			default:
				b := make([]byte, c.Rng.Intn(12))
				for i := range b {
					b[i] = byte(c.Rng.Intn(256))
				}
				pp = append(pp, "/"+string(b))
			}
		}
		orders := [][]int{}
		id := make([]int, len(ps))
		for i := range id {
			id[i] = i
		}
		orders = append(orders, append([]int{}, id...))
		rev := make([]int, len(ps))
		for i := range id {
			rev[i] = len(ps) - 1 - i
		}
		orders = append(orders, rev)
		for k := 0; k < 2; k++ {
			o := append([]int{}, id...)
			c.Rng.Shuffle(len(o), func(i, j int) { o[i], o[j] = o[j], o[i] })
			orders = append(orders, o)
		}
		c.Case(desc(ps, orders, pp))
	}
	// (v) reserved-byte probes: many small/medium tables, and for every record the paths obtained by
	// putting a reserved byte right after each literal prefix / at the end of an instantiation
	// (a '#' after a literal tail reaches the termination edge of the trie, whose slot layout is table-dependent)
	nProbe := 400
	if thorough {
		nProbe = 6000
	}
	for n := 0; n < nProbe; n++ {
		ps := randomTable(c, 2+c.Rng.Intn(9))
		var pp []string
		for _, p := range ps {
			inst := instantiate(c, p, "abxq19")
			for _, rb := range []string{"#", ":", "*"} {
				pp = append(pp, inst+rb)
				cut := c.Rng.Intn(len(inst) + 1)
				pp = append(pp, inst[:cut]+rb+inst[cut:], inst[:cut]+rb)
			}
			pp = append(pp, inst)
		}
		orders := [][]int{make([]int, len(ps)), make([]int, len(ps))}
		for i := range ps {
			orders[0][i] = i
			orders[1][i] = len(ps) - 1 - i
		}
		c.Case(desc(ps, orders, pp))
	}
	// (iv) the http.Handler built by Mux.Build: per-method tables, URL.Path lookups, NotFound
	nMux := 40
	if thorough {
		nMux = 400
	}
	methods := []string{"GET", "POST", "PUT", "HEAD"}
	for n := 0; n < nMux; n++ {
		ps := randomTable(c, 2+c.Rng.Intn(10))
		var hs []M
		for i, p := range ps {
			hs = append(hs, M{"method": methods[c.Rng.Intn(3)], "pat": p.JSON(), "value": i + 1})
		}
		var reqs []M
		for k := 0; k < 30; k++ {
			path := instantiate(c, ps[c.Rng.Intn(len(ps))], "abcxyz019-_.~:*#=")
			if c.Rng.Intn(3) == 0 {
				path = mutate(c, path)
			}
			reqs = append(reqs, M{"method": methods[c.Rng.Intn(len(methods))], "path": trace.B(path)})
		}
		c.Case(M{"kind": "mux", "handlers": hs, "reqs": reqs})
	}
	// (vi) twins, exhaustively small: every order of 2-3 patterns that differ only in placeholder names
	for _, tw := range [][][]string{
		{{":x"}, {":y"}}, {{"a", ":x"}, {"a", ":y"}}, {{":x", "b"}, {":y", "b"}, {":z", "c"}},
		{{"v1", ":project", "builds"}, {"v1", ":team", "builds"}}, {{":a", ":b"}, {":c", ":d"}, {":e", "x"}},
		{{"f", "*w"}, {"f", "*v"}},
	} {
		var ps []Pat
		for _, segs := range tw {
			ps = append(ps, mkPat(segs, false))
		}
		c.Case(descEnum(ps, perms(len(ps)), []string{"/v1/acme/builds", "/a/q", "/q/b", "/q/c", "/f/a/b"}, "ab/x", 3))
	}
	// (iv) NUL bytes: in static patterns (served from a map, accepted), in parameterised patterns (Build must reject:
	// CHECK 0 marks the unused slots of the double-array, D55), and in looked-up paths at literal and parameter positions
	nulPaths := []string{"/a\x00b", "/a/\x00", "/\x00", "\x00", "/a/\x00b", "/a/b\x00", "/a/\x00/b", "/\x00/ab", "/a\x00/q", "/q/a\x00b", "/a/q\x00"}
	c.Case(desc([]Pat{mkPat([]string{"a\x00b"}, false), mkPat([]string{"a", ":x"}, false), mkPat([]string{":y", "ab"}, false)}, perms(3), nulPaths))
	c.Case(desc([]Pat{mkPat([]string{"a", ":x", "b"}, false), mkPat([]string{":x", ":y", "ab"}, false), mkPat([]string{"b", ""}, false), mkPat([]string{":y", "ab", "ab"}, false)}, perms(4),
		append([]string{"/=a/ab/\x00ab", "/a/ab/\x00ab", "/a/\x00/b", "/a/q/\x00b"}, nulPaths...)))
	c.Case(desc([]Pat{mkPat([]string{"\x00", ":x"}, false), mkPat([]string{"a"}, false)}, perms(2), []string{"/\x00/q", "/a"}))
	c.Case(desc([]Pat{mkPat([]string{"a\x00b", ":x"}, false), mkPat([]string{"a"}, false)}, perms(2), []string{"/a\x00b/q", "/a"}))
	c.Case(desc([]Pat{mkPat([]string{"f", "*w"}, false), mkPat([]string{"n\x00", "*v"}, false)}, perms(2), []string{"/f/a", "/n\x00/a"}))
	// (iii) tables Build must reject: duplicate parameter names
	for _, segs := range [][]string{{":x", ":x"}, {"a", ":x", "b", ":x"}, {":x", "*x"}} {
		c.Case(desc([]Pat{mkPat(segs, false), mkPat([]string{"a"}, false)}, perms(2), []string{"/a"}))
	}
}

var words = []string{"a", "b", "ab", "ba", "users", "user", "pets", "pet", "v1", "v2", "items", "item", "x", "y", "z", "list", "get", "a-b", "a_b", "a.b", "1", "10",
	"caf\xc3\xa9", "raw\xe9", "\xe9", "\xc3", "s", "k"}
var names = []string{"id", "name", "x", "y", "z", "k", "petId", "uid"}

func randomTable(c *drv.Ctx, size int) []Pat {
	// every 4th table may contain "twins": patterns that differ only in placeholder names (Build accepts
	// them; whichever it serves, every insertion order must serve the same one)
	twins := c.Rng.Intn(4) == 0
	seen := map[string]bool{}
	var out []Pat
	for tries := 0; len(out) < size && tries < size*20; tries++ {
		nseg := 1 + c.Rng.Intn(5)
		var segs []string
		used := map[string]bool{}
		// share prefixes with an existing pattern half of the time
		for s := 0; s < nseg; s++ {
			r := c.Rng.Intn(10)
			pick := func() string {
				for {
					n := names[c.Rng.Intn(len(names))]
					if !used[n] {
						used[n] = true
						return n
					}
				}
			}
			switch {
			case r < 5:
				segs = append(segs, words[c.Rng.Intn(len(words))])
			case r < 8:
				segs = append(segs, ":"+pick())
			case r == 8 && s == nseg-1:
				segs = append(segs, "*"+pick())
			case r == 9:
				segs = append(segs, words[c.Rng.Intn(len(words))]+"=:"+pick())
			default:
				segs = append(segs, words[c.Rng.Intn(6)])
			}
		}
		last := segs[len(segs)-1]
		p := mkPat(segs, !strings.HasPrefix(last, "*") && c.Rng.Intn(6) == 0)
		id := p.Shape()
		if twins {
			id = p.Key()
		}
		if seen[id] {
			continue
		}
		seen[id] = true
		out = append(out, p)
		if twins && p.HasPlaceholder() && c.Rng.Intn(3) == 0 && len(out) < size {
			// add a twin: same shape, other placeholder names
			q := append(Pat{}, p...)
			for i := range q {
				if q[i].K != "lit" {
					q[i].N = q[i].N + "2"
				}
			}
			if !seen[q.Key()] {
				seen[q.Key()] = true
				out = append(out, q)
			}
		}
	}
	sort.Slice(out, func(i, j int) bool { return out[i].Key() < out[j].Key() })
	return out
}

func instantiate(c *drv.Ctx, p Pat, alpha string) string {
	var b strings.Builder
	text := func(allowSlash bool) string {
		n := 1 + c.Rng.Intn(3)
		if c.Rng.Intn(12) == 0 {
			n = 0
		}
		t := make([]byte, 0, n)
		for i := 0; i < n; i++ {
			ch := alpha[c.Rng.Intn(len(alpha))]
			if ch == '/' && !allowSlash {
				ch = 'q'
			}
			t = append(t, ch)
		}
		if allowSlash && c.Rng.Intn(2) == 0 {
			t = append(t, '/', 'r')
		}
		return string(t)
	}
	for _, t := range p {
		switch t.K {
		case "lit":
			b.WriteString(t.S)
		case "param":
			b.WriteString(text(false))
		case "wild":
			b.WriteString(text(true))
		}
	}
	return b.String()
}

func mutate(c *drv.Ctx, s string) string {
	b := []byte(s)
	const inject = "/:*#=ab\x00\x00\x01\xff"
	switch c.Rng.Intn(5) {
	case 0:
		if len(b) > 0 {
			i := c.Rng.Intn(len(b))
			b = append(b[:i], b[i+1:]...)
		}
	case 1:
		i := c.Rng.Intn(len(b) + 1)
		b = append(b[:i], append([]byte{inject[c.Rng.Intn(len(inject))]}, b[i:]...)...)
	case 2:
		if len(b) > 0 {
			b[c.Rng.Intn(len(b))] = inject[c.Rng.Intn(len(inject))]
		}
	case 3:
		b = append(b, '/')
	case 4:
		if len(b) > 0 {
			b = b[:c.Rng.Intn(len(b))]
		}
	}
	return string(b)
}

// ---- execution -------------------------------------------------------------

type obs struct {
	found bool
	value int
	names []string
	texts []string
	panic bool
}

func (o obs) JSON() M {
	return M{"found": o.found, "value": o.value, "names": trace.S(o.names), "texts": trace.BB(o.texts), "panic": o.panic}
}

func lookup(r *denco.Router, path string) (o obs) {
	defer func() {
		if e := recover(); e != nil {
			o = obs{panic: true, names: []string{}, texts: []string{}}
		}
	}()
	data, params, found := r.Lookup(path)
	o.found = found
	o.names, o.texts = []string{}, []string{}
	if found {
		o.value = data.(int)
		for _, p := range params {
			o.names = append(o.names, p.Name)
			o.texts = append(o.texts, p.Value)
		}
	}
	return o
}

// caseIndex derives a stable small number from the case descriptor (its number of records, orders and paths).
func caseIndex(d M) int {
	return len(drv.List(d["records"])) + len(drv.List(d["orders"])) + len(drv.List(d["paths"]))
}

func execute(c *drv.Ctx, d M) bool {
	if drv.Str(d["kind"]) == "mux" {
		return executeMux(c, d)
	}
	var pats []Pat
	var vals []int
	for _, r := range drv.List(d["records"]) {
		m := drv.Map(r)
		pats = append(pats, patFromJSON(m["pat"]))
		vals = append(vals, drv.Int(m["value"]))
	}
	var routers []*denco.Router
	buildErr := false
	orders := drv.List(d["orders"])
	// the public SizeHint field: besides the default, the first order is also built with explicit hints
	// below / at / above the number of placeholders
	hints := []int{-1}
	for range orders[1:] {
		hints = append(hints, -1)
	}
	if len(orders) > 0 && len(pats) <= 64 {
		for _, h := range []int{0, 1, 3} {
			orders = append(orders, orders[0])
			hints = append(hints, h)
		}
	}
	// the caller's records: every second case hands one and the same []Record (permuted in place) to every Build,
	// as a caller comparing insertion orders or rebuilding after a reconfiguration does; the other cases hand a
	// fresh slice to each Build.  Build must not depend on what an earlier Build did with its argument.
	shared := caseIndex(d)%2 == 0
	var backing []denco.Record
	for oi, o := range orders {
		var recs []denco.Record
		if shared && oi > 0 {
			// permute in place the very records the previous Build was given
			prev := map[int]denco.Record{}
			for _, rec := range backing {
				prev[rec.Value.(int)] = rec
			}
			recs = backing[:0]
			for _, i := range drv.List(o) {
				recs = append(recs, prev[vals[drv.Int(i)]])
			}
		} else {
			for _, i := range drv.List(o) {
				k := drv.Int(i)
				recs = append(recs, denco.NewRecord(pats[k].Key(), vals[k]))
			}
		}
		backing = recs
		r := denco.New()
		if hints[oi] >= 0 {
			r.SizeHint = hints[oi]
		}
		err := func() (err error) {
			defer func() {
				if e := recover(); e != nil {
					err = fmt.Errorf("panic: %v", e)
				}
			}()
			return r.Build(recs)
		}()
		if err != nil {
			buildErr = true
		}
		routers = append(routers, r)
	}
	c.W.Event("build", M{"err": buildErr})
	if buildErr {
		return true
	}
	hasParam := false
	for _, p := range pats {
		if p.HasPlaceholder() {
			hasParam = true
		}
	}
	interesting := false
	var paths []string
	for _, pv := range drv.List(d["paths"]) {
		paths = append(paths, trace.Str(pv))
	}
	if pmax := drv.Int(d["pmax"]); pmax > 0 {
		paths = append(paths, allPaths(trace.Str(d["palpha"]), pmax)...)
	}
	// results retained by the caller: the Params a lookup returned must keep their text whatever is looked up later
	type kept struct {
		path   string
		params []denco.Params
		datas  []interface{}
		founds []bool
	}
	var retained []kept
	for pi, path := range paths {
		var os []M
		for _, r := range routers {
			o := lookup(r, path)
			if len(o.texts) > 0 || !o.found {
				interesting = true
			}
			os = append(os, o.JSON())
		}
		c.W.Event("lookup", M{"path": trace.B(path), "obs": os})
		if pi%7 == 0 && len(retained) < 24 {
			k := kept{path: path}
			func() {
				defer func() { _ = recover() }()
				for _, r := range routers {
					data, ps, found := r.Lookup(path)
					k.params, k.datas, k.founds = append(k.params, ps), append(k.datas, data), append(k.founds, found)
				}
				retained = append(retained, k)
			}()
		}
	}
	for _, k := range retained {
		var os []M
		for i := range k.params {
			o := obs{found: k.founds[i], names: []string{}, texts: []string{}}
			if o.found {
				o.value, _ = k.datas[i].(int)
				for _, p := range k.params[i] {
					o.names = append(o.names, p.Name)
					o.texts = append(o.texts, p.Value)
				}
			}
			os = append(os, o.JSON())
		}
		// the retained result is validated like a fresh lookup of the same path
		c.W.Event("lookup", M{"path": trace.B(k.path), "obs": os})
	}
	return hasParam && interesting
}

// executeMux serves requests through the http.Handler that denco.Mux builds.
func executeMux(c *drv.Ctx, d M) bool {
	mux := denco.NewMux()
	var hs []denco.Handler
	type seen struct {
		value int
		names []string
		texts []string
	}
	var cur *seen
	for _, hv := range drv.List(d["handlers"]) {
		m := drv.Map(hv)
		v := drv.Int(m["value"])
		hs = append(hs, mux.Handler(drv.Str(m["method"]), patFromJSON(m["pat"]).Key(), func(w http.ResponseWriter, r *http.Request, ps denco.Params) {
			cur = &seen{value: v, names: []string{}, texts: []string{}}
			for _, p := range ps {
				cur.names = append(cur.names, p.Name)
				cur.texts = append(cur.texts, p.Value)
			}
		}))
	}
	h, err := mux.Build(hs)
	c.W.Event("build", M{"err": err != nil})
	if err != nil {
		return true
	}
	for _, rv := range drv.List(d["reqs"]) {
		m := drv.Map(rv)
		method, path := drv.Str(m["method"]), trace.Str(m["path"])
		cur = nil
		o := obs{names: []string{}, texts: []string{}}
		rec := httptest.NewRecorder()
		func() {
			defer func() {
				if e := recover(); e != nil {
					o.panic = true
				}
			}()
			h.ServeHTTP(rec, &http.Request{Method: method, URL: &url.URL{Path: path}, Header: http.Header{}})
		}()
		if cur != nil {
			o.found, o.value, o.names, o.texts = true, cur.value, cur.names, cur.texts
		}
		c.W.Event("serve", M{"method": method, "path": trace.B(path), "status": rec.Code, "obs": o.JSON()})
	}
	return true
}
