// Package c15 drives the built-in codecs (property C15): byte-stream and text
// consumers/producers over scripted readers/writers and every destination /
// source kind (Part A of specs/Codecs.tla), and the produce->consume round
// trip of the JSON, XML, YAML, text and byte-stream codecs over the value
// grammar enumerated by TLC (Part B).  The cases come from specs/GenCodecs.tla
// plus seeded random large ones.  The driver only renders the abstract case,
// executes the real codec and records what it observably did.
package c15

import (
	"bufio"
	"bytes"
	"context"
	"encoding/json"
	"encoding/xml"
	"errors"
	"fmt"
	"io"
	"math/rand"
	"net/http"
	"os"
	"sort"
	"strconv"
	"strings"
	"time"

	"github.com/go-openapi/runtime"
	"github.com/go-openapi/runtime/yamlpc"

	"verifharness/drive/streamkit"
	"verifharness/internal/drv"
	"verifharness/internal/trace"
)

type M = drv.M

func init() {
	drv.Register(&drv.Driver{Name: "c15", Generate: generate, Execute: execute})
}

// ---- instrumented payload / destination types --------------------------------

var (
	errU = errors.New("c15: unmarshaler refuses")
	errM = errors.New("c15: marshaler refuses")
)

type myString string
type myBytes []byte

// sinkRF implements io.ReaderFrom only.
type sinkRF struct {
	got []byte
	via string
}

func readFrom(got *[]byte, r io.Reader) (int64, error) {
	buf := make([]byte, 512)
	var n int64
	for i := 0; i < 1<<22; i++ {
		m, err := r.Read(buf)
		*got = append(*got, buf[:m]...)
		n += int64(m)
		if err == io.EOF {
			return n, nil
		}
		if err != nil {
			return n, err
		}
	}
	return n, io.ErrNoProgress
}

func (s *sinkRF) ReadFrom(r io.Reader) (int64, error) { s.via = "ReadFrom"; return readFrom(&s.got, r) }

// sinkRFW implements io.ReaderFrom and io.Writer.
type sinkRFW struct {
	got []byte
	via string
}

func (s *sinkRFW) ReadFrom(r io.Reader) (int64, error) {
	s.via = "ReadFrom"
	return readFrom(&s.got, r)
}
func (s *sinkRFW) Write(p []byte) (int, error) {
	s.via = "Write"
	s.got = append(s.got, p...)
	return len(p), nil
}

type binU struct {
	got  []byte
	fail bool
}

func (b *binU) UnmarshalBinary(p []byte) error {
	if b.fail {
		return errU
	}
	b.got = append([]byte{}, p...)
	return nil
}

type textU struct {
	got  []byte
	fail bool
}

func (b *textU) UnmarshalText(p []byte) error {
	if b.fail {
		return errU
	}
	b.got = append([]byte{}, p...)
	return nil
}

type binM struct {
	b    []byte
	fail bool
}

func (m binM) MarshalBinary() ([]byte, error) {
	if m.fail {
		return nil, errM
	}
	return m.b, nil
}

type textM struct {
	b    []byte
	fail bool
}

func (m textM) MarshalText() ([]byte, error) {
	if m.fail {
		return nil, errM
	}
	return m.b, nil
}

// dualText is both an encoding.TextMarshaler / TextUnmarshaler and a fmt.Stringer, with different renderings
// (like time.Time): its text form is what MarshalText returns.
type dualText struct {
	v    string
	fail bool
}

func (d dualText) MarshalText() ([]byte, error) {
	if d.fail {
		return nil, errM
	}
	return []byte(d.v), nil
}
func (d dualText) String() string { return "dual(" + d.v + ")" }
func (d *dualText) UnmarshalText(b []byte) error {
	d.v = string(b)
	return nil
}

type stringer struct{ s string }

func (s stringer) String() string { return s.s }

type errVal struct{ s string }

func (e errVal) Error() string { return e.s }

// srcWT: io.WriterTo only. It writes its chunks one by one, stops at the first
// write error and finally returns its own terminal error (Codecs!WriteTo).
type srcWT struct {
	sc     streamkit.Script
	closes int
}

func (s *srcWT) WriteTo(w io.Writer) (int64, error) {
	var n int64
	off := 0
	for _, c := range s.sc.Chunks {
		m, err := w.Write(s.sc.Content[off : off+c])
		n += int64(m)
		if err != nil {
			return n, err
		}
		off += c
	}
	if s.sc.Term == "err" {
		return n, streamkit.KindErr(s.sc.ErrKind)
	}
	return n, nil
}

// srcWTR: io.WriterTo + io.Reader (the same bytes either way).
type srcWTR struct {
	srcWT
	rd *streamkit.Reader
}

func (s *srcWTR) Read(p []byte) (int, error) { return s.rd.Read(p) }

// srcWTRC: io.WriterTo + io.ReadCloser.
type srcWTRC struct{ srcWTR }

func (s *srcWTRC) Close() error { s.closes++; return nil }

type jsonS struct {
	A string `json:"a"`
}

// ---- generation --------------------------------------------------------------

func generate(c *drv.Ctx) {
	nTG := 0
	nRand := 450
	if c.Tier == "thorough" {
		nRand = 3000
	}
	randDone := 0
	emitRand := func() {
		if randDone < nRand {
			if randDone%3 == 2 {
				c.Case(randomSeq(c.Rng))
			} else {
				c.Case(randomCase(c.Rng, c.Tier))
			}
			randDone++
		}
	}
	if c.Scripts != "" {
		f, err := os.Open(c.Scripts)
		if err != nil {
			panic(err)
		}
		defer f.Close()
		seen := map[string]struct{}{}
		var lines []string
		sc := bufio.NewScanner(f)
		sc.Buffer(make([]byte, 1<<20), 1<<26)
		for sc.Scan() {
			line := sc.Text()
			if _, dup := seen[line]; dup {
				continue
			}
			seen[line] = struct{}{}
			lines = append(lines, line)
		}
		if err := sc.Err(); err != nil {
			panic(err)
		}
		every := len(lines)/nRand + 1
		for _, line := range lines {
			var inner string
			if err := json.Unmarshal([]byte(line), &inner); err != nil {
				panic(fmt.Sprintf("c15: bad script line %q: %v", line, err))
			}
			var m M
			if err := json.Unmarshal([]byte(inner), &m); err != nil {
				panic(fmt.Sprintf("c15: bad script %q: %v", inner, err))
			}
			c.Case(concretise(m))
			nTG++
			if nTG%every == 0 {
				emitRand()
			}
		}
	}
	for randDone < nRand {
		emitRand()
	}
	c.Extra["tg_cases"] = nTG
	c.Extra["random_cases"] = randDone
}

func isJSONSrc(codec, src string) bool {
	switch src {
	case "struct", "pstruct", "strslice":
		return true
	case "bytes":
		return codec == "text" // TextSliceAsJSON: []byte is a slice, written as a JSON (base64) string
	}
	return false
}

// jsonValue builds the Go value of a JSON-rendered source kind from the abstract content.
func jsonValue(src string, content []byte) any {
	switch src {
	case "struct":
		return jsonS{A: string(content)}
	case "pstruct":
		return &jsonS{A: string(content)}
	case "strslice":
		return []string{string(content)}
	case "bytes":
		return append([]byte{}, content...)
	}
	panic("c15: not a JSON source kind: " + src)
}

// concretise renders a TLC-exported abstract case. For producer sources that
// are written as JSON the bytes to expect are the reference encoding
// (encoding/json) of the value built from the abstract content, and the
// writer limit is moved so that it still lies before / not before the end.
func concretise(m M) M {
	kind := drv.Str(m["kind"])
	cfg := drv.Map(m["cfg"])
	d := M{"kind": kind, "cfg": cfg, "origin": "tg"}
	if kind != "produce" {
		return d
	}
	codec, src := drv.Str(cfg["codec"]), drv.Str(cfg["src"])
	if !isJSONSrc(codec, src) {
		return d
	}
	sc := streamkit.ScriptFromJSON(cfg["sc"])
	ref, err := json.Marshal(jsonValue(src, sc.Content))
	if err != nil {
		panic(err)
	}
	d["absContent"] = trace.B(string(sc.Content))
	n, wacc := len(sc.Content), drv.Int(cfg["wacc"])
	if wacc >= n {
		wacc = len(ref) + (wacc - n)
	}
	cfg["wacc"] = wacc
	cfg["content"] = streamkit.Blob(ref)
	return d
}

var errKinds = []string{"custom", "ueof", "ueofwrap", "eofwrap", "closedpipe", "canceled"}

var bigSizes = []int{65, 511, 512, 513, 4095, 4096, 4097, 32767, 32768, 32769, 100000, 1 << 20}

// genScript rebuilds the (possibly huge) script of a seeded case from its generator record.
func genScript(g M) streamkit.Script {
	n := drv.Int(g["len"])
	content := make([]byte, n)
	rand.New(rand.NewSource(int64(drv.Int(g["seed"])))).Read(content)
	chunk := drv.Int(g["chunk"])
	zr := drv.Bool(g["zr"])
	var chunks []int
	if chunk <= 0 {
		chunk = n
	}
	for left := n; left > 0; {
		k := chunk
		if k > left {
			k = left
		}
		if zr && len(chunks)%5 == 2 {
			chunks = append(chunks, 0)
		}
		chunks = append(chunks, k)
		left -= k
	}
	return streamkit.Script{Content: content, Chunks: chunks, Term: drv.Str(g["term"]), WithData: drv.Bool(g["withData"]) && len(chunks) > 0}
}

func randomCase(rng *rand.Rand, tier string) M {
	n := bigSizes[rng.Intn(len(bigSizes))]
	if rng.Intn(3) == 0 {
		n = 65 + rng.Intn(200000)
	}
	if tier != "thorough" && n > 300000 && rng.Intn(4) > 0 {
		n = 65 + rng.Intn(70000)
	}
	chunk := []int{1, 7, 4096, 0, 511, 32768, 100000}[rng.Intn(7)]
	if chunk == 1 && n > 70000 {
		chunk = 7
	}
	g := M{"seed": rng.Intn(1 << 30), "len": n, "chunk": chunk, "zr": rng.Intn(3) == 0,
		"term": []string{"eof", "eof", "err"}[rng.Intn(3)], "withData": rng.Intn(2) == 0}
	sc := genScript(g)
	// an error "at offset k": the stream is cut there
	if g["term"] == "err" {
		g["len"] = rng.Intn(n + 1)
		sc = genScript(g)
	}
	codec := []string{"bytes", "bytes", "text"}[rng.Intn(3)]
	ekind := "none"
	if g["term"] == "err" {
		ekind = errKinds[rng.Intn(len(errKinds))]
	}
	wacc := -1
	if rng.Intn(3) == 0 {
		wacc = rng.Intn(len(sc.Content) + 2)
	}
	if rng.Intn(2) == 0 {
		dsts := []string{"readerfrom", "rfwriter", "writer", "binunm", "pstring", "pbytes", "pnstring", "pnbytes", "anystring", "anybytes"}
		if codec == "text" {
			dsts = []string{"textunm", "pstring", "pnstring"}
		}
		dst := dsts[rng.Intn(len(dsts))]
		if dst != "writer" {
			wacc = -1
		}
		cfg := M{"codec": codec, "content": streamkit.Blob(sc.Content), "term": sc.Term, "ekind": ekind,
			"rkind": []string{"reader", "readcloser", "peeked", "peeked"}[rng.Intn(4)], "closeOpt": codec == "bytes" && rng.Intn(2) == 0,
			"dst": dst, "pre": rng.Intn(2) == 0 && (dst[0] == 'p' || dst[0] == 'a'), "wacc": wacc, "uerr": false}
		return M{"kind": "consume", "cfg": cfg, "origin": "rand", "gen": g}
	}
	srcs := []string{"writerto", "wtreader", "wtreadcloser", "reader", "readcloser", "seekreader", "binm", "error", "bytes", "string", "pbytes", "pstring", "nbytes", "nstring"}
	if codec == "text" {
		srcs = []string{"textm", "error", "stringer", "string", "pstring", "nstring"}
	}
	src := srcs[rng.Intn(len(srcs))]
	switch src {
	case "writerto", "wtreader", "wtreadcloser":
		g["withData"] = false
	case "reader", "readcloser":
	default:
		// not a stream: delivered at once, cannot fail
		g["term"], g["withData"], g["chunk"], g["zr"], g["len"] = "eof", false, 0, false, n
	}
	sc = genScript(g)
	if wacc > len(sc.Content)+1 {
		wacc = len(sc.Content) + 1
	}
	if sc.Term != "err" {
		ekind = "none"
	}
	cfg := M{"codec": codec, "content": streamkit.Blob(sc.Content), "term": sc.Term, "ekind": ekind, "src": src,
		"wkind": []string{"writer", "writecloser"}[rng.Intn(2)], "closeOpt": codec == "bytes" && rng.Intn(2) == 0,
		"wacc": wacc, "merr": false}
	return M{"kind": "produce", "cfg": cfg, "origin": "rand", "gen": g}
}

// ---- execution ---------------------------------------------------------------

func errClass(err error) string {
	switch {
	case err == nil:
		return "none"
	case errors.Is(err, streamkit.ErrScript), errors.Is(err, io.ErrUnexpectedEOF), errors.Is(err, io.EOF),
		errors.Is(err, io.ErrClosedPipe), errors.Is(err, context.Canceled):
		return "rerr"
	case errors.Is(err, streamkit.ErrWrite):
		return "werr"
	case errors.Is(err, errU):
		return "uerr"
	case errors.Is(err, errM):
		return "merr"
	case errors.Is(err, io.ErrShortWrite):
		return "short"
	}
	return "other"
}

func execute(c *drv.Ctx, d M) bool {
	cfg := drv.Map(d["cfg"])
	switch drv.Str(d["kind"]) {
	case "consume":
		return execConsume(c, d, cfg)
	case "produce":
		return execProduce(c, d, cfg)
	case "rt":
		return execRT(c, cfg)
	case "seq":
		return execSeq(c, cfg)
	}
	panic("c15: unknown case kind")
}

func scriptOf(d, cfg M) streamkit.Script {
	var sc streamkit.Script
	if g, ok := d["gen"]; ok {
		sc = genScript(drv.Map(g))
	} else {
		sc = streamkit.ScriptFromJSON(cfg["sc"])
	}
	sc.ErrKind = drv.Str(cfg["ekind"]) // which error a failing stream returns
	return sc
}

func execConsume(c *drv.Ctx, d, cfg M) bool {
	sc := scriptOf(d, cfg)
	codec, dstKind := drv.Str(cfg["codec"]), drv.Str(cfg["dst"])
	pre := ""
	if drv.Bool(cfg["pre"]) {
		pre = "old"
	}
	var reader io.Reader
	var rc *streamkit.ReadCloser
	var rd *streamkit.Reader
	switch drv.Str(cfg["rkind"]) {
	case "reader":
		rd = streamkit.NewReader(sc)
		reader = rd
	case "readcloser":
		rc = streamkit.NewReadCloser(sc)
		reader = rc
	case "peeked":
		// the request body as runtime.HasBody leaves it (no declared length: wrapped in a peeking reader)
		rc = streamkit.NewReadCloser(sc)
		req, err := http.NewRequest(http.MethodPost, "http://verif.invalid/c15", nil)
		if err != nil {
			panic(err)
		}
		req.Body, req.ContentLength = rc, -1
		runtime.HasBody(req)
		reader = req.Body
	case "nil":
		reader = nil
	}
	// destination
	var dst any
	stored := func() []byte { return nil }
	switch dstKind {
	case "readerfrom":
		s := &sinkRF{}
		dst, stored = s, func() []byte { return s.got }
	case "rfwriter":
		s := &sinkRFW{}
		dst, stored = s, func() []byte { return s.got }
	case "writer":
		s := &streamkit.Writer{WCore: streamkit.WCore{Accept: drv.Int(cfg["wacc"])}}
		dst, stored = s, func() []byte { return s.Got }
	case "binunm":
		s := &binU{fail: drv.Bool(cfg["uerr"])}
		dst, stored = s, func() []byte { return s.got }
	case "textunm":
		s := &textU{fail: drv.Bool(cfg["uerr"])}
		dst, stored = s, func() []byte { return s.got }
	case "pstring":
		s := pre
		dst, stored = &s, func() []byte { return []byte(s) }
	case "pbytes":
		s := []byte(pre)
		dst, stored = &s, func() []byte { return s }
	case "pnstring":
		s := myString(pre)
		dst, stored = &s, func() []byte { return []byte(s) }
	case "pnbytes":
		s := myBytes(pre)
		dst, stored = &s, func() []byte { return s }
	case "anystring":
		var a any = pre
		dst, stored = &a, func() []byte { s, _ := a.(string); return []byte(s) }
	case "anybytes":
		var a any = []byte(pre)
		dst, stored = &a, func() []byte { s, _ := a.([]byte); return s }
	case "anyint":
		var a any = 42
		dst = &a
	case "anynil", "pany":
		var a any
		dst = &a
	case "value":
		dst = "value"
	case "pint":
		dst = new(int)
	case "pstruct":
		dst = &struct{ A int }{}
	case "nilpstring":
		dst = (*string)(nil)
	case "nilpbytes":
		dst = (*[]byte)(nil)
	case "nilpany":
		dst = (*any)(nil)
	case "nil":
		dst = nil
	default:
		panic("c15: unknown destination kind " + dstKind)
	}
	var consumer runtime.Consumer
	switch {
	case codec == "text":
		consumer = runtime.TextConsumer()
	case drv.Bool(cfg["closeOpt"]):
		consumer = runtime.ByteStreamConsumer(runtime.ClosesStream)
	default:
		consumer = runtime.ByteStreamConsumer()
	}
	var err error
	panicked := func() (p bool) {
		defer func() {
			if r := recover(); r != nil {
				p = true
			}
		}()
		err = consumer.Consume(reader, dst)
		return false
	}()
	rcloses, reads := 0, 0
	if rc != nil {
		rcloses, reads = rc.Closes, rc.Reads
	}
	if rd != nil {
		reads = rd.Reads
	}
	ec := errClass(err)
	if panicked {
		ec = "none"
	}
	c.W.Event("consume", M{"err": ec, "stored": streamkit.Blob(stored()), "rcloses": rcloses, "reads": reads, "panic": panicked})
	return len(sc.Content) > 0 || sc.Term == "err"
}

func execProduce(c *drv.Ctx, d, cfg M) bool {
	sc := scriptOf(d, cfg)
	codec, srcKind := drv.Str(cfg["codec"]), drv.Str(cfg["src"])
	content := sc.Content
	var writer io.Writer
	var w *streamkit.Writer
	var wc *streamkit.WriteCloser
	switch drv.Str(cfg["wkind"]) {
	case "writer":
		w = &streamkit.Writer{WCore: streamkit.WCore{Accept: drv.Int(cfg["wacc"])}}
		writer = w
	case "writecloser":
		wc = &streamkit.WriteCloser{WCore: streamkit.WCore{Accept: drv.Int(cfg["wacc"])}}
		writer = wc
	case "nil":
		writer = nil
	}
	var src any
	scloses := func() int { return 0 }
	switch srcKind {
	case "writerto":
		src = &srcWT{sc: sc}
	case "wtreader":
		src = &srcWTR{srcWT: srcWT{sc: sc}, rd: streamkit.NewReader(sc)}
	case "wtreadcloser":
		s := &srcWTRC{srcWTR{srcWT: srcWT{sc: sc}, rd: streamkit.NewReader(sc)}}
		src, scloses = s, func() int { return s.closes }
	case "reader":
		src = streamkit.NewReader(sc)
	case "readcloser":
		s := streamkit.NewReadCloser(sc)
		src, scloses = s, func() int { return s.Closes }
	case "seekreader":
		// a seekable payload the caller has already read a preamble from: the source bytes are the rest
		rd := bytes.NewReader(append([]byte("PREAMBLE-"), content...))
		if _, err := io.CopyN(io.Discard, rd, int64(len("PREAMBLE-"))); err != nil {
			panic(err)
		}
		src = rd
	case "binm":
		src = binM{b: content, fail: drv.Bool(cfg["merr"])}
	case "textm":
		src = textM{b: content, fail: drv.Bool(cfg["merr"])}
	case "error":
		src = errVal{string(content)}
	case "stringer":
		src = stringer{string(content)}
	case "bytes":
		if isJSONSrc(codec, srcKind) {
			src = jsonValue(srcKind, absContent(d, content))
		} else {
			src = append([]byte{}, content...)
		}
	case "string":
		src = string(content)
	case "pbytes":
		b := append([]byte{}, content...)
		src = &b
	case "pstring":
		s := string(content)
		src = &s
	case "nbytes":
		src = myBytes(append([]byte{}, content...))
	case "nstring":
		src = myString(content)
	case "struct", "pstruct", "strslice":
		src = jsonValue(srcKind, absContent(d, content))
	case "nilpstring":
		src = (*string)(nil)
	case "nilpbytes":
		src = (*[]byte)(nil)
	case "nilpstruct":
		src = (*jsonS)(nil)
	case "nil":
		src = nil
	case "array0":
		src = [0]byte{}
	case "array16":
		var a [16]byte
		copy(a[:], content)
		src = a
	case "parray16":
		var a [16]byte
		copy(a[:], content)
		src = &a
	case "dualtm":
		src = dualText{v: string(content), fail: drv.Bool(cfg["merr"])}
	case "int":
		src = 42
	case "map":
		src = map[string]string{"a": "b"}
	case "pint":
		src = new(int)
	default:
		panic("c15: unknown source kind " + srcKind)
	}
	var producer runtime.Producer
	switch {
	case codec == "text":
		producer = runtime.TextProducer()
	case drv.Bool(cfg["closeOpt"]):
		producer = runtime.ByteStreamProducer(runtime.ClosesStream)
	default:
		producer = runtime.ByteStreamProducer()
	}
	var err error
	panicked := func() (p bool) {
		defer func() {
			if r := recover(); r != nil {
				p = true
			}
		}()
		err = producer.Produce(writer, src)
		return false
	}()
	var out []byte
	wcloses := 0
	if w != nil {
		out = w.Got
	}
	if wc != nil {
		out, wcloses = wc.Got, wc.Closes
	}
	ec := errClass(err)
	if panicked {
		ec = "none"
	}
	c.W.Event("produce", M{"err": ec, "out": streamkit.Blob(out), "wcloses": wcloses, "scloses": scloses(), "panic": panicked})
	return len(content) > 0
}

// absContent: for JSON-rendered sources the descriptor keeps the abstract content the value is built from.
func absContent(d M, fallback []byte) []byte {
	if a, ok := d["absContent"]; ok {
		return []byte(trace.Str(a))
	}
	return fallback
}

// ---- Part B: values ------------------------------------------------------------

type val struct {
	t    string
	s    []byte
	kids []val
	keys [][]byte
}

func valFromJSON(x any) val {
	m := drv.Map(x)
	v := val{t: drv.Str(m["t"]), s: []byte(trace.Str(m["s"]))}
	for _, k := range drv.List(m["kids"]) {
		v.kids = append(v.kids, valFromJSON(k))
	}
	for _, k := range drv.List(m["keys"]) {
		v.keys = append(v.keys, []byte(trace.Str(k)))
	}
	return v
}

func (v val) JSON() M {
	kids := make([]M, 0, len(v.kids))
	for _, k := range v.kids {
		kids = append(kids, k.JSON())
	}
	keys := make([][]int, 0, len(v.keys))
	for _, k := range v.keys {
		keys = append(keys, trace.B(string(k)))
	}
	return M{"t": v.t, "s": trace.B(string(v.s)), "kids": kids, "keys": keys}
}

var vNull = val{t: "null"}

func vStr(s string) val { return val{t: "str", s: []byte(s)} }
func vNum(s string) val { return val{t: "num", s: []byte(s)} }
func vBool(b bool) val {
	if b {
		return val{t: "bool", s: []byte{1}}
	}
	return val{t: "bool", s: []byte{0}}
}

type jsonInner struct {
	X string `json:"x"`
}
type jsonStruct struct {
	A string      `json:"a"`
	N json.Number `json:"n"`
	L []string    `json:"l"`
	P *jsonInner  `json:"p,omitempty"`
	B bool        `json:"b"`
}

// typed JSON destinations with interface{} positions
type jsonAnyStruct struct {
	V any            `json:"v"`
	M map[string]any `json:"m"`
	L []any          `json:"l"`
}
type jsonNamedMap map[string]any
type jsonNamedList []any

type xmlInner struct {
	E string `xml:"e"`
}
type xmlStruct struct {
	XMLName xml.Name  `xml:"x"`
	A       string    `xml:"a"`
	B       int       `xml:"b,attr"`
	C       []string  `xml:"c"`
	D       *xmlInner `xml:"d"`
}

// XML documents whose elements are named like HTML void elements
type xmlImg struct {
	Src string `xml:"src,attr"`
	Alt string `xml:"alt"`
}
type xmlFeed struct {
	XMLName xml.Name `xml:"entry"`
	Title   string   `xml:"title"`
	Link    string   `xml:"link"`
	Meta    string   `xml:"meta"`
	Img     *xmlImg  `xml:"img"`
	After   string   `xml:"after"`
	Br      []string `xml:"br"`
}
type xmlVoidRoot struct {
	XMLName xml.Name `xml:"br"`
	T       string   `xml:"t"`
}

// toGo renders an abstract value as the Go value handed to the producer.
func toGo(codec string, v val) any {
	switch v.t {
	case "null":
		return nil
	case "bool":
		return v.s[0] == 1
	case "num":
		if codec == "json" {
			return json.Number(v.s)
		}
		n, err := strconv.Atoi(string(v.s))
		if err != nil {
			panic(err)
		}
		return n
	case "str":
		return string(v.s)
	case "list":
		out := make([]any, 0, len(v.kids))
		for _, k := range v.kids {
			out = append(out, toGo(codec, k))
		}
		return out
	case "map":
		out := map[string]any{}
		for i, k := range v.kids {
			out[string(v.keys[i])] = toGo(codec, k)
		}
		return out
	}
	panic("c15: toGo " + v.t)
}

func strList(v val) []string {
	var out []string
	for _, k := range v.kids {
		out = append(out, string(k.s))
	}
	return out
}

func absStrList(l []string) val {
	v := val{t: "list"}
	for _, s := range l {
		v.kids = append(v.kids, vStr(s))
	}
	return v
}

// abs maps a decoded Go value back to the abstract grammar.
func abs(x any) val {
	switch g := x.(type) {
	case nil:
		return vNull
	case bool:
		return vBool(g)
	case json.Number:
		return vNum(string(g))
	case int:
		return vNum(strconv.Itoa(g))
	case int64:
		return vNum(strconv.FormatInt(g, 10))
	case uint64:
		return vNum(strconv.FormatUint(g, 10))
	case float64:
		return vNum(strconv.FormatFloat(g, 'g', -1, 64))
	case string:
		return vStr(g)
	case []byte:
		return vStr(string(g))
	case []any:
		v := val{t: "list"}
		for _, k := range g {
			v.kids = append(v.kids, abs(k))
		}
		return v
	case map[string]any:
		keys := make([]string, 0, len(g))
		for k := range g {
			keys = append(keys, k)
		}
		sort.Strings(keys)
		v := val{t: "map"}
		for _, k := range keys {
			v.keys = append(v.keys, []byte(k))
			v.kids = append(v.kids, abs(g[k]))
		}
		return v
	case map[any]any:
		m := map[string]any{}
		for k, e := range g {
			m[fmt.Sprint(k)] = e
		}
		return abs(m)
	}
	return val{t: "other", s: []byte(fmt.Sprintf("%T", x))}
}

func feedScript(doc []byte, r M) streamkit.Script {
	if drv.Bool(r["cut"]) {
		at := 0
		switch drv.Int(r["cutAt"]) {
		case 1:
			at = len(doc) / 2
		case 2:
			at = len(doc) - 2
		}
		if at > len(doc)-2 {
			at = len(doc) - 2
		}
		if at < 0 {
			at = 0
		}
		doc = doc[:at]
	}
	sc := streamkit.Script{Content: doc, Term: "eof"}
	if drv.Bool(r["cut"]) {
		sc.Term = "err"
		sc.ErrKind = drv.Str(r["ekind"])
	}
	chunk := drv.Int(r["chunk"])
	if chunk <= 0 {
		chunk = len(doc)
	}
	for left := len(doc); left > 0; {
		k := chunk
		if k > left {
			k = left
		}
		if drv.Bool(r["zr"]) {
			sc.Chunks = append(sc.Chunks, 0)
		}
		sc.Chunks = append(sc.Chunks, k)
		left -= k
	}
	sc.WithData = drv.Bool(r["withData"]) && len(sc.Chunks) > 0
	return sc
}

func execRT(c *drv.Ctx, r M) bool {
	codec := drv.Str(r["codec"])
	v := valFromJSON(r["v"])
	var producer runtime.Producer
	var consumer runtime.Consumer
	var src any
	var dst any
	result := func() val { return vNull }
	switch codec {
	case "json":
		producer, consumer = runtime.JSONProducer(), runtime.JSONConsumer()
		if v.t == "anystruct" {
			m, _ := toGo(codec, v.kids[1]).(map[string]any)
			l, _ := toGo(codec, v.kids[2]).([]any)
			src = jsonAnyStruct{V: toGo(codec, v.kids[0]), M: m, L: l}
			var out jsonAnyStruct
			dst = &out
			result = func() val {
				return val{t: "anystruct", kids: []val{abs(out.V), abs(map[string]any(out.M)), abs([]any(out.L))}}
			}
		} else if v.t == "namedmap" {
			w := v
			w.t = "map"
			m, _ := toGo(codec, w).(map[string]any)
			src = jsonNamedMap(m)
			var out jsonNamedMap
			dst = &out
			result = func() val { r := abs(map[string]any(out)); r.t = "namedmap"; return r }
		} else if v.t == "namedlist" {
			w := v
			w.t = "list"
			l, _ := toGo(codec, w).([]any)
			src = jsonNamedList(l)
			var out jsonNamedList
			dst = &out
			result = func() val { r := abs([]any(out)); r.t = "namedlist"; return r }
		} else if v.t == "struct" {
			s := jsonStruct{A: string(v.kids[0].s), N: json.Number(v.kids[1].s), L: strList(v.kids[2]), B: v.kids[4].s[0] == 1}
			if v.kids[3].t == "struct" {
				s.P = &jsonInner{X: string(v.kids[3].kids[0].s)}
			}
			src = s
			var out jsonStruct
			dst = &out
			result = func() val {
				p := vNull
				if out.P != nil {
					p = val{t: "struct", kids: []val{vStr(out.P.X)}}
				}
				return val{t: "struct", kids: []val{vStr(out.A), vNum(string(out.N)), absStrList(out.L), p, vBool(out.B)}}
			}
		} else {
			src = toGo(codec, v)
			var out any
			dst = &out
			result = func() val { return abs(out) }
		}
	case "yaml":
		producer, consumer = yamlpc.YAMLProducer(), yamlpc.YAMLConsumer()
		src = toGo(codec, v)
		var out any
		dst = &out
		result = func() val { return abs(out) }
	case "xml":
		producer, consumer = runtime.XMLProducer(), runtime.XMLConsumer()
		if v.t == "feed" {
			f := xmlFeed{Title: string(v.kids[0].s), Link: string(v.kids[1].s), Meta: string(v.kids[2].s),
				After: string(v.kids[4].s), Br: strList(v.kids[5])}
			if v.kids[3].t == "struct" {
				f.Img = &xmlImg{Src: string(v.kids[3].kids[0].s), Alt: string(v.kids[3].kids[1].s)}
			}
			src = f
			var out xmlFeed
			dst = &out
			result = func() val {
				img := vNull
				if out.Img != nil {
					img = val{t: "struct", kids: []val{vStr(out.Img.Src), vStr(out.Img.Alt)}}
				}
				return val{t: "feed", kids: []val{vStr(out.Title), vStr(out.Link), vStr(out.Meta), img, vStr(out.After), absStrList(out.Br)}}
			}
			break
		}
		if v.t == "voidroot" {
			src = xmlVoidRoot{T: string(v.kids[0].s)}
			var out xmlVoidRoot
			dst = &out
			result = func() val { return val{t: "voidroot", kids: []val{vStr(out.T)}} }
			break
		}
		b, err := strconv.Atoi(string(v.kids[1].s))
		if err != nil {
			panic(err)
		}
		s := xmlStruct{A: string(v.kids[0].s), B: b, C: strList(v.kids[2])}
		if v.kids[3].t == "struct" {
			s.D = &xmlInner{E: string(v.kids[3].kids[0].s)}
		}
		src = s
		var out xmlStruct
		dst = &out
		result = func() val {
			p := vNull
			if out.D != nil {
				p = val{t: "struct", kids: []val{vStr(out.D.E)}}
			}
			return val{t: "struct", kids: []val{vStr(out.A), vNum(strconv.Itoa(out.B)), absStrList(out.C), p}}
		}
	case "text":
		producer, consumer = runtime.TextProducer(), runtime.TextConsumer()
		if v.t == "dual" {
			src = dualText{v: string(v.s)}
			var out dualText
			dst = &out
			result = func() val { return val{t: "dual", s: []byte(out.v)} }
			break
		}
		if v.t == "time" {
			tm, err := time.Parse(time.RFC3339Nano, string(v.s))
			if err != nil {
				panic(err)
			}
			src = tm
			var out time.Time
			dst = &out
			result = func() val { b, _ := out.MarshalText(); return val{t: "time", s: b} }
			break
		}
		src = string(v.s)
		var out string
		dst = &out
		result = func() val { return vStr(out) }
	case "bytes":
		producer, consumer = runtime.ByteStreamProducer(), runtime.ByteStreamConsumer()
		src = append([]byte{}, v.s...)
		var out []byte
		dst = &out
		result = func() val { return vStr(string(out)) }
	default:
		panic("c15: unknown codec " + codec)
	}
	w := &streamkit.Writer{WCore: streamkit.WCore{Accept: -1}}
	var perr, cerr error
	got := vNull
	full := 0
	wcut := drv.Int(r["wcut"])
	panicked := func() (p bool) {
		defer func() {
			if r := recover(); r != nil {
				p = true
			}
		}()
		perr = producer.Produce(w, src)
		if perr != nil {
			return false
		}
		full = len(w.Got)
		if wcut > 0 && full > 0 {
			// the same value once more, into a writer that fails before the end of the document
			w = &streamkit.Writer{WCore: streamkit.WCore{Accept: []int{0, full / 2, full - 1}[wcut-1]}}
			perr = producer.Produce(w, src)
			return false
		}
		rd := streamkit.NewReader(feedScript(w.Got, r))
		cerr = consumer.Consume(rd, dst)
		if cerr == nil {
			got = result()
		}
		return false
	}()
	cls := func(err error) string {
		if err == nil {
			return "none"
		}
		if errors.Is(err, streamkit.ErrScript) {
			return "rerr"
		}
		if errors.Is(err, streamkit.ErrWrite) {
			return "werr"
		}
		return "other"
	}
	c.W.Event("rt", M{"perr": cls(perr), "cerr": cls(cerr), "v": got.JSON(), "doc": streamkit.Blob(w.Got), "full": full, "panic": panicked})
	return v.t != "null"
}

// ---- Part A2: successive Consume calls -----------------------------------------

// execSeq runs a history of ByteStreamConsumer.Consume calls (and caller-side
// changes of stored []byte values) and logs, after every step, what every
// destination written so far holds now.
func execSeq(c *drv.Ctx, cfg M) bool {
	consumer := runtime.ByteStreamConsumer()
	var holders []func() []byte // current content of the destination of step j (nil for a mutate step)
	var pokes []func()          // the caller overwrites byte 0 of the value stored by step j
	var srcPokes []func()       // the caller re-uses the source it gave to step j
	for i, sv := range drv.List(cfg["hist"]) {
		st := drv.Map(sv)
		var err error
		panicked := false
		if drv.Str(st["op"]) == "consume" {
			content := []byte(trace.Str(st["content"]))
			sc := streamkit.Script{Content: content, Term: "eof"}
			if len(content) > 0 {
				if i%2 == 0 {
					sc.Chunks = []int{len(content)}
				} else {
					for range content {
						sc.Chunks = append(sc.Chunks, 1)
					}
				}
			}
			// the concrete reader: a scripted stream, or one of the in-memory readers over a slice the caller owns
			var reader io.Reader = streamkit.NewReader(sc)
			srcPoke := func() {}
			switch drv.Str(st["rkind"]) {
			case "bytesbuffer":
				src := append([]byte{}, content...)
				buf := bytes.NewBuffer(src)
				reader = buf
				srcPoke = func() { // next message into the same buffer / the same slice
					for k := range src {
						src[k] = 119
					}
					buf.Reset()
					buf.Write(bytes.Repeat([]byte{119}, len(src)))
				}
			case "bytesreader":
				src := append([]byte{}, content...)
				rd := bytes.NewReader(src)
				reader = rd
				srcPoke = func() {
					for k := range src {
						src[k] = 119
					}
					rd.Reset(src)
				}
			case "stringsreader":
				rd := strings.NewReader(string(content))
				reader = rd
				srcPoke = func() { rd.Reset(strings.Repeat("w", len(content))) }
			}
			srcPokes = append(srcPokes, srcPoke)
			var dst any
			var hold func() []byte
			poke := func() {}
			switch drv.Str(st["dst"]) {
			case "pbytes":
				p := new([]byte)
				dst, hold = p, func() []byte { return *p }
				poke = func() {
					if len(*p) > 0 {
						(*p)[0] = 238
					}
				}
			case "pnbytes":
				p := new(myBytes)
				dst, hold = p, func() []byte { return *p }
				poke = func() {
					if len(*p) > 0 {
						(*p)[0] = 238
					}
				}
			case "anybytes":
				var a any = []byte{}
				dst, hold = &a, func() []byte { b, _ := a.([]byte); return b }
				poke = func() {
					if b, _ := a.([]byte); len(b) > 0 {
						b[0] = 238
					}
				}
			case "pstring":
				p := new(string)
				dst, hold = p, func() []byte { return []byte(*p) }
			case "anystring":
				var a any = ""
				dst, hold = &a, func() []byte { s, _ := a.(string); return []byte(s) }
			case "binunm":
				u := &binU{}
				dst, hold = u, func() []byte { return u.got }
			default:
				panic("c15: unknown seq destination " + drv.Str(st["dst"]))
			}
			holders = append(holders, hold)
			pokes = append(pokes, poke)
			panicked = func() (p bool) {
				defer func() {
					if r := recover(); r != nil {
						p = true
					}
				}()
				err = consumer.Consume(reader, dst)
				return false
			}()
		} else {
			if drv.Str(st["op"]) == "srcmutate" {
				srcPokes[drv.Int(st["target"])-1]()
			} else {
				pokes[drv.Int(st["target"])-1]()
			}
			holders = append(holders, func() []byte { return nil })
			pokes = append(pokes, func() {})
			srcPokes = append(srcPokes, func() {})
		}
		held := make([]M, 0, len(holders))
		for _, h := range holders {
			held = append(held, streamkit.Blob(h()))
		}
		ec := errClass(err)
		if panicked {
			ec = "none"
		}
		c.W.Event("seq", M{"i": i + 1, "err": ec, "held": held, "panic": panicked})
	}
	return true
}

var seqDsts = []string{"pbytes", "pnbytes", "anybytes", "pstring", "anystring", "binunm"}

// randomSeq: a longer history with contents up to 64 bytes (kept explicit so
// that the specification can apply the caller's changes to them).
func randomSeq(rng *rand.Rand) M {
	var hist []M
	var byteSteps, memSteps []int
	for i, n := 0, 3+rng.Intn(10); i < n; i++ {
		if len(byteSteps) > 0 && rng.Intn(4) == 0 {
			hist = append(hist, M{"op": "mutate", "dst": "", "content": []int{}, "target": byteSteps[rng.Intn(len(byteSteps))], "rkind": ""})
			continue
		}
		if len(memSteps) > 0 && rng.Intn(4) == 0 {
			hist = append(hist, M{"op": "srcmutate", "dst": "", "content": []int{}, "target": memSteps[rng.Intn(len(memSteps))], "rkind": ""})
			continue
		}
		content := make([]byte, rng.Intn(65))
		rng.Read(content)
		dst := seqDsts[rng.Intn(len(seqDsts))]
		if rng.Intn(2) == 0 {
			dst = seqDsts[rng.Intn(3)]
		}
		if dst == "pbytes" || dst == "pnbytes" || dst == "anybytes" {
			byteSteps = append(byteSteps, i+1)
		}
		rkind := []string{"script", "bytesbuffer", "bytesbuffer", "bytesreader", "stringsreader"}[rng.Intn(5)]
		if rkind != "script" {
			memSteps = append(memSteps, i+1)
		}
		hist = append(hist, M{"op": "consume", "dst": dst, "content": trace.B(string(content)), "target": 0, "rkind": rkind})
	}
	return M{"kind": "seq", "cfg": M{"hist": hist}, "origin": "rand"}
}
