// Package c07 drives the real Accept / Accept-Encoding negotiation code for property C07.
//
// The abstract case (structured header, offer lists, defaults) is generated first and only
// then rendered to the header text handed to the code; the trace carries the abstract case
// (reset line) and what the code returned (events).  Nothing is decided here.
package c07

import (
	"encoding/json"
	"fmt"
	"io"
	"math"
	"net/http"
	"net/http/httptest"
	"sort"
	"strings"

	"github.com/go-openapi/loads"
	"github.com/go-openapi/runtime"
	"github.com/go-openapi/runtime/middleware"
	"github.com/go-openapi/runtime/middleware/header"
	"github.com/go-openapi/runtime/middleware/untyped"

	"verifharness/internal/drv"
	"verifharness/internal/trace"
)

type M = drv.M

func init() {
	drv.Register(&drv.Driver{Name: "c07", Generate: generate, Execute: execute})
}

// ---- abstract header --------------------------------------------------------

// Q is a q-value: I + 0.F (F = fractional digits).
type Q struct {
	I int
	F []int
}

type Param struct {
	K, V   string
	Quoted bool // spelling: value written as a quoted-string
}

// Range is one element of an Accept / Accept-Encoding header.
type Range struct {
	T, S   string // value T "/" S, or the single token T when S == ""
	HasQ   bool
	Q      Q
	PB, PA []Param // parameters before / after q
	// spelling
	Sp   []int // OWS choices, consumed in order of the OWS positions
	Lead bool  // write the integer digit of a q below 1 ("0.5" rather than ".5")
	Dot  bool  // write a trailing "." when there are no fractional digits ("1.")
}

type Offer struct {
	T, S, Sep, P string // raw = T "/" S Sep P
}

func (o Offer) Raw() string { return o.T + "/" + o.S + o.Sep + o.P }

var owsTable = []string{"", " ", "  ", "\t", " \t "}

func (q Q) JSON() M { return M{"i": q.I, "f": ints(q.F)} }

func ints(v []int) []int {
	if v == nil {
		return []int{}
	}
	return v
}

func paramsJSON(ps []Param) []M {
	out := make([]M, 0, len(ps))
	for _, p := range ps {
		out = append(out, M{"k": trace.B(p.K), "v": trace.B(p.V), "qt": p.Quoted})
	}
	return out
}

func (r Range) JSON() M {
	return M{"t": trace.B(r.T), "s": trace.B(r.S), "hasq": r.HasQ, "q": r.Q.JSON(),
		"pb": paramsJSON(r.PB), "pa": paramsJSON(r.PA), "sp": ints(r.Sp), "lead": r.Lead, "dot": r.Dot}
}

func (o Offer) JSON() M {
	return M{"t": trace.B(o.T), "s": trace.B(o.S), "sep": trace.B(o.Sep), "p": trace.B(o.P)}
}

func linesJSON(lines [][]Range) [][]M {
	out := make([][]M, 0, len(lines))
	for _, l := range lines {
		row := make([]M, 0, len(l))
		for _, r := range l {
			row = append(row, r.JSON())
		}
		out = append(out, row)
	}
	return out
}

func olistsJSON(ol [][]Offer) [][]M {
	out := make([][]M, 0, len(ol))
	for _, l := range ol {
		row := make([]M, 0, len(l))
		for _, o := range l {
			row = append(row, o.JSON())
		}
		out = append(out, row)
	}
	return out
}

// ---- reading descriptors back ----------------------------------------------

func qFrom(v any) Q {
	m := drv.Map(v)
	q := Q{I: drv.Int(m["i"])}
	for _, d := range drv.List(m["f"]) {
		q.F = append(q.F, drv.Int(d))
	}
	return q
}

func paramsFrom(v any) []Param {
	var out []Param
	for _, e := range drv.List(v) {
		m := drv.Map(e)
		out = append(out, Param{K: trace.Str(m["k"]), V: trace.Str(m["v"]), Quoted: drv.Bool(m["qt"])})
	}
	return out
}

func rangeFrom(v any) Range {
	m := drv.Map(v)
	r := Range{T: trace.Str(m["t"]), S: trace.Str(m["s"]), HasQ: drv.Bool(m["hasq"]), Q: qFrom(m["q"]),
		PB: paramsFrom(m["pb"]), PA: paramsFrom(m["pa"]), Lead: drv.Bool(m["lead"]), Dot: drv.Bool(m["dot"])}
	for _, x := range drv.List(m["sp"]) {
		r.Sp = append(r.Sp, drv.Int(x))
	}
	return r
}

func linesFrom(v any) [][]Range {
	var out [][]Range
	for _, l := range drv.List(v) {
		var row []Range
		for _, r := range drv.List(l) {
			row = append(row, rangeFrom(r))
		}
		out = append(out, row)
	}
	return out
}

func offerFrom(v any) Offer {
	m := drv.Map(v)
	return Offer{T: trace.Str(m["t"]), S: trace.Str(m["s"]), Sep: trace.Str(m["sep"]), P: trace.Str(m["p"])}
}

func olistsFrom(v any) [][]Offer {
	var out [][]Offer
	for _, l := range drv.List(v) {
		row := []Offer{}
		for _, o := range drv.List(l) {
			row = append(row, offerFrom(o))
		}
		out = append(out, row)
	}
	return out
}

// ---- rendering (abstract -> header text) -----------------------------------

type owsPicker struct {
	sp []int
	i  int
}

func (p *owsPicker) next() string {
	if len(p.sp) == 0 {
		return ""
	}
	v := p.sp[p.i%len(p.sp)]
	p.i++
	return owsTable[((v%len(owsTable))+len(owsTable))%len(owsTable)]
}

func renderQ(q Q, lead, dot bool) string {
	var b strings.Builder
	switch {
	case q.I == 1:
		b.WriteByte('1')
	case lead:
		b.WriteByte('0')
	}
	if len(q.F) > 0 || b.Len() == 0 || dot {
		b.WriteByte('.')
		for _, d := range q.F {
			b.WriteByte(byte('0' + d))
		}
	}
	return b.String()
}

func renderParam(p Param) string {
	if p.Quoted {
		return p.K + "=\"" + p.V + "\""
	}
	return p.K + "=" + p.V
}

// renderRange returns the text of the range followed by the OWS that precedes a following ','.
func renderRange(r Range) (text, beforeComma, afterComma string) {
	pk := &owsPicker{sp: r.Sp}
	var b strings.Builder
	b.WriteString(r.T)
	if r.S != "" {
		b.WriteString("/" + r.S)
	}
	for _, p := range r.PB {
		b.WriteString(pk.next() + ";" + pk.next() + renderParam(p))
	}
	if r.HasQ {
		b.WriteString(pk.next() + ";" + pk.next() + "q=" + renderQ(r.Q, r.Lead, r.Dot))
	}
	for _, p := range r.PA {
		b.WriteString(pk.next() + ";" + pk.next() + renderParam(p))
	}
	return b.String(), pk.next(), pk.next()
}

func renderLine(rs []Range) string {
	var b strings.Builder
	for i, r := range rs {
		t, bc, ac := renderRange(r)
		b.WriteString(t)
		if i < len(rs)-1 {
			b.WriteString(bc + "," + ac)
		} else {
			b.WriteString(bc) // optional trailing OWS at the end of the line
		}
	}
	return b.String()
}

// renderHeader renders one header line per element of lines; a line without ranges is written as OWS only
// (lsp[i] selects it: "", " ", "\t", ...), it contributes no range.
func renderHeader(lines [][]Range, lsp []int) []string {
	out := make([]string, 0, len(lines))
	for i, l := range lines {
		if len(l) == 0 {
			v := 0
			if i < len(lsp) {
				v = lsp[i]
			}
			out = append(out, owsTable[((v%len(owsTable))+len(owsTable))%len(owsTable)])
			continue
		}
		out = append(out, renderLine(l))
	}
	return out
}

func lspFrom(v any) []int {
	var out []int
	if v == nil {
		return out
	}
	for _, x := range drv.List(v) {
		out = append(out, drv.Int(x))
	}
	return out
}

// ---- execution ---------------------------------------------------------------

func request(key string, lines []string) *http.Request { return requestM(http.MethodGet, key, lines) }

func requestM(method, key string, lines []string) *http.Request {
	r := httptest.NewRequest(method, "/t", nil)
	if len(lines) > 0 {
		r.Header[key] = lines
	}
	return r
}

// parseEvent calls header.ParseAccept and encodes the float64 weights order-isomorphically:
// rank = number of distinct weights below, zero/one = exact comparisons with 0 and 1.
func parseEvent(c *drv.Ctx, ev, key string, lines []string) {
	var specs []header.AcceptSpec
	panicked := func() (p bool) {
		defer func() {
			if recover() != nil {
				p = true
			}
		}()
		specs = header.ParseAccept(request(key, lines).Header, key)
		return false
	}()
	if ev == "oparse" {
		c.W.Event(ev, M{"n": len(specs), "panic": panicked})
		return
	}
	values := make([]string, len(specs))
	zero := make([]bool, len(specs))
	one := make([]bool, len(specs))
	rank := make([]int, len(specs))
	finite := true
	var distinct []float64
	for i, s := range specs {
		values[i] = s.Value
		zero[i] = s.Q == 0
		one[i] = s.Q == 1
		if math.IsNaN(s.Q) || math.IsInf(s.Q, 0) {
			finite = false
		}
		distinct = append(distinct, s.Q)
	}
	if finite {
		sort.Float64s(distinct)
		for i, s := range specs {
			n := 0
			for k, d := range distinct {
				if d < s.Q && (k == 0 || distinct[k-1] != d) {
					n++
				}
			}
			rank[i] = n
		}
	}
	c.W.Event(ev, M{"values": trace.BB(values), "rank": rank, "zero": zero, "one": one, "finite": finite, "panic": panicked})
}

func negotiateCT(lines []string, offers []string, dflt string) (res string, panicked bool) {
	defer func() {
		if recover() != nil {
			panicked = true
		}
	}()
	return middleware.NegotiateContentType(request("Accept", lines), offers, dflt), false
}

func negotiateEnc(lines []string, offers []string) (res string, panicked bool) {
	defer func() {
		if recover() != nil {
			panicked = true
		}
	}()
	return middleware.NegotiateContentEncoding(request("Accept-Encoding", lines), offers), false
}

// ---- the API under test -------------------------------------------------------

type apiInst struct {
	method   string
	handler  http.Handler
	produces []string // route.Produces as built
	ran      *bool
}

var apiCache = map[string]*apiInst{}

// buildAPI serves one operation `method /t` that produces `declared` and whose only declared response is `success`
// ("200", "201", "204" or "default").
func buildAPI(declared []string, adef, method, success string) (*apiInst, error) {
	if method == "" {
		method = http.MethodGet
	}
	if success == "" {
		success = "200"
	}
	key := strings.Join(declared, "\x00") + "\x01" + adef + "\x01" + method + "\x01" + success
	if a, ok := apiCache[key]; ok {
		return a, nil
	}
	resp := map[string]any{"description": "ok"}
	if success != "204" {
		resp["schema"] = map[string]any{"type": "string"}
	}
	op := map[string]any{
		"operationId": "t",
		"responses":   map[string]any{success: resp},
	}
	if len(declared) > 0 {
		op["produces"] = declared
	}
	doc := map[string]any{
		"swagger": "2.0",
		"info":    map[string]any{"title": "c07", "version": "1"},
		"paths":   map[string]any{"/t": map[string]any{strings.ToLower(method): op}},
	}
	raw, err := json.Marshal(doc)
	if err != nil {
		return nil, err
	}
	d, err := loads.Analyzed(json.RawMessage(raw), "")
	if err != nil {
		return nil, err
	}
	api := untyped.NewAPI(d)
	api.DefaultProduces = adef
	prod := runtime.ProducerFunc(func(w io.Writer, _ interface{}) error {
		_, err := w.Write([]byte("ok"))
		return err
	})
	for _, t := range append(append([]string{}, declared...), adef) {
		api.RegisterProducer(strings.SplitN(t, ";", 2)[0], prod)
	}
	ran := new(bool)
	api.RegisterOperation(method, "/t", runtime.OperationHandlerFunc(func(interface{}) (interface{}, error) {
		*ran = true
		return "ok", nil
	}))
	ctx := middleware.NewContext(d, api, nil)
	h := ctx.APIHandler(nil)
	mr, ok := ctx.LookupRoute(requestM(method, "Accept", nil))
	if !ok {
		return nil, fmt.Errorf("route /t not found")
	}
	a := &apiInst{method: method, handler: h, produces: append([]string{}, mr.Produces...), ran: ran}
	if len(apiCache) > 4096 {
		apiCache = map[string]*apiInst{}
	}
	apiCache[key] = a
	return a, nil
}

func serveAPI(a *apiInst, lines []string) (status int, ran bool, ctype string, panicked bool) {
	*a.ran = false
	rec := httptest.NewRecorder()
	defer func() {
		if recover() != nil {
			panicked = true
			ran = *a.ran
		}
	}()
	a.handler.ServeHTTP(rec, requestM(a.method, "Accept", lines))
	return rec.Code, *a.ran, rec.Header().Get("Content-Type"), false
}

func rawOffers(os []Offer) []string {
	out := make([]string, len(os))
	for i, o := range os {
		out[i] = o.Raw()
	}
	return out
}

func execute(c *drv.Ctx, d M) bool {
	switch drv.Str(d["kind"]) {
	case "ct":
		lines := renderHeader(linesFrom(d["lines"]), lspFrom(d["lsp"]))
		olists := olistsFrom(d["olists"])
		var defaults []string
		for _, x := range drv.List(d["defaults"]) {
			defaults = append(defaults, trace.Str(x))
		}
		parseEvent(c, "parse", "Accept", lines)
		selected := false
		for k, ol := range olists {
			offers := rawOffers(ol)
			for di, dflt := range defaults {
				res, p := negotiateCT(lines, offers, dflt)
				c.W.Event("ct", M{"k": k + 1, "d": di + 1, "result": trace.B(res), "panic": p})
				if !p && len(offers) > 0 && res != dflt {
					selected = true
				}
			}
		}
		if drv.Bool(d["api"]) {
			adef := offerFrom(d["adef"]).Raw()
			for k, ol := range olists {
				a, err := buildAPI(rawOffers(ol), adef, drv.Str(d["method"]), drv.Str(d["success"]))
				if err != nil {
					panic(fmt.Sprintf("c07: cannot build the API for %v: %v", rawOffers(ol), err))
				}
				status, ran, ctype, p := serveAPI(a, lines)
				c.W.Event("api", M{"k": k + 1, "produces": trace.BB(a.produces), "status": status, "ran": ran,
					"ctype": trace.B(ctype), "panic": p})
			}
		}
		n := 0
		for _, l := range drv.List(d["lines"]) {
			n += len(drv.List(l))
		}
		return n >= 2 && selected
	case "enc":
		lines := renderHeader(linesFrom(d["lines"]), lspFrom(d["lsp"]))
		parseEvent(c, "parse", "Accept-Encoding", lines)
		selected := false
		for k, ol := range drv.List(d["olists"]) {
			var offers []string
			for _, o := range drv.List(ol) {
				offers = append(offers, trace.Str(o))
			}
			res, p := negotiateEnc(lines, offers)
			c.W.Event("enc", M{"k": k + 1, "result": trace.B(res), "panic": p})
			if !p && res != "" && res != "identity" {
				selected = true
			}
		}
		return selected
	case "opaque":
		var lines, offers []string
		for _, x := range drv.List(d["hdrs"]) {
			lines = append(lines, trace.Str(x))
		}
		for _, x := range drv.List(d["offers"]) {
			offers = append(offers, trace.Str(x))
		}
		dflt := trace.Str(d["dflt"])
		parseEvent(c, "oparse", "Accept", lines)
		// the package's other parsers of Accept-like headers (not used by the negotiation): totality only
		c.W.Event("oparse2", M{"panic": func() (p bool) {
			defer func() {
				if recover() != nil {
					p = true
				}
			}()
			h := request("Accept", lines).Header
			header.ParseAccept2(h, "Accept")
			header.ParseList(h, "Accept")
			header.ParseValueAndParams(h, "Accept")
			return false
		}()})
		res, p := negotiateCT(lines, offers, dflt)
		c.W.Event("oct", M{"result": trace.B(res), "panic": p})
		res, p = negotiateEnc(lines, offers)
		c.W.Event("oenc", M{"result": trace.B(res), "panic": p})
		a, err := buildAPI([]string{"a/x", "text/plain"}, "application/json", http.MethodGet, "200")
		if err != nil {
			panic(err)
		}
		status, _, _, p := serveAPI(a, lines)
		c.W.Event("oapi", M{"status": status, "panic": p})
		return len(lines) > 0
	}
	panic("c07: unknown case kind")
}
