package c07

import (
	"math/rand"

	"verifharness/internal/drv"
	"verifharness/internal/trace"
)

// ---- small helpers ------------------------------------------------------------

func q(i int, f ...int) Q { return Q{I: i, F: f} }

func rng(t, s string) Range { return Range{T: t, S: s, Lead: true} }

func withQ(r Range, v Q) Range {
	r.HasQ = true
	r.Q = v
	return r
}

// ctCase: lsp = OWS spelling of the lines that carry no range; method / success = shape of the operation served through the API.
func ctCase(lines [][]Range, olists [][]Offer, defaults []string, api bool, adef Offer) M {
	return M{"kind": "ct", "lines": linesJSON(lines), "lsp": make([]int, len(lines)), "olists": olistsJSON(olists), "defaults": trace.BB(defaults),
		"api": api, "adef": adef.JSON(), "method": "GET", "success": "200"}
}

func shaped(m M, method, success string) M {
	m["method"], m["success"] = method, success
	return m
}

func blanks(m M, lsp ...int) M {
	m["lsp"] = lsp
	return m
}

var (
	apiMethods   = []string{"GET", "POST", "DELETE", "HEAD"}
	apiSuccesses = []string{"200", "201", "204", "default"}
)

// shapeNo picks the n-th (method, success) combination (16 shapes)
func shapeNo(m M, n int) M {
	return shaped(m, apiMethods[n%4], apiSuccesses[(n/4)%4])
}

func encCase(lines [][]Range, olists [][]string) M {
	ol := make([][][]int, 0, len(olists))
	for _, l := range olists {
		ol = append(ol, trace.BB(l))
	}
	return M{"kind": "enc", "lines": linesJSON(lines), "lsp": make([]int, len(lines)), "olists": ol}
}

// all lists of length <= n over pool (including the empty list), in a fixed order
func listsUpTo[T any](pool []T, n int) [][]T {
	out := [][]T{{}}
	level := [][]T{{}}
	for l := 1; l <= n; l++ {
		var next [][]T
		for _, p := range level {
			for _, x := range pool {
				next = append(next, append(append([]T{}, p...), x))
			}
		}
		out = append(out, next...)
		level = next
	}
	return out
}

// ---- q-values -----------------------------------------------------------------

// stripped fractional digits (no trailing zeros)
func sig(f []int) []int {
	n := len(f)
	for n > 0 && f[n-1] == 0 {
		n--
	}
	return f[:n]
}

func digit(f []int, k int) int {
	if k < len(f) {
		return f[k]
	}
	return 0
}

// resolvable: two weights either denote the same number or differ within the integer digit and the
// first 15 fractional digits (AcceptSpec.Q is a float64; see notes/C07.md, assumption QResolution15).
func resolvable(a, b Q) bool {
	if a.I != b.I {
		return true
	}
	for k := 0; k < 15; k++ {
		if digit(a.F, k) != digit(b.F, k) {
			return true
		}
	}
	sa, sb := sig(a.F), sig(b.F)
	if len(sa) != len(sb) {
		return false
	}
	for k := range sa {
		if sa[k] != sb[k] {
			return false
		}
	}
	return true
}

var fracLens = []int{1, 1, 2, 2, 3, 3, 3, 4, 6, 10, 15, 16, 17, 18, 19, 20, 21, 25, 40, 63, 64, 65, 80}

func randQ(r *rand.Rand) Q {
	switch x := r.Intn(100); {
	case x < 8:
		return q(0)
	case x < 14:
		return q(1)
	case x < 18:
		return q(1, 0, 0, 0)
	case x < 20:
		return q(1, 5)
	case x < 24:
		return q(0, 0, 0, 0)
	}
	n := fracLens[r.Intn(len(fracLens))]
	f := make([]int, n)
	np := 1 + r.Intn(3)
	randomTail := r.Intn(2) == 0
	for k := 0; k < n; k++ {
		switch {
		case k < np:
			f[k] = r.Intn(10)
		case randomTail:
			f[k] = r.Intn(10)
		}
	}
	return Q{I: 0, F: f}
}

// fixQs re-draws weights until all weights of the header (and the implicit 0 and 1) are pairwise resolvable.
func fixQs(r *rand.Rand, lines [][]Range) {
	var have []Q
	have = append(have, q(0), q(1))
	for li := range lines {
		for ri := range lines[li] {
			rg := &lines[li][ri]
			if !rg.HasQ {
				continue
			}
			for try := 0; ; try++ {
				ok := true
				for _, h := range have {
					if !resolvable(rg.Q, h) {
						ok = false
						break
					}
				}
				if ok {
					break
				}
				if try > 20 {
					rg.Q = q(0, 1+r.Intn(9))
				} else {
					rg.Q = randQ(r)
				}
			}
			have = append(have, rg.Q)
		}
	}
}

// ---- (a) exhaustive small scope: selection ----------------------------------------

var smallOffers = []Offer{{T: "a", S: "x"}, {T: "a", S: "y"}, {T: "b", S: "x"}, {T: "b", S: "y"}, {T: "a", S: "x", Sep: ";", P: "c=1"}}

func genExhaustiveCT(c *drv.Ctx, thorough bool) {
	values := [][2]string{{"a", "x"}, {"a", "y"}, {"a", "*"}, {"b", "x"}, {"*", "*"}}
	type qopt struct {
		has bool
		q   Q
	}
	qs := []qopt{{false, q(1)}, {true, q(0)}, {true, q(0, 5)}, {true, q(0, 5, 0)}, {true, q(1, 0)}}
	if thorough {
		qs = append(qs, qopt{true, q(0, 9)}, qopt{true, q(1)})
	}
	var ranges []Range
	for _, v := range values {
		for _, o := range qs {
			r := rng(v[0], v[1])
			if o.has {
				r = withQ(r, o.q)
			}
			ranges = append(ranges, r)
		}
	}
	olists := listsUpTo(smallOffers, 2)
	defaults := []string{"", "d/d"}
	adef := Offer{T: "d", S: "d"}
	n := 0
	// every operation shape (4 methods x success 200 / 201 / 204 / default-only) without Accept and with every single range
	for sh := 0; sh < 16; sh++ {
		c.Case(shapeNo(ctCase(nil, olists, defaults, true, adef), sh))                                     // no Accept header
		c.Case(shapeNo(blanks(ctCase([][]Range{{}}, olists, defaults, true, adef), sh%len(owsTable)), sh)) // one line without ranges
		n += 2
	}
	c.Case(blanks(ctCase([][]Range{{}, {}}, olists, defaults, true, adef), 0, 1))
	n++
	for _, r1 := range ranges {
		for sh := 0; sh < 16; sh++ {
			c.Case(shapeNo(ctCase([][]Range{{r1}}, olists, defaults, true, adef), sh))
			n++
		}
		// a line without ranges (empty, or white space only) before / after the line of the range
		for _, b := range []int{0, 1, 3} {
			c.Case(shapeNo(blanks(ctCase([][]Range{{}, {r1}}, olists, defaults, true, adef), b, 0), n))
			c.Case(shapeNo(blanks(ctCase([][]Range{{r1}, {}}, olists, defaults, true, adef), 0, b), n+1))
			n += 2
		}
		for _, r2 := range ranges {
			c.Case(shapeNo(ctCase([][]Range{{r1, r2}}, olists, defaults, true, adef), n))
			c.Case(ctCase([][]Range{{r1}, {r2}}, olists, defaults, false, adef))
			c.Case(shapeNo(blanks(ctCase([][]Range{{}, {r1, r2}}, olists, defaults, true, adef), n%2, 0), n+5))
			c.Case(blanks(ctCase([][]Range{{r1}, {}, {r2}}, olists, defaults, false, adef), 0, n%4, 0))
			n += 4
		}
	}
	if thorough {
		// three ranges on one line over the 5-weight pool, offer lists up to 2
		small := ranges[:0:0]
		for _, r := range ranges {
			if !(r.HasQ && ((r.Q.I == 0 && len(r.Q.F) == 1 && r.Q.F[0] == 9) || (r.Q.I == 1 && len(r.Q.F) == 0))) {
				small = append(small, r)
			}
		}
		for _, r1 := range small {
			for _, r2 := range small {
				for _, r3 := range small {
					c.Case(ctCase([][]Range{{r1, r2, r3}}, olists, defaults, false, adef))
					n++
				}
			}
		}
	}
	c.Extra["exhaustive_ct_headers"] = n
	c.Extra["exhaustive_ct_offer_lists"] = len(olists)
}

func genExhaustiveEnc(c *drv.Ctx, thorough bool) {
	values := []string{"gzip", "br", "*", "identity"}
	type qopt struct {
		has bool
		q   Q
	}
	qs := []qopt{{false, q(1)}, {true, q(0)}, {true, q(0, 5)}, {true, q(0, 5, 0)}, {true, q(1, 0)}}
	var ranges []Range
	for _, v := range values {
		for _, o := range qs {
			r := rng(v, "")
			if o.has {
				r = withQ(r, o.q)
			}
			ranges = append(ranges, r)
		}
	}
	olists := listsUpTo([]string{"gzip", "br", "identity"}, 2)
	if thorough {
		olists = listsUpTo([]string{"gzip", "br", "identity"}, 3)
	}
	n := 1
	c.Case(encCase(nil, olists))
	for _, r1 := range ranges {
		c.Case(encCase([][]Range{{r1}}, olists))
		c.Case(encCase([][]Range{{}, {r1}}, olists))
		c.Case(blanks(encCase([][]Range{{r1}, {}}, olists), 0, 1))
		n += 3
		for _, r2 := range ranges {
			c.Case(encCase([][]Range{{r1, r2}}, olists))
			n++
			if thorough {
				c.Case(encCase([][]Range{{r1}, {r2}}, olists))
				n++
			}
		}
	}
	c.Extra["exhaustive_enc_headers"] = n
}

// ---- (b) exhaustive small scope: syntax (parameters, OWS, q spelling) ------------------

func genSyntax(c *drv.Ctx, thorough bool) {
	// parameter values need not be tokens: everything up to the next ';' or ',' belongs to the parameter
	pbs := [][]Param{nil, {{K: "level", V: "1"}}, {{K: "seq", V: "0"}}, {{K: "charset", V: "utf-8", Quoted: true}},
		{{K: "level", V: "1"}, {K: "v", V: "2"}}, {{K: "p", V: "1/2"}}, {{K: "profile", V: "http://h/p?x=1#f"}},
		{{K: "to", V: "a@b"}, {K: "r", V: "[1]{2}(3)<4>"}}, {{K: "n", V: "caf\xc3\xa9\xff"}}}
	type qopt struct {
		has  bool
		q    Q
		lead bool
		dot  bool
	}
	qs := []qopt{{false, q(1), true, false}, {true, q(0, 5), true, false}, {true, q(0, 5), false, false}, {true, q(0), true, false},
		{true, q(0), false, false}, {true, q(1), true, true}, {true, q(0, 2, 5, 0), true, false}}
	pas := [][]Param{nil, {{K: "ext", V: "1"}}, {{K: "e", V: "x", Quoted: true}, {K: "f", V: "2"}}, {{K: "ext", V: "1/2:3@4=5?6#7"}}}
	sps := [][]int{nil, {1}, {3}, {1, 0}, {0, 1}, {2, 4}}
	seconds := [][]Range{nil, {rng("a", "y")}, {withQ(rng("a", "y"), q(0, 9))}, {withQ(rng("a", "*"), q(0, 3)), rng("b", "x")}}
	olists := [][]Offer{{{T: "a", S: "x"}, {T: "a", S: "y"}}, {{T: "a", S: "y"}, {T: "a", S: "x"}}, {{T: "b", S: "x"}, {T: "a", S: "y"}, {T: "a", S: "x"}}}
	n := 0
	for _, pb := range pbs {
		for _, qo := range qs {
			for _, pa := range pas {
				if !qo.has && pa != nil {
					continue
				}
				for _, sp := range sps {
					r1 := Range{T: "a", S: "x", HasQ: qo.has, Q: qo.q, PB: pb, PA: pa, Sp: sp, Lead: qo.lead, Dot: qo.dot}
					for _, sec := range seconds {
						line := append([]Range{r1}, sec...)
						c.Case(ctCase([][]Range{line}, olists, []string{""}, false, Offer{T: "d", S: "d"}))
						n++
						if thorough && len(sec) > 0 {
							// the structured range last on its line
							line2 := append(append([]Range{}, sec...), r1)
							c.Case(ctCase([][]Range{line2}, olists, []string{""}, false, Offer{T: "d", S: "d"}))
							n++
						}
					}
				}
			}
		}
	}
	c.Extra["exhaustive_syntax_headers"] = n
}

// ---- (c) seeded random structured cases ------------------------------------------

var (
	typesMixed = []string{"a", "b", "text", "Text", "application", "image", "x-y"}
	subsMixed  = []string{"x", "y", "plain", "json", "JSON", "vnd.cia.v1+json", "html"}
	typesLower = []string{"a", "b", "text", "application", "image"}
	subsLower  = []string{"x", "y", "plain", "json", "vnd.cia.v1+json", "html"}
	pbNames    = []string{"level", "charset", "version", "v", "seq", "profile"}
	paNames    = []string{"ext", "e", "level", "freq"}
	pValues    = []string{"1", "utf-8", "0.0.4", "x", "q", "1/2", "http://h/p", "a@b", "k=v", "x?y#z", "[1]", "{a}", "(c)", "<t>", "a:b", "caf\xc3\xa9", "\xff\x80", "a/b/*"}
	offParams  = []string{"charset=utf-8", "c=1", "version=2"}
	// contents of quoted-string parameter values (written between double quotes as they are)
	quotedValues = []string{"x\\\"y", "a\\\\b", "x y", "a=b", "\\x", "", "urn:x"}
)

func pick(r *rand.Rand, s []string) string { return s[r.Intn(len(s))] }

func randParams(r *rand.Rand, names []string, max int) []Param {
	n := 0
	if r.Intn(3) == 0 {
		n = 1 + r.Intn(max)
	}
	var out []Param
	for i := 0; i < n; i++ {
		p := Param{K: pick(r, names), V: pick(r, pValues), Quoted: r.Intn(5) == 0}
		if p.Quoted && r.Intn(2) == 0 {
			// a well-formed quoted-string with quoted-pairs / blanks / '=' but without ',' ';' (their meaning inside
			// quotes is not fixed for this parser): the range and its weight are unambiguous
			p.V = pick(r, quotedValues)
		}
		out = append(out, p)
	}
	return out
}

func randSpelling(r *rand.Rand, rg *Range) {
	if r.Intn(2) == 0 {
		n := 1 + r.Intn(4)
		for i := 0; i < n; i++ {
			if r.Intn(2) == 0 {
				rg.Sp = append(rg.Sp, 0)
			} else {
				rg.Sp = append(rg.Sp, r.Intn(len(owsTable)))
			}
		}
	}
	rg.Lead = r.Intn(5) != 0
	rg.Dot = r.Intn(10) == 0
}

func randOffer(r *rand.Rand, types, subs []string) Offer {
	o := Offer{T: pick(r, types), S: pick(r, subs)}
	if r.Intn(5) == 0 {
		o.Sep = []string{";", "; "}[r.Intn(2)]
		o.P = pick(r, offParams)
	}
	return o
}

func randCT(r *rand.Rand, api bool) M {
	types, subs := typesMixed, subsMixed
	if api {
		types, subs = typesLower, subsLower
	}
	// offers first, so that ranges can be derived from them
	nol := 1 + r.Intn(3)
	var olists [][]Offer
	var all []Offer
	for i := 0; i < nol; i++ {
		n := r.Intn(6)
		if i == 0 && n == 0 {
			n = 2
		}
		var ol []Offer
		for k := 0; k < n; k++ {
			var o Offer
			if len(all) > 0 && r.Intn(4) == 0 {
				o = all[r.Intn(len(all))] // duplicate / shared offer
			} else {
				o = randOffer(r, types[:2+r.Intn(len(types)-1)], subs[:2+r.Intn(len(subs)-1)])
			}
			ol = append(ol, o)
			all = append(all, o)
		}
		olists = append(olists, ol)
	}
	nr := r.Intn(7)
	if r.Intn(20) != 0 && nr == 0 {
		nr = 1
	}
	var flat []Range
	for i := 0; i < nr; i++ {
		var rg Range
		switch x := r.Intn(10); {
		case x < 4 && len(all) > 0: // exactly an offer's type
			o := all[r.Intn(len(all))]
			rg = Range{T: o.T, S: o.S}
		case x < 6 && len(all) > 0: // type/*
			rg = Range{T: all[r.Intn(len(all))].T, S: "*"}
		case x < 7:
			rg = Range{T: "*", S: "*"}
		case x < 8 && !api:
			rg = Range{T: "*"} // the bare "*" some clients send
		default:
			rg = Range{T: pick(r, types), S: pick(r, subs)}
		}
		rg.PB = randParams(r, pbNames, 2)
		if r.Intn(10) < 7 {
			rg.HasQ = true
			rg.Q = randQ(r)
			rg.PA = randParams(r, paNames, 2)
		} else {
			rg.Q = q(1)
		}
		randSpelling(r, &rg)
		flat = append(flat, rg)
	}
	// split into 1..3 header lines
	var lines [][]Range
	for len(flat) > 0 {
		n := 1 + r.Intn(len(flat))
		if r.Intn(2) == 0 {
			n = len(flat)
		}
		lines = append(lines, flat[:n:n])
		flat = flat[n:]
	}
	fixQs(r, lines)
	lines, lsp := insertBlankLines(r, lines)
	defaults := []string{"", "d/d"}
	if len(all) > 0 && r.Intn(3) == 0 {
		defaults = append(defaults, all[r.Intn(len(all))].Raw())
	}
	adef := Offer{T: "application", S: "json"}
	if api {
		switch r.Intn(3) {
		case 0:
			adef = Offer{T: "d", S: "d"}
		case 1:
			if len(all) > 0 {
				o := all[r.Intn(len(all))]
				adef = Offer{T: o.T, S: o.S}
			}
		}
	}
	m := blanks(ctCase(lines, olists, defaults, api, adef), lsp...)
	return shaped(m, apiMethods[r.Intn(4)], apiSuccesses[r.Intn(4)])
}

// insertBlankLines adds, with probability 1/3, lines without ranges (empty or OWS only) at random positions.
func insertBlankLines(r *rand.Rand, lines [][]Range) ([][]Range, []int) {
	if r.Intn(3) == 0 {
		for n := 1 + r.Intn(2); n > 0; n-- {
			i := r.Intn(len(lines) + 1)
			lines = append(lines[:i:i], append([][]Range{{}}, lines[i:]...)...)
		}
	}
	lsp := make([]int, len(lines))
	for i, l := range lines {
		if len(l) == 0 {
			lsp[i] = []int{0, 0, 1, 2, 3, 4}[r.Intn(6)]
		}
	}
	return lines, lsp
}

var codings = []string{"gzip", "br", "deflate", "identity", "x-gzip", "GZIP", "compress"}

func randEnc(r *rand.Rand) M {
	nol := 1 + r.Intn(3)
	var olists [][]string
	for i := 0; i < nol; i++ {
		n := r.Intn(5)
		ol := []string{}
		for k := 0; k < n; k++ {
			ol = append(ol, pick(r, codings[:2+r.Intn(len(codings)-1)]))
		}
		olists = append(olists, ol)
	}
	nr := r.Intn(6)
	var flat []Range
	for i := 0; i < nr; i++ {
		rg := Range{T: pick(r, codings[:2+r.Intn(len(codings)-1)])}
		if r.Intn(4) == 0 {
			rg.T = "*"
		}
		if r.Intn(10) < 7 {
			rg.HasQ = true
			rg.Q = randQ(r)
			rg.PA = randParams(r, paNames, 1)
		} else {
			rg.Q = q(1)
		}
		randSpelling(r, &rg)
		flat = append(flat, rg)
	}
	var lines [][]Range
	for len(flat) > 0 {
		n := 1 + r.Intn(len(flat))
		lines = append(lines, flat[:n:n])
		flat = flat[n:]
	}
	fixQs(r, lines)
	lines, lsp := insertBlankLines(r, lines)
	return blanks(encCase(lines, olists), lsp...)
}

// ---- (d) opaque bytes ---------------------------------------------------------------

const opaqueAlphabet = "q=q=;;,,..//**  \t\"\"\\01259aAxX-+_:()<>@[]{}?\r\n\x00\x01\x7f\x80\xff"

func randBytes(r *rand.Rand, n int) string {
	b := make([]byte, n)
	for i := range b {
		if r.Intn(12) == 0 {
			b[i] = byte(r.Intn(256))
		} else {
			b[i] = opaqueAlphabet[r.Intn(len(opaqueAlphabet))]
		}
	}
	return string(b)
}

func mutateBytes(r *rand.Rand, s string) string {
	b := []byte(s)
	for k := 1 + r.Intn(3); k > 0; k-- {
		switch r.Intn(3) {
		case 0:
			if len(b) > 0 {
				b[r.Intn(len(b))] = opaqueAlphabet[r.Intn(len(opaqueAlphabet))]
			}
		case 1:
			i := r.Intn(len(b) + 1)
			b = append(b[:i], append([]byte{opaqueAlphabet[r.Intn(len(opaqueAlphabet))]}, b[i:]...)...)
		case 2:
			if len(b) > 0 {
				i := r.Intn(len(b))
				b = append(b[:i], b[i+1:]...)
			}
		}
	}
	return string(b)
}

// quotedForms: header elements with quoted-string parameter values - well-formed, with quoted-pairs, with separators inside the
// quotes, unterminated, ending in a backslash (inside and outside a quoted-string).  Only totality and membership are demanded.
var quotedForms = []string{
	`text/html;a="x"`, `text/html;a="x\"y"`, `text/html;a="x,y";q=0.5`, `text/html;a="x;q=0"`, `text/html;a="x;q=0";q=0.5`,
	`text/html;a="x`, `text/html;a="x\`, `application/json;profile="urn:x\`, `a/x;q=0.5;e="\`, `a/x;q=0.5;e="x\\`, `a/x;p="\\"`,
	`a/x;p="\\\`, `a/x;p="`, `a/x;p=\`, `a/x;p=x\`, `a/x\`, `a/x;"`, `a/x;"\`, `a/x;q="0.5"`, `a/x;q="0.5\`, `a/x;q=0.5\`,
	`gzip;p="x\`, `*;p="\`, `*/*;p="a,b\`, `a/x;p="a" , a/y;p="b\`, `a/x;p="\"\"\`, `a/x;p="\,";q=0`, `\`, `"`, `"\`, `;p="\`,
}

func opaqueCase(hdrs, offers []string, dflt string) M {
	return M{"kind": "opaque", "hdrs": trace.BB(hdrs), "offers": trace.BB(offers), "dflt": trace.B(dflt)}
}

// genQuoted: every quoted form alone and at every position of a multi-line header (before / after a plain range, after a blank
// line, followed by a further element on the same line).
func genQuoted(c *drv.Ctx) {
	offers := []string{"a/x", "text/html", "application/json", "gzip", "a/y"}
	n := 0
	for _, q := range quotedForms {
		for _, hdrs := range [][]string{{q}, {"a/y", q}, {q, "a/y;q=0.5"}, {"", q}, {q + ", a/y"}, {"a/y;q=0.5, " + q}, {"a/y", q, "*/*;q=0.1"}} {
			c.Case(opaqueCase(hdrs, offers, []string{"", "d/d"}[n%2]))
			n++
		}
	}
	c.Extra["quoted_form_cases"] = n
}

// randQuotedElement: a range followed by parameters whose values are random quoted-strings (terminated or not).
func randQuotedElement(r *rand.Rand) string {
	const inside = "ab,;=q \t\\\\\"\"01.x/*"
	s := []string{"a/x", "text/html", "*/*", "gzip", "*", "a/*"}[r.Intn(6)]
	for k := 1 + r.Intn(3); k > 0; k-- {
		s += []string{";", "; ", " ;"}[r.Intn(3)] + []string{"p", "q", "level", "profile"}[r.Intn(4)] + "=\""
		for m := r.Intn(6); m > 0; m-- {
			s += string(inside[r.Intn(len(inside))])
		}
		switch r.Intn(5) {
		case 0: // unterminated
		case 1:
			s += "\\" // ends in a backslash
		default:
			s += "\""
		}
	}
	return s
}

func randOpaque(r *rand.Rand) M {
	var hdrs []string
	for n := 1 + r.Intn(3); n > 0; n-- {
		switch r.Intn(4) {
		case 3:
			s := randQuotedElement(r)
			for k := r.Intn(3); k > 0; k-- {
				s += []string{",", ", ", " ,"}[r.Intn(3)] + randQuotedElement(r)
			}
			hdrs = append(hdrs, s)
		case 0:
			hdrs = append(hdrs, randBytes(r, r.Intn(40)))
		case 1:
			d := randCT(r, false)
			ls := renderHeader(linesFrom(drv.Norm(d)["lines"]), nil)
			if len(ls) == 0 {
				ls = []string{"a/x;q=0.5"}
			}
			hdrs = append(hdrs, mutateBytes(r, ls[0]))
		default:
			// quoted strings with ',' and 'q=' inside, stray q=
			pieces := []string{"a/x", "text/plain", "*/*", ";q=", "0.5", ";p=\"a,b\"", ";p=\"q=0\"", ";p=\"\\\"\"", ",", " , ", "q=", ";", "1.", ".", "a/*", "\"", "gzip", "*"}
			s := ""
			for k := r.Intn(8); k > 0; k-- {
				s += pieces[r.Intn(len(pieces))]
			}
			hdrs = append(hdrs, s)
		}
	}
	offers := []string{}
	for n := r.Intn(4); n > 0; n-- {
		offers = append(offers, []string{"a/x", "text/plain", "a/y", "gzip", "a/x;c=1", "", "*/*"}[r.Intn(7)])
	}
	return M{"kind": "opaque", "hdrs": trace.BB(hdrs), "offers": trace.BB(offers), "dflt": trace.B([]string{"", "d/d"}[r.Intn(2)])}
}

// ---- (e) long headers: 33 .. 130 ranges on one line or spread over several lines, the decisive range late --------------------

func genLong(c *drv.Ctx, thorough bool) {
	lengths := []int{33, 34, 40, 64, 100}
	if thorough {
		lengths = append(lengths, 32, 65, 130)
	}
	n := 0
	offersCT := [][]Offer{{{T: "a", S: "x"}, {T: "a", S: "y"}}, {{T: "a", S: "y"}, {T: "a", S: "x"}}, {{T: "b", S: "z"}}}
	for _, L := range lengths {
		for layout := 0; layout < 4; layout++ { // one line / two lines / lines of 8 / one range per line
			for variant := 0; variant < 5; variant++ {
				var flat []Range
				for i := 0; i < L-1; i++ {
					// ranges that admit none of the offers, with assorted weights
					r := rng("f", "t"+string(rune('a'+i%26))+string(rune('a'+(i/26)%26)))
					switch i % 4 {
					case 1:
						r = withQ(r, q(0, 5))
					case 2:
						r = withQ(r, q(0, 9, 9))
					}
					flat = append(flat, r)
				}
				late := rng("a", "y") // the only / best acceptable range, last
				switch variant {
				case 1: // an early catch-all with a small weight: the late exact range must still win
					flat[0] = withQ(rng("*", "*"), q(0, 1))
				case 2: // an early exact range for the other offer with a lower weight
					flat[1] = withQ(rng("a", "x"), q(0, 3))
					late = withQ(late, q(0, 8))
				case 3: // the late range forbids: q=0 ... and an early type range admits with a small weight
					flat[2] = withQ(rng("a", "*"), q(0, 2))
					late = withQ(rng("a", "x"), q(0))
				case 4: // decisive range in the middle of the tail (position 33 of L)
					if L > 34 {
						flat[32], late = late, flat[32]
					}
				}
				flat = append(flat, late)
				var lines [][]Range
				switch layout {
				case 0:
					lines = [][]Range{flat}
				case 1:
					lines = [][]Range{flat[:L/2], flat[L/2:]}
				case 2:
					for i := 0; i < L; i += 8 {
						j := i + 8
						if j > L {
							j = L
						}
						lines = append(lines, flat[i:j])
					}
				default:
					for i := range flat {
						lines = append(lines, flat[i:i+1])
					}
				}
				c.Case(shapeNo(ctCase(lines, offersCT, []string{"", "d/d"}, n%2 == 0, Offer{T: "d", S: "d"}), n))
				n++
			}
			// codings: the offered coding is named last
			var enc []Range
			for i := 0; i < L-1; i++ {
				r := rng("c"+string(rune('a'+i%26))+string(rune('a'+(i/26)%26)), "")
				if i%3 == 1 {
					r = withQ(r, q(0, 5))
				}
				enc = append(enc, r)
			}
			enc = append(enc, rng("gzip", ""))
			lines := [][]Range{enc}
			if layout == 1 {
				lines = [][]Range{enc[:L/2], enc[L/2:]}
			} else if layout >= 2 {
				lines = [][]Range{enc[:10], enc[10:31], enc[31:]}
			}
			c.Case(encCase(lines, [][]string{{"gzip", "br"}, {"br", "gzip"}, {"br"}}))
			n++
		}
	}
	c.Extra["long_header_cases"] = n
}

// ---- all --------------------------------------------------------------------------------

func generate(c *drv.Ctx) {
	thorough := c.Tier == "thorough"
	genExhaustiveCT(c, thorough)
	genExhaustiveEnc(c, thorough)
	genSyntax(c, thorough)
	genQuoted(c)
	genLong(c, thorough)
	nCT, nEnc, nOpaque := 6000, 1500, 6000
	if thorough {
		nCT, nEnc, nOpaque = 60000, 10000, 60000
	}
	for i := 0; i < nCT; i++ {
		c.Case(randCT(c.Rng, i%4 == 0))
	}
	for i := 0; i < nEnc; i++ {
		c.Case(randEnc(c.Rng))
	}
	for i := 0; i < nOpaque; i++ {
		c.Case(randOpaque(c.Rng))
	}
	c.Extra["random_ct_cases"] = nCT
	c.Extra["random_enc_cases"] = nEnc
	c.Extra["opaque_cases"] = nOpaque
}
