package c09

import (
	"bufio"
	"encoding/json"
	"fmt"
	"net/http"
	"net/http/httptest"
	"os"
	"runtime"
	"strconv"
	"sync"
	"time"

	"github.com/go-openapi/errors"
	"github.com/go-openapi/runtime/middleware"

	"verifharness/internal/drv"
)

type M = drv.M

func init() {
	drv.Register(&drv.Driver{Name: "c09", Generate: generate, Execute: execute})
}

var (
	theAPI   *built
	buildOne sync.Once
)

func api() *built {
	buildOne.Do(func() { theAPI = build() })
	return theAPI
}

func generate(c *drv.Ctx) {
	nSched, nHist := 0, 0
	if c.Scripts != "" {
		f, err := os.Open(c.Scripts)
		if err != nil {
			panic(err)
		}
		defer f.Close()
		sc := bufio.NewScanner(f)
		sc.Buffer(make([]byte, 1<<20), 1<<26)
		for sc.Scan() {
			var m M
			if err := json.Unmarshal(sc.Bytes(), &m); err != nil {
				panic(err)
			}
			if _, ok := m["sched"]; ok {
				m["kind"] = "sched"
				nSched++
			} else {
				m["kind"] = "hist"
				nHist++
			}
			c.Case(m)
		}
	}
	c.Extra["schedules_replayed"] = nSched
	c.Extra["histories_replayed"] = nHist
	// free-running stress (no gating), meant to run under -race
	rounds := 6
	if c.Tier == "thorough" {
		rounds = 40
	}
	nFree := 0
	for i := 0; i < rounds; i++ {
		for _, n := range []int{4, 16, 64} {
			for _, procs := range []int{1, 4, 16} {
				c.Case(M{"kind": "free", "n": n, "procs": procs, "seed": c.Rng.Intn(1 << 30)})
				nFree++
			}
		}
	}
	c.Extra["free_running_batches"] = nFree
}

func execute(c *drv.Ctx, d M) bool {
	switch drv.Str(d["kind"]) {
	case "sched":
		return execSched(c, d)
	case "hist":
		return execHist(c, d)
	case "free":
		return execFree(c, d)
	}
	panic("c09: unknown case kind")
}

func writeEvents(c *drv.Ctx, evs []event) {
	for _, e := range evs {
		c.W.Event(e.name, M{"req": e.req, "v": e.v})
	}
}

func serve(b *built, q reqIn) {
	rec := httptest.NewRecorder()
	defer func() {
		// a panic of the code under test is an observation (no stage of the model is called "panic")
		if e := recover(); e != nil {
			emit("panic", "panic")
		}
	}()
	b.handler.ServeHTTP(rec, q.httpRequest())
	data := rec.Body.String()
	if rec.Code != http.StatusOK {
		data = "err"
	}
	emit("done", strconv.Itoa(rec.Code), short(rec.Header().Get("Content-Type")), data)
}

// execSched replays one TLC-generated interleaving: the hooks and the harness-owned
// callbacks are the scheduler gates.
func execSched(c *drv.Ctx, d M) bool {
	b := api()
	var reqs []reqIn
	for _, r := range drv.List(d["reqs"]) {
		reqs = append(reqs, reqFrom(drv.Map(r)))
	}
	rn := &run{gated: true, yielded: make(chan int)}
	states := make([]*reqState, len(reqs))
	dones := make([]chan struct{}, len(reqs))
	var wg sync.WaitGroup
	current.Store(rn)
	defer current.Store(nil)
	for i := range reqs {
		rs := &reqState{idx: i + 1, run: rn, grant: make(chan struct{})}
		states[i] = rs
		dones[i] = make(chan struct{})
		wg.Add(1)
		go func(i int, rs *reqState) {
			defer wg.Done()
			defer close(dones[i])
			rn.byGo.Store(goid(), rs)
			<-rs.grant
			serve(b, reqs[i])
		}(i, rs)
	}
	stuck := false
	for _, sv := range drv.List(d["sched"]) {
		r := drv.Int(sv) - 1
		select {
		case <-dones[r]:
			continue // this request already finished: fewer stages than the model (TV will say so)
		default:
		}
		select {
		case states[r].grant <- struct{}{}:
		case <-dones[r]:
			continue
		case <-time.After(10 * time.Second):
			stuck = true
		}
		if stuck {
			break
		}
		select {
		case <-rn.yielded:
		case <-dones[r]:
		case <-time.After(10 * time.Second):
			stuck = true
		}
		if stuck {
			break
		}
	}
	// let everything run to completion
	for i := range states {
		states[i].free.Store(true)
	}
	fin := make(chan struct{})
	go func() { wg.Wait(); close(fin) }()
	deadline := time.After(10 * time.Second)
loop:
	for {
		select {
		case <-fin:
			break loop
		case <-rn.yielded:
		case <-deadline:
			stuck = true
			break loop
		default:
			for i := range states {
				select {
				case states[i].grant <- struct{}{}:
				default:
				}
			}
			time.Sleep(50 * time.Microsecond)
		}
	}
	rn.mu.Lock()
	evs := append([]event{}, rn.log...)
	rn.mu.Unlock()
	writeEvents(c, evs)
	if stuck {
		c.W.Event("stuck", M{"req": 0, "v": []string{}})
	}
	c.W.Event("end", M{"req": 0, "v": []string{}})
	return len(reqs) >= 2
}

// execFree runs n concurrent requests without gating; the per-request projections are
// emitted request by request (a serial interleaving of the independent requests).
func execFree(c *drv.Ctx, d M) bool {
	b := api()
	n, procs, seed := drv.Int(d["n"]), drv.Int(d["procs"]), drv.Int(d["seed"])
	old := runtime.GOMAXPROCS(procs)
	defer runtime.GOMAXPROCS(old)
	rng := newRng(int64(seed))
	reqs := make([]reqIn, n)
	for i := range reqs {
		reqs[i] = randomValid(rng, i+1)
	}
	rn := &run{gated: false}
	states := make([]*reqState, n)
	current.Store(rn)
	defer current.Store(nil)
	var wg sync.WaitGroup
	start := make(chan struct{})
	for i := range reqs {
		rs := &reqState{idx: i + 1, run: rn}
		states[i] = rs
		wg.Add(1)
		go func(i int, rs *reqState) {
			defer wg.Done()
			rn.byGo.Store(goid(), rs)
			<-start
			serve(b, reqs[i])
		}(i, rs)
	}
	close(start)
	wg.Wait()
	js := make([]any, n)
	for i := range reqs {
		js[i] = reqs[i].JSON()
	}
	c.W.Event("reqs", M{"reqs": js})
	for _, rs := range states {
		writeEvents(c, rs.events)
	}
	c.W.Event("end", M{"req": 0, "v": []string{}})
	return true
}

func newRng(seed int64) *lcg { return &lcg{s: uint64(seed)*2862933555777941757 + 3037000493} }

type lcg struct{ s uint64 }

func (l *lcg) Intn(n int) int {
	l.s = l.s*6364136223846793005 + 1442695040888963407
	return int((l.s >> 33) % uint64(n))
}

func randomValid(r *lcg, k int) reqIn {
	ops := []string{"opA", "opB", "opC", "opD", "opE"}
	med := []string{"json", "text"}
	q := reqIn{Op: ops[r.Intn(5)], ID: fmt.Sprintf("i%d", k), Body: fmt.Sprintf("b%d", k),
		Ctype: med[r.Intn(2)], Accept: med[r.Intn(2)], Cs: "-", Cu: "-", Rt: "ok", Q: "ok", H: "ok"}
	users := []string{"u1", "u2", "u3"}
	switch q.Op {
	case "opA", "opD":
		q.Cs, q.Cu = "key", users[r.Intn(3)]
	case "opC":
		q.Cs, q.Cu = []string{"key", "tok"}[r.Intn(2)], users[r.Intn(3)]
		q.Ctype = "json"
	}
	return q
}

// execHist replays one accessor history on one request, threading the returned request value.
func execHist(c *drv.Ctx, d M) bool {
	b := api()
	q := reqFrom(drv.Map(d["req"]))
	req := q.httpRequest()
	route, ok := b.ctx.LookupRoute(req)
	if !ok {
		panic("c09: history request does not route")
	}
	lookups.Store(0)
	authCalls.Store(0)
	consumes.Store(0)
	hits := 0
	for _, av := range drv.List(d["hist"]) {
		name := drv.Str(av)
		var ret []string
		same, nilreq := false, false
		var next *http.Request
		switch name {
		case "RouteInfo":
			rt, r2, found := b.ctx.RouteInfo(req)
			next = r2
			if found {
				ret = append([]string{rt.PathPattern, dash(rt.Params.Get("id"))}, routeView(rt)...)
			} else {
				ret = []string{"notfound"}
			}
		case "ContentType":
			mt, _, r2, err := b.ctx.ContentType(req)
			next = r2
			if err != nil {
				ret = []string{"err"}
			} else {
				ret = []string{mt}
			}
		case "ResponseFormat", "ResponseFormatText", "ResponseFormatCharset":
			offers := []string{"application/json", "text/plain"}
			if name == "ResponseFormatText" {
				offers = []string{"text/plain"}
			} else if name == "ResponseFormatCharset" {
				offers = []string{"text/plain; charset=utf-8"}
			}
			f, r2 := b.ctx.ResponseFormat(req, offers)
			next = r2
			ret = []string{f}
		case "Authorize", "AuthorizeFresh":
			rt := route
			if name == "AuthorizeFresh" {
				// a MatchedRoute value of the asker's own, as a middleware in front of the secured handler has
				if fresh, found := b.ctx.LookupRoute(req); found {
					rt = fresh
				}
			}
			p, r2, err := b.ctx.Authorize(req, rt)
			next = r2
			switch {
			case err != nil:
				code := "?"
				if e, ok := err.(errors.Error); ok {
					code = strconv.Itoa(int(e.Code()))
				}
				ret = []string{"err", code}
			case p == nil && r2 == nil:
				ret = []string{"noauth"}
			default:
				pp, _ := p.(*principal)
				if pp == nil {
					ret = []string{"?", "?"}
				} else {
					ret = []string{pp.Scheme, pp.User}
				}
				ret = append(ret, middleware.SecurityScopesFrom(r2)...)
			}
		case "BindAndValidate", "BindAndValidateFresh":
			rt := route
			if name == "BindAndValidateFresh" {
				if fresh, found := b.ctx.LookupRoute(req); found {
					rt = fresh
				}
			}
			bound, r2, err := b.ctx.BindAndValidate(req, rt)
			next = r2
			if err != nil {
				ret = []string{"invalid"}
			} else {
				m, _ := bound.(map[string]interface{})
				id := idOf(m)
				body := "-"
				if bv, ok := m["body"]; ok {
					body = bodyTag(bv)
				}
				ret = []string{"valid", id, body}
			}
		case "ResetAuth":
			next = b.ctx.ResetAuth(req)
			ret = []string{"reset"}
		default:
			panic("c09: unknown accessor " + name)
		}
		if next == nil {
			nilreq = true
		} else {
			same = next == req
			req = next
		}
		if same {
			hits++
		}
		c.W.Event("acc", M{"name": name, "ret": ret, "same": same, "nilreq": nilreq,
			"lookups": int(lookups.Load()), "authcalls": int(authCalls.Load()), "consumes": int(consumes.Load())})
	}
	return hits > 0
}
