package c09

// G03 (growth): the refusal classes of the serving pipeline and their precedence, seen from the
// client side. A real client.Runtime talks to an httptest.Server serving the C09 test API; the
// client's response reader must see exactly the status the ServePipeline model computes for the
// request (routing > security > content type > accept > parameters > handler), the negotiated
// type and the handler's data on success, a JSON error otherwise.

import (
	"bufio"
	"encoding/json"
	"fmt"
	"io"
	"net/http/httptest"
	"net/url"
	"os"
	"strconv"
	"sync"

	"github.com/go-openapi/runtime"
	"github.com/go-openapi/runtime/client"
	"github.com/go-openapi/strfmt"

	"verifharness/internal/drv"
)

func init() {
	drv.Register(&drv.Driver{Name: "g03", Generate: g03Generate, Execute: g03Execute})
}

func g03Generate(c *drv.Ctx) {
	if c.Scripts == "" {
		panic("g03: needs the TLC-exported request kinds")
	}
	f, err := os.Open(c.Scripts)
	if err != nil {
		panic(err)
	}
	defer f.Close()
	sc := bufio.NewScanner(f)
	sc.Buffer(make([]byte, 1<<20), 1<<26)
	n := 0
	for sc.Scan() {
		var m M
		if err := json.Unmarshal(sc.Bytes(), &m); err != nil {
			panic(err)
		}
		for _, r := range drv.List(m["reqs"]) {
			q := reqFrom(drv.Map(r))
			if q.Ctype == "bad" {
				continue // an unparsable Content-Type cannot be produced through the client transport
			}
			c.Case(M{"kind": "e2e", "req": q.JSON()})
			n++
		}
	}
	c.Extra["exchanges"] = n
}

var (
	g03Once sync.Once
	g03Srv  *httptest.Server
)

func rawProducer() runtime.Producer {
	return runtime.ProducerFunc(func(w io.Writer, data interface{}) error {
		_, err := io.WriteString(w, fmt.Sprint(data))
		return err
	})
}

func rawConsumer() runtime.Consumer {
	return runtime.ConsumerFunc(func(r io.Reader, data interface{}) error {
		b, err := io.ReadAll(r)
		if err != nil {
			return err
		}
		*(data.(*string)) = string(b)
		return nil
	})
}

type seen struct {
	code  int
	ctype string
	body  string
}

func g03Execute(c *drv.Ctx, d M) bool {
	g03Once.Do(func() { g03Srv = httptest.NewServer(api().handler) })
	q := reqFrom(drv.Map(d["req"]))
	u, _ := url.Parse(g03Srv.URL)
	rt := client.New(u.Host, "/", []string{"http"})
	for _, mt := range []string{"application/json", "text/plain", "application/xml"} {
		rt.Producers[mt] = rawProducer()
		rt.Consumers[mt] = rawConsumer()
	}
	rt.Consumers["*/*"] = rawConsumer()

	method, pattern := "POST", "/a/{id}"
	switch q.Op {
	case "opB":
		pattern = "/b/{id}"
	case "opC":
		method, pattern = "GET", "/c/{id}"
	case "opD":
		pattern = "/d"
	case "opE":
		pattern = "/e"
	}
	hasID := q.Op == "opA" || q.Op == "opB" || q.Op == "opC"
	switch q.Rt {
	case "404":
		if hasID {
			pattern = "/zz/{id}"
		} else {
			pattern = "/zz"
		}
	case "405":
		method = "DELETE"
	}
	accept := media(q.Accept)
	if q.Accept == "none" {
		accept = "image/png"
	}
	n := "1"
	if q.Q == "bad" {
		n = "x"
	} else if q.H == "err" {
		n = "13"
	}
	var got seen
	op := &runtime.ClientOperation{
		ID: q.Op, Method: method, PathPattern: pattern,
		ProducesMediaTypes: []string{accept},
		ConsumesMediaTypes: []string{media(q.Ctype)},
		Schemes:            []string{"http"},
		Params: runtime.ClientRequestWriterFunc(func(req runtime.ClientRequest, _ strfmt.Registry) error {
			if hasID {
				if err := req.SetPathParam("id", q.ID); err != nil {
					return err
				}
			}
			if err := req.SetQueryParam("n", n); err != nil {
				return err
			}
			if method != "GET" {
				body := q.Body
				if q.Ctype == "json" {
					body = `{"t":"` + q.Body + `"}`
				}
				return req.SetBodyParam(body)
			}
			return nil
		}),
		Reader: runtime.ClientResponseReaderFunc(func(resp runtime.ClientResponse, cons runtime.Consumer) (interface{}, error) {
			got.code = resp.Code()
			got.ctype = short(resp.GetHeader("Content-Type"))
			var s string
			if err := cons.Consume(resp.Body(), &s); err != nil {
				return nil, err
			}
			got.body = s
			return nil, nil
		}),
	}
	if q.Cs != "-" && q.Cs != "" {
		name := "X-Key"
		if q.Cs == "tok" {
			name = "X-Tok"
		}
		op.AuthInfo = runtime.ClientAuthInfoWriterFunc(func(req runtime.ClientRequest, _ strfmt.Registry) error {
			return req.SetHeaderParam(name, q.Cu)
		})
	}
	_, err := rt.Submit(op)
	errs := ""
	if err != nil {
		errs = "error"
	}
	data := got.body
	if got.code != 200 {
		data = "err"
	}
	c.W.Event("exchange", M{"status": strconv.Itoa(got.code), "ctype": got.ctype, "data": data, "err": errs})
	return got.code != 200
}
