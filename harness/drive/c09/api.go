// Package c09 drives the real serving pipeline for property C09: TLC-generated
// schedules are replayed with the verif hooks as scheduler gates, accessor
// histories are replayed on one request, and free-running stress runs under -race.
package c09

import (
	"bytes"
	"encoding/json"
	"fmt"
	"io"
	"net/http"
	"reflect"
	"runtime"
	"strconv"
	"strings"
	"sync"
	"sync/atomic"

	"github.com/go-openapi/errors"
	"github.com/go-openapi/loads"
	oruntime "github.com/go-openapi/runtime"
	"github.com/go-openapi/runtime/middleware"
	"github.com/go-openapi/runtime/middleware/untyped"
	"github.com/go-openapi/runtime/security"
)

const swaggerDoc = `{
 "swagger":"2.0","info":{"title":"c09","version":"1"},"basePath":"/",
 "consumes":["application/json; charset=utf-8","text/plain"],"produces":["application/json","text/plain"],
 "securityDefinitions":{
  "key":{"type":"oauth2","flow":"password","tokenUrl":"http://x/t","scopes":{"ska":"","skc":"","skd":""}},
  "tok":{"type":"oauth2","flow":"password","tokenUrl":"http://x/t","scopes":{"stc1":"","stc2":""}}},
 "paths":{
  "/a/{id}":{"post":{"operationId":"opA","security":[{"key":["ska"]}],
    "parameters":[{"name":"id","in":"path","type":"string","required":true},{"name":"n","in":"query","type":"integer","format":"int64"},{"name":"tags","in":"query","type":"array","items":{"type":"string"},"default":["x","y"]},{"name":"body","in":"body","required":true,"schema":{"type":"object"}}],
    "responses":{"200":{"description":"ok"}}}},
  "/b/{id}":{"post":{"operationId":"opB",
    "parameters":[{"name":"id","in":"path","type":"string","required":true},{"name":"n","in":"query","type":"integer","format":"int64"},{"name":"tags","in":"query","type":"array","items":{"type":"string"},"default":["x","y"]},{"name":"body","in":"body","required":true,"schema":{"type":"object"}}],
    "responses":{"200":{"description":"ok"}}}},
  "/d":{"post":{"operationId":"opD","security":[{"key":["skd"]}],
    "parameters":[{"name":"n","in":"query","type":"integer","format":"int64"},{"name":"tags","in":"query","type":"array","items":{"type":"string"},"default":["x","y"]},{"name":"body","in":"body","required":true,"schema":{"type":"object"}}],
    "responses":{"200":{"description":"ok"}}}},
  "/e":{"post":{"operationId":"opE",
    "parameters":[{"name":"n","in":"query","type":"integer","format":"int64"},{"name":"tags","in":"query","type":"array","items":{"type":"string"},"default":["x","y"]},{"name":"body","in":"body","required":true,"schema":{"type":"object"}}],
    "responses":{"200":{"description":"ok"}}}},
  "/c/{id}":{"get":{"operationId":"opC","security":[{"key":["skc"]},{"tok":["stc2","stc1"]}],
    "parameters":[{"name":"id","in":"path","type":"string","required":true},{"name":"n","in":"query","type":"integer","format":"int64"},{"name":"tags","in":"query","type":"array","items":{"type":"string"},"default":["x","y"]}],
    "responses":{"200":{"description":"ok"}}}}
 }}`

// principal is what the scripted authenticators return.
type principal struct{ Scheme, User string }

// ---- who is running --------------------------------------------------------

func goid() int64 {
	var buf [64]byte
	n := runtime.Stack(buf[:], false)
	s := strings.TrimPrefix(string(buf[:n]), "goroutine ")
	if i := strings.IndexByte(s, ' '); i > 0 {
		s = s[:i]
	}
	id, _ := strconv.ParseInt(s, 10, 64)
	return id
}

// run is one execution context (a schedule replay, a history, a stress batch).
type run struct {
	mu      sync.Mutex
	byGo    sync.Map // goid -> *reqState
	gated   bool
	log     []event // gated: global order; free: unused
	yielded chan int
}

type event struct {
	req  int
	name string
	v    []string
}

type reqState struct {
	idx      int
	run      *run
	grant    chan struct{}
	events   []event // free-running: per-request order
	boundReq *http.Request
	finished bool
	free     atomic.Bool // gated mode: schedule exhausted, run to completion
}

var (
	current   atomic.Pointer[run]
	authCalls atomic.Int64
	consumes  atomic.Int64
	lookups   atomic.Int64
)

func curReq() *reqState {
	r := current.Load()
	if r == nil {
		return nil
	}
	if v, ok := r.byGo.Load(goid()); ok {
		return v.(*reqState)
	}
	return nil
}

// emit records an event of the calling request and, in gated mode, hands control back to the scheduler.
func emit(name string, v ...string) {
	rs := curReq()
	if rs == nil {
		return
	}
	if v == nil {
		v = []string{}
	}
	ev := event{req: rs.idx, name: name, v: v}
	if !rs.run.gated {
		rs.events = append(rs.events, ev)
		return
	}
	rs.run.mu.Lock()
	rs.run.log = append(rs.run.log, ev)
	rs.run.mu.Unlock()
	if rs.free.Load() {
		return
	}
	rs.run.yielded <- rs.idx
	<-rs.grant
}

// ---- instrumented API ------------------------------------------------------

func short(mt string) string {
	switch mt {
	case "application/json":
		return "json"
	case "text/plain":
		return "text"
	case "application/xml":
		return "xml"
	case "":
		return ""
	}
	return mt
}

func media(s string) string {
	switch s {
	case "json":
		return "application/json"
	case "text":
		return "text/plain"
	case "xml":
		return "application/xml"
	}
	return s
}

func setTarget(target any, tag string) error {
	v := reflect.ValueOf(target)
	if v.Kind() != reflect.Ptr || v.IsNil() {
		return fmt.Errorf("bad target %T", target)
	}
	e := v.Elem()
	switch e.Kind() {
	case reflect.String:
		e.SetString(tag)
	case reflect.Map:
		e.Set(reflect.ValueOf(map[string]interface{}{"t": tag}))
	case reflect.Interface:
		e.Set(reflect.ValueOf(map[string]interface{}{"t": tag}))
	default:
		return fmt.Errorf("unsupported target %T", target)
	}
	return nil
}

func consumer(tag string) oruntime.Consumer {
	return oruntime.ConsumerFunc(func(r io.Reader, target interface{}) error {
		b, err := io.ReadAll(r)
		if err != nil {
			return err
		}
		body := string(b)
		if tag == "json" {
			var m map[string]string
			if err := json.Unmarshal(b, &m); err != nil {
				return err
			}
			body = m["t"]
		}
		consumes.Add(1)
		emit("consume", tag, body)
		return setTarget(target, body)
	})
}

func producer(tag string) oruntime.Producer {
	return oruntime.ProducerFunc(func(w io.Writer, data interface{}) error {
		emit("produce", tag, fmt.Sprint(data))
		_, err := io.WriteString(w, fmt.Sprint(data))
		return err
	})
}

func authenticator(scheme string) oruntime.Authenticator {
	hdr := "X-" + strings.ToUpper(scheme[:1]) + scheme[1:]
	return oruntime.AuthenticatorFunc(func(params interface{}) (bool, interface{}, error) {
		sr, ok := params.(*security.ScopedAuthRequest)
		if !ok {
			return false, nil, nil
		}
		u := sr.Request.Header.Get(hdr)
		authCalls.Add(1)
		if u == "" {
			emit("authcall", scheme, "-")
			return false, nil, nil
		}
		emit("authcall", scheme, u)
		if u == "bad" {
			return true, nil, errors.Unauthenticated(scheme)
		}
		return true, &principal{Scheme: scheme, User: u}, nil
	})
}

func dash(s string) string {
	if s == "" {
		return "-"
	}
	return s
}

func idOf(m map[string]interface{}) string {
	if v, ok := m["id"]; ok {
		s, _ := v.(string)
		return s
	}
	return "-"
}

func bodyTag(v interface{}) string {
	switch x := v.(type) {
	case string:
		return x
	case map[string]interface{}:
		if t, ok := x["t"].(string); ok {
			return t
		}
	}
	if v == nil {
		return "-"
	}
	return fmt.Sprintf("?%T", v)
}

func handler() oruntime.OperationHandler {
	return oruntime.OperationHandlerFunc(func(params interface{}) (interface{}, error) {
		m, _ := params.(map[string]interface{})
		id := idOf(m)
		body := "-"
		if b, ok := m["body"]; ok {
			body = bodyTag(b)
		}
		v := []string{id, body}
		// what a handler holding the request value can read
		if rs := curReq(); rs != nil && rs.boundReq != nil {
			if p, ok := middleware.SecurityPrincipalFrom(rs.boundReq).(*principal); ok && p != nil {
				v = append(v, p.Scheme, p.User)
				v = append(v, middleware.SecurityScopesFrom(rs.boundReq)...)
			}
		}
		// an array parameter with a default that no request sends: the handler must see the declared default,
		// whatever earlier handlers did to the slice THEY were given (it is modified in place below)
		tags, _ := m["tags"].([]string)
		v = append(v, "t:"+strings.Join(tags, ","))
		if len(tags) > 0 {
			tags[0] = "touched-by-" + id + body
		}
		emit("handle", v...)
		if n, ok := m["n"].(int64); ok && n == 13 {
			return nil, errors.New(418, "teapot")
		}
		if _, hasID := m["id"]; !hasID {
			return body, nil
		}
		return id, nil
	})
}

type built struct {
	ctx     *middleware.Context
	handler http.Handler
}

func build() *built {
	viewMu.Lock()
	firstView = map[string][2][]string{}
	viewMu.Unlock()
	doc, err := loads.Analyzed(json.RawMessage(swaggerDoc), "")
	if err != nil {
		panic(err)
	}
	api := untyped.NewAPI(doc)
	api.RegisterConsumer("application/json", consumer("json"))
	api.RegisterConsumer("text/plain", consumer("text"))
	api.RegisterProducer("application/json", producer("json"))
	api.RegisterProducer("text/plain", producer("text"))
	api.RegisterAuth("key", authenticator("key"))
	api.RegisterAuth("tok", authenticator("tok"))
	api.RegisterOperation("POST", "/a/{id}", handler())
	api.RegisterOperation("POST", "/b/{id}", handler())
	api.RegisterOperation("GET", "/c/{id}", handler())
	api.RegisterOperation("POST", "/d", handler())
	api.RegisterOperation("POST", "/e", handler())
	// no api.Validate(): it compares registrations with the declared consumes literally, and the declared entry carries a
	// parameter ("application/json; charset=utf-8") while codecs are registered under the bare media type
	ctx := middleware.NewContext(doc, api, nil)
	h := ctx.RoutesHandler(nil)
	return &built{ctx: ctx, handler: h}
}

func init() {
	middleware.VerifHook = hook
}

func scopesOf(route *middleware.MatchedRoute) []string {
	if route == nil || route.Authenticator == nil {
		return []string{"?"}
	}
	return route.Authenticator.AllScopes()
}

// routeView projects the media-type lists of a matched route onto what they were when this router first handed the route
// out (the router draws their order from a Go map, so the order itself is not predictable): each entry is rendered as its
// index in the first view, or "?" when no entry of the first view has this text.  A route whose lists are neither reordered
// nor rewritten by the requests served before reads "c:0,1,2" "p:0,1" for every request.
var (
	viewMu    sync.Mutex
	firstView = map[string][2][]string{} // operation id -> consumes, produces as first seen; reset with every build()
)

func routeView(route *middleware.MatchedRoute) []string {
	if route == nil || route.Operation == nil {
		return []string{"c:?", "p:?"}
	}
	viewMu.Lock()
	defer viewMu.Unlock()
	id := route.Operation.ID
	fv, ok := firstView[id]
	if !ok {
		fv = [2][]string{append([]string(nil), route.Consumes...), append([]string(nil), route.Produces...)}
		for i := range fv {
			for j := range fv[i] {
				fv[i][j] = strings.Clone(fv[i][j])
			}
		}
		firstView[id] = fv
	}
	render := func(tag string, first, now []string) string {
		out := make([]string, len(now))
		for i, e := range now {
			out[i] = "?"
			for k, f := range first {
				if f == e {
					out[i] = fmt.Sprint(k)
					break
				}
			}
		}
		return tag + strings.Join(out, ",")
	}
	return []string{render("c:", fv[0], route.Consumes), render("p:", fv[1], route.Produces)}
}

// hook translates the stage notifications of the real pipeline into events.
func hook(stage string, r *http.Request, detail ...any) {
	switch stage {
	case "route":
		lookups.Add(1)
		route := detail[0].(*middleware.MatchedRoute)
		emit("route", append([]string{route.PathPattern, dash(route.Params.Get("id"))}, routeView(route)...)...)
	case "ctype":
		emit("ctype", short(detail[0].(string)))
	case "format":
		emit("format", short(detail[0].(string)))
	case "alt":
		route := detail[0].(*middleware.MatchedRoute)
		if route.Authenticator == nil || len(route.Authenticator.Schemes) == 0 {
			emit("alt", "?")
		} else {
			emit("alt", route.Authenticator.Schemes...)
		}
	case "principal":
		v := []string{"?", "?"}
		if p, ok := detail[0].(*principal); ok && p != nil {
			v = []string{p.Scheme, p.User}
		}
		emit("principal", append(v, scopesOf(detail[1].(*middleware.MatchedRoute))...)...)
	case "consumer":
		emit("consumer", short(detail[0].(string)))
	case "bound":
		if rs := curReq(); rs != nil {
			rs.boundReq = r
		}
		if valid, _ := detail[1].(bool); !valid {
			emit("bound", "invalid")
			return
		}
		m, _ := detail[0].(map[string]interface{})
		id := idOf(m)
		body := "-"
		if b, ok := m["body"]; ok {
			body = bodyTag(b)
		}
		emit("bound", id, body)
	case "respond":
		emit("respond", short(detail[0].(string)))
	}
}

// ---- requests --------------------------------------------------------------

type reqIn struct {
	Op, ID, Body, Ctype, Accept, Cs, Cu string
	Rt, Q, H                            string // routing / query parameter / handler behaviour: "ok" or what is wrong
}

func (q reqIn) JSON() map[string]any {
	return map[string]any{"op": q.Op, "id": q.ID, "body": q.Body, "ctype": q.Ctype, "accept": q.Accept, "cs": q.Cs, "cu": q.Cu,
		"rt": q.Rt, "q": q.Q, "h": q.H}
}

func reqFrom(m map[string]any) reqIn {
	s := func(k string) string { v, _ := m[k].(string); return v }
	ok := func(k string) string {
		if v := s(k); v != "" {
			return v
		}
		return "ok"
	}
	return reqIn{Op: s("op"), ID: s("id"), Body: s("body"), Ctype: s("ctype"), Accept: s("accept"), Cs: s("cs"), Cu: s("cu"),
		Rt: ok("rt"), Q: ok("q"), H: ok("h")}
}

func (q reqIn) httpRequest() *http.Request {
	method, path := "POST", "/a/"
	id := q.ID
	switch q.Op {
	case "opB":
		path = "/b/"
	case "opC":
		method, path = "GET", "/c/"
	case "opD":
		path, id = "/d", ""
	case "opE":
		path, id = "/e", ""
	}
	var body io.Reader
	if method == "POST" {
		if q.Ctype == "json" {
			body = bytes.NewReader([]byte(`{"t":"` + q.Body + `"}`))
		} else {
			body = bytes.NewReader([]byte(q.Body))
		}
	}
	switch q.Rt {
	case "404":
		path = "/zz/"
	case "405":
		method = "DELETE"
	}
	n := "1"
	if q.Q == "bad" {
		n = "x"
	} else if q.H == "err" {
		n = "13"
	}
	r, err := http.NewRequest(method, "http://x"+path+id+"?n="+n, body)
	if err != nil {
		panic(err)
	}
	switch q.Ctype {
	case "absent", "":
	case "bad":
		r.Header.Set("Content-Type", "text/plain; charset")
	default:
		r.Header.Set("Content-Type", media(q.Ctype))
	}
	switch q.Accept {
	case "none":
		r.Header.Set("Accept", "image/png")
	default:
		r.Header.Set("Accept", media(q.Accept))
	}
	if q.Cs != "-" && q.Cs != "" {
		r.Header.Set("X-"+strings.ToUpper(q.Cs[:1])+q.Cs[1:], q.Cu)
	}
	return r
}
