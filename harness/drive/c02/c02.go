// Package c02 drives the real security stage of the untyped API handler
// (middleware.NewContext(doc, api, nil).RoutesHandler(nil)) for property C02.
//
// A case is one API (requirement structure, registrations, authorizer) built once;
// every request of the case carries its own per-scheme outcome vector, evaluation
// order and variant.  Events per request: req, one auth_call per authenticator
// consulted, one authz_call per authorizer call, and a final done event.
// The Go side only executes and records.
package c02

import (
	"bufio"
	"encoding/json"
	stderrors "errors"
	"fmt"
	"io"
	"net/http"
	"net/http/httptest"
	"os"
	"sort"
	"strings"

	"github.com/go-openapi/errors"
	"github.com/go-openapi/loads"
	"github.com/go-openapi/runtime"
	"github.com/go-openapi/runtime/middleware"
	"github.com/go-openapi/runtime/middleware/untyped"
	"github.com/go-openapi/runtime/security"

	"verifharness/internal/drv"
	"verifharness/internal/trace"
)

type M = drv.M

func init() {
	drv.Register(&drv.Driver{Name: "c02", Generate: generate, Execute: execute})
}

// ---- recorder ---------------------------------------------------------------

type recorder struct {
	w             *trace.Writer
	ran           bool
	bind          bool
	consumerCalls int
	errSeen       bool
	errCode       int
	errMsg        string
	principal     []string
	scopes        []string
	authCalls     int
	out           map[string]outcome // the outcome vector of the current request
}

// the request currently executing (cases run sequentially)
var cur *recorder

// probeFmt is a custom string format: binding a parameter of this format calls UnmarshalText.
// (a byte slice: the parameter validators of go-openapi/validate accept non-string kinds for custom formats)
type probeFmt []byte

func (p probeFmt) String() string               { return string(p) }
func (p probeFmt) MarshalText() ([]byte, error) { return []byte(p), nil }
func (p *probeFmt) UnmarshalText(b []byte) error {
	if cur != nil {
		cur.bind = true
	}
	*p = append(probeFmt{}, b...)
	return nil
}

func ascii(s string) string {
	var b strings.Builder
	for i := 0; i < len(s) && i < 80; i++ {
		c := s[i]
		if c < 0x20 || c >= 0x7f || c == '"' || c == '\\' {
			c = '?'
		}
		b.WriteByte(c)
	}
	return b.String()
}

func principalList(p interface{}) []string {
	if p == nil {
		return []string{}
	}
	return []string{ascii(fmt.Sprint(p))}
}

// ---- building the API from the descriptor -----------------------------------

type outcome struct {
	K    string
	P    string
	Code int
	Msg  string
}

func outcomes(out any) map[string]outcome {
	res := map[string]outcome{}
	for s, v := range drv.Map(out) {
		m := drv.Map(v)
		res[s] = outcome{K: drv.Str(m["k"]), P: drv.Str(m["p"]), Code: drv.Int(m["code"]), Msg: drv.Str(m["msg"])}
	}
	return res
}

func strs(v any) []string {
	out := []string{}
	for _, e := range drv.List(v) {
		out = append(out, drv.Str(e))
	}
	return out
}

func (o outcome) result() (bool, interface{}, error) {
	switch o.K {
	case "ok":
		return true, o.P, nil
	case "nilp":
		return true, nil, nil
	case "rej":
		if o.Code == 0 {
			return true, nil, stderrors.New(o.Msg) // an error without a status
		}
		return true, nil, errors.New(int32(o.Code), "%s", o.Msg)
	}
	return false, nil, nil
}

func classify(applies bool, p interface{}, err error) string {
	switch {
	case !applies:
		return "na"
	case err != nil:
		return "rej"
	case p == nil:
		return "nilp"
	}
	return "ok"
}

func keyHeader(s string) string { return "X-Key-" + s }
func keyParam(s string) string  { return "key_" + s }

// authenticator for one scheme: a logging wrapper around either a scripted function or the real
// security.APIKeyAuth (credentials looked up in the request).
func authenticator(scheme, kind string, fixed *outcome) runtime.Authenticator {
	script := func() outcome {
		if fixed != nil {
			return *fixed
		}
		if cur != nil {
			return cur.out[scheme]
		}
		return outcome{K: "na"}
	}
	var inner runtime.Authenticator
	switch kind {
	case "apikey":
		inner = security.APIKeyAuth(keyHeader(scheme), "header", func(token string) (interface{}, error) {
			_, p, err := script().result()
			return p, err
		})
	case "apikeyq":
		// the real api-key authenticator reading the QUERY: here the token itself decides (the request carries the
		// key in the query according to the scripted outcome; a form body may carry a field of the same name)
		inner = security.APIKeyAuth(keyParam(scheme), "query", func(token string) (interface{}, error) {
			o := script()
			switch token {
			case "tok-ok":
				if o.K == "ok" {
					return o.P, nil
				}
				return "p" + scheme, nil
			case "tok-nilp":
				return nil, nil
			}
			if o.K == "rej" {
				_, _, err := o.result()
				return nil, err
			}
			return nil, stderrors.New("rej-" + scheme)
		})
	default:
		inner = runtime.AuthenticatorFunc(func(interface{}) (bool, interface{}, error) { return script().result() })
	}
	return runtime.AuthenticatorFunc(func(params interface{}) (bool, interface{}, error) {
		applies, p, err := inner.Authenticate(params)
		scopes := []string{}
		if sr, ok := params.(*security.ScopedAuthRequest); ok {
			scopes = trace.S(sr.RequiredScopes)
		}
		if cur != nil {
			cur.authCalls++
			cur.w.Event("auth_call", M{"scheme": scheme, "k": classify(applies, p, err), "scopes": scopes})
		}
		return applies, p, err
	})
}

func requirement(alt M) M {
	req := M{}
	schemes := strs(alt["schemes"])
	scopes := drv.List(alt["scopes"])
	for i, s := range schemes {
		req[s] = strs(scopes[i])
	}
	return req
}

// variantAlts is the requirement `alts` with the same scheme sets but other scopes: what a sibling operation
// (tag "sib1", "sib2") or the global requirement (tag "glob") declares.
func variantAlts(alts any, tag string) any {
	out := []M{}
	for _, a := range drv.List(alts) {
		am := drv.Map(a)
		schemes := strs(am["schemes"])
		scopes := [][]string{}
		for _, s := range schemes {
			scopes = append(scopes, []string{tag, "r" + s + "-" + tag})
		}
		out = append(out, M{"schemes": schemes, "scopes": scopes})
	}
	return drv.Norm(M{"a": out})["a"]
}

// targetAlts is the requirement of the operation a request addresses
func targetAlts(d M, target string) any {
	if target == "op" || target == "" {
		return d["alts"]
	}
	return variantAlts(d["alts"], target)
}

func requirements(alts any) []M {
	reqs := []M{}
	for _, a := range drv.List(alts) {
		reqs = append(reqs, requirement(drv.Map(a)))
	}
	return reqs
}

func buildDoc(d M) ([]byte, error) {
	undef := map[string]bool{}
	for _, s := range strs(d["undef"]) {
		undef[s] = true
	}
	defs := M{"D": M{"type": "apiKey", "in": "header", "name": keyHeader("D")}}
	for _, s := range strs(d["schemes"]) {
		if !undef[s] {
			defs[s] = M{"type": "apiKey", "in": "header", "name": keyHeader(s)}
			if drv.Str(drv.Map(d["kinds"])[s]) == "apikeyq" {
				defs[s] = M{"type": "apiKey", "in": "query", "name": keyParam(s)}
			}
		}
	}
	reqs := requirements(d["alts"])
	operation := func(id string) M {
		return M{
			"operationId": id,
			"consumes":    []string{"application/json"},
			"produces":    []string{"application/json"},
			"parameters": []M{
				{"name": "q", "in": "query", "required": true, "type": "string"},
				{"name": "p", "in": "query", "type": "string", "format": "verifprobe"},
				{"name": "body", "in": "body", "schema": M{"type": "object"}},
			},
			"responses": M{"200": M{"description": "ok"}},
		}
	}
	op := operation("op")
	paths := M{"/op": M{"post": op}}
	doc := M{
		"swagger":             "2.0",
		"info":                M{"title": "c02", "version": "1"},
		"basePath":            "/",
		"securityDefinitions": defs,
		"paths":               paths,
	}
	switch drv.Str(d["where"]) {
	case "global":
		doc["security"] = reqs
	case "op":
		op["security"] = reqs
	case "override": // the operation's own list replaces the global one
		if len(reqs) == 0 {
			doc["security"] = []M{{"D": []string{"decoy"}}}
		} else {
			// the global requirement names the same schemes with other scopes
			doc["security"] = requirements(variantAlts(d["alts"], "glob"))
		}
		op["security"] = reqs
	}
	// sibling operations: same scheme sets, other scopes (each overrides whatever is global)
	for i := 1; i <= drv.Int(d["siblings"]); i++ {
		tag := fmt.Sprintf("sib%d", i)
		sib := operation(tag)
		sib["security"] = requirements(variantAlts(d["alts"], tag))
		paths["/"+tag] = M{"post": sib}
	}
	return json.Marshal(doc)
}

type built struct {
	ctx     *middleware.Context
	handler http.Handler
}

func build(d M) (*built, error) {
	raw, err := buildDoc(d)
	if err != nil {
		return nil, err
	}
	doc, err := loads.Embedded(json.RawMessage(raw), json.RawMessage(raw)) // (Analyzed gob-clones the document: 10x slower)
	if err != nil {
		return nil, err
	}
	api := untyped.NewAPI(doc)
	api.RegisterConsumer("application/json", runtime.ConsumerFunc(func(r io.Reader, v interface{}) error {
		if cur != nil {
			cur.consumerCalls++
		}
		return json.NewDecoder(r).Decode(v)
	}))
	var pf probeFmt
	api.RegisterFormat("verifprobe", &pf, func(string) bool { return true })
	kinds := drv.Map(d["kinds"])
	for _, s := range strs(d["avail"]) {
		api.RegisterAuth(s, authenticator(s, drv.Str(kinds[s]), nil))
	}
	api.RegisterAuth("D", authenticator("D", "func", &outcome{K: "ok", P: "pD"}))
	// the authorizer of the configuration, and a permissive one it may replace
	authorizer := func(mode string) runtime.Authorizer {
		return runtime.AuthorizerFunc(func(_ *http.Request, p interface{}) error {
			if cur != nil {
				cur.w.Event("authz_call", M{"principal": principalList(p)})
			}
			switch mode {
			case "deny":
				return stderrors.New("authz-deny")
			case "denyStatus":
				return errors.New(451, "authz-own")
			}
			return nil
		})
	}
	// build order: the authorizer is registered before NewContext, or after NewContext but before the handler
	// (and with it the router) is built, possibly replacing a permissive one registered earlier
	mode, order := drv.Str(d["authz"]), drv.Str(d["authz_order"])
	if mode != "none" {
		switch order {
		case "after":
		case "replace":
			api.RegisterAuthorizer(authorizer("allow"))
		default:
			api.RegisterAuthorizer(authorizer(mode))
		}
	}
	handler := runtime.OperationHandlerFunc(func(interface{}) (interface{}, error) {
		if cur != nil {
			cur.ran = true
		}
		// the untyped handler cannot see the request: it returns an error so that the API's error
		// responder, which receives the request the handler ran under, can record what is readable
		return nil, errors.New(418, "handler-ran")
	})
	api.RegisterOperation("post", "/op", handler)
	for i := 1; i <= drv.Int(d["siblings"]); i++ {
		api.RegisterOperation("post", fmt.Sprintf("/sib%d", i), handler)
	}
	api.ServeError = func(rw http.ResponseWriter, r *http.Request, err error) {
		if cur != nil {
			cur.errSeen = true
			cur.errCode = 0
			var ae errors.Error
			if stderrors.As(err, &ae) {
				cur.errCode = int(ae.Code())
			}
			cur.errMsg = ""
			if err != nil {
				cur.errMsg = ascii(err.Error())
			}
			cur.principal = principalList(middleware.SecurityPrincipalFrom(r))
			cur.scopes = trace.S(middleware.SecurityScopesFrom(r))
		}
		errors.ServeError(rw, r, err)
	}
	ctx := middleware.NewContext(doc, api, nil)
	if mode != "none" && (order == "after" || order == "replace") {
		api.RegisterAuthorizer(authorizer(mode))
	}
	return &built{ctx: ctx, handler: ctx.RoutesHandler(nil)}, nil
}

func request(d M, out map[string]outcome, variant, target string) *http.Request {
	if target == "" {
		target = "op"
	}
	url := "/" + target + "?q=1&p=x"
	if variant == "query" {
		url = "/" + target + "?p=x"
	}
	kinds := drv.Map(d["kinds"])
	body, ctype := `{"a":1}`, "application/json"
	form := []string{}
	for _, s := range strs(d["schemes"]) {
		if drv.Str(kinds[s]) != "apikeyq" {
			continue
		}
		// credentials of a query api key travel in the query ...
		if o, ok := out[s]; ok && o.K != "na" {
			url += "&" + keyParam(s) + "=tok-" + o.K
		}
		// ... a form body field that happens to have the key's name is not a credential
		switch variant {
		case "formvalid":
			form = append(form, keyParam(s)+"=tok-ok")
		case "forminvalid":
			form = append(form, keyParam(s)+"=tok-bad")
		}
	}
	if variant == "formvalid" || variant == "forminvalid" {
		body, ctype = strings.Join(append(form, "other=1"), "&"), "application/x-www-form-urlencoded"
	}
	req := httptest.NewRequest(http.MethodPost, url, strings.NewReader(body))
	req.Header.Set("Content-Type", ctype)
	req.Header.Set("Accept", "application/json")
	switch variant {
	case "ctype":
		req.Header.Set("Content-Type", "text/x-verif-unknown")
	case "accept":
		req.Header.Set("Accept", "text/x-verif-unknown")
	}
	for s, o := range out {
		if drv.Str(kinds[s]) == "apikey" && o.K != "na" {
			req.Header.Set(keyHeader(s), "token-"+o.K)
		}
	}
	return req
}

// ---- execution --------------------------------------------------------------

func execute(c *drv.Ctx, d M) (nontrivial bool) {
	defer func() {
		if r := recover(); r != nil {
			c.W.Event("done", M{"panic": true, "status": 0, "err": M{"code": 0, "msg": ascii(fmt.Sprint(r))}, "ran": false,
				"bind": false, "consumer_calls": 0, "principal": []string{}, "scopes": []string{}})
		}
		cur = nil
	}()
	b, err := build(d)
	if err != nil {
		panic("c02: cannot build the API: " + err.Error())
	}
	// the structure the router derived from the document
	route, _ := b.ctx.LookupRoute(request(d, nil, "good", "op"))
	alts := [][]string{}
	anon := []bool{}
	if route != nil {
		for i := range route.Authenticators {
			alts = append(alts, append([]string{}, route.Authenticators[i].Schemes...))
			anon = append(anon, route.Authenticators[i].AllowsAnonymous())
		}
	}
	c.W.Event("built", M{"alts": alts, "anon": anon, "found": route != nil})
	orders := map[string]bool{}
	for _, rq := range drv.List(d["reqs"]) {
		rm := drv.Map(rq)
		variant := drv.Str(rm["variant"])
		// Evaluation order inside an alternative = order of RouteAuthenticator.Schemes, which the router
		// fills from a Go map iteration.  Every order is a state the router can be in; the driver puts
		// the looked-up route (it shares the slices with the router's entry) into the requested one.
		target := drv.Str(rm["target"])
		if target == "" {
			target = "op"
		}
		forced := [][]string{}
		if troute, _ := b.ctx.LookupRoute(request(d, nil, "good", target)); troute != nil {
			ord := drv.List(rm["order"])
			for i := range troute.Authenticators {
				sch := troute.Authenticators[i].Schemes
				if i < len(ord) && len(sch) == len(drv.List(ord[i])) && !troute.Authenticators[i].AllowsAnonymous() {
					sorted := append([]string{}, sch...)
					sort.Strings(sorted)
					for k, ix := range drv.List(ord[i]) {
						sch[k] = sorted[drv.Int(ix)]
					}
				}
				forced = append(forced, append([]string{}, sch...))
			}
		}
		orders[fmt.Sprint(forced)] = true
		rec := &recorder{w: c.W, principal: []string{}, scopes: []string{}, out: outcomes(rm["out"])}
		c.W.Event("req", M{"variant": variant, "order": forced, "out": rm["out"], "target": target, "alts": targetAlts(d, target)})
		cur = rec
		rw := httptest.NewRecorder()
		b.handler.ServeHTTP(rw, request(d, rec.out, variant, target))
		cur = nil
		if rec.authCalls > 0 {
			nontrivial = true
		}
		c.W.Event("done", M{"panic": false, "status": rw.Code, "err": M{"code": rec.errCode, "msg": rec.errMsg}, "err_seen": rec.errSeen,
			"ran": rec.ran, "bind": rec.bind, "consumer_calls": rec.consumerCalls,
			"principal": rec.principal, "scopes": rec.scopes})
	}
	n, _ := c.Extra["requests"].(int)
	c.Extra["requests"] = n + len(drv.List(d["reqs"]))
	o, _ := c.Extra["order_settings"].(int)
	c.Extra["order_settings"] = o + len(orders)
	return nontrivial
}

// ---- generation -------------------------------------------------------------

var variants = []string{"good", "query", "ctype", "accept", "formvalid", "forminvalid"}

func perms(n int) [][]int {
	if n == 0 {
		return [][]int{{}}
	}
	var out [][]int
	var rec func(cur []int, used []bool)
	rec = func(cur []int, used []bool) {
		if len(cur) == n {
			out = append(out, append([]int{}, cur...))
			return
		}
		for i := 0; i < n; i++ {
			if !used[i] {
				used[i] = true
				rec(append(cur, i), used)
				used[i] = false
			}
		}
	}
	rec(nil, make([]bool, n))
	return out
}

// all combinations of one order per alternative
func orderCombos(sizes []int) [][][]int {
	combos := [][][]int{{}}
	for _, n := range sizes {
		var next [][][]int
		for _, c := range combos {
			for _, p := range perms(n) {
				next = append(next, append(append([][]int{}, c...), p))
			}
		}
		combos = next
	}
	return combos
}

func altSizes(d M) []int {
	var sizes []int
	for _, a := range drv.List(d["alts"]) {
		sizes = append(sizes, len(drv.List(drv.Map(a)["schemes"])))
	}
	return sizes
}

// structureOf completes a structure (alts, avail, authz over `schemes`) to a case descriptor: where the
// requirements are declared, which kind of authenticator every scheme uses, why an unavailable scheme is
// unavailable.  Requests are added with addReqs.
func structureOf(schemes []string, alts, avail, authz any, idx int) M {
	d := M{"schemes": schemes, "alts": alts, "avail": avail, "authz": authz, "reqs": []M{}, "siblings": (idx / 2) % 3}
	d = drv.Norm(d)
	if len(drv.List(d["alts"])) == 0 {
		d["where"] = []string{"none", "override"}[idx%2]
	} else {
		d["where"] = []string{"op", "global", "override"}[idx%3]
	}
	kinds := M{}
	av := map[string]bool{}
	for _, s := range strs(d["avail"]) {
		av[s] = true
	}
	undef := []string{}
	for i, s := range schemes {
		kinds[s] = []string{"func", "apikey", "apikeyq"}[(idx/3+i)%3]
		if !av[s] && (idx/6+i)%2 == 0 {
			undef = append(undef, s) // no securityDefinition at all (otherwise: defined, never registered)
		}
	}
	d["kinds"] = kinds
	d["undef"] = undef
	// when the authorizer is registered relative to NewContext (always before the handler is built)
	d["authz_order"] = "before"
	if drv.Str(d["authz"]) != "none" {
		d["authz_order"] = []string{"before", "after", "replace"}[(idx/4)%3]
	}
	return d
}

// addReqs adds, for one outcome vector, one request per evaluation order (at most maxCombos, picked with
// `pick`), the variant rotating; with allVariants every variant occurs at least once for the vector.
func addReqs(d M, out any, j int, maxCombos int, allVariants bool, pick func(n int) int) {
	combos := orderCombos(altSizes(d))
	if len(combos) > maxCombos {
		sel := make([][][]int, 0, maxCombos)
		for k := 0; k < maxCombos; k++ {
			sel = append(sel, combos[pick(len(combos))])
		}
		combos = sel
	}
	n := len(combos)
	if allVariants && n < len(variants) {
		n = len(variants)
	}
	reqs := drv.List(d["reqs"])
	for k := 0; k < n; k++ {
		// most requests address /op; with sibling operations (same schemes, other scopes) every 4th one a sibling
		target := "op"
		if n := drv.Int(d["siblings"]); n > 0 && len(drv.List(d["alts"])) > 0 && (j+k)%4 == 3 {
			target = fmt.Sprintf("sib%d", 1+(j+k/4)%n)
		}
		reqs = append(reqs, M{"out": out, "variant": variants[(j+k)%len(variants)], "order": combos[k%len(combos)], "target": target})
	}
	d["reqs"] = reqs
}

func sortedKeys(m M) []string {
	ks := []string{}
	for k := range m {
		ks = append(ks, k)
	}
	sort.Strings(ks)
	return ks
}

func generate(c *drv.Ctx) {
	thorough := c.Tier == "thorough"
	idx := 0
	// (i) the lattice exported by GenSecurity (exhaustive, independent of the seed): scripts that share the
	// structure (alts, avail, authz) become one case = one API; each script contributes its outcome vector
	nScripts := 0
	if c.Scripts != "" {
		f, err := os.Open(c.Scripts)
		if err != nil {
			panic(err)
		}
		groups := map[string]M{}
		var order []string
		count := map[string]int{}
		sc := bufio.NewScanner(f)
		sc.Buffer(make([]byte, 1<<20), 1<<26)
		for sc.Scan() {
			var d M
			if err := json.Unmarshal(sc.Bytes(), &d); err != nil {
				panic(err)
			}
			nScripts++
			kb, _ := json.Marshal([]any{d["alts"], d["avail"], d["authz"], sortedKeys(drv.Map(d["out"]))})
			key := string(kb)
			g, ok := groups[key]
			if !ok {
				g = structureOf(sortedKeys(drv.Map(d["out"])), d["alts"], d["avail"], d["authz"], idx)
				idx++
				groups[key] = g
				order = append(order, key)
			}
			j := count[key]
			count[key]++
			k := j
			addReqs(g, d["out"], j, 36, !thorough, func(n int) int { k = (k*31 + 7) % n; return k })
		}
		f.Close()
		for _, key := range order {
			c.Case(groups[key])
		}
	}
	c.Extra["lattice_configs"] = nScripts
	c.Extra["lattice_structures"] = idx
	// (ii) hand-written corner structures, every outcome vector, every order
	for _, st := range corner {
		for _, authz := range []string{"none", "allow", "deny", "denyStatus"} {
			d := structureOf(st.schemes, st.alts, st.avail, authz, idx)
			idx++
			vec := make([]int, len(st.schemes))
			for j := 0; ; j++ {
				addReqs(d, outMap(st.schemes, vec), j, 24, false, func(n int) int { return (j * 7) % n })
				i := 0
				for ; i < len(vec); i++ {
					vec[i]++
					if vec[i] < len(kindsAll) {
						break
					}
					vec[i] = 0
				}
				if i == len(vec) {
					break
				}
			}
			c.Case(d)
		}
	}
	// (iii) seeded random larger structures (up to 5 schemes, 4 alternatives of up to 4 schemes)
	nRand := 400
	if thorough {
		nRand = 4000
	}
	for n := 0; n < nRand; n++ {
		schemes, alts, avail, authz := randomStructure(c)
		d := structureOf(schemes, alts, avail, authz, c.Rng.Intn(1<<20))
		for j := 0; j < 12; j++ {
			vec := make([]int, len(schemes))
			for i := range vec {
				// accepted outcomes are made more likely so that long ANDs are sometimes satisfied
				vec[i] = []int{0, 1, 1, 1, 2, 3}[c.Rng.Intn(6)]
			}
			addReqs(d, outMap(schemes, vec), c.Rng.Intn(4), 2, false, c.Rng.Intn)
		}
		c.Case(d)
	}
}

var kindsAll = []string{"na", "ok", "nilp", "rej"}

func outMap(schemes []string, vec []int) M {
	out := M{}
	for i, s := range schemes {
		k := kindsAll[vec[i]]
		o := M{"k": k, "p": "", "code": 0, "msg": ""}
		switch k {
		case "ok":
			o["p"] = "p" + s
		case "rej":
			o["code"] = []int{401, 403, 407, 0, 429}[i%5]
			o["msg"] = "rej-" + s
		}
		out[s] = o
	}
	return out
}

type structure struct {
	schemes []string
	alts    []M
	avail   []string
}

func alt(schemes []string, scopes ...[]string) M {
	sc := [][]string{}
	for i := range schemes {
		if i < len(scopes) {
			sc = append(sc, scopes[i])
		} else {
			sc = append(sc, []string{})
		}
	}
	return M{"schemes": schemes, "scopes": sc}
}

// structures the lattice does not contain: the same scheme in several alternatives with different
// scopes, duplicate alternatives, two anonymous alternatives, empty scope lists, four schemes in one AND
var corner = []structure{
	{[]string{"A", "B"}, []M{alt([]string{"A"}, []string{"r"}), alt([]string{"A", "B"}, []string{"w"}, []string{"r", "w"})}, []string{"A", "B"}},
	{[]string{"A", "B"}, []M{alt([]string{"A", "B"}), alt([]string{"A", "B"}, []string{"x"}, []string{"y"})}, []string{"A", "B"}},
	{[]string{"A", "B"}, []M{alt([]string{}), alt([]string{"A"}, []string{"s1"}), alt([]string{}), alt([]string{"B"}, []string{"s2"})}, []string{"A", "B"}},
	{[]string{"A", "B", "C", "E"}, []M{alt([]string{"A", "B", "C", "E"}, []string{"a"}, []string{"b"}, []string{"a", "b"}, []string{})}, []string{"A", "B", "C", "E"}},
	{[]string{"A", "B", "C"}, []M{alt([]string{"A", "B"}, []string{"a"}), alt([]string{"B", "C"}, []string{"b"}), alt([]string{"A", "C"}, []string{"c"})}, []string{"A", "B", "C"}},
}

func randomStructure(c *drv.Ctx) (schemes []string, alts []M, avail []string, authz string) {
	names := []string{"A", "B", "C", "E", "F"}
	ns := 2 + c.Rng.Intn(4)
	schemes = names[:ns]
	pool := []string{"r", "w", "admin", "x"}
	nAlts := c.Rng.Intn(5)
	alts = []M{}
	for a := 0; a < nAlts; a++ {
		if c.Rng.Intn(6) == 0 {
			alts = append(alts, alt([]string{}))
			continue
		}
		k := 1 + c.Rng.Intn(ns)
		if k > 4 {
			k = 4
		}
		perm := c.Rng.Perm(ns)[:k]
		sort.Ints(perm)
		ss := []string{}
		sc := [][]string{}
		for _, i := range perm {
			ss = append(ss, schemes[i])
			one := []string{}
			for _, p := range pool {
				if c.Rng.Intn(3) == 0 {
					one = append(one, p)
				}
			}
			sc = append(sc, one)
		}
		alts = append(alts, M{"schemes": ss, "scopes": sc})
	}
	avail = []string{}
	for _, s := range schemes {
		if c.Rng.Intn(10) != 0 {
			avail = append(avail, s)
		}
	}
	authz = []string{"none", "none", "allow", "allow", "deny", "denyStatus"}[c.Rng.Intn(6)]
	return
}
