// Package c17 drives runtime.HasBody and the body it leaves behind (property
// C17): a real *http.Request whose Body is a scripted stream is taken through
// a history of HasBody / Read(k) / Close calls; after every action the
// returned values and the Read/Close counters of the underlying stream are
// logged.  Histories x scripts come from TLC (specs/GenStreams.tla, all
// transitions of the bounded PeekBody model) plus seeded random large cases.
package c17

import (
	"bufio"
	"encoding/json"
	"fmt"
	"math/rand"
	"net/http"
	"os"
	"strconv"

	"github.com/go-openapi/runtime"

	"verifharness/drive/streamkit"
	"verifharness/internal/drv"
	"verifharness/internal/trace"
)

type M = drv.M

func init() {
	drv.Register(&drv.Driver{Name: "c17", Generate: generate, Execute: execute})
}

// ---- generation ------------------------------------------------------------

// concretise the abstract declared length: pos / zero / absent
func declare(d M, declared string, contentLen int, variant int) {
	d["declared"] = declared
	switch declared {
	case "pos":
		n := contentLen
		if n == 0 || variant%3 == 2 {
			n = contentLen + 5 // a declared length need not be the true one
		}
		d["clen"] = n
		if variant%2 == 0 {
			d["hdr"] = strconv.Itoa(n)
		} else {
			d["hdr"] = "" // ContentLength set by a transport without the header
		}
	case "zero":
		d["hdr"] = "0"
		d["clen"] = []int{0, -1}[variant%2]
	default:
		d["hdr"] = ""
		d["clen"] = []int{-1, 0}[variant%2] // chunked / unknown vs. zero value
	}
}

// the request method is a dimension of every case: the answer of HasBody and the body it leaves must not depend on it
var methods = []string{"POST", "GET", "HEAD", "get", "DELETE", "OPTIONS", "head", "PUT"}

var drainSizes = []int{1, 2, 3, 4096, 5000, 7}

func generate(c *drv.Ctx) {
	nTG := 0
	nRand := 400
	if c.Tier == "thorough" {
		nRand = 3000
	}
	randDone := 0
	emitRand := func() {
		if randDone < nRand {
			c.Case(randomCase(c.Rng))
			randDone++
		}
	}
	if c.Scripts != "" {
		f, err := os.Open(c.Scripts)
		if err != nil {
			panic(err)
		}
		defer f.Close()
		seen := map[string]struct{}{}
		var lines []string
		sc := bufio.NewScanner(f)
		sc.Buffer(make([]byte, 1<<20), 1<<26)
		for sc.Scan() {
			line := sc.Text()
			if _, dup := seen[line]; dup { // TLC may evaluate an action more than once
				continue
			}
			seen[line] = struct{}{}
			lines = append(lines, line)
		}
		if err := sc.Err(); err != nil {
			panic(err)
		}
		// the (large) random cases are spread evenly between the exported ones so that
		// the trace chunks validated in parallel have similar sizes
		every := len(lines)/nRand + 1
		for _, line := range lines {
			var inner string
			if err := json.Unmarshal([]byte(line), &inner); err != nil {
				panic(fmt.Sprintf("c17: bad script line %q: %v", line, err))
			}
			var m M
			if err := json.Unmarshal([]byte(inner), &m); err != nil {
				panic(fmt.Sprintf("c17: bad script %q: %v", inner, err))
			}
			s := streamkit.ScriptFromJSON(m["sc"])
			d := M{"kind": "tg", "sc": s.JSON(), "bodyNil": drv.Bool(m["bodyNil"]), "hist": m["hist"],
				"drainK": drainSizes[nTG%len(drainSizes)], "method": methods[(nTG/3)%len(methods)]}
			declare(d, drv.Str(m["declared"]), len(s.Content), nTG)
			c.Case(d)
			nTG++
			if nTG%every == 0 {
				emitRand()
			}
		}
	}
	for randDone < nRand {
		emitRand()
	}
	c.Extra["tg_cases"] = nTG
	c.Extra["random_cases"] = randDone
}

var bigLens = []int{0, 1, 2, 15, 16, 17, 4095, 4096, 4097, 8191, 8192, 8193, 12288}
var chunkSizes = []int{0, 0, 1, 1, 2, 7, 100, 1000, 4095, 4096, 4097, 8192}
var readSizes = []int{0, 1, 1, 2, 7, 100, 4095, 4096, 4097, 8192, 20000}

func randomCase(rng *rand.Rand) M {
	n := bigLens[rng.Intn(len(bigLens))]
	if rng.Intn(3) == 0 {
		n = rng.Intn(12300)
	}
	content := make([]byte, n)
	rng.Read(content)
	var chunks []int
	left := n
	for left > 0 || rng.Intn(4) == 0 {
		if len(chunks) > 40 {
			chunks = append(chunks, left)
			left = 0
			break
		}
		k := chunkSizes[rng.Intn(len(chunkSizes))]
		if k > left {
			k = left
		}
		if rng.Intn(5) == 0 {
			k = left
		}
		chunks = append(chunks, k)
		left -= k
	}
	s := streamkit.Script{Content: content, Chunks: chunks, Term: []string{"eof", "eof", "err"}[rng.Intn(3)]}
	if len(chunks) > 0 && chunks[len(chunks)-1] > 0 && rng.Intn(2) == 0 {
		s.WithData = true
	}
	// one-shot (non-repeating) conditions in the middle of the stream, a Close that fails
	if len(chunks) > 0 && rng.Intn(3) == 0 {
		s.Conds = make([]string, len(chunks))
		for k := 0; k < 1+rng.Intn(2); k++ {
			i := rng.Intn(len(chunks))
			if s.WithData && i == len(chunks)-1 {
				continue
			}
			s.Conds[i] = []string{"err", "err", "eof"}[rng.Intn(3)]
		}
	}
	s.CloseErr = rng.Intn(4) == 0
	bodyNil := rng.Intn(12) == 0
	if bodyNil {
		s = streamkit.Script{Term: "eof"}
	}
	declared := []string{"absent", "absent", "absent", "pos", "zero"}[rng.Intn(5)]
	probed := false
	var hist []M
	for i, L := 0, 1+rng.Intn(12); i < L; i++ {
		var a M
		switch x := rng.Intn(10); {
		case x < 3:
			a = M{"a": "has", "k": 0}
			probed = probed || declared == "absent"
		case x < 9 || rng.Intn(3) > 0:
			a = M{"a": "read", "k": readSizes[rng.Intn(len(readSizes))]}
		default:
			a = M{"a": "close", "k": 0}
		}
		hist = append(hist, a)
	}
	_ = probed
	d := M{"kind": "rand", "sc": s.JSON(), "bodyNil": bodyNil, "hist": hist,
		"drainK": readSizes[1+rng.Intn(len(readSizes)-1)], "method": methods[rng.Intn(len(methods))]}
	declare(d, declared, len(s.Content), rng.Intn(6))
	return d
}

// ---- execution -------------------------------------------------------------

type obs struct {
	b     bool
	n     int
	bytes []byte
	err   string
	reads int
	panic bool
}

func execute(c *drv.Ctx, d M) bool {
	s := streamkit.ScriptFromJSON(d["sc"])
	bodyNil := drv.Bool(d["bodyNil"])
	method := drv.Str(d["method"])
	if method == "" {
		method = http.MethodPost
	}
	req, err := http.NewRequest(method, "http://verif.invalid/c17", nil)
	if err != nil {
		panic(err)
	}
	var under *streamkit.ReadCloser
	if !bodyNil {
		under = streamkit.NewReadCloser(s)
		req.Body = under
	} else {
		req.Body = nil
	}
	req.ContentLength = int64(drv.Int(d["clen"]))
	if h := drv.Str(d["hdr"]); h != "" {
		req.Header.Set("Content-Length", h)
	}

	emit := func(ev string, k int, o obs) {
		uc, ur := 0, 0
		if under != nil {
			uc, ur = under.Closes, under.Reads
		}
		c.W.Event(ev, M{"k": k, "b": o.b, "n": o.n, "bytes": trace.B(string(o.bytes)), "err": o.err,
			"reads": o.reads, "uc": uc, "ur": ur, "panic": o.panic})
	}
	// guarded runs one action on the real code, turning a panic into an observation
	guarded := func(f func(o *obs)) (o obs) {
		o.err = "none"
		defer func() {
			if r := recover(); r != nil {
				o.panic = true
			}
		}()
		f(&o)
		return o
	}
	readOnce := func(k int, o *obs) error {
		buf := make([]byte, k)
		n, err := req.Body.Read(buf)
		o.reads++
		if n < 0 || n > k {
			// cannot be represented as bytes of the buffer: report as fabricated length
			o.n = n
			o.err = streamkit.ErrClass(err)
			return err
		}
		o.n += n
		o.bytes = append(o.bytes, buf[:n]...)
		o.err = streamkit.ErrClass(err)
		return err
	}

	nHas, nOther := 0, 0
	for _, av := range drv.List(d["hist"]) {
		a := drv.Map(av)
		name, k := drv.Str(a["a"]), drv.Int(a["k"])
		if name != "has" && req.Body == nil {
			// the caller cannot touch a nil Body; observation: it is (still) nil
			emit("nilbody", k, obs{err: "none"})
			continue
		}
		var o obs
		switch name {
		case "has":
			nHas++
			o = guarded(func(o *obs) { o.b = runtime.HasBody(req) })
		case "read":
			nOther++
			o = guarded(func(o *obs) { _ = readOnce(k, o) })
		case "close":
			nOther++
			o = guarded(func(o *obs) { o.err = streamkit.ErrClass(req.Body.Close()) })
		default:
			panic("c17: unknown action " + name)
		}
		emit(name, k, o)
		if o.panic {
			return true
		}
	}
	// finally read on until the stream ends: the rest of the content and the terminal condition
	if req.Body != nil {
		k := drv.Int(d["drainK"])
		limit := 2*(len(s.Chunks)+len(s.Content)/k) + 4*nHas + 200
		o := guarded(func(o *obs) {
			for i := 0; i < limit; i++ {
				if err := readOnce(k, o); err != nil {
					return
				}
			}
		})
		emit("drain", k, o)
	}
	return nHas > 0 && nOther > 0 && drv.Str(d["declared"]) == "absent"
}
