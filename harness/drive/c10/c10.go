// Package c10 drives client.Runtime.CreateHttpRequest for property C10 (client URLs).
//
// A case is an abstract input (base path, pattern, value map, queries, schemes); it is
// rendered to the strings handed to the real code, the request is built once per
// (order of SetPathParam calls) x (repetition) - Go randomises map iteration - and the
// distinct observed URLs are logged.  The TLA+ trace spec decides.
package c10

import (
	"context"
	"fmt"
	"net/http"
	"strings"

	"github.com/go-openapi/runtime"
	"github.com/go-openapi/runtime/client"
	"github.com/go-openapi/strfmt"

	"verifharness/internal/drv"
	"verifharness/internal/trace"
)

type M = drv.M

func init() {
	drv.Register(&drv.Driver{Name: "c10", Generate: generate, Execute: execute})
}

// ---- abstract input ----------------------------------------------------------

type KV struct {
	K  string
	Vs []string
}

type Tok struct {
	Ph bool
	S  string // literal text or placeholder name
}

type Base struct {
	Lead, Trailing bool
	Segs           []string
	Query          []KV
}

type Pat struct {
	Trailing bool
	Segs     [][]Tok
	Query    []KV
}

type Val struct{ N, V string }

// Step is one operation built on the case's Runtime; a case is a history of builds on ONE Runtime.
type Step struct {
	Pat     Pat
	Vals    []Val
	CQ      []KV
	Entries []string // entry points through which the operation is built: create | submit | otel | opentracing (default: create)
	OpAuth  bool     // the operation has an auth writer ...
	AQ      []KV     // ... which sets these query parameters (client.APIKeyAuth(name, "query", value)); none: an API key header
	OS      []string
	Orders  [][]int
	Reps    int
}

type Case struct {
	DQ      []KV // query parameters set by Runtime.DefaultAuthentication (API keys in the query)
	OpAuth  bool // single-step form: see Step
	AQ      []KV
	Entries []string // entry points of every step that names none
	Steps   []Step   // when empty, the single step is given by Pat/Vals/CQ/OS/Orders/Reps below
	Base    Base
	Pat     Pat
	Vals    []Val
	CQ      []KV
	RS, OS  []string
	Host    string
	Orders  [][]int
	Reps    int
}

func kvJSON(q []KV) []M {
	out := make([]M, 0, len(q))
	for _, e := range q {
		out = append(out, M{"k": trace.B(e.K), "vs": trace.BB(e.Vs)})
	}
	return out
}

func kvFrom(v any) []KV {
	var out []KV
	for _, e := range drv.List(v) {
		m := drv.Map(e)
		kv := KV{K: trace.Str(m["k"])}
		for _, x := range drv.List(m["vs"]) {
			kv.Vs = append(kv.Vs, trace.Str(x))
		}
		out = append(out, kv)
	}
	return out
}

func (st Step) JSON() M {
	segs := make([][]M, 0, len(st.Pat.Segs))
	for _, s := range st.Pat.Segs {
		ts := make([]M, 0, len(s))
		for _, t := range s {
			k := "lit"
			if t.Ph {
				k = "ph"
			}
			ts = append(ts, M{"k": k, "s": trace.B(t.S)})
		}
		segs = append(segs, ts)
	}
	vals := make([]M, 0, len(st.Vals))
	for _, v := range st.Vals {
		vals = append(vals, M{"n": trace.B(v.N), "v": trace.B(v.V)})
	}
	orders := st.Orders
	if orders == nil {
		orders = [][]int{}
	}
	return M{"pat": M{"trailing": st.Pat.Trailing, "segs": segs, "query": kvJSON(st.Pat.Query)},
		"vals": vals, "cq": kvJSON(st.CQ), "opauth": st.OpAuth, "aq": kvJSON(st.AQ), "os": trace.S(st.OS), "orders": orders, "reps": st.Reps,
		"entries": trace.S(st.Entries)}
}

func (c Case) steps() []Step {
	steps := c.Steps
	if len(steps) == 0 {
		steps = []Step{{Pat: c.Pat, Vals: c.Vals, CQ: c.CQ, OpAuth: c.OpAuth, AQ: c.AQ, OS: c.OS, Orders: c.Orders, Reps: c.Reps}}
	}
	out := make([]Step, len(steps))
	for i, st := range steps {
		if len(st.Entries) == 0 {
			st.Entries = c.Entries
		}
		out[i] = st
	}
	return out
}

var allEntries = []string{"create", "submit", "otel", "opentracing"}

func (c Case) JSON() M {
	steps := make([]M, 0)
	for _, st := range c.steps() {
		steps = append(steps, st.JSON())
	}
	return M{
		"base":  M{"lead": c.Base.Lead, "trailing": c.Base.Trailing, "segs": trace.BB(c.Base.Segs), "query": kvJSON(c.Base.Query)},
		"rs":    trace.S(c.RS),
		"host":  c.Host,
		"dq":    kvJSON(c.DQ),
		"steps": steps,
	}
}

func caseFrom(d M) Case {
	var c Case
	b := drv.Map(d["base"])
	c.Base.Lead, c.Base.Trailing = drv.Bool(b["lead"]), drv.Bool(b["trailing"])
	for _, s := range drv.List(b["segs"]) {
		c.Base.Segs = append(c.Base.Segs, trace.Str(s))
	}
	c.Base.Query = kvFrom(b["query"])
	for _, s := range drv.List(d["rs"]) {
		c.RS = append(c.RS, drv.Str(s))
	}
	c.Host = drv.Str(d["host"])
	c.DQ = kvFrom(d["dq"])
	for _, sv := range drv.List(d["steps"]) {
		sm := drv.Map(sv)
		var st Step
		p := drv.Map(sm["pat"])
		st.Pat.Trailing = drv.Bool(p["trailing"])
		for _, s := range drv.List(p["segs"]) {
			var seg []Tok
			for _, t := range drv.List(s) {
				m := drv.Map(t)
				seg = append(seg, Tok{Ph: drv.Str(m["k"]) == "ph", S: trace.Str(m["s"])})
			}
			st.Pat.Segs = append(st.Pat.Segs, seg)
		}
		st.Pat.Query = kvFrom(p["query"])
		for _, v := range drv.List(sm["vals"]) {
			m := drv.Map(v)
			st.Vals = append(st.Vals, Val{N: trace.Str(m["n"]), V: trace.Str(m["v"])})
		}
		st.CQ = kvFrom(sm["cq"])
		st.OpAuth, st.AQ = drv.Bool(sm["opauth"]), kvFrom(sm["aq"])
		for _, e := range drv.List(sm["entries"]) {
			st.Entries = append(st.Entries, drv.Str(e))
		}
		for _, s := range drv.List(sm["os"]) {
			st.OS = append(st.OS, drv.Str(s))
		}
		for _, o := range drv.List(sm["orders"]) {
			var ord []int
			for _, i := range drv.List(o) {
				ord = append(ord, drv.Int(i))
			}
			st.Orders = append(st.Orders, ord)
		}
		st.Reps = drv.Int(sm["reps"])
		c.Steps = append(c.Steps, st)
	}
	return c
}

// ---- rendering (abstract -> the strings the caller hands to the code) ----------

const hexd = "0123456789ABCDEF"

// pct renders a query component: everything but unreserved bytes as %XX.
func pct(s string) string {
	var b strings.Builder
	for i := 0; i < len(s); i++ {
		c := s[i]
		if c >= 'a' && c <= 'z' || c >= 'A' && c <= 'Z' || c >= '0' && c <= '9' || c == '-' || c == '_' || c == '.' || c == '~' {
			b.WriteByte(c)
		} else {
			b.WriteByte('%')
			b.WriteByte(hexd[c>>4])
			b.WriteByte(hexd[c&15])
		}
	}
	return b.String()
}

func renderQuery(q []KV) string {
	var parts []string
	for _, e := range q {
		for _, v := range e.Vs {
			parts = append(parts, pct(e.K)+"="+pct(v))
		}
	}
	if len(parts) == 0 {
		return ""
	}
	return "?" + strings.Join(parts, "&")
}

func (b Base) String() string {
	s := ""
	if b.Lead {
		s = "/"
	}
	s += strings.Join(b.Segs, "/")
	if b.Trailing && len(b.Segs) > 0 {
		s += "/"
	}
	return s + renderQuery(b.Query)
}

func (p Pat) String() string {
	if len(p.Segs) == 0 {
		if p.Trailing {
			return "/" + renderQuery(p.Query)
		}
		return renderQuery(p.Query)
	}
	var b strings.Builder
	for _, seg := range p.Segs {
		b.WriteByte('/')
		for _, t := range seg {
			if t.Ph {
				b.WriteString("{" + t.S + "}")
			} else {
				b.WriteString(t.S)
			}
		}
	}
	if p.Trailing {
		b.WriteByte('/')
	}
	return b.String() + renderQuery(p.Query)
}

// ---- execution -----------------------------------------------------------------

type obs struct {
	err    bool
	scheme string
	host   string
	path   string
	rawq   string
	pnc    bool
}

// urlRecorder is the RoundTripper of the case's Runtime: it notes the URL of the request that is really sent.
type urlRecorder struct{ last *http.Request }

func (u *urlRecorder) RoundTrip(req *http.Request) (*http.Response, error) {
	u.last = req
	return &http.Response{StatusCode: http.StatusNoContent, Status: "204 No Content", Proto: "HTTP/1.1", ProtoMajor: 1, ProtoMinor: 1,
		Header: http.Header{}, Body: http.NoBody, Request: req}, nil
}

func build(rt *client.Runtime, rec *urlRecorder, st Step, order []int, entry string) (o obs) {
	defer func() {
		if e := recover(); e != nil {
			o = obs{err: true, pnc: true}
		}
	}()
	op := &runtime.ClientOperation{
		ID: "op", Method: "GET", PathPattern: st.Pat.String(), Schemes: st.OS,
		Params: runtime.ClientRequestWriterFunc(func(r runtime.ClientRequest, _ strfmt.Registry) error {
			for _, i := range order {
				if err := r.SetPathParam(st.Vals[i].N, st.Vals[i].V); err != nil {
					return err
				}
			}
			for _, q := range st.CQ {
				if err := r.SetQueryParam(q.K, q.Vs...); err != nil {
					return err
				}
			}
			return nil
		}),
	}
	if st.OpAuth {
		op.AuthInfo = keyWriter(st.AQ)
	}
	var req *http.Request
	var err error
	if entry == "" || entry == "create" {
		req, err = rt.CreateHttpRequest(op)
	} else {
		// really submitted: directly, or through one of the tracing transports (which act on operations with a context)
		op.Reader = runtime.ClientResponseReaderFunc(func(runtime.ClientResponse, runtime.Consumer) (any, error) { return nil, nil })
		op.Context = context.Background()
		var tr runtime.ClientTransport = rt
		switch entry {
		case "otel":
			tr = rt.WithOpenTelemetry()
		case "opentracing":
			tr = rt.WithOpenTracing()
		}
		rec.last = nil
		_, err = tr.Submit(op)
		req = rec.last
		if err == nil && req == nil {
			return obs{err: true}
		}
	}
	if err != nil {
		return obs{err: true}
	}
	return obs{scheme: req.URL.Scheme, host: req.URL.Host, path: req.URL.EscapedPath(), rawq: req.URL.RawQuery}
}

// keyWriter is the auth writer that puts the given API keys into the query (client.APIKeyAuth); without
// query keys it is an API key in a header.
func keyWriter(q []KV) runtime.ClientAuthInfoWriter {
	if len(q) == 0 {
		return client.APIKeyAuth("X-Key", "header", "h")
	}
	var ws []runtime.ClientAuthInfoWriter
	for _, e := range q {
		v := ""
		if len(e.Vs) > 0 {
			v = e.Vs[0]
		}
		ws = append(ws, client.APIKeyAuth(e.K, "query", v))
	}
	if len(ws) == 1 {
		return ws[0]
	}
	return client.Compose(ws...)
}

// execute builds the whole history on ONE Runtime, as an application does.
func execute(c *drv.Ctx, d M) bool {
	cs := caseFrom(d)
	var rt *client.Runtime
	rec := &urlRecorder{}
	func() {
		defer func() { _ = recover() }()
		rt = client.New(cs.Host, cs.Base.String(), cs.RS)
		if len(cs.DQ) > 0 {
			rt.DefaultAuthentication = keyWriter(cs.DQ)
		}
		rt.Transport = rec
	}()
	nt := false
	for si, st := range cs.Steps {
		orders := st.Orders
		if len(orders) == 0 {
			orders = [][]int{{}}
		}
		reps := st.Reps
		if reps < 1 {
			reps = 1
		}
		var seen []obs
		var count []int
		entries := st.Entries
		if len(entries) == 0 {
			entries = []string{"create"}
		}
		for _, ord := range orders {
			for r := 0; r < reps*len(entries); r++ {
				o := obs{err: true, pnc: true}
				if rt != nil {
					o = build(rt, rec, st, ord, entries[r%len(entries)])
				}
				found := false
				for i := range seen {
					if seen[i] == o {
						count[i]++
						found = true
						break
					}
				}
				if !found {
					seen = append(seen, o)
					count = append(count, 1)
				}
			}
		}
		out := make([]M, 0, len(seen))
		for i, o := range seen {
			out = append(out, M{"err": o.err, "panic": o.pnc, "scheme": o.scheme, "host": o.host,
				"path": trace.B(o.path), "rawq": trace.B(o.rawq), "n": count[i]})
		}
		c.W.Event("url", M{"step": si + 1, "obs": out})
		nt = nt || nontrivial(cs, st)
	}
	return nt
}

func needsEscape(v string) bool {
	if v == "" || v == "." || v == ".." {
		return true
	}
	for i := 0; i < len(v); i++ {
		ch := v[i]
		if !(ch >= 'a' && ch <= 'z' || ch >= 'A' && ch <= 'Z' || ch >= '0' && ch <= '9' || ch == '-' || ch == '_') {
			return true
		}
	}
	return false
}

// non-trivial: a substituted value needs escaping / is empty or a dot segment, or a query
// key is fixed at two levels, or several schemes are offered.
func nontrivial(c Case, st Step) bool {
	used := map[string]bool{}
	for _, s := range st.Pat.Segs {
		for _, t := range s {
			if t.Ph {
				used[t.S] = true
			}
		}
	}
	for _, v := range st.Vals {
		if used[v.N] && needsEscape(v.V) {
			return true
		}
	}
	lv := map[string]int{}
	aq := c.DQ
	if st.OpAuth {
		aq = st.AQ
	}
	for _, q := range [][]KV{c.Base.Query, st.Pat.Query, st.CQ, aq} {
		seen := map[string]bool{}
		for _, e := range q {
			if !seen[e.K] {
				seen[e.K] = true
				lv[e.K]++
			}
		}
	}
	for _, n := range lv {
		if n > 1 {
			return true
		}
	}
	off := c.RS
	if len(off) == 0 {
		off = st.OS
	}
	return len(off) > 1
}

// ---- generation ----------------------------------------------------------------

func lit(s string) []Tok { return []Tok{{S: s}} }
func ph(n string) []Tok  { return []Tok{{Ph: true, S: n}} }

var basePool = []Base{
	{},
	{Lead: true},
	{Segs: []string{"api"}},
	{Lead: true, Segs: []string{"api"}},
	{Lead: true, Trailing: true, Segs: []string{"api"}},
	{Lead: true, Segs: []string{"api", "v 1"}},
}

var segPool = [][]Tok{
	lit("x"), lit("c\u00e9"), lit("a ^"),
	ph("a"), ph("b"),
	{{S: "p-"}, {Ph: true, S: "a"}},
	{{Ph: true, S: "a"}, {Ph: true, S: "b"}},
	{{Ph: true, S: "b"}, {S: ".j"}},
}

const atoms = "a/?#% +.{};\xc3"

var specials = []string{"{b}", "{a}", "..", ".", "%2F", "../"}

func valuesUpTo(n int) []string {
	out := []string{""}
	level := []string{""}
	for l := 1; l <= n; l++ {
		var next []string
		for _, p := range level {
			for i := 0; i < len(atoms); i++ {
				next = append(next, p+string(atoms[i]))
			}
		}
		out = append(out, next...)
		level = next
	}
	return append(out, specials...)
}

func uses(p Pat, n string) bool {
	for _, s := range p.Segs {
		for _, t := range s {
			if t.Ph && t.S == n {
				return true
			}
		}
	}
	return false
}

func patterns(maxSegs int) []Pat {
	out := []Pat{{}, {Trailing: true}}
	var rec func(prefix [][]Tok, n int)
	rec = func(prefix [][]Tok, n int) {
		for _, s := range segPool {
			segs := append(append([][]Tok{}, prefix...), s)
			out = append(out, Pat{Segs: segs}, Pat{Segs: segs, Trailing: true})
			if n > 1 {
				rec(segs, n-1)
			}
		}
	}
	rec(nil, maxSegs)
	return out
}

func generate(c *drv.Ctx) {
	thorough := c.Tier == "thorough"
	reps := 2
	if thorough {
		reps = 8
	}
	both := [][]int{{0, 1}, {1, 0}}
	nExh := 0
	// (i) path track, exhaustive small scope (mirrors MCClientURL)
	v1, v2 := valuesUpTo(1), valuesUpTo(1)
	if thorough {
		v1 = valuesUpTo(2)
	}
	for bi, b := range basePool {
		for _, p := range patterns(2) {
			ua, ub := uses(p, "a"), uses(p, "b")
			if ua && ub && !thorough && bi%2 == 1 {
				continue // quick: two-placeholder patterns under every other base spelling
			}
			va, vb := []string{"zz"}, []string{"{a}"} // values of names the pattern does not use
			switch {
			case ua && ub:
				va, vb = v2, v2
			case ua:
				va = v1
			case ub:
				vb = v1
			}
			for _, x := range va {
				for _, y := range vb {
					c.Case(Case{Base: b, Pat: p, Vals: []Val{{"a", x}, {"b", y}}, Host: "h:1", Orders: both, Reps: reps}.JSON())
					nExh++
				}
			}
		}
	}
	// three-segment patterns with the special values only
	for _, b := range basePool[1:4] {
		for _, p := range patterns(3) {
			if len(p.Segs) < 3 || !(uses(p, "a") && uses(p, "b")) {
				continue
			}
			for _, x := range append([]string{"", "a/b", "?", "#", "a b", "+", "\xc3\xa9"}, specials...) {
				y := specials[(len(x)+len(p.Segs[0]))%len(specials)]
				c.Case(Case{Base: b, Pat: p, Vals: []Val{{"a", x}, {"b", y}}, Host: "h:1", Orders: both, Reps: reps}.JSON())
				nExh++
			}
		}
	}
	// (ii) query track: every key fixed at each level as absent / one / two values (caller also: empty list)
	simple := Pat{Segs: [][]Tok{lit("x"), ph("a")}}
	lvl := func(k string, tag string, n int) []KV {
		switch n {
		case 0:
			return nil
		case 1:
			return []KV{{k, []string{tag}}}
		case 2:
			return []KV{{k, []string{tag, tag + " +&="}}}
		case 3:
			return []KV{{k, []string{tag}}, {k, []string{tag + "2"}}} // key repeated as separate pairs
		}
		return []KV{{k, nil}} // caller: explicit empty list
	}
	type combo struct{ b, p, c int }
	var combos []combo
	for b := 0; b < 4; b++ {
		for p := 0; p < 4; p++ {
			for q := 0; q < 4; q++ {
				cq := q
				if q == 3 {
					cq = 4
				}
				combos = append(combos, combo{b, p, cq})
			}
		}
	}
	for _, k1 := range combos {
		for _, k2 := range combos {
			cs := Case{Base: Base{Lead: true, Segs: []string{"api"}}, Pat: simple, Vals: []Val{{"a", "v"}}, Host: "h:1", Orders: [][]int{{0}}, Reps: 1, Entries: allEntries}
			cs.Base.Query = append(lvl("k", "b", k1.b), lvl("q", "B", k2.b)...)
			cs.Pat.Query = append(lvl("k", "p", k1.p), lvl("q", "P", k2.p)...)
			cs.CQ = append(lvl("k", "c", k1.c), lvl("q", "C", k2.c)...)
			c.Case(cs.JSON())
			nExh++
		}
	}
	// (ii-b) auth writers that set query parameters (operation AuthInfo and Runtime.DefaultAuthentication) x static query
	// parameters of colliding and other names in base path / pattern x the params writer's own value
	authKeys := [][]KV{nil, {{"api_key", []string{"A"}}}, {{"k", []string{"A k&="}}}, {{"api_key", []string{"A1"}}, {"q", []string{"A2"}}}, {{"api_key", []string{""}}}}
	statics := [][]KV{nil, {{"api_key", []string{"anonymous"}}}, {{"k", []string{"s"}}}, {{"api_key", []string{"s1", "s2"}}, {"other", []string{"o"}}}}
	for _, bq := range statics {
		for _, pq := range statics {
			for _, cq := range [][]KV{nil, {{"api_key", []string{"mine"}}}, {{"k", []string{"c"}}, {"z", nil}}} {
				for oi, aq := range authKeys {
					for _, dq := range authKeys {
						for _, opauth := range []bool{false, true} {
							if !opauth && oi > 0 {
								continue
							}
							cs := Case{Base: Base{Lead: true, Segs: []string{"api"}, Query: bq}, DQ: dq, Host: "h:1", Entries: allEntries}
							p := simple
							p.Query = pq
							cs.Steps = []Step{{Pat: p, Vals: []Val{{"a", "v"}}, CQ: cq, OpAuth: opauth, AQ: aq, Orders: [][]int{{0}}, Reps: 1}}
							// the same Runtime then serves an operation with the other auth setting
							cs.Steps = append(cs.Steps, Step{Pat: p, Vals: []Val{{"a", "w"}}, CQ: cq, OpAuth: !opauth, AQ: authKeys[(oi+1)%len(authKeys)], Orders: [][]int{{0}}, Reps: 1})
							c.Case(cs.JSON())
							nExh++
						}
					}
				}
			}
		}
	}
	// (iii) scheme track: all lists up to length 3 over {http, https, ws} for runtime and operation
	var lists [][]string
	names := []string{"http", "https", "ws"}
	var recS func(cur []string, n int)
	recS = func(cur []string, n int) {
		lists = append(lists, append([]string{}, cur...))
		if n == 0 {
			return
		}
		for _, s := range names {
			recS(append(cur, s), n-1)
		}
	}
	recS(nil, 3)
	for _, rs := range lists {
		for _, os := range lists {
			c.Case(Case{Base: Base{Lead: true}, Pat: simple, Vals: []Val{{"a", "v"}}, RS: rs, OS: os, Host: "example.com:8443", Orders: [][]int{{0}}, Reps: 1, Entries: allEntries}.JSON())
			nExh++
		}
	}
	// (iii-b) histories: several operations built one after the other on ONE Runtime.
	// schemes: every runtime list of a small pool x every sequence of 2..3 operation scheme lists
	opLists := [][]string{nil, {"http"}, {"https"}, {"http", "https"}, {"ws", "wss", "https"}, {"ws"}, {"ws", "http"}}
	rtLists := [][]string{nil, {"http"}, {"ws", "https"}}
	one := []Val{{"a", "v"}}
	for _, rs := range rtLists {
		for _, o1 := range opLists {
			for _, o2 := range opLists {
				for _, o3 := range append([][]string{{"-"}}, opLists...) {
					cs := Case{Base: Base{Lead: true}, RS: rs, Host: "h:1", Entries: allEntries}
					for _, os := range [][]string{o1, o2, o3} {
						if len(os) == 1 && os[0] == "-" {
							continue
						}
						cs.Steps = append(cs.Steps, Step{Pat: simple, Vals: one, OS: os, Orders: [][]int{{0}}, Reps: 1})
					}
					c.Case(cs.JSON())
					nExh++
				}
			}
		}
	}
	// paths and queries: the same and different templates, values and caller queries in sequence under one base path
	hp := []Pat{simple, {Segs: [][]Tok{lit("x"), ph("a")}, Trailing: true}, {Segs: [][]Tok{lit("c\u00e9"), ph("a"), ph("b")}},
		{Segs: [][]Tok{ph("b"), lit("x")}, Query: []KV{{"k", []string{"p"}}}}, {}}
	hv := [][]Val{{{"a", "v"}, {"b", "w"}}, {{"a", "a/b"}, {"b", "{a}"}}, {{"a", ""}, {"b", ".."}}, {{"a", "x y?#"}, {"b", "%2F"}}}
	hq := [][]KV{nil, {{"k", []string{"c"}}}, {{"q", []string{"1", "2"}}}}
	for bi, b := range basePool {
		for i1 := range hp {
			for i2 := range hp {
				cs := Case{Base: b, Host: "h:1", Entries: allEntries}
				if bi%2 == 0 {
					cs.Base.Query = []KV{{"k", []string{"b"}}, {"z", []string{"9"}}}
				}
				for k, pi := range []int{i1, i2, i1} {
					cs.Steps = append(cs.Steps, Step{Pat: hp[pi], Vals: hv[(i1+i2+k)%len(hv)], CQ: hq[(i1+k)%len(hq)], Orders: both, Reps: reps})
				}
				c.Case(cs.JSON())
				nExh++
			}
		}
	}
	c.Extra["exhaustive_cases"] = nExh
	// (iv) seeded random larger cases
	n := 8000
	if thorough {
		n = 100000
	}
	for i := 0; i < n; i++ {
		cs := randomCase(c, reps)
		cs.Entries = allEntries
		if i%4 == 0 {
			// a random history: further operations on the same Runtime (same base path, host, runtime schemes)
			cs.Steps = []Step{{Pat: cs.Pat, Vals: cs.Vals, CQ: cs.CQ, OpAuth: cs.OpAuth, AQ: cs.AQ, OS: cs.OS, Orders: cs.Orders, Reps: cs.Reps}}
			for k, m := 0, 1+c.Rng.Intn(4); k < m; k++ {
				o := randomCase(c, reps)
				cs.Steps = append(cs.Steps, Step{Pat: o.Pat, Vals: o.Vals, CQ: o.CQ, OpAuth: o.OpAuth, AQ: o.AQ, OS: o.OS, Orders: o.Orders, Reps: o.Reps})
			}
		}
		c.Case(cs.JSON())
	}
}

var litWords = []string{"api", "v1", "users", "x", "pets", "a-b", "a_b", "a.b", "~u", "c\u00e9", "a b", "q^", "\"q\"", "<t>", "a|b", "a:b", "a;b", "a,b", "a=b", "a&b", "a+b", "a@b", "$", "!x", "(x)", "*", "'", "[0]", "\\", "`", "\xff", "..."}
var phNames = []string{"id", "name", "a", "b", "petId", "x-y", "k_1", "v.2"}
var hosts = []string{"h:1", "example.com", "127.0.0.1:8080", "[::1]:9", "a-b.example.org:443"}

const hostile = "ab01/?#% +.{};,:@&=$!*'()[]<>\"\\^`|~-_\x00\x1f\x7f\xc3\xa9\xff\xe2\x98\x83"

func randText(c *drv.Ctx, max int, alpha string) string {
	n := c.Rng.Intn(max + 1)
	b := make([]byte, n)
	for i := range b {
		b[i] = alpha[c.Rng.Intn(len(alpha))]
	}
	return string(b)
}

func randQuery(c *drv.Ctx, keys []string, maxEntries int, allowEmpty, distinct bool) []KV {
	var out []KV
	seen := map[string]bool{}
	for i, n := 0, c.Rng.Intn(maxEntries+1); i < n; i++ {
		k := keys[c.Rng.Intn(len(keys))]
		if distinct && seen[k] {
			continue
		}
		seen[k] = true
		lo := 1
		if allowEmpty {
			lo = 0
		}
		nv := lo + c.Rng.Intn(3)
		var vs []string
		for j := 0; j < nv; j++ {
			vs = append(vs, randText(c, 5, hostile))
		}
		out = append(out, KV{k, vs})
	}
	return out
}

func randomCase(c *drv.Ctx, reps int) Case {
	var cs Case
	cs.Base.Lead = c.Rng.Intn(3) > 0
	for i, n := 0, c.Rng.Intn(4); i < n; i++ {
		cs.Base.Segs = append(cs.Base.Segs, litWords[c.Rng.Intn(len(litWords))])
	}
	cs.Base.Trailing = c.Rng.Intn(3) == 0
	nseg := c.Rng.Intn(6)
	var used []string
	for i := 0; i < nseg; i++ {
		var seg []Tok
		switch c.Rng.Intn(6) {
		case 0, 1:
			seg = lit(litWords[c.Rng.Intn(len(litWords))])
		case 2, 3:
			n := phNames[c.Rng.Intn(len(phNames))]
			seg = ph(n)
			used = append(used, n)
		case 4:
			n := phNames[c.Rng.Intn(len(phNames))]
			seg = []Tok{{S: litWords[c.Rng.Intn(len(litWords))]}, {Ph: true, S: n}, {S: ".json"}}
			used = append(used, n)
		default:
			n1, n2 := phNames[c.Rng.Intn(len(phNames))], phNames[c.Rng.Intn(len(phNames))]
			seg = []Tok{{Ph: true, S: n1}, {S: "-"}, {Ph: true, S: n2}}
			used = append(used, n1, n2)
		}
		cs.Pat.Segs = append(cs.Pat.Segs, seg)
	}
	// a literal segment must not be a dot segment (path.Join cleans the template)
	for i, s := range cs.Pat.Segs {
		if len(s) == 1 && !s[0].Ph && (s[0].S == "." || s[0].S == "..") {
			cs.Pat.Segs[i] = lit("dot")
		}
	}
	cs.Pat.Trailing = c.Rng.Intn(3) == 0
	// values: every used name gets one; sometimes a value for an unused name too
	seen := map[string]bool{}
	addVal := func(n string) {
		if seen[n] {
			return
		}
		seen[n] = true
		var v string
		switch c.Rng.Intn(8) {
		case 0:
			v = "{" + phNames[c.Rng.Intn(len(phNames))] + "}"
		case 1:
			v = []string{"", ".", "..", "../..", "%2F", "%7B" + phNames[c.Rng.Intn(len(phNames))] + "%7D", "a/b", "?q=1#f"}[c.Rng.Intn(8)]
		case 2:
			b := make([]byte, c.Rng.Intn(10))
			for i := range b {
				b[i] = byte(c.Rng.Intn(256))
			}
			v = string(b)
		default:
			v = randText(c, 8, hostile)
		}
		cs.Vals = append(cs.Vals, Val{n, v})
	}
	for _, n := range used {
		addVal(n)
	}
	if c.Rng.Intn(3) == 0 {
		addVal(phNames[c.Rng.Intn(len(phNames))])
	}
	keys := []string{"k", "q", "limit", "a b", "x&y", "\xc3\xa9"}
	if c.Rng.Intn(2) == 0 {
		cs.Base.Query = randQuery(c, keys, 3, false, false)
	}
	if c.Rng.Intn(2) == 0 {
		cs.Pat.Query = randQuery(c, keys, 3, false, false)
	}
	if c.Rng.Intn(2) == 0 {
		cs.CQ = randQuery(c, keys, 3, true, true)
	}
	one := func() []KV {
		var out []KV
		for _, e := range randQuery(c, keys, 2, false, true) {
			out = append(out, KV{e.K, e.Vs[:1]})
		}
		return out
	}
	if c.Rng.Intn(3) == 0 {
		cs.OpAuth = true
		if c.Rng.Intn(4) > 0 {
			cs.AQ = one()
		}
	}
	if c.Rng.Intn(3) == 0 {
		cs.DQ = one()
	}
	sch := []string{"http", "https", "ws", "wss"}
	for i, n := 0, c.Rng.Intn(4); i < n && c.Rng.Intn(2) == 0; i++ {
		cs.RS = append(cs.RS, sch[c.Rng.Intn(len(sch))])
	}
	for i, n := 0, c.Rng.Intn(4); i < n; i++ {
		cs.OS = append(cs.OS, sch[c.Rng.Intn(len(sch))])
	}
	cs.Host = hosts[c.Rng.Intn(len(hosts))]
	// orders: identity, reverse, one shuffle
	id := make([]int, len(cs.Vals))
	for i := range id {
		id[i] = i
	}
	rev := make([]int, len(id))
	for i := range id {
		rev[i] = len(id) - 1 - i
	}
	sh := append([]int{}, id...)
	c.Rng.Shuffle(len(sh), func(i, j int) { sh[i], sh[j] = sh[j], sh[i] })
	cs.Orders = [][]int{id, rev, sh}
	cs.Reps = reps
	if len(cs.Vals) < 2 {
		cs.Orders = [][]int{id}
		cs.Reps = 1
	}
	return cs
}

var _ = fmt.Sprintf
