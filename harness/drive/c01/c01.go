// Package c01 drives the real spec-driven router (middleware.Context.RoutesHandler /
// APIHandler on an untyped API built from an in-memory Swagger 2.0 document) for
// property C01.  It only executes and records; the verdict comes from
// specs/TraceHTTPRouter.tla.
package c01

import (
	"bufio"
	"encoding/json"
	"fmt"
	"net"
	"net/http"
	"net/http/httptest"
	"os"
	goruntime "runtime"
	"sort"
	"strconv"
	"strings"
	"sync"

	"github.com/go-openapi/loads"
	"github.com/go-openapi/runtime"
	"github.com/go-openapi/runtime/middleware"
	"github.com/go-openapi/runtime/middleware/untyped"

	"verifharness/internal/drv"
	"verifharness/internal/trace"
)

type M = drv.M

func init() {
	drv.Register(&drv.Driver{Name: "c01", Generate: generate, Execute: execute})
}

// ---- abstract API ------------------------------------------------------------

// Seg is a template segment: a literal or the placeholder {N}.
type Seg struct {
	Param bool
	S     string // literal text; with Param: a literal prefix inside the segment ("key=" in key={value}, "v" in v{ver})
	N     string // placeholder name
	// Comp: a composite segment ({a}.{b}, {id}-cancel): pieces (literals and placeholders), the first a placeholder
	Comp []Seg
}

func (s Seg) text(brace bool) string {
	if len(s.Comp) > 0 {
		t := ""
		for _, p := range s.Comp {
			t += p.text(brace)
		}
		return t
	}
	if !s.Param {
		return s.S
	}
	if brace {
		return s.S + "{" + s.N + "}"
	}
	return s.S + "{}"
}

// params: the placeholder names of the segment
func (s Seg) params() []string {
	if len(s.Comp) > 0 {
		var out []string
		for _, p := range s.Comp {
			out = append(out, p.params()...)
		}
		return out
	}
	if s.Param {
		return []string{s.N}
	}
	return nil
}

// Op is one operation: method (upper case) + template.
type Op struct {
	Method string
	Segs   []Seg
	Trail  bool // template ends with '/'
}

// Base is a base path spelling.
type Base struct {
	Empty bool     // ""
	Segs  []string // "/" when empty and !Empty
	Trail bool
}

type API struct {
	Base Base
	Ops  []Op
}

func (o Op) Template() string {
	if len(o.Segs) == 0 {
		return "/"
	}
	var b strings.Builder
	for _, s := range o.Segs {
		b.WriteByte('/')
		b.WriteString(s.text(true))
	}
	if o.Trail {
		b.WriteByte('/')
	}
	return b.String()
}

// Shape identifies templates up to placeholder names.
func (o Op) Shape() string {
	var b strings.Builder
	b.WriteString(o.Method + " ")
	for _, s := range o.Segs {
		b.WriteByte('/')
		if len(s.Comp) > 0 {
			b.WriteString("{}") // the router knows a composite segment as one placeholder
		} else {
			b.WriteString(s.text(false))
		}
	}
	if o.Trail || len(o.Segs) == 0 {
		b.WriteByte('/')
	}
	return b.String()
}

func (b Base) Text() string {
	if b.Empty {
		return ""
	}
	if len(b.Segs) == 0 {
		return "/"
	}
	t := "/" + strings.Join(b.Segs, "/")
	if b.Trail {
		t += "/"
	}
	return t
}

func (a API) JSON() M {
	ops := make([]M, 0, len(a.Ops))
	for _, o := range a.Ops {
		segs := make([]M, 0, len(o.Segs))
		for _, s := range o.Segs {
			if len(s.Comp) > 0 {
				parts := []M{}
				for _, p := range s.Comp {
					if p.Param {
						parts = append(parts, M{"k": "param", "s": []int{}, "n": trace.B(p.N)})
					} else {
						parts = append(parts, M{"k": "lit", "s": trace.B(p.S), "n": []int{}})
					}
				}
				segs = append(segs, M{"k": "comp", "s": []int{}, "n": []int{}, "parts": parts})
			} else if s.Param && s.S != "" {
				segs = append(segs, M{"k": "pre", "s": trace.B(s.S), "n": trace.B(s.N)})
			} else if s.Param {
				segs = append(segs, M{"k": "param", "s": []int{}, "n": trace.B(s.N)})
			} else {
				segs = append(segs, M{"k": "lit", "s": trace.B(s.S), "n": []int{}})
			}
		}
		ops = append(ops, M{"method": trace.B(o.Method), "segs": segs, "trail": o.Trail})
	}
	return M{"base": M{"empty": a.Base.Empty, "segs": trace.BB(a.Base.Segs), "trail": a.Base.Trail}, "ops": ops}
}

func apiFromJSON(v any) API {
	m := drv.Map(v)
	bm := drv.Map(m["base"])
	a := API{Base: Base{Empty: drv.Bool(bm["empty"]), Trail: drv.Bool(bm["trail"])}}
	for _, s := range drv.List(bm["segs"]) {
		a.Base.Segs = append(a.Base.Segs, trace.Str(s))
	}
	for _, ov := range drv.List(m["ops"]) {
		om := drv.Map(ov)
		o := Op{Method: trace.Str(om["method"]), Trail: drv.Bool(om["trail"])}
		for _, sv := range drv.List(om["segs"]) {
			sm := drv.Map(sv)
			if k := drv.Str(sm["k"]); k == "comp" {
				var cs Seg
				for _, pv := range drv.List(sm["parts"]) {
					pm := drv.Map(pv)
					if drv.Str(pm["k"]) == "param" {
						cs.Comp = append(cs.Comp, Seg{Param: true, N: trace.Str(pm["n"])})
					} else {
						cs.Comp = append(cs.Comp, Seg{S: trace.Str(pm["s"])})
					}
				}
				o.Segs = append(o.Segs, cs)
			} else if k == "param" || k == "pre" {
				o.Segs = append(o.Segs, Seg{Param: true, S: trace.Str(sm["s"]), N: trace.Str(sm["n"])})
			} else {
				o.Segs = append(o.Segs, Seg{S: trace.Str(sm["s"])})
			}
		}
		a.Ops = append(a.Ops, o)
	}
	return a
}

// Swagger renders the API as a Swagger 2.0 document.
func (a API) Swagger() []byte {
	paths := map[string]map[string]any{}
	for i, o := range a.Ops {
		t := o.Template()
		if paths[t] == nil {
			paths[t] = map[string]any{}
		}
		params := []any{}
		for _, s := range o.Segs {
			for _, n := range s.params() {
				params = append(params, map[string]any{"name": n, "in": "path", "required": true, "type": "string"})
			}
		}
		paths[t][strings.ToLower(o.Method)] = map[string]any{
			"operationId": fmt.Sprintf("op%d", i+1),
			"parameters":  params,
			"responses":   map[string]any{"200": map[string]any{"description": "ok"}},
		}
	}
	doc := map[string]any{
		"swagger":  "2.0",
		"info":     map[string]any{"title": "c01", "version": "1"},
		"consumes": []string{"application/json"},
		"produces": []string{"application/json"},
		"paths":    paths,
	}
	if !a.Base.Empty {
		doc["basePath"] = a.Base.Text()
	}
	b, err := json.Marshal(doc)
	if err != nil {
		panic(err)
	}
	return b
}

// ---- request targets -----------------------------------------------------------

// An atom is encoded as an int: c (plain byte), 256+c (%XX, upper-case hex), 512+c (%xx, lower-case hex).
type Target []int

func plain(s string) Target {
	t := make(Target, len(s))
	for i := 0; i < len(s); i++ {
		t[i] = int(s[i])
	}
	return t
}

// atomsOf reads a text in which %XX stands for an escaped byte (template literals such as "a%20b").
func atomsOf(s string) Target {
	t := Target{}
	for i := 0; i < len(s); i++ {
		if s[i] == '%' && i+2 < len(s)+0 && isHex(s[i+1]) && isHex(s[i+2]) {
			v := unhex(s[i+1])<<4 | unhex(s[i+2])
			if s[i+1] >= 'a' || s[i+2] >= 'a' {
				t = append(t, escL(v))
			} else {
				t = append(t, escU(v))
			}
			i += 2
			continue
		}
		t = append(t, int(s[i]))
	}
	return t
}

func isHex(c byte) bool { return c >= '0' && c <= '9' || c >= 'a' && c <= 'f' || c >= 'A' && c <= 'F' }
func unhex(c byte) byte {
	switch {
	case c >= 'a':
		return c - 'a' + 10
	case c >= 'A':
		return c - 'A' + 10
	}
	return c - '0'
}

func escU(c byte) int { return 256 + int(c) }
func escL(c byte) int { return 512 + int(c) }

// Render writes the target as it goes on the request line.
func (t Target) Render() string {
	var b strings.Builder
	for _, a := range t {
		switch {
		case a >= 512:
			fmt.Fprintf(&b, "%%%02x", a-512)
		case a >= 256:
			fmt.Fprintf(&b, "%%%02X", a-256)
		default:
			b.WriteByte(byte(a))
		}
	}
	return b.String()
}

// plainOK: bytes that can travel unescaped in the path of a request line that net/http accepts.
func plainOK(c byte) bool {
	return c > 0x20 && c != 0x7f && c != '%' && c != '?'
}

type Req struct {
	Method string
	Target Target
	Query  bool
}

func (r Req) JSON() M {
	return M{"method": trace.B(r.Method), "target": []int(r.Target), "query": r.Query}
}

func reqFromJSON(v any) Req {
	m := drv.Map(v)
	r := Req{Method: trace.Str(m["method"]), Query: drv.Bool(m["query"])}
	for _, a := range drv.List(m["target"]) {
		r.Target = append(r.Target, drv.Int(a))
	}
	return r
}

func segsTarget(segs []Target, trailing bool) Target {
	t := Target{}
	for _, s := range segs {
		t = append(t, '/')
		t = append(t, s...)
	}
	if trailing || len(segs) == 0 {
		t = append(t, '/')
	}
	return t
}

// enumTargets: every target of <= max segments from the pool, with and without trailing slash.
func enumTargets(pool []Target, max int) []Target {
	out := []Target{segsTarget(nil, false)}
	var rec func(cur []Target)
	rec = func(cur []Target) {
		if len(cur) > 0 {
			out = append(out, segsTarget(cur, false), segsTarget(cur, true))
		}
		if len(cur) == max {
			return
		}
		for _, s := range pool {
			rec(append(append([]Target{}, cur...), s))
		}
	}
	rec(nil)
	return out
}

// ---- generation ----------------------------------------------------------------

func lit(s string) Seg { return Seg{S: s} }
func par(n string) Seg { return Seg{Param: true, N: n} }

var (
	tA    = []Seg{lit("a")}
	tAX   = []Seg{lit("a"), par("x")}
	tAB   = []Seg{lit("a"), lit("b")}
	tXB   = []Seg{par("x"), lit("b")}
	tAXCY = []Seg{lit("a"), par("x"), lit("c"), par("y")}
	tX    = []Seg{par("x")}
	tXY   = []Seg{par("x"), par("y")}
)

type tmpl struct {
	segs  []Seg
	trail bool
}

var baseSpellings = []Base{
	{Empty: true},
	{},
	{Segs: []string{"api"}},
	{Segs: []string{"api"}, Trail: true},
	{Segs: []string{"api", "v1"}},
	{Segs: []string{"api", "v1"}, Trail: true},
	{Segs: []string{"a"}},
}

func wellFormed(ops []Op) bool {
	seen := map[string]bool{}
	for _, o := range ops {
		if seen[o.Shape()] {
			return false
		}
		seen[o.Shape()] = true
		names := map[string]bool{}
		anchored, needsAnchor := false, false
		for _, s := range o.Segs {
			for _, n := range s.params() {
				if names[n] {
					return false
				}
				names[n] = true
			}
			if len(s.Comp) > 0 {
				anchored = true
			}
			if s.Param {
				// denco treats a key as parameterised only when it contains "/:" or "=:": a placeholder that neither
				// opens its segment nor follows '=' needs another one in the template that does
				if s.S == "" || strings.HasSuffix(s.S, "=") {
					anchored = true
				} else {
					needsAnchor = true
				}
			}
		}
		if needsAnchor && !anchored {
			return false
		}
	}
	return true
}

func descriptor(a API, via string, reqs []Req, enumPool []Target, enumMax int, enumMethods []string) M {
	rs := make([]M, 0, len(reqs))
	for _, r := range reqs {
		rs = append(rs, r.JSON())
	}
	pool := make([][]int, 0, len(enumPool))
	for _, p := range enumPool {
		pool = append(pool, append([]int{}, p...))
	}
	return M{"api": a.JSON(), "via": via, "reqs": rs, "conc": 0, "procs": 0, "yield": false, "debug": false,
		"enum": M{"pool": pool, "max": enumMax, "methods": trace.BB(enumMethods)}}
}

// concurrent: the requests are served in batches of conc simultaneous goroutines against one handler, at GOMAXPROCS procs.
// yield: the API is built in debug mode with a logger whose Debugf yields the processor (runtime.Gosched), a legitimate
// application-supplied callback that the serving code calls between its steps (e.g. between the trie lookup and the
// decoding of the captured values); it makes interleavings of concurrent requests likely instead of rare.
func concurrent(d M, conc, procs int, yield bool) M {
	d["conc"], d["procs"], d["yield"] = conc, procs, yield
	return d
}

// debugOn: the case runs with the package option middleware.Debug = true (verbose logging; the logger stays muted).
func debugOn(d M, on bool) M {
	d["debug"] = on
	return d
}

type yieldLogger struct{}

func (yieldLogger) Printf(string, ...interface{}) {}
func (yieldLogger) Debugf(string, ...interface{}) { goruntime.Gosched() }

func generate(c *drv.Ctx) {
	thorough := c.Tier == "thorough"

	// (i) exhaustive small scope: every API of <= 2 (thorough: some of 3) operations over a template
	// pool x {GET, POST} x base spellings; every target of <= 3 segments over a segment pool.
	pool := []tmpl{{tA, false}, {tAX, false}, {tAB, false}, {tXB, false}}
	if thorough {
		pool = append(pool, tmpl{tAXCY, false}, tmpl{nil, false})
	}
	var opPool []Op
	for _, t := range pool {
		for _, m := range []string{"GET", "POST"} {
			opPool = append(opPool, Op{Method: m, Segs: t.segs, Trail: t.trail})
		}
	}
	bases := []Base{baseSpellings[0], baseSpellings[2], baseSpellings[3]}
	if thorough {
		bases = []Base{baseSpellings[0], baseSpellings[1], baseSpellings[2], baseSpellings[3]}
	}
	segPoolDeep := []Target{plain("a"), plain("b"), plain("api"), plain(":"), {'a', escU('/'), 'b'}, plain("..")}
	segPoolWide := []Target{plain("a"), plain("b"), plain("c"), plain("api"), plain(":"), {'a', escU('/'), 'b'}, {escU('%')},
		plain("."), plain(".."), {}, {escL('.'), escL('.')}, plain("*"), {escU('#')}, plain(";="), {escU('a')}}
	if thorough {
		segPoolDeep = append(segPoolDeep, Target{}, plain("c"))
	}
	deepMethods := []string{"GET", "get", "Post", "PUT", "pOST"}
	wideMethods := []string{"*", "GET", "get", "Post", "PUT"}
	nExh := 0
	for _, b := range bases {
		for i := range opPool {
			sets := [][]Op{{opPool[i]}}
			for j := i + 1; j < len(opPool); j++ {
				sets = append(sets, []Op{opPool[i], opPool[j]})
			}
			for _, ops := range sets {
				if !wellFormed(ops) {
					continue
				}
				a := API{Base: b, Ops: ops}
				// deep: <= 3 segments, one method spelling per target (cycling)
				c.Case(descriptor(a, "routes", nil, segPoolDeep, 3, deepMethods))
				// wide: <= 2 segments over the wide pool, every method spelling
				c.Case(descriptor(a, "routes", nil, segPoolWide, 2, wideMethods))
				nExh += 2
			}
		}
	}
	// three-operation APIs over three methods and more templates: a seeded sample, each with the deep enumeration
	{
		pool3 := []tmpl{{tA, false}, {tAX, false}, {tAB, false}, {tXB, false}, {tAXCY, false}, {nil, false}, {tA, true}, {tX, false}, {tXY, false}}
		var ops3 []Op
		for _, t := range pool3 {
			for _, m := range []string{"GET", "POST", "PUT"} {
				ops3 = append(ops3, Op{Method: m, Segs: t.segs, Trail: t.trail})
			}
		}
		nTri := 20
		if thorough {
			nTri = 150
		}
		for n := 0; n < nTri; n++ {
			ops := []Op{ops3[c.Rng.Intn(len(ops3))], ops3[c.Rng.Intn(len(ops3))], ops3[c.Rng.Intn(len(ops3))]}
			if !wellFormed(ops) {
				continue
			}
			a := API{Base: baseSpellings[c.Rng.Intn(len(baseSpellings))], Ops: ops}
			via := []string{"routes", "api"}[n%2]
			c.Case(descriptor(a, via, nil, segPoolDeep, 3, deepMethods))
		}
	}
	c.Extra["exhaustive_cases"] = nExh

	// (ii) every byte value as a plain (where a request line can carry it) and as an escaped atom, in a
	// parameter position, alone and next to %2F (exercises net/http's re-encoding of the path).
	{
		a := API{Base: Base{Segs: []string{"api"}}, Ops: []Op{
			{Method: "GET", Segs: tAX}, {Method: "PUT", Segs: tAB}, {Method: "GET", Segs: tAXCY}, {Method: "DELETE", Segs: tXB}}}
		for _, via := range []string{"routes", "api", "server"} {
			var reqs []Req
			for v := 0; v < 256; v++ {
				b := byte(v)
				pre := plain("/api/a/")
				if plainOK(b) {
					reqs = append(reqs, Req{Method: "GET", Target: append(append(Target{}, pre...), int(b))})
					reqs = append(reqs, Req{Method: "GET", Target: append(append(Target{}, pre...), 'q', escU('/'), int(b))})
					reqs = append(reqs, Req{Method: "get", Target: append(append(Target{}, pre...), int(b), '/', 'c', '/', escL('%'))})
				}
				reqs = append(reqs, Req{Method: "GET", Target: append(append(Target{}, pre...), escU(b))})
				reqs = append(reqs, Req{Method: "PoSt", Target: append(append(Target{}, pre...), escL(b), 'z')})
				reqs = append(reqs, Req{Method: "delete", Target: append(plain("/api/"), escU(b), '/', 'b')})
			}
			c.Case(descriptor(a, via, reqs, nil, 0, nil))
		}
	}

	// (iii) seeded random APIs and targets
	nRand := 150
	if thorough {
		nRand = 2500
	}
	vias := []string{"routes", "api"}
	for n := 0; n < nRand; n++ {
		a := randomAPI(c)
		via := vias[n%2]
		if (thorough && n%5 == 4) || (!thorough && n%25 == 24) {
			via = "server"
		}
		nreq := 40
		if thorough {
			nreq = 60
		}
		var reqs []Req
		for k := 0; k < nreq; k++ {
			reqs = append(reqs, randomReq(c, a))
		}
		c.Case(debugOn(descriptor(a, via, reqs, nil, 0, nil), n%4 == 1))
	}

	// (iv) concurrent requests: batches of N in {8, 64} requests served simultaneously from N goroutines against ONE
	// handler, at GOMAXPROCS 1 / 4 / 16; every request carries parameter texts of its own (its index is part of each
	// text), templates and methods are mixed. Each request keeps its own event, so the same per-request property is checked:
	// a request handled with another request's values is a wrong-operation-or-parameters rejection.
	fixed := API{Base: Base{Segs: []string{"api"}}, Ops: []Op{
		{Method: "GET", Segs: []Seg{lit("owners"), par("owner"), lit("pets"), par("id")}},
		{Method: "GET", Segs: tAX}, {Method: "GET", Segs: tXB}, {Method: "GET", Segs: tAXCY},
		{Method: "POST", Segs: tAX}, {Method: "PUT", Segs: tAB}, {Method: "GET", Segs: []Seg{lit("owners"), par("owner")}}}}
	nConcReq, nConcAPIs := 384, 2
	if thorough {
		nConcReq, nConcAPIs = 1024, 6
	}
	k := 0
	for _, procs := range []int{1, 4, 16} {
		for _, n := range []int{8, 64} {
			for j := 0; j < nConcAPIs; j++ {
				a := fixed
				if j > 0 {
					for {
						a = randomAPI(c)
						if hasParamOp(a) {
							break
						}
					}
				}
				via := []string{"routes", "api", "routes", "server"}[k%4]
				k++
				var reqs []Req
				for i := 0; i < nConcReq; i++ {
					reqs = append(reqs, uniqueReq(c, a, i))
				}
				c.Case(concurrent(descriptor(a, via, reqs, nil, 0, nil), n, procs, k%3 != 0))
			}
		}
	}
	c.Extra["concurrent_cases"] = k
	c.Extra["concurrent_requests"] = k * nConcReq

	// (v) placeholder names that are prefixes of one another (id / id2 / idx / i, name / names / n / na), in both orders:
	// every ordered pair in two-placeholder templates, a seeded sample of ordered triples in three-placeholder templates;
	// each parameter must be bound by ITS name to ITS text.
	prefixReqs := func(a API) []Req {
		var reqs []Req
		for i := 0; i < 3*len(a.Ops); i++ {
			reqs = append(reqs, uniqueReq(c, a, i))
		}
		for i := 0; i < 4; i++ {
			reqs = append(reqs, randomReq(c, a))
		}
		return reqs
	}
	nPre := 0
	for i, x := range prefixNames {
		for j, y := range prefixNames {
			if i == j {
				continue
			}
			a := API{Base: baseSpellings[(i+j)%len(baseSpellings)], Ops: []Op{
				{Method: "GET", Segs: []Seg{lit("compare"), par(x), lit("with"), par(y)}},
				{Method: "GET", Segs: []Seg{par(x), par(y)}},
				{Method: "POST", Segs: []Seg{lit("a"), par(y), par(x), lit("b")}}}}
			c.Case(debugOn(descriptor(a, []string{"routes", "api"}[(i+j)%2], prefixReqs(a), nil, 0, nil), (i+j)%3 == 0))
			nPre++
		}
	}
	nTriples := 40
	if thorough {
		nTriples = 300
	}
	for n := 0; n < nTriples; n++ {
		p := c.Rng.Perm(len(prefixNames))
		x, y, z := prefixNames[p[0]], prefixNames[p[1]], prefixNames[p[2]]
		a := API{Base: baseSpellings[c.Rng.Intn(len(baseSpellings))], Ops: []Op{
			{Method: "GET", Segs: []Seg{lit("t"), par(x), par(y), lit("of"), par(z)}},
			{Method: "PUT", Segs: []Seg{par(z), lit("u"), par(x), par(y)}}}}
		c.Case(descriptor(a, []string{"routes", "api", "server"}[n%3], prefixReqs(a), nil, 0, nil))
		nPre++
	}
	c.Extra["prefix_name_cases"] = nPre

	// (vi) placeholders that do not open their segment (key={value}, v{ver}, rev-{n}) x values made of the bytes the trie
	// reserves (':' '*' '#'), alone, doubled, leading, trailing, escaped, and the empty value (named deviation EmptyPrefixedParam)
	{
		ops := []Op{
			{Method: "GET", Segs: []Seg{lit("items"), {Param: true, S: "key=", N: "value"}}},
			{Method: "POST", Segs: []Seg{lit("items"), {Param: true, S: "key=", N: "value"}}},
			{Method: "GET", Segs: []Seg{{Param: true, S: "v", N: "ver"}, lit("pets"), par("id")}},
			{Method: "GET", Segs: []Seg{lit("a"), {Param: true, S: "k=", N: "x"}, lit("b")}},
			{Method: "PUT", Segs: []Seg{par("id"), {Param: true, S: "rev-", N: "n"}}},
			{Method: "GET", Segs: []Seg{lit("items"), par("other")}}}
		values := []Target{plain(":"), plain("*"), plain("#"), {escU('#')}, plain("::"), plain(":a"), plain("a:"), plain("*a"), plain("a*"),
			{'a', escU('#'), 'b'}, {escU(':')}, {escL('*')}, plain("a"), {}, plain(":*"), {'k', '=', ':'}, plain("=:"), plain("5")}
		nv := 0
		for _, b := range []Base{baseSpellings[0], baseSpellings[2], baseSpellings[5]} {
			a := API{Base: b, Ops: ops}
			for _, via := range []string{"routes", "api", "server"} {
				var reqs []Req
				for _, o := range ops {
					for pi := range o.Segs {
						if !o.Segs[pi].Param {
							continue
						}
						for _, v := range values {
							var segs []Target
							for _, bs := range b.Segs {
								segs = append(segs, plain(bs))
							}
							for si, sg := range o.Segs {
								switch {
								case !sg.Param:
									segs = append(segs, atomsOf(sg.S))
								case si == pi:
									segs = append(segs, append(atomsOf(sg.S), v...))
								default:
									segs = append(segs, append(atomsOf(sg.S), '5'))
								}
							}
							m := o.Method
							if nv%7 == 3 {
								m = strings.ToLower(m)
							}
							reqs = append(reqs, Req{Method: m, Target: segsTarget(segs, false)})
							nv++
						}
					}
				}
				c.Case(debugOn(descriptor(a, via, reqs, nil, 0, nil), nv%2 == 0))
			}
		}
	}

	// (viii) composite segments ({a}.{b}, {id}-cancel, {a}-{b}-{c}): named deviation CompositeSegmentsOpen - what is
	// demanded is totality (no panic), one handler at most, of the right method, whose template fits at least coarsely,
	// and that a strict fit is handled
	{
		comp := func(ps ...Seg) Seg { return Seg{Comp: ps} }
		ops := []Op{
			{Method: "GET", Segs: []Seg{lit("f"), comp(par("a"), lit("."), par("b"))}},
			{Method: "GET", Segs: []Seg{lit("g"), comp(par("id"), lit("-cancel"))}},
			{Method: "PUT", Segs: []Seg{lit("h"), comp(par("a"), lit("-"), par("b"), lit("-"), par("c"))}},
			{Method: "GET", Segs: []Seg{lit("f"), comp(par("a"), lit("."), par("b")), lit("x"), par("c")}},
			{Method: "GET", Segs: []Seg{lit("f"), lit("lit.x")}},
			{Method: "POST", Segs: []Seg{lit("g"), par("id")}}}
		vals := []string{"x.y", "x.y.z", "xy", ".y", "x.", ".", "..", "x%2Ey", "x%2Ey.z", "%2E", "p-cancel", "p", "-cancel", "p-cancel-cancel",
			"p-cancelx", "a-b-c", "a-b", "a--c", "-", "--", "a-b-c-d", "-b-c", ":.:", "lit.x", "a.b%2Fc", "%25.%25"}
		for bi, b := range []Base{baseSpellings[0], baseSpellings[2]} {
			a := API{Base: b, Ops: ops}
			pre := ""
			for _, bs := range b.Segs {
				pre += "/" + bs
			}
			var reqs []Req
			for _, v := range vals {
				for _, first := range []string{"f", "g", "h"} {
					for _, m := range []string{"GET", "PUT", "post"} {
						reqs = append(reqs, Req{Method: m, Target: atomsOf(pre + "/" + first + "/" + v)})
					}
				}
				reqs = append(reqs, Req{Method: "GET", Target: atomsOf(pre + "/f/" + v + "/x/1")})
			}
			for k := 0; k < 60; k++ {
				reqs = append(reqs, randomReq(c, a))
			}
			for vi, via := range []string{"routes", "api", "server"} {
				c.Case(debugOn(descriptor(a, via, reqs, nil, 0, nil), (bi+vi)%2 == 0))
			}
		}
	}

	// (vii) operations next to the documentation paths, through the full API handler: templates under <basePath>/docs and
	// under /swagger.json stay reachable; requests at exactly <basePath>/docs and /swagger.json are answered by the docs
	// middlewares (named deviation DocsShadow, the subject of C20) and are not judged here
	for bi, b := range []Base{baseSpellings[0], baseSpellings[1], baseSpellings[2], baseSpellings[5]} {
		a := API{Base: b, Ops: []Op{
			{Method: "GET", Segs: []Seg{lit("docs"), par("id")}},
			{Method: "PUT", Segs: []Seg{lit("docs"), par("id"), lit("pages"), par("n")}},
			{Method: "GET", Segs: []Seg{lit("swagger.json"), par("x")}},
			{Method: "GET", Segs: []Seg{lit("docsx")}},
			{Method: "GET", Segs: []Seg{lit("docs")}},
			{Method: "POST", Segs: []Seg{par("x")}},
			{Method: "GET", Segs: []Seg{lit("docs.json")}}}}
		var reqs []Req
		pre := ""
		for _, bs := range b.Segs {
			pre += "/" + bs
		}
		for _, t := range []string{"/docs", "/docs/", "/docs/5", "/docs/index.html", "/docs/5/pages/7", "/docs/5/pages", "/docsx", "/docs.json",
			"/swagger.json", "/swagger.json/1", "/docs/../docs/9", "/doc", "/docs/%2F", "/do%63s/3"} {
			for _, m := range []string{"GET", "PUT", "POST"} {
				reqs = append(reqs, Req{Method: m, Target: atomsOf(pre + t)})
			}
		}
		reqs = append(reqs, Req{Method: "GET", Target: plain("/swagger.json")}, Req{Method: "GET", Target: plain("/swagger.json/a")},
			Req{Method: "GET", Target: plain("/docs")}, Req{Method: "GET", Target: plain("/docs/1")})
		for k := 0; k < 30; k++ {
			reqs = append(reqs, randomReq(c, a))
		}
		for _, via := range []string{"api", "routes"} {
			c.Case(debugOn(descriptor(a, via, reqs, nil, 0, nil), bi%2 == 1))
		}
	}
}

func hasParamOp(a API) bool {
	for _, o := range a.Ops {
		for _, s := range o.Segs {
			if s.Param {
				return true
			}
		}
	}
	return false
}

// uniqueReq: a request instantiating an operation (mostly a parameterised one) whose every parameter text contains the
// request's index and the placeholder's position, so that no two requests of a case share a value.
func uniqueReq(c *drv.Ctx, a API, i int) Req {
	r := c.Rng
	o := a.Ops[r.Intn(len(a.Ops))]
	for tries := 0; tries < 4 && !hasParamOp(API{Ops: []Op{o}}); tries++ {
		o = a.Ops[r.Intn(len(a.Ops))]
	}
	var segs []Target
	for _, s := range a.Base.Segs {
		segs = append(segs, plain(s))
	}
	for k, s := range o.Segs {
		if !s.Param {
			segs = append(segs, atomsOf(s.S))
			continue
		}
		t := plain(fmt.Sprintf("r%dp%d", i, k))
		switch r.Intn(4) {
		case 0:
			t = append(t, escU('/'), 'z')
		case 1:
			t = append(Target{escU('%')}, t...)
		}
		segs = append(segs, append(atomsOf(s.S), t...))
	}
	m := o.Method
	switch r.Intn(10) {
	case 0:
		m = strings.ToLower(m)
	case 1:
		m = allMethods[r.Intn(len(allMethods))]
	}
	trailing := r.Intn(8) == 0
	if r.Intn(12) == 0 && len(segs) > 0 {
		segs = append(segs[:len(segs)-1], plain("."), segs[len(segs)-1])
	}
	return Req{Method: m, Target: segsTarget(segs, trailing)}
}

var words = []string{"a", "b", "ab", "ba", "users", "user", "pets", "pet", "v1", "v2", "items", "item", "x", "y", "list",
	"a-b", "a_b", "a.b", "1", "10", "a=b", "a;b", "a%20b", "a,b", "~a", "a+b", "a@b", "(a)", "a!b", "a$b", "a&b", "a'b"}
var pnames = []string{"id", "name", "x", "y", "z", "k", "petId", "uid", "id2", "idx", "i", "names", "n"}

// placeholder names that are prefixes of one another
var prefixNames = []string{"id", "id2", "idx", "i", "name", "names", "n", "na"}
var allMethods = []string{"GET", "PUT", "POST", "DELETE", "OPTIONS", "HEAD", "PATCH"}

func randomAPI(c *drv.Ctx) API {
	r := c.Rng
	a := API{Base: baseSpellings[r.Intn(len(baseSpellings))]}
	want := 1 + r.Intn(12)
	var tmpls []tmpl
	for tries := 0; len(a.Ops) < want && tries < 200; tries++ {
		var t tmpl
		if len(tmpls) > 0 && r.Intn(3) > 0 {
			// derive from an existing template: shared prefix, static/param sibling, extension
			src := tmpls[r.Intn(len(tmpls))]
			t.segs = append([]Seg{}, src.segs...)
			switch r.Intn(5) {
			case 0: // sibling: replace one segment
				if len(t.segs) > 0 {
					i := r.Intn(len(t.segs))
					if t.segs[i].Param {
						t.segs[i] = lit(words[r.Intn(len(words))])
					} else {
						t.segs[i] = par(pnames[r.Intn(len(pnames))])
					}
				}
			case 1: // extend
				t.segs = append(t.segs, randSeg(c))
			case 2: // shorten
				if len(t.segs) > 1 {
					t.segs = t.segs[:len(t.segs)-1]
				}
			case 3: // same template, other method
			case 4: // replace the last segment
				if len(t.segs) > 0 {
					t.segs[len(t.segs)-1] = randSeg(c)
				}
			}
		} else {
			n := r.Intn(5)
			if r.Intn(4) > 0 && n == 0 {
				n = 1
			}
			for i := 0; i < n; i++ {
				t.segs = append(t.segs, randSeg(c))
			}
		}
		if len(t.segs) > 0 && r.Intn(15) == 0 {
			t.trail = true
		}
		o := Op{Method: allMethods[r.Intn(len(allMethods))], Segs: t.segs, Trail: t.trail}
		if r.Intn(2) == 0 {
			o.Method = []string{"GET", "POST", "PUT"}[r.Intn(3)]
		}
		if !wellFormed(append(append([]Op{}, a.Ops...), o)) {
			continue
		}
		// shape-equivalent templates must not coexist under different methods with different names either:
		// the Swagger document keys path items by template text, so this is fine; keep them.
		a.Ops = append(a.Ops, o)
		tmpls = append(tmpls, t)
	}
	sort.SliceStable(a.Ops, func(i, j int) bool {
		if a.Ops[i].Template() != a.Ops[j].Template() {
			return a.Ops[i].Template() < a.Ops[j].Template()
		}
		return a.Ops[i].Method < a.Ops[j].Method
	})
	return a
}

func randSeg(c *drv.Ctx) Seg {
	if c.Rng.Intn(12) == 0 {
		// a placeholder behind a literal prefix inside its segment
		return Seg{Param: true, S: []string{"key=", "id=", "k=", "v", "rev-"}[c.Rng.Intn(5)], N: pnames[c.Rng.Intn(len(pnames))]}
	}
	if c.Rng.Intn(5) < 2 {
		return par(pnames[c.Rng.Intn(len(pnames))])
	}
	return lit(words[c.Rng.Intn(len(words))])
}

const textAlpha = "abcxyz019-_.~:*#;=,@+$&!'()[]|^`{}<>\"\\ \xc3\xa9\xff\x80/%"

// randText: a non-empty random parameter text as atoms.
func randText(c *drv.Ctx) Target {
	r := c.Rng
	n := 1 + r.Intn(4)
	var t Target
	for i := 0; i < n; i++ {
		ch := textAlpha[r.Intn(len(textAlpha))]
		switch k := r.Intn(10); {
		case k < 6 && plainOK(ch) && ch != '/':
			t = append(t, int(ch))
		case k < 9:
			t = append(t, escU(ch))
		default:
			t = append(t, escL(ch))
		}
	}
	if r.Intn(12) == 0 {
		t = Target{'.', '.'}
		if r.Intn(2) == 0 {
			t = Target{escU('.'), '.'}
		}
	}
	return t
}

func randomReq(c *drv.Ctx, a API) Req {
	r := c.Rng
	o := a.Ops[r.Intn(len(a.Ops))]
	var segs []Target
	if r.Intn(10) > 0 {
		for _, s := range a.Base.Segs {
			segs = append(segs, plain(s))
		}
	}
	for _, s := range o.Segs {
		if len(s.Comp) > 0 {
			var t Target
			for _, p := range s.Comp {
				if p.Param {
					if r.Intn(6) > 0 {
						t = append(t, randText(c)...)
					}
				} else if r.Intn(6) > 0 {
					t = append(t, atomsOf(p.S)...)
				}
			}
			segs = append(segs, t)
		} else if s.Param {
			segs = append(segs, append(atomsOf(s.S), randText(c)...))
		} else if r.Intn(25) == 0 && len(s.S) > 0 {
			// the literal with one byte escaped: does not instantiate the literal textually
			t := atomsOf(s.S)
			i := r.Intn(len(t))
			if t[i] < 256 {
				t[i] = escU(byte(t[i]))
			}
			segs = append(segs, t)
		} else {
			segs = append(segs, atomsOf(s.S))
		}
	}
	trailing := o.Trail && r.Intn(2) == 0
	// mutations
	for k := r.Intn(3); k > 0; k-- {
		switch r.Intn(9) {
		case 0: // extra segment
			i := r.Intn(len(segs) + 1)
			segs = append(segs[:i], append([]Target{randText(c)}, segs[i:]...)...)
		case 1: // drop a segment
			if len(segs) > 0 {
				i := r.Intn(len(segs))
				segs = append(segs[:i], segs[i+1:]...)
			}
		case 2: // "." segment
			i := r.Intn(len(segs) + 1)
			segs = append(segs[:i], append([]Target{plain(".")}, segs[i:]...)...)
		case 3: // "x/.." pair
			i := r.Intn(len(segs) + 1)
			segs = append(segs[:i], append([]Target{plain("zz"), plain("..")}, segs[i:]...)...)
		case 4: // duplicate slash
			i := r.Intn(len(segs) + 1)
			segs = append(segs[:i], append([]Target{{}}, segs[i:]...)...)
		case 5:
			trailing = !trailing
		case 6: // replace a segment by a word (may turn a parameter text into a sibling literal)
			if len(segs) > 0 {
				segs[r.Intn(len(segs))] = atomsOf(words[r.Intn(len(words))])
			}
		case 7: // ".." that really removes something
			i := r.Intn(len(segs) + 1)
			segs = append(segs[:i], append([]Target{plain("..")}, segs[i:]...)...)
		case 8: // replace a segment by a random text
			if len(segs) > 0 {
				segs[r.Intn(len(segs))] = randText(c)
			}
		}
	}
	m := o.Method
	switch r.Intn(8) {
	case 0:
		m = allMethods[r.Intn(len(allMethods))]
	case 1:
		m = strings.ToLower(m)
	case 2:
		b := []byte(m)
		for i := range b {
			if r.Intn(2) == 0 {
				b[i] |= 0x20
			}
		}
		m = string(b)
	case 3:
		m = []string{"FOO", "TRACE", "get", "Put", "QUERY"}[r.Intn(5)]
	}
	return Req{Method: m, Target: segsTarget(segs, trailing), Query: r.Intn(10) == 0}
}

// ---- execution -----------------------------------------------------------------

type runLog struct {
	ran    []int
	params []M
}

func paramList(v any) []M {
	out := []M{}
	m, ok := v.(map[string]interface{})
	if !ok {
		return append(out, M{"n": trace.B("?"), "v": trace.B(fmt.Sprintf("%T", v))})
	}
	names := make([]string, 0, len(m))
	for k := range m {
		names = append(names, k)
	}
	sort.Strings(names)
	for _, k := range names {
		s, ok := m[k].(string)
		if !ok {
			s = fmt.Sprintf("%#v", m[k])
		}
		out = append(out, M{"n": trace.B(k), "v": trace.B(s)})
	}
	return out
}

type seen struct {
	got     bool
	method  string
	escaped string
	matched bool
	mparams []M
	pattern string
}

func execute(c *drv.Ctx, d M) bool {
	a := apiFromJSON(d["api"])
	via := drv.Str(d["via"])
	var reqs []Req
	for _, rv := range drv.List(d["reqs"]) {
		reqs = append(reqs, reqFromJSON(rv))
	}
	if en := drv.Map(d["enum"]); drv.Int(en["max"]) > 0 {
		var pool []Target
		for _, pv := range drv.List(en["pool"]) {
			t := Target{}
			for _, x := range drv.List(pv) {
				t = append(t, drv.Int(x))
			}
			pool = append(pool, t)
		}
		var methods []string
		for _, mv := range drv.List(en["methods"]) {
			methods = append(methods, trace.Str(mv))
		}
		every := len(methods) > 0 && methods[0] == "*"
		if every {
			methods = methods[1:]
		}
		for i, t := range enumTargets(pool, drv.Int(en["max"])) {
			if every {
				for _, m := range methods {
					reqs = append(reqs, Req{Method: m, Target: t})
				}
			} else {
				reqs = append(reqs, Req{Method: methods[(i+i/len(methods))%len(methods)], Target: t})
			}
		}
	}

	doc, err := loads.Analyzed(json.RawMessage(a.Swagger()), "")
	if err != nil {
		panic(fmt.Sprintf("c01: generated document rejected: %v\n%s", err, a.Swagger()))
	}
	api := untyped.NewAPI(doc)
	api.RegisterConsumer("application/json", runtime.JSONConsumer())
	api.RegisterProducer("application/json", runtime.JSONProducer())
	// per-request observation slots; the callbacks find the slot of the request they are serving through the
	// goroutine that serves it (the operation handler gets no request), so that concurrent requests never share one
	states := make([]reqState, len(reqs))
	var cur sync.Map // goroutine id -> *reqState
	slot := func() *reqState {
		if v, ok := cur.Load(gid()); ok {
			return v.(*reqState)
		}
		panic("c01: callback outside a served request")
	}
	for i, o := range a.Ops {
		idx := i + 1
		api.RegisterOperation(strings.ToLower(o.Method), o.Template(), runtime.OperationHandlerFunc(func(params interface{}) (interface{}, error) {
			st := slot()
			st.rl.ran = append(st.rl.ran, idx)
			st.rl.params = paramList(params)
			return map[string]int{"op": idx}, nil
		}))
	}
	if err := api.Validate(); err != nil {
		panic(fmt.Sprintf("c01: generated API does not validate: %v", err))
	}
	if drv.Bool(d["debug"]) {
		prev := middleware.Debug
		middleware.Debug = true
		defer func() { middleware.Debug = prev }()
	}
	if drv.Bool(d["yield"]) {
		// debug mode is read from the environment when the context, router and binders are constructed
		os.Setenv("SWAGGER_DEBUG", "1")
		prev := middleware.Logger
		middleware.Logger = yieldLogger{}
		defer func() {
			os.Unsetenv("SWAGGER_DEBUG")
			middleware.Logger = prev
		}()
	}
	ctx := middleware.NewContext(doc, api, nil)
	builder := func(next http.Handler) http.Handler {
		return http.HandlerFunc(func(w http.ResponseWriter, r *http.Request) {
			sn := &slot().sn
			if mr := middleware.MatchedRouteFrom(r); mr != nil {
				sn.matched = true
				sn.pattern = mr.PathPattern
				sn.mparams = []M{}
				for _, p := range mr.Params {
					sn.mparams = append(sn.mparams, M{"n": trace.B(p.Name), "v": trace.B(p.Value)})
				}
			}
			next.ServeHTTP(w, r)
		})
	}
	var inner http.Handler
	if via == "api" {
		inner = ctx.APIHandler(builder)
	} else {
		inner = ctx.RoutesHandler(builder)
	}
	outer := http.HandlerFunc(func(w http.ResponseWriter, r *http.Request) {
		i, err := strconv.Atoi(r.Header.Get("X-Verif-Req"))
		if err != nil || i < 0 || i >= len(states) {
			panic("c01: request without index")
		}
		st := &states[i]
		g := gid()
		cur.Store(g, st)
		defer cur.Delete(g)
		st.sn.got = true
		st.sn.method = r.Method
		st.sn.escaped = r.URL.EscapedPath()
		inner.ServeHTTP(w, r)
	})
	var srv *httptest.Server
	if via == "server" {
		srv = httptest.NewServer(outer)
		defer srv.Close()
	}

	serveOne := func(i int) {
		rq := reqs[i]
		st := &states[i]
		line := rq.Target.Render()
		if rq.Query {
			line += "?x=%2F&y=/a/../b"
		}
		if srv != nil {
			st.status, st.allow, st.panicked = serveTCP(srv, rq.Method, line, i)
		} else {
			st.status, st.allow, st.panicked = serveRecorder(outer, rq.Method, line, i)
		}
	}
	ranWithParams, missed := false, false
	emit := func(i int) {
		rq := reqs[i]
		st := &states[i]
		if !st.sn.got {
			panic(fmt.Sprintf("c01: net/http did not deliver %q %q to the handler (status %d)", rq.Method, rq.Target.Render(), st.status))
		}
		if st.sn.method != rq.Method {
			panic(fmt.Sprintf("c01: method %q delivered as %q", rq.Method, st.sn.method))
		}
		var al []string
		for _, h := range st.allow {
			for _, tok := range strings.Split(h, ",") {
				if tok = strings.TrimSpace(tok); tok != "" {
					al = append(al, tok)
				}
			}
		}
		sort.Strings(al)
		ran := st.rl.ran
		if ran == nil {
			ran = []int{}
		}
		params := st.rl.params
		if params == nil {
			params = []M{}
		}
		mparams := st.sn.mparams
		if mparams == nil {
			mparams = []M{}
		}
		c.W.Event("serve", M{"method": trace.B(rq.Method), "target": []int(rq.Target), "escaped": trace.B(st.sn.escaped),
			"ran": ran, "params": params, "status": st.status, "allow": trace.BB(al), "panic": st.panicked,
			"matched": st.sn.matched, "mparams": mparams, "pattern": trace.B(st.sn.pattern)})
		if len(ran) == 1 && len(params) > 0 {
			ranWithParams = true
		}
		if st.status == 404 || st.status == 405 {
			missed = true
		}
	}
	conc, procs := 0, 0
	if v, ok := d["conc"]; ok {
		conc = drv.Int(v)
	}
	if v, ok := d["procs"]; ok {
		procs = drv.Int(v)
	}
	if conc <= 1 {
		for i := range reqs {
			serveOne(i)
			emit(i)
		}
		return ranWithParams && missed
	}
	// concurrent mode: batches of conc requests served simultaneously by conc goroutines against the one handler;
	// every request keeps its own event, emitted in request order after its batch
	if procs > 0 {
		defer goruntime.GOMAXPROCS(goruntime.GOMAXPROCS(procs))
	}
	for lo := 0; lo < len(reqs); lo += conc {
		hi := lo + conc
		if hi > len(reqs) {
			hi = len(reqs)
		}
		start := make(chan struct{})
		var wg sync.WaitGroup
		for i := lo; i < hi; i++ {
			wg.Add(1)
			go func(i int) {
				defer wg.Done()
				<-start
				serveOne(i)
			}(i)
		}
		close(start)
		wg.Wait()
		for i := lo; i < hi; i++ {
			emit(i)
		}
	}
	return ranWithParams && missed
}

type reqState struct {
	rl       runLog
	sn       seen
	status   int
	allow    []string
	panicked bool
}

// gid returns the id of the calling goroutine (from the first line of its stack trace: "goroutine 123 [running]:").
func gid() uint64 {
	var b [64]byte
	n := goruntime.Stack(b[:], false)
	s := b[len("goroutine "):n]
	var id uint64
	for _, ch := range s {
		if ch < '0' || ch > '9' {
			break
		}
		id = id*10 + uint64(ch-'0')
	}
	return id
}

func serveRecorder(h http.Handler, method, line string, idx int) (status int, allow []string, panicked bool) {
	req := httptest.NewRequest(method, line, nil)
	req.Header.Set("X-Verif-Req", strconv.Itoa(idx))
	w := httptest.NewRecorder()
	func() {
		defer func() {
			if e := recover(); e != nil {
				panicked = true
			}
		}()
		h.ServeHTTP(w, req)
	}()
	if panicked {
		return 0, []string{}, true
	}
	return w.Code, w.Header()["Allow"], false
}

// serveTCP writes the request line verbatim on a fresh connection, so that the target the handler sees is
// exactly what net/http's server makes of these bytes.
func serveTCP(srv *httptest.Server, method, line string, idx int) (status int, allow []string, panicked bool) {
	conn, err := net.Dial("tcp", srv.Listener.Addr().String())
	if err != nil {
		panic(fmt.Sprintf("c01: dial: %v", err))
	}
	defer conn.Close()
	if _, err := fmt.Fprintf(conn, "%s %s HTTP/1.1\r\nHost: verif\r\nX-Verif-Req: %d\r\nConnection: close\r\n\r\n", method, line, idx); err != nil {
		panic(fmt.Sprintf("c01: write: %v", err))
	}
	resp, err := http.ReadResponse(bufio.NewReader(conn), &http.Request{Method: method})
	if err != nil {
		// the server recovers a handler panic by dropping the connection
		return 0, []string{}, true
	}
	defer resp.Body.Close()
	return resp.StatusCode, resp.Header["Allow"], false
}
