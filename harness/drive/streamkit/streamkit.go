// Package streamkit provides the scripted streams of specs/Streams.tla
// (section 1): instrumented readers/writers whose behaviour is given by a
// script, used by the drivers of C17, C15 and C16.
package streamkit

import (
	"context"
	"crypto/sha256"
	"encoding/hex"
	"errors"
	"fmt"
	"io"

	"verifharness/internal/drv"
	"verifharness/internal/trace"
)

// Script is a reader script: the content is delivered in Chunks (a chunk of
// size 0 is a zero-length read), followed by the terminal condition Term
// ("eof" or "err"), which accompanies the last chunk iff WithData. The
// terminal condition is sticky.
//
// Conds (optional, one per chunk, "" / "none" / "eof" / "err") are ONE-SHOT
// conditions: returned together with the last part of their chunk (alone if
// the chunk is empty) and never repeated. CloseErr makes Close return an error
// (the stream is closed nevertheless).
type Script struct {
	Content  []byte
	Chunks   []int
	Term     string
	WithData bool
	Conds    []string
	CloseErr bool
	// ErrKind selects WHICH error a Term "err" stream returns ("" / "custom" = ErrScript):
	// "ueof" io.ErrUnexpectedEOF, "ueofwrap" an error wrapping it, "eofwrap" an error
	// wrapping io.EOF, "closedpipe" io.ErrClosedPipe, "canceled" context.Canceled.
	ErrKind string
}

// KindErr is the error of a given identity (Codecs!ErrKinds).
func KindErr(kind string) error {
	switch kind {
	case "ueof":
		return io.ErrUnexpectedEOF
	case "ueofwrap":
		return fmt.Errorf("streamkit: body truncated: %w", io.ErrUnexpectedEOF)
	case "eofwrap":
		return fmt.Errorf("streamkit: transport: %w", io.EOF)
	case "closedpipe":
		return io.ErrClosedPipe
	case "canceled":
		return context.Canceled
	}
	return ErrScript
}

// ErrScript is the error a script with Term "err" returns.
var ErrScript = errors.New("streamkit: scripted stream error")

// ErrCloseFail is what Close returns when the script says so.
var ErrCloseFail = errors.New("streamkit: scripted close error")

// ErrClosed is what a scripted stream returns when read/written after Close.
var ErrClosed = errors.New("streamkit: use of closed stream")

// JSON renders the script as a case-descriptor field.
func (s Script) JSON() drv.M {
	ch := s.Chunks
	if ch == nil {
		ch = []int{}
	}
	conds := make([]string, len(ch))
	for i := range conds {
		conds[i] = "none"
		if i < len(s.Conds) && s.Conds[i] != "" {
			conds[i] = s.Conds[i]
		}
	}
	return drv.M{"content": trace.B(string(s.Content)), "chunks": ch, "term": s.Term, "withData": s.WithData,
		"conds": conds, "closeErr": s.CloseErr}
}

// ScriptFromJSON reads a script back from a descriptor.
func ScriptFromJSON(v any) Script {
	m := drv.Map(v)
	s := Script{Content: []byte(trace.Str(m["content"])), Term: drv.Str(m["term"]), WithData: drv.Bool(m["withData"])}
	for _, c := range drv.List(m["chunks"]) {
		s.Chunks = append(s.Chunks, drv.Int(c))
	}
	if cs, ok := m["conds"]; ok {
		for _, c := range drv.List(cs) {
			s.Conds = append(s.Conds, drv.Str(c))
		}
	}
	s.CloseErr = drv.Bool(m["closeErr"])
	return s
}

// WellFormed mirrors Streams!WellFormedScript.
func (s Script) WellFormed() bool {
	sum := 0
	for _, c := range s.Chunks {
		if c < 0 {
			return false
		}
		sum += c
	}
	if sum != len(s.Content) || (s.Term != "eof" && s.Term != "err") {
		return false
	}
	if s.WithData && (len(s.Chunks) == 0 || s.Chunks[len(s.Chunks)-1] == 0) {
		return false
	}
	if s.Conds != nil && (len(s.Conds) != len(s.Chunks) || (s.WithData && s.cond(len(s.Chunks)-1) != nil)) {
		return false
	}
	return true
}

// cond is the one-shot condition of chunk i (nil: none).
func (s Script) cond(i int) error {
	if i >= len(s.Conds) {
		return nil
	}
	switch s.Conds[i] {
	case "eof":
		return io.EOF
	case "err":
		return ErrScript
	}
	return nil
}

func (s Script) termErr() error {
	if s.Term == "err" {
		return KindErr(s.ErrKind)
	}
	return io.EOF
}

// Core is the state of a scripted reader (Streams!RdRead / RdClose).
type Core struct {
	sc      Script
	pos     int // index of the current chunk
	inChunk int // bytes of the current chunk already delivered
	off     int
	closed  bool
	Closes  int
	Reads   int
}

func (r *Core) read(p []byte) (int, error) {
	r.Reads++
	if r.closed {
		return 0, ErrClosed
	}
	if r.pos >= len(r.sc.Chunks) {
		return 0, r.sc.termErr()
	}
	if len(p) == 0 {
		return 0, nil
	}
	c := r.sc.Chunks[r.pos] - r.inChunk
	m := c
	if len(p) < m {
		m = len(p)
	}
	copy(p, r.sc.Content[r.off:r.off+m])
	r.off += m
	done := m == c
	last := r.pos == len(r.sc.Chunks)-1
	var cond error
	if done {
		cond = r.sc.cond(r.pos)
		r.pos++
		r.inChunk = 0
	} else {
		r.inChunk += m
	}
	if done && last && r.sc.WithData {
		return m, r.sc.termErr()
	}
	return m, cond
}

func (r *Core) close() error {
	r.closed = true
	r.Closes++
	if r.sc.CloseErr {
		return ErrCloseFail
	}
	return nil
}

// Off is the number of content bytes handed out so far.
func (r *Core) Off() int { return r.off }

// ReadCloser is a scripted io.ReadCloser.
type ReadCloser struct{ Core }

func NewReadCloser(sc Script) *ReadCloser { return &ReadCloser{Core{sc: sc}} }

func (r *ReadCloser) Read(p []byte) (int, error) { return r.read(p) }
func (r *ReadCloser) Close() error               { return r.close() }

// Reader is a scripted io.Reader without Close.
type Reader struct{ Core }

func NewReader(sc Script) *Reader { return &Reader{Core{sc: sc}} }

func (r *Reader) Read(p []byte) (int, error) { return r.read(p) }

// ErrClass maps an error to the classes of Streams!ErrClasses.
func ErrClass(err error) string {
	switch {
	case err == nil:
		return "none"
	case err == io.EOF:
		return "eof"
	case errors.Is(err, ErrScript):
		return "err"
	case errors.Is(err, ErrClosed):
		return "closed"
	case errors.Is(err, ErrCloseFail):
		return "cerr"
	case errors.Is(err, ErrWrite):
		return "werr"
	case err == io.ErrUnexpectedEOF:
		return "ueof"
	case err == io.ErrNoProgress:
		return "noprogress"
	case err.Error() == "reader already closed":
		return "already"
	}
	return "other"
}

// ---- scripted writers (Codecs!WrWrite) -------------------------------------

// ErrWrite is the error of a scripted writer that has reached its limit.
var ErrWrite = errors.New("streamkit: scripted write error")

// WCore is a writer that accepts Accept bytes in total (-1: unlimited); a
// Write that would exceed the limit stores what fits and fails.
type WCore struct {
	Accept int
	Got    []byte
	Writes int
	Closes int
}

func (w *WCore) write(p []byte) (int, error) {
	w.Writes++
	if w.Accept < 0 || len(w.Got)+len(p) <= w.Accept {
		w.Got = append(w.Got, p...)
		return len(p), nil
	}
	m := w.Accept - len(w.Got)
	if m < 0 {
		m = 0
	}
	w.Got = append(w.Got, p[:m]...)
	return m, ErrWrite
}

// Writer is a scripted io.Writer without Close.
type Writer struct{ WCore }

func (w *Writer) Write(p []byte) (int, error) { return w.write(p) }

// WriteCloser is a scripted io.WriteCloser.
type WriteCloser struct{ WCore }

func (w *WriteCloser) Write(p []byte) (int, error) { return w.write(p) }
func (w *WriteCloser) Close() error                { w.Closes++; return nil }

// Blob renders a byte string for the trace: length, and either the bytes
// (small) or the SHA-256 (large) - Codecs!Blob.
func Blob(b []byte) drv.M {
	if len(b) <= 64 {
		return drv.M{"n": len(b), "h": "", "b": trace.B(string(b))}
	}
	h := sha256.Sum256(b)
	return drv.M{"n": len(b), "h": hex.EncodeToString(h[:]), "b": []int{}}
}
