// Package c06 drives the two content-type gates of the real code for property C06:
// the untyped API handler (validation.contentType via Context.BindAndValidate) and
// Context.BindValidRequest with a binder that decodes the body with route.Consumer
// (what generated servers do).  The Go side only executes and records.
package c06

import (
	"bufio"
	"encoding/json"
	"fmt"
	"io"
	"mime"
	"net"
	"net/http"
	"net/http/httptest"
	"strings"
	"sync"
	"time"

	"github.com/go-openapi/errors"
	"github.com/go-openapi/loads"
	"github.com/go-openapi/runtime"
	"github.com/go-openapi/runtime/middleware"
	"github.com/go-openapi/runtime/middleware/untyped"
	"github.com/go-openapi/spec"
	"github.com/go-openapi/strfmt"

	"verifharness/internal/drv"
	"verifharness/internal/trace"
)

type M = drv.M

func init() {
	drv.Register(&drv.Driver{Name: "c06", Generate: generate, Execute: execute})
}

// ---- abstract data ----------------------------------------------------------

type mt struct{ T, S string }

func (m mt) String() string { return m.T + "/" + m.S }
func (m mt) JSON() M        { return M{"t": m.T, "s": m.S} }

// entry of a consumes list; P = 0: no parameters, >0: a parameter spelling
type entry struct {
	mt
	P int
}

var paramSpellings = []string{"", "; charset=utf-8", ";charset=utf-8", "; q=1; charset=utf-8"}

func (e entry) String() string { return e.mt.String() + paramSpellings[e.P] }
func (e entry) JSON() M        { return M{"t": e.T, "s": e.S, "p": e.P > 0, "pv": e.P} }

func mtFrom(v any) mt { m := drv.Map(v); return mt{drv.Str(m["t"]), drv.Str(m["s"])} }

// ---- recorder ---------------------------------------------------------------

type recorder struct {
	consumers []M
	handler   bool
}

var cur *recorder

func probeConsumer(id mt) runtime.Consumer {
	return runtime.ConsumerFunc(func(r io.Reader, v interface{}) error {
		if cur != nil {
			cur.consumers = append(cur.consumers, id.JSON())
		}
		return json.NewDecoder(r).Decode(v)
	})
}

// ---- the API ----------------------------------------------------------------

var methods = []string{"POST", "GET", "DELETE", "PUT", "PATCH", "HEAD", "OPTIONS"}

type built struct {
	ctx     *middleware.Context
	handler http.Handler
}

func build(d M) (*built, error) {
	consumes := []string{}
	for _, e := range drv.List(d["consumes"]) {
		m := drv.Map(e)
		consumes = append(consumes, entry{mtFrom(e), drv.Int(m["pv"])}.String())
	}
	paths := M{}
	item := M{}
	for _, m := range methods {
		op := M{
			"operationId": "op" + m,
			"produces":    []string{"application/json"},
			"parameters":  []M{{"name": "body", "in": "body", "schema": M{"type": "object"}}},
			"responses":   M{"200": M{"description": "ok"}},
		}
		if drv.Str(d["where"]) == "op" {
			op["consumes"] = consumes
		}
		item[strings.ToLower(m)] = op
	}
	paths["/op"] = item
	doc := M{"swagger": "2.0", "info": M{"title": "c06", "version": "1"}, "basePath": "/", "paths": paths}
	if drv.Str(d["where"]) == "global" {
		doc["consumes"] = consumes
	}
	raw, err := json.Marshal(doc)
	if err != nil {
		return nil, err
	}
	ld, err := loads.Embedded(json.RawMessage(raw), json.RawMessage(raw))
	if err != nil {
		return nil, err
	}
	defConsumes := ""
	if def := drv.List(d["default"]); len(def) > 0 {
		defConsumes = mtFrom(def[0]).String()
	}
	if drv.Str(d["api"]) == "generated" {
		// the kind of API a generated server registers: consumers / producers are picked by a switch on the exact
		// media type, the operation handler runs the typed flow (BindValidRequest with a binder, then Respond)
		b := &built{}
		g := &genAPI{b: b, consumers: map[string]runtime.Consumer{}, producers: map[string]runtime.Producer{runtime.JSONMime: runtime.JSONProducer()},
			defConsumes: defConsumes, defProduces: runtime.JSONMime}
		for _, r := range drv.List(d["registry"]) {
			g.consumers[mtFrom(r).String()] = probeConsumer(mtFrom(r))
		}
		b.ctx = middleware.NewRoutableContext(ld, g, nil)
		b.handler = b.ctx.RoutesHandler(nil)
		return b, nil
	}
	api := untyped.NewAPI(ld).WithoutJSONDefaults()
	api.DefaultProduces = runtime.JSONMime
	api.RegisterProducer(runtime.JSONMime, runtime.JSONProducer())
	api.DefaultConsumes = defConsumes
	for _, r := range drv.List(d["registry"]) {
		api.RegisterConsumer(mtFrom(r).String(), probeConsumer(mtFrom(r)))
	}
	for _, m := range methods {
		api.RegisterOperation(m, "/op", runtime.OperationHandlerFunc(func(interface{}) (interface{}, error) {
			if cur != nil {
				cur.handler = true
			}
			return map[string]interface{}{"ok": true}, nil
		}))
	}
	ctx := middleware.NewContext(ld, api, nil)
	return &built{ctx: ctx, handler: ctx.RoutesHandler(nil)}, nil
}

// genAPI is a hand-written middleware.RoutableAPI in the style go-swagger generates
type genAPI struct {
	b                        *built
	consumers                map[string]runtime.Consumer
	producers                map[string]runtime.Producer
	defConsumes, defProduces string
}

func (g *genAPI) HandlerFor(method, path string) (http.Handler, bool) {
	if path != "/op" {
		return nil, false
	}
	for _, m := range methods {
		if strings.EqualFold(m, method) {
			return http.HandlerFunc(func(rw http.ResponseWriter, r *http.Request) { serveTyped(g.b, rw, r) }), true
		}
	}
	return nil, false
}

func (g *genAPI) ServeErrorFor(string) func(http.ResponseWriter, *http.Request, error) {
	return errors.ServeError
}

// ConsumersFor: `switch mt { case "a/x": result["a/x"] = o.AxConsumer ... }` - exact media types only
func (g *genAPI) ConsumersFor(mediaTypes []string) map[string]runtime.Consumer {
	result := map[string]runtime.Consumer{}
	for _, mt := range mediaTypes {
		if c, ok := g.consumers[mt]; ok {
			result[mt] = c
		}
	}
	return result
}

func (g *genAPI) ProducersFor(mediaTypes []string) map[string]runtime.Producer {
	result := map[string]runtime.Producer{}
	for _, mt := range mediaTypes {
		if p, ok := g.producers[mt]; ok {
			result[mt] = p
		}
	}
	return result
}

func (g *genAPI) AuthenticatorsFor(map[string]spec.SecurityScheme) map[string]runtime.Authenticator {
	return nil
}
func (g *genAPI) Authorizer() runtime.Authorizer { return nil }
func (g *genAPI) Formats() strfmt.Registry       { return strfmt.Default }
func (g *genAPI) DefaultProduces() string        { return g.defProduces }
func (g *genAPI) DefaultConsumes() string        { return g.defConsumes }

// ---- requests ---------------------------------------------------------------

type unknownLen struct{ io.Reader } // a reader net/http cannot size: ContentLength = -1

const payload = `{"a":1}`

func request(method, body string, hasCT bool, ct string) *http.Request {
	var req *http.Request
	switch body {
	case "cl":
		req = httptest.NewRequest(method, "/op", strings.NewReader(payload))
		req.Header.Set("Content-Length", fmt.Sprint(len(payload)))
	case "clnohdr": // ContentLength set, header map without Content-Length (client-side style request)
		req = httptest.NewRequest(method, "/op", strings.NewReader(payload))
	case "cl0":
		req = httptest.NewRequest(method, "/op", nil)
		req.Header.Set("Content-Length", "0")
	case "chunked":
		req = httptest.NewRequest(method, "/op", unknownLen{strings.NewReader(payload)})
		req.TransferEncoding = []string{"chunked"}
	case "chunked0":
		req = httptest.NewRequest(method, "/op", unknownLen{strings.NewReader("")})
		req.TransferEncoding = []string{"chunked"}
	default:
		req = httptest.NewRequest(method, "/op", nil)
	}
	req.Header.Set("Accept", "application/json")
	if hasCT {
		req.Header["Content-Type"] = []string{ct}
	}
	return req
}

type bodyBinder struct{}

// what a generated parameter binder does for a body parameter
func (bodyBinder) BindRequest(r *http.Request, route *middleware.MatchedRoute) error {
	if runtime.HasBody(r) {
		defer r.Body.Close()
		var v map[string]interface{}
		if err := route.Consumer.Consume(r.Body, &v); err != nil {
			return err
		}
	}
	return nil
}

func obs(code int, rec *recorder, panicked bool) M {
	cs := rec.consumers
	if cs == nil {
		cs = []M{}
	}
	return M{"code": code, "consumers": cs, "handler": rec.handler, "panic": panicked}
}

func serveUntyped(b *built, rw http.ResponseWriter, req *http.Request) { b.handler.ServeHTTP(rw, req) }

// the generated-server style: route lookup, BindValidRequest with a binder, then the handler, else Respond(err)
func serveTyped(b *built, rw http.ResponseWriter, req *http.Request) {
	route, rCtx, ok := b.ctx.RouteInfo(req)
	if !ok {
		rw.WriteHeader(http.StatusNotFound)
		return
	}
	if err := b.ctx.BindValidRequest(rCtx, route, bodyBinder{}); err != nil {
		b.ctx.Respond(rw, rCtx, route.Produces, route, err)
		return
	}
	if cur != nil {
		cur.handler = true // the generated code calls the handler now
	}
	b.ctx.Respond(rw, rCtx, route.Produces, route, map[string]interface{}{"ok": true})
}

func runDirect(b *built, typed bool, req *http.Request) (o M) {
	rec := &recorder{}
	rw := httptest.NewRecorder()
	defer func() {
		cur = nil
		if r := recover(); r != nil {
			o = obs(0, rec, true)
		}
	}()
	cur = rec
	if typed {
		serveTyped(b, rw, req)
	} else {
		serveUntyped(b, rw, req)
	}
	return obs(rw.Code, rec, false)
}

// ---- the same over a real connection (real Content-Length / chunked framing as net/http parses it) ---------

var (
	wireOnce sync.Once
	wireAddr string
	wireAPI  *built
)

func wireServer() string {
	wireOnce.Do(func() {
		srv := httptest.NewServer(http.HandlerFunc(func(rw http.ResponseWriter, r *http.Request) {
			defer func() {
				if rec := recover(); rec != nil {
					rw.Header().Set("X-Verif-Panic", "1")
					rw.WriteHeader(599)
				}
			}()
			typed := r.Header.Get("X-Verif-Entry") == "typed"
			r.Header.Del("X-Verif-Entry")
			if typed {
				serveTyped(wireAPI, rw, r)
			} else {
				serveUntyped(wireAPI, rw, r)
			}
		}))
		wireAddr = srv.Listener.Addr().String()
	})
	return wireAddr
}

func runWire(b *built, typed bool, method, body string, h header) (o M) {
	rec := &recorder{}
	addr := wireServer()
	var sb strings.Builder
	fmt.Fprintf(&sb, "%s /op HTTP/1.1\r\nHost: verif\r\nConnection: close\r\nAccept: application/json\r\n", method)
	if typed {
		sb.WriteString("X-Verif-Entry: typed\r\n")
	}
	if h.Has {
		fmt.Fprintf(&sb, "Content-Type: %s\r\n", h.Raw)
	}
	switch body {
	case "cl":
		fmt.Fprintf(&sb, "Content-Length: %d\r\n\r\n%s", len(payload), payload)
	case "cl0":
		sb.WriteString("Content-Length: 0\r\n\r\n")
	case "chunked":
		fmt.Fprintf(&sb, "Transfer-Encoding: chunked\r\n\r\n3\r\n%s\r\n%x\r\n%s\r\n0\r\n\r\n", payload[:3], len(payload)-3, payload[3:])
	case "chunked0":
		sb.WriteString("Transfer-Encoding: chunked\r\n\r\n0\r\n\r\n")
	default:
		sb.WriteString("\r\n")
	}
	wireAPI = b
	cur = rec
	defer func() { cur = nil }()
	conn, err := net.DialTimeout("tcp", addr, 5*time.Second)
	if err != nil {
		panic("c06: wire: " + err.Error())
	}
	defer conn.Close()
	_ = conn.SetDeadline(time.Now().Add(10 * time.Second))
	if _, err := io.WriteString(conn, sb.String()); err != nil {
		panic("c06: wire: " + err.Error())
	}
	resp, err := http.ReadResponse(bufio.NewReader(conn), &http.Request{Method: method})
	if err != nil {
		panic("c06: wire: " + err.Error())
	}
	_, _ = io.Copy(io.Discard, resp.Body)
	resp.Body.Close()
	return obs(resp.StatusCode, rec, resp.Header.Get("X-Verif-Panic") != "")
}

// ---- header rendering -------------------------------------------------------

type header struct {
	K     string // absent | empty | valid | malformed | opaque | noslash
	MT    mt
	Raw   string
	Has   bool
	RefOK bool
}

func upper(s string) string { return strings.ToUpper(s) }

// fixed spellings of a valid header denoting m
func spellings(m mt) []string {
	return []string{
		m.T + "/" + m.S,
		upper(m.T) + "/" + upper(m.S),
		upper(m.T[:1]) + m.T[1:] + "/" + m.S + "; charset=utf-8",
		" " + m.T + "/" + m.S + " ;  Charset=\"utf-8\"",
		m.T + "/" + m.S + ";boundary=\"a;b/c, d\";q=0.5",
		m.T + "/" + upper(m.S) + "\t;\tx=y",
	}
}

var malformed = []string{"a/", "/x", "a/x/y", "a x/y", "a/x; charset", "a/x; =v", "a/x; charset=\"unterminated", "(c)/x", "a/x@", ";",
	"a/x; ch arset=x", "a/x;;charset=utf-8", "a/x;charset=", "a /x", "a/ x"}

var requestTypes = []mt{{"a", "x"}, {"a", "y"}, {"b", "x"}, {"b", "y"}, {"application", "octet-stream"}}

func exhaustiveHeaders() []header {
	hs := []header{{K: "absent"}, {K: "empty", Has: true}}
	for _, m := range malformed {
		hs = append(hs, header{K: "malformed", Raw: m, Has: true})
	}
	for _, m := range requestTypes {
		for _, s := range spellings(m) {
			hs = append(hs, header{K: "valid", MT: m, Raw: s, Has: true})
		}
	}
	return hs
}

// a cross-section of the header forms for the requests sent over a real connection
func wireHeaders() []header {
	ax, by, oc := mt{"a", "x"}, mt{"b", "y"}, mt{"application", "octet-stream"}
	return []header{{K: "absent"}, {K: "malformed", Raw: "a/x; charset", Has: true}, {K: "malformed", Raw: "a/", Has: true},
		{K: "valid", MT: ax, Raw: spellings(ax)[0], Has: true}, {K: "valid", MT: ax, Raw: spellings(ax)[3], Has: true},
		{K: "valid", MT: ax, Raw: spellings(ax)[4], Has: true}, {K: "valid", MT: by, Raw: spellings(by)[1], Has: true},
		{K: "valid", MT: oc, Raw: spellings(oc)[2], Has: true}}
}

func randomSpelling(c *drv.Ctx, m mt) string {
	var b strings.Builder
	ows := func() {
		for n := c.Rng.Intn(3); n > 0; n-- {
			b.WriteByte(" \t"[c.Rng.Intn(2)])
		}
	}
	rcase := func(s string) {
		for i := 0; i < len(s); i++ {
			ch := s[i]
			if c.Rng.Intn(2) == 0 {
				ch = upper(string(ch))[0]
			}
			b.WriteByte(ch)
		}
	}
	ows()
	rcase(m.T)
	b.WriteByte('/')
	rcase(m.S)
	names := []string{"charset", "boundary", "q", "version", "x-p"}
	c.Rng.Shuffle(len(names), func(i, j int) { names[i], names[j] = names[j], names[i] })
	for n := c.Rng.Intn(4); n > 0; n-- {
		ows()
		b.WriteByte(';')
		ows()
		rcase(names[n])
		b.WriteByte('=')
		switch c.Rng.Intn(3) {
		case 0:
			b.WriteString([]string{"utf-8", "1", "0.5", "abc"}[c.Rng.Intn(4)])
		case 1:
			b.WriteString("\"" + []string{"utf-8", "a;b", "a/b", "x, y", "p=q", "a\\\"b"}[c.Rng.Intn(6)] + "\"")
		default:
			b.WriteString("\"\"")
		}
	}
	ows()
	return b.String()
}

// arbitrary header bytes; mime.ParseMediaType (the parser the gate itself relies on) is recorded as the reference reading
func opaque(c *drv.Ctx) header {
	var raw string
	switch c.Rng.Intn(3) {
	case 0:
		n := c.Rng.Intn(12)
		bs := make([]byte, n)
		for i := range bs {
			const alpha = "ax/;=* \t\"\\,@()AX"
			bs[i] = alpha[c.Rng.Intn(len(alpha))]
		}
		raw = string(bs)
	case 1:
		raw = randomSpelling(c, requestTypes[c.Rng.Intn(len(requestTypes))])
		if len(raw) > 0 {
			i := c.Rng.Intn(len(raw))
			raw = raw[:i] + string("/;=\" *"[c.Rng.Intn(6)]) + raw[i+c.Rng.Intn(2):]
		}
	default:
		raw = []string{"*/*", "a/*", "*/x", "a", "a/x;", "a/x; charset=utf-8;", "a/x ; charset = utf-8", "A/X;CHARSET=UTF-8;charset=utf-8", "a/x,b/y", "a/x, b/y; q=1"}[c.Rng.Intn(10)]
	}
	return classify(raw)
}

func classify(raw string) header {
	h := header{K: "opaque", Raw: raw, Has: true}
	if raw == "" {
		h.K = "empty"
		return h
	}
	m, _, err := mime.ParseMediaType(raw)
	if err == nil {
		h.RefOK = true
		t, s, ok := strings.Cut(m, "/")
		h.MT = mt{t, s}
		if !ok {
			h.K = "noslash"
		}
	}
	return h
}

func (h header) JSON() M {
	return M{"k": h.K, "t": h.MT.T, "s": h.MT.S, "ok": h.RefOK || h.K == "valid", "has": h.Has, "raw": trace.B(h.Raw)}
}

func headerFrom(v any) header {
	m := drv.Map(v)
	return header{K: drv.Str(m["k"]), MT: mt{drv.Str(m["t"]), drv.Str(m["s"])}, Raw: trace.Str(m["raw"]), Has: drv.Bool(m["has"]), RefOK: drv.Bool(m["ok"])}
}

// ---- execution --------------------------------------------------------------

var bodies = []string{"none", "cl", "cl0", "chunked", "chunked0"}

func execute(c *drv.Ctx, d M) bool {
	b, err := build(d)
	if err != nil {
		panic("c06: cannot build the API: " + err.Error())
	}
	nontrivial := false
	one := func(method, body string, h header) {
		u := runDirect(b, false, request(method, body, h.Has, h.Raw))
		t := runDirect(b, true, request(method, body, h.Has, h.Raw))
		if len(drv.List(u["consumers"])) > 0 || drv.Int(u["code"]) == 415 {
			nontrivial = true
		}
		c.W.Event("gate", M{"via": "direct", "method": method, "body": body, "ct": h.JSON(), "untyped": u, "typed": t})
	}
	wire := func(method, body string, h header) {
		u := runWire(b, false, method, body, h)
		t := runWire(b, true, method, body, h)
		c.W.Event("gate", M{"via": "wire", "method": method, "body": body, "ct": h.JSON(), "untyped": u, "typed": t})
	}
	n := 0
	if drv.Bool(d["exhaustive"]) {
		k := drv.Int(d["rot"])
		for _, h := range exhaustiveHeaders() {
			for _, body := range bodies {
				one(methods[k%drv.Int(d["nmethods"])], body, h)
				k++
				n++
			}
		}
	}
	if drv.Bool(d["wire"]) {
		k := drv.Int(d["rot"])
		for _, h := range wireHeaders() {
			for _, body := range bodies {
				wire(methods[k%len(methods)], body, h)
				k++
				n++
			}
		}
	}
	for _, r := range drv.List(d["reqs"]) {
		rm := drv.Map(r)
		one(drv.Str(rm["method"]), drv.Str(rm["body"]), headerFrom(rm["ct"]))
		n++
	}
	t, _ := c.Extra["requests"].(int)
	c.Extra["requests"] = t + n
	return nontrivial
}

// ---- generation -------------------------------------------------------------

var entryPool = []entry{{mt{"a", "x"}, 0}, {mt{"a", "y"}, 0}, {mt{"b", "x"}, 0}, {mt{"a", "*"}, 0}, {mt{"*", "*"}, 0},
	{mt{"a", "x"}, 1}, {mt{"application", "octet-stream"}, 0}}

func descriptor(consumes []entry, def *mt, registry []mt, where string) M {
	cs := []M{}
	for _, e := range consumes {
		cs = append(cs, e.JSON())
	}
	df := []M{}
	if def != nil {
		df = append(df, def.JSON())
	}
	rg := []M{}
	for _, r := range registry {
		rg = append(rg, r.JSON())
	}
	return M{"consumes": cs, "default": df, "registry": rg, "where": where, "api": "untyped", "exhaustive": false, "wire": false, "rot": 0, "nmethods": 3, "reqs": []M{}}
}

func lists(pool []entry, max int) [][]entry {
	out := [][]entry{{}}
	level := [][]entry{{}}
	for l := 1; l <= max; l++ {
		var next [][]entry
		for _, p := range level {
			for _, e := range pool {
				next = append(next, append(append([]entry{}, p...), e))
			}
		}
		out = append(out, next...)
		level = next
	}
	return out
}

func generate(c *drv.Ctx) {
	thorough := c.Tier == "thorough"
	maxEntries := 2
	if thorough {
		maxEntries = 3
	}
	defaults := []*mt{nil, {"a", "x"}, {"b", "y"}}
	all := requestTypes
	registries := [][]mt{all, {{"a", "y"}, {"b", "x"}, {"b", "y"}}}
	if thorough {
		registries = append(registries, []mt{{"a", "x"}}, []mt{})
	}
	// (i) exhaustive small scope: every consumes list over the entry pool x default x registry;
	//     in each API every header form x every body form, the method rotating
	idx := 0
	for _, l := range lists(entryPool, maxEntries) {
		for _, df := range defaults {
			for _, rg := range registries {
				d := descriptor(l, df, rg, []string{"op", "global"}[idx%2])
				d["exhaustive"] = true
				if idx%3 == 2 {
					d["api"] = "generated" // a RoutableAPI with exact-match ConsumersFor through NewRoutableContext
				}
				d["wire"] = (thorough && idx%2 == 0) || idx%4 == 0
				d["rot"] = idx
				c.Case(d)
				idx++
			}
		}
	}
	// (i') the same with wildcard entries that carry parameters ("a/*; charset=utf-8", "*/*;charset=utf-8"):
	//      every list of <=2 entries over a pool that mixes them with concrete and plain wildcard entries
	wildPool := []entry{{mt{"a", "*"}, 1}, {mt{"*", "*"}, 2}, {mt{"a", "*"}, 3}, {mt{"a", "x"}, 0}, {mt{"b", "y"}, 0}, {mt{"a", "*"}, 0}}
	for _, l := range lists(wildPool, 2) {
		hasParamWildcard := false
		for _, e := range l {
			hasParamWildcard = hasParamWildcard || (e.P > 0 && e.S == "*")
		}
		if !hasParamWildcard {
			continue // already covered by (i)
		}
		for _, df := range defaults {
			d := descriptor(l, df, all, []string{"op", "global"}[idx%2])
			d["exhaustive"] = true
			if idx%3 == 2 {
				d["api"] = "generated"
			}
			d["wire"] = idx%4 == 0
			d["rot"] = idx
			c.Case(d)
			idx++
		}
	}
	// (i'') entries whose name has the API default's name as a proper prefix ("a/xy" vs default "a/x", like
	//       application/json-patch+json vs application/json): the default is still added
	prefixPool := []entry{{mt{"a", "xy"}, 0}, {mt{"a", "xy"}, 1}, {mt{"b", "yz"}, 0}, {mt{"b", "x"}, 0}}
	for _, l := range lists(prefixPool, 2) {
		hasPrefix := false
		for _, e := range l {
			hasPrefix = hasPrefix || e.S == "xy" || e.S == "yz"
		}
		if !hasPrefix {
			continue
		}
		for _, df := range defaults {
			d := descriptor(l, df, append(append([]mt{}, all...), mt{"a", "xy"}), []string{"op", "global"}[idx%2])
			d["exhaustive"] = true
			if idx%3 == 2 {
				d["api"] = "generated"
			}
			d["rot"] = idx
			c.Case(d)
			idx++
		}
	}
	c.Extra["exhaustive_apis"] = idx
	c.Extra["exhaustive_requests_per_api"] = len(exhaustiveHeaders()) * len(bodies)
	// (ii) seeded: larger lists, other parameter spellings on entries, random header spellings, all methods,
	//      Content-Length without header, arbitrary header bytes
	nRand := 600
	if thorough {
		nRand = 6000
	}
	bigPool := append([]entry{}, entryPool...)
	bigPool = append(bigPool, entry{mt{"a", "y"}, 2}, entry{mt{"b", "x"}, 3}, entry{mt{"b", "*"}, 0}, entry{mt{"b", "y"}, 0}, entry{mt{"application", "octet-stream"}, 1},
		entry{mt{"a", "*"}, 1}, entry{mt{"*", "*"}, 3}, entry{mt{"b", "*"}, 2})
	for n := 0; n < nRand; n++ {
		var l []entry
		for k := c.Rng.Intn(6); k > 0; k-- {
			l = append(l, bigPool[c.Rng.Intn(len(bigPool))])
		}
		var rg []mt
		for _, m := range all {
			if c.Rng.Intn(4) != 0 {
				rg = append(rg, m)
			}
		}
		d := descriptor(l, defaults[c.Rng.Intn(3)], rg, []string{"op", "global"}[c.Rng.Intn(2)])
		if c.Rng.Intn(3) == 0 {
			d["api"] = "generated"
		}
		reqs := []M{}
		for k := 0; k < 40; k++ {
			var h header
			switch c.Rng.Intn(8) {
			case 0:
				h = header{K: "absent"}
			case 1:
				h = header{K: "malformed", Raw: malformed[c.Rng.Intn(len(malformed))], Has: true}
			case 2, 3:
				h = opaque(c)
			default:
				m := requestTypes[c.Rng.Intn(len(requestTypes))]
				h = header{K: "valid", MT: m, Raw: randomSpelling(c, m), Has: true}
			}
			body := append(append([]string{}, bodies...), "clnohdr", "cl", "chunked")[c.Rng.Intn(8)]
			reqs = append(reqs, M{"method": methods[c.Rng.Intn(len(methods))], "body": body, "ct": h.JSON()})
		}
		d["reqs"] = reqs
		c.Case(d)
	}
}
