package c12

import (
	"bufio"
	"bytes"
	"errors"
	"fmt"
	"io"
	"net"
	"net/http"
	"sync"
	"time"

	oaruntime "github.com/go-openapi/runtime"
	"github.com/go-openapi/runtime/client"
	"github.com/go-openapi/strfmt"

	"verifharness/internal/drv"
)

// lateServer answers every request on a connection with headers and the first body unit at once and the rest of
// the body `delay` later (Content-Length or chunked framing); connections are kept alive; it counts connections.
type lateServer struct {
	ln      net.Listener
	mu      sync.Mutex
	conns   []net.Conn
	nconn   int
	wg      sync.WaitGroup
	body    []byte
	unit    int
	delay   time.Duration
	chunked bool
}

func startLate(body []byte, unit int, delay time.Duration, chunked bool) *lateServer {
	ln, err := net.Listen("tcp", "127.0.0.1:0")
	if err != nil {
		panic(err)
	}
	s := &lateServer{ln: ln, body: body, unit: unit, delay: delay, chunked: chunked}
	s.wg.Add(1)
	go func() {
		defer s.wg.Done()
		for {
			c, err := ln.Accept()
			if err != nil {
				return
			}
			s.mu.Lock()
			s.conns = append(s.conns, c)
			s.nconn++
			s.mu.Unlock()
			s.wg.Add(1)
			go func() { defer s.wg.Done(); s.serve(c) }()
		}
	}()
	return s
}

func (s *lateServer) stop() int {
	s.ln.Close()
	s.mu.Lock()
	for _, c := range s.conns {
		c.Close()
	}
	n := s.nconn
	s.mu.Unlock()
	s.wg.Wait()
	return n
}

func (s *lateServer) serve(c net.Conn) {
	br := bufio.NewReader(c)
	for {
		req, err := http.ReadRequest(br)
		if err != nil {
			return
		}
		_, _ = io.Copy(io.Discard, req.Body)
		first, rest := s.body[:s.unit], s.body[s.unit:]
		var head, tail []byte
		if s.chunked {
			head = []byte(fmt.Sprintf("HTTP/1.1 200 OK\r\nContent-Type: application/octet-stream\r\nTransfer-Encoding: chunked\r\n\r\n%x\r\n%s\r\n", len(first), first))
			tail = []byte(fmt.Sprintf("%x\r\n%s\r\n0\r\n\r\n", len(rest), rest))
		} else {
			head = []byte(fmt.Sprintf("HTTP/1.1 200 OK\r\nContent-Type: application/octet-stream\r\nContent-Length: %d\r\n\r\n%s", len(s.body), first))
			tail = rest
		}
		if _, err := c.Write(head); err != nil {
			return
		}
		time.Sleep(s.delay) // the end of the body arrives after the reader may already have returned
		if _, err := c.Write(tail); err != nil {
			return
		}
	}
}

// perCallRT hands every response body a fresh bodyStats.
type perCallRT struct {
	rt    http.RoundTripper
	mu    sync.Mutex
	stats []*bodyStats
	total int
}

func (t *perCallRT) RoundTrip(req *http.Request) (*http.Response, error) {
	resp, err := t.rt.RoundTrip(req)
	if err != nil || resp == nil {
		return resp, err
	}
	st := &bodyStats{obtained: true, total: t.total, envDone: func() bool { return false }}
	t.mu.Lock()
	t.stats = append(t.stats, st)
	t.mu.Unlock()
	resp.Body = &countingBody{st: st, rdr: resp.Body}
	return resp, nil
}

// execReuseSeq: several sequential calls on one Runtime over the real transport; the response's end comes late.
func execReuseSeq(c *drv.Ctx, d M) bool {
	setDefaultTimeout()
	unit := drv.Int(d["resp_unit"])
	body := fileData(9, 2*unit)
	srv := startLate(body, unit, time.Duration(drv.Int(d["delay_ms"]))*time.Millisecond, drv.Str(d["framing"]) == "chunked")
	tr := &http.Transport{DisableCompression: true}
	prt := &perCallRT{rt: tr, total: len(body)}
	rt := client.New(srv.ln.Addr().String(), "/api", []string{"http"})
	rt.Transport = prt
	if drv.Bool(d["reuse"]) {
		rt.EnableConnectionReuse()
	}
	reader := drv.Str(d["reader"])
	calls := drv.Int(d["calls"])
	for i := 1; i <= calls; i++ {
		sawEnd := false
		op := &oaruntime.ClientOperation{ID: "late", Method: "GET", PathPattern: "/late", Schemes: []string{"http"},
			ProducesMediaTypes: []string{"application/octet-stream"}, ConsumesMediaTypes: []string{"application/json"}}
		op.Params = oaruntime.ClientRequestWriterFunc(func(r oaruntime.ClientRequest, _ strfmt.Registry) error {
			return r.SetTimeout(noDeadlineMs * time.Millisecond)
		})
		op.Reader = oaruntime.ClientResponseReaderFunc(func(resp oaruntime.ClientResponse, _ oaruntime.Consumer) (interface{}, error) {
			switch reader {
			case "p0":
				return "ignored", nil
			case "w1":
				fw := &failWriter{room: unit}
				_, err := io.Copy(fw, resp.Body())
				if !fw.failed {
					sawEnd = true
				}
				if err == nil {
					return "copied", nil
				}
				return nil, err
			case "p1":
				buf := make([]byte, unit)
				if _, err := io.ReadFull(resp.Body(), buf); err != nil {
					sawEnd = true
					return nil, err
				}
				if !bytes.Equal(buf, body[:unit]) {
					return nil, errors.New("verif: response bytes differ")
				}
				return "prefix", nil
			}
			b, err := io.ReadAll(resp.Body())
			sawEnd = true
			if err != nil {
				return nil, err
			}
			if !bytes.Equal(b, body) {
				return nil, errors.New("verif: response bytes differ")
			}
			return "all", nil
		})
		var err error
		panicked := false
		t0 := time.Now()
		func() {
			defer func() {
				if r := recover(); r != nil {
					panicked = true
				}
			}()
			_, err = rt.Submit(op)
		}()
		ev := M{"i": i, "result": "ok", "elapsed_ms": int(time.Since(t0) / time.Millisecond), "resp_obtained": false, "resp_closes": 0,
			"reader_saw_end": sawEnd, "term_before_close": false, "drain_cut": "none", "unread_at_close": 0, "panic": panicked}
		if err != nil {
			ev["result"] = "err"
		}
		prt.mu.Lock()
		if len(prt.stats) >= i {
			st := prt.stats[i-1]
			st.mu.Lock()
			ev["resp_obtained"], ev["resp_closes"], ev["term_before_close"], ev["unread_at_close"] = true, st.closes, st.termAtClose, st.unread
			if st.cutAtClose != "" {
				ev["drain_cut"] = st.cutAtClose
			}
			st.mu.Unlock()
		}
		prt.mu.Unlock()
		c.W.Event("rcall", ev)
	}
	tr.CloseIdleConnections()
	c.W.Event("rdone", M{"conns": srv.stop(), "calls": calls})
	return true
}

func generateReuseSeq(c *drv.Ctx, thorough bool) {
	n := 0
	delays := []int{0, 60}
	if thorough {
		delays = []int{0, 20, 60, 150}
	}
	for _, framing := range []string{"length", "chunked"} {
		for _, reader := range []string{"p0", "p1", "all", "w1"} {
			for _, reuse := range []bool{true, false} {
				for _, delay := range delays {
					for _, unit := range []int{8, 5000} {
						c.Case(M{"kind": "reuseseq", "framing": framing, "reader": reader, "reuse": reuse, "delay_ms": delay,
							"resp_unit": unit, "calls": 3})
						n++
					}
				}
			}
		}
	}
	c.Extra["reuse_seq_cases"] = n
}
