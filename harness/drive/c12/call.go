package c12

import (
	"bytes"
	"context"
	"errors"
	"fmt"
	"io"
	"mime"
	"mime/multipart"
	"net/http"
	"regexp"
	"runtime"
	"strconv"
	"strings"
	"sync"
	"sync/atomic"
	"time"

	oaruntime "github.com/go-openapi/runtime"
	"github.com/go-openapi/runtime/client"
	"github.com/go-openapi/strfmt"

	"verifharness/internal/drv"
)

var (
	errParams    = errors.New("verif: params writer failed")
	errAuth      = errors.New("verif: auth writer failed")
	errSrc       = errors.New("verif: upload source failed")
	errTransport = errors.New("verif: transport failed")
	errReset     = errors.New("verif: connection reset by scripted server")
	errCap       = errors.New("verif: harness stall cap reached (context never done)")
)

// ---- script (abstract) -------------------------------------------------------

type srcFault struct {
	Kind string
	Off  int
}

type script struct {
	Payload  string
	Fields   int
	NFiles   int
	Reuse    bool
	Werr     string
	Auth     string
	AuthErr  bool
	AuthWait bool
	URLErr   bool
	Texp     bool // the request timeout is over before the exchange starts (negative / vanishing SetTimeout)
	Src      [2]srcFault
	TFault   string
	SrvKind  string
	SrvAt    string
	SrvK     int
	Cancel   string
	Reader   string
}

func scriptOf(m M) script {
	s := script{
		Payload: drv.Str(m["payload"]), Fields: drv.Int(m["fields"]), NFiles: drv.Int(m["nfiles"]),
		Reuse: drv.Bool(m["reuse"]), Werr: drv.Str(m["werr"]), Auth: drv.Str(m["auth"]),
		AuthErr: drv.Bool(m["autherr"]), AuthWait: drv.Bool(m["authwait"]), URLErr: drv.Bool(m["urlerr"]), Texp: drv.Bool(m["texp"]),
		TFault: drv.Str(m["tfault"]), Cancel: drv.Str(m["cancel"]), Reader: drv.Str(m["reader"]),
	}
	for i, x := range drv.List(m["src"]) {
		if i < 2 {
			xm := drv.Map(x)
			s.Src[i] = srcFault{Kind: drv.Str(xm["kind"]), Off: drv.Int(xm["off"])}
		}
	}
	srv := drv.Map(m["srv"])
	s.SrvKind, s.SrvAt, s.SrvK = drv.Str(srv["kind"]), drv.Str(srv["at"]), drv.Int(srv["k"])
	return s
}

func (s script) nSources() int {
	switch s.Payload {
	case "mp":
		return s.NFiles
	case "reader":
		return 1
	}
	return 0
}

// needsDeadline: the only way out of the script is the effective deadline.
func (s script) needsDeadline() bool { return s.SrvKind == "stall" || s.AuthWait }

func (s script) hasFault() bool {
	return s.Werr != "none" || s.AuthErr || s.AuthWait || s.URLErr || s.Texp || s.Src[0].Kind != "none" || s.Src[1].Kind != "none" ||
		s.TFault != "none" || s.SrvKind != "none" || s.Cancel != "none"
}

// ---- instrumented upload source ---------------------------------------------

type source struct {
	name      string
	data      []byte
	kind      string // none | err | short
	off       int    // byte offset of the fault
	chunk     int    // at most this many bytes per Read
	ctype     bool
	errVal    string // plain | wrap_eof | wrap_ueof
	sticky    bool
	mu        sync.Mutex
	pos       int
	shortDone bool
	hit       bool
	closes    int32
}

func (s *source) Name() string { return s.name }

func (s *source) Close() error { atomic.AddInt32(&s.closes, 1); return nil }

func (s *source) Read(p []byte) (int, error) {
	s.mu.Lock()
	defer s.mu.Unlock()
	if s.kind == "err" && s.pos == s.off {
		if s.hit && !s.sticky {
			return 0, io.EOF // a non-sticky source: after its failure it just reports the end
		}
		s.hit = true
		switch s.errVal { // the error VALUE must not matter: also values that wrap the end-of-stream sentinels
		case "wrap_eof":
			return 0, fmt.Errorf("%w: %w", errSrc, io.EOF)
		case "wrap_ueof":
			return 0, fmt.Errorf("%w: %w", errSrc, io.ErrUnexpectedEOF)
		case "bare_ueof": // the source's OWN failure is the bare sentinel (e.g. it wraps a truncated archive member)
			return 0, io.ErrUnexpectedEOF
		}
		return 0, errSrc
	}
	if s.pos >= len(s.data) {
		return 0, io.EOF
	}
	if len(p) == 0 {
		return 0, nil
	}
	n := len(p)
	if n > s.chunk {
		n = s.chunk
	}
	if n > len(s.data)-s.pos {
		n = len(s.data) - s.pos
	}
	if s.kind != "none" && s.pos < s.off && n > s.off-s.pos {
		n = s.off - s.pos // the next Read starts exactly at the fault offset
	}
	if s.kind == "short" && s.pos == s.off && !s.shortDone {
		s.shortDone = true
		n = 1
	}
	copy(p, s.data[s.pos:s.pos+n])
	s.pos += n
	return n, nil
}

// sourceCT additionally declares its content type (no sniffing Read by the runtime).
type sourceCT struct{ *source }

func (s sourceCT) ContentType() string { return "application/x-verif" }

func fileData(i, n int) []byte {
	b := make([]byte, n)
	for k := range b {
		b[k] = byte('a' + (k*7+i*3)%23)
	}
	return b
}

// ---- instrumented response body ---------------------------------------------

type bodyStats struct {
	mu          sync.Mutex
	obtained    bool
	closes      int
	term        bool // the underlying stream reached its own end: io.EOF or a fault of the stream itself
	termAtClose bool
	cut         string // a Read failed because the request context was done: env (caller's cancellation / deadline) | self
	cutAtClose  string
	envDone     func() bool // the caller cancelled, or the effective deadline has passed
	unread      int
	total       int
	read        int
}

func (b *bodyStats) onRead(n int, err error) {
	b.mu.Lock()
	b.read += n
	switch {
	case err == nil:
	case isCtxErr(err):
		// like net/http's bodies: a pending Read is aborted once the request context is done. Whose doing was it?
		if b.cut == "" {
			if errors.Is(err, context.DeadlineExceeded) || (b.envDone != nil && b.envDone()) {
				b.cut = "env"
			} else {
				b.cut = "self" // nobody outside the call ended the context: the call cancelled it itself
			}
		}
	default:
		b.term = true
	}
	b.mu.Unlock()
}

func isCtxErr(err error) bool {
	return errors.Is(err, context.Canceled) || errors.Is(err, context.DeadlineExceeded) ||
		strings.Contains(err.Error(), "request canceled") || strings.Contains(err.Error(), "context canceled") ||
		strings.Contains(err.Error(), "context deadline exceeded")
}

func (b *bodyStats) onClose() {
	b.mu.Lock()
	if b.closes == 0 {
		b.termAtClose = b.term
		b.cutAtClose = b.cut
		b.unread = b.total - b.read
	}
	b.closes++
	b.mu.Unlock()
}

// scriptedBody is the response body of the scripted RoundTripper.
type scriptedBody struct {
	st    *bodyStats
	ctx   context.Context
	data  []byte
	limit int    // bytes available before the end event
	end   string // none | close | trunc | stall
	chunk int
	capD  time.Duration
	pos   int
}

func (b *scriptedBody) Read(p []byte) (n int, err error) {
	defer func() { b.st.onRead(n, err) }()
	if e := b.ctx.Err(); e != nil {
		return 0, e
	}
	if b.pos < b.limit {
		if len(p) == 0 {
			return 0, nil
		}
		n = len(p)
		if n > b.chunk {
			n = b.chunk
		}
		if n > b.limit-b.pos {
			n = b.limit - b.pos
		}
		copy(p, b.data[b.pos:b.pos+n])
		b.pos += n
		return n, nil
	}
	switch b.end {
	case "none":
		return 0, io.EOF
	case "close":
		return 0, errReset
	case "trunc":
		return 0, io.ErrUnexpectedEOF
	}
	select { // stall
	case <-b.ctx.Done():
		return 0, b.ctx.Err()
	case <-time.After(b.capD):
		return 0, errCap
	}
}

func (b *scriptedBody) Close() error { b.st.onClose(); return nil }

// countingBody wraps the body returned by the real http.Transport (wire mode).
type countingBody struct {
	st  *bodyStats
	rdr io.ReadCloser
}

func (b *countingBody) Read(p []byte) (int, error) {
	n, err := b.rdr.Read(p)
	b.st.onRead(n, err)
	return n, err
}

func (b *countingBody) Close() error { b.st.onClose(); return b.rdr.Close() }

func orStr(v any, def string) any {
	if v == nil {
		return def
	}
	return v
}

// failWriter accepts `room` bytes, then fails.
type failWriter struct {
	room   int
	failed bool
}

var errDest = errors.New("verif: destination writer failed")

func (w *failWriter) Write(p []byte) (int, error) {
	if len(p) <= w.room {
		w.room -= len(p)
		return len(p), nil
	}
	n := w.room
	w.room = 0
	w.failed = true
	return n, errDest
}

// ---- one call ----------------------------------------------------------------

type callEnv struct {
	s        script
	d        M
	unit     int // bytes per response-body unit
	respBody []byte
	stallCap time.Duration
	cancel   context.CancelFunc // cancels the caller's context and records when
	callCtx  context.Context
	t0       time.Time
	cancelMs int32 // elapsed ms at the (first) cancellation, -1: not cancelled
	st       *bodyStats
	mu       sync.Mutex
	consumed bool // the transport/server read the whole request body
	intact   bool
	received []byte
	ctypeHdr string
	sources  []*source
	fieldVal string
	bufVal   []byte
	sawEnd   bool
}

func (e *callEnv) bodyLimit() (int, string) {
	if e.s.SrvAt == "body" {
		return e.s.SrvK * e.unit, e.s.SrvKind
	}
	return len(e.respBody), "none"
}

// scriptedRT realises the transport/server part of the script in-process.
type scriptedRT struct{ e *callEnv }

func (t scriptedRT) RoundTrip(req *http.Request) (*http.Response, error) {
	e := t.e
	ctx := req.Context()
	closeBody := func() {
		if req.Body != nil {
			req.Body.Close()
		}
	}
	if e.s.Texp {
		// a slow server: by the time anything could be answered the (already spent) request timeout has certainly fired
		select {
		case <-ctx.Done():
		case <-time.After(slowServerMs * time.Millisecond):
		}
	}
	if err := ctx.Err(); err != nil {
		closeBody()
		return nil, err
	}
	if sch := req.URL.Scheme; sch != "http" && sch != "https" {
		// as net/http's Transport: a scheme it cannot speak is refused before anything of the request is read
		closeBody()
		return nil, fmt.Errorf("verif transport: unsupported protocol scheme %q", sch)
	}
	if e.s.TFault == "before" && drv.Str(orStr(e.d["scheme"], "http")) == "http" {
		closeBody()
		return nil, errTransport
	}
	var got []byte
	if req.Body != nil {
		var err error
		got, err = io.ReadAll(req.Body)
		closeBody()
		if err != nil {
			return nil, fmt.Errorf("verif transport: reading request body: %w", err)
		}
	}
	e.noteConsumed(got, req.Header.Get("Content-Type"))
	if e.s.TFault == "after" {
		return nil, errTransport
	}
	wait := func() error {
		select {
		case <-ctx.Done():
			return ctx.Err()
		case <-time.After(e.stallCap):
			return errCap
		}
	}
	if e.s.Cancel == "send" {
		e.cancel()
		select {
		case <-ctx.Done():
			return nil, ctx.Err()
		case <-time.After(stallCapMs * time.Millisecond):
			return nil, errCap
		}
	}
	if e.s.SrvKind != "none" && e.s.SrvAt != "body" {
		switch e.s.SrvKind {
		case "close":
			return nil, errReset
		case "trunc":
			return nil, io.ErrUnexpectedEOF
		default:
			return nil, wait()
		}
	}
	limit, end := e.bodyLimit()
	e.st.mu.Lock()
	e.st.obtained = true
	e.st.total = len(e.respBody)
	e.st.mu.Unlock()
	return &http.Response{
		Status: "200 OK", StatusCode: 200, Proto: "HTTP/1.1", ProtoMajor: 1, ProtoMinor: 1,
		Header:        http.Header{"Content-Type": []string{"application/octet-stream"}},
		ContentLength: int64(len(e.respBody)),
		Body: &scriptedBody{st: e.st, ctx: ctx, data: e.respBody, limit: limit, end: end,
			chunk: drv.Int(e.d["resp_chunk"]), capD: e.stallCap},
		Request: req,
	}, nil
}

// observingRT wraps the real transport (wire mode) to observe the response body.
type observingRT struct {
	e  *callEnv
	rt http.RoundTripper
}

func (t observingRT) RoundTrip(req *http.Request) (*http.Response, error) {
	resp, err := t.rt.RoundTrip(req)
	if err != nil || resp == nil {
		return resp, err
	}
	t.e.st.mu.Lock()
	t.e.st.obtained = true
	t.e.st.total = len(t.e.respBody)
	t.e.st.mu.Unlock()
	resp.Body = &countingBody{st: t.e.st, rdr: resp.Body}
	return resp, nil
}

// noteConsumed records what the transport/server received and compares it with what was handed over.
func (e *callEnv) noteConsumed(got []byte, ct string) {
	e.mu.Lock()
	defer e.mu.Unlock()
	e.consumed = true
	e.received = got
	e.ctypeHdr = ct
	e.intact = e.checkIntact(got, ct)
}

func (e *callEnv) checkIntact(got []byte, ct string) bool {
	switch e.s.Payload {
	case "none":
		return len(got) == 0
	case "buffer":
		return bytes.Equal(bytes.TrimSpace(got), e.bufVal)
	case "reader":
		return bytes.Equal(got, e.sources[0].data)
	}
	_, params, err := mime.ParseMediaType(ct)
	if err != nil {
		return false
	}
	mr := multipart.NewReader(bytes.NewReader(got), params["boundary"])
	nf, nfield := 0, 0
	for {
		p, err := mr.NextPart()
		if err == io.EOF {
			break
		}
		if err != nil {
			return false
		}
		b, err := io.ReadAll(p)
		if err != nil {
			return false
		}
		if p.FileName() == "" {
			if string(b) != e.fieldVal {
				return false
			}
			nfield++
			continue
		}
		ok := false
		for _, s := range e.sources {
			if s.name == p.FileName() && bytes.Equal(b, s.data) {
				ok = true
			}
		}
		if !ok {
			return false
		}
		nf++
	}
	return nf == e.s.NFiles && nfield == e.s.Fields
}

var (
	reGoroutine = regexp.MustCompile(`^goroutine (\d+) \[`)
	reCreatedBy = regexp.MustCompile(`(?m)^created by (\S+) in goroutine (\d+)$`)
)

func myGID() int {
	buf := make([]byte, 64)
	buf = buf[:runtime.Stack(buf, false)]
	m := reGoroutine.FindSubmatch(buf)
	if m == nil {
		return -1
	}
	n, _ := strconv.Atoi(string(m[1]))
	return n
}

// leakedBy lists goroutines that have a frame of the client package and were created by goroutine gid.
func leakedBy(gid int) []string {
	buf := make([]byte, 1<<20)
	for {
		n := runtime.Stack(buf, true)
		if n < len(buf) {
			buf = buf[:n]
			break
		}
		buf = make([]byte, 2*len(buf))
	}
	var out []string
	for _, g := range strings.Split(string(buf), "\n\n") {
		if !strings.Contains(g, "go-openapi/runtime/client.") {
			continue
		}
		m := reCreatedBy.FindStringSubmatch(g)
		if m == nil {
			continue
		}
		if p, _ := strconv.Atoi(m[2]); p != gid {
			continue
		}
		fn := m[1]
		if i := strings.LastIndex(fn, "/"); i >= 0 {
			fn = fn[i+1:]
		}
		out = append(out, fn)
	}
	return out
}

type callResult struct {
	fields M
}

// runCall executes one scripted call on the real client.Runtime.Submit and returns the observation.
func runCall(d M) (res M) {
	done := make(chan M, 1)
	go func() { // own goroutine: goroutines started by the call are attributed through "created by ... in goroutine N"
		var best M
		for attempt := 1; attempt <= 3; attempt++ {
			r := runCallOnce(d)
			r["attempts"] = attempt
			best = r
			// the real-time clause is re-measured when the machine was too busy (a genuine hang repeats)
			late := drv.Int(r["elapsed_ms"]) - drv.Int(r["deadline_ms"])
			if late <= slackRetryMs || late >= stallCapMs-100 {
				break // in time, or blocked until the harness released the stall (the context was never done)
			}
		}
		done <- best
	}()
	return <-done
}

// defaultTimeoutMs is the value client.DefaultTimeout is set to for the whole run (it is read by every new
// request; cases run in parallel, so it is set once and never changed).
const (
	defaultTimeoutMs = 600
	noDeadlineMs     = 10000 // a call without any deadline is still expected back within this bound (fault-free exchanges only)
)

var defaultOnce sync.Once

func setDefaultTimeout() {
	defaultOnce.Do(func() { client.DefaultTimeout = defaultTimeoutMs * time.Millisecond })
}

const slowServerMs = 300

const (
	slackRetryMs = 700
	stallCapMs   = 2500 // a harness stall gives up this long after the effective deadline (> SlackMs of the trace spec)
)

func runCallOnce(d M) (res M) {
	s := scriptOf(drv.Map(d["script"]))
	mode := drv.Str(d["mode"])
	tsrc := drv.Str(d["tsrc"])            // explicit (SetTimeout) | default (left at client.DefaultTimeout) | zero (SetTimeout(0))
	ctxAt := drv.Str(d["ctx_at"])         // none | op (operation.Context) | rt (Runtime.Context)
	timeoutMs := drv.Int(d["timeout_ms"]) // request timeout (explicit value / the value DefaultTimeout is set to / unused)
	ctxMs := drv.Int(d["ctx_ms"])         // deadline of the caller's context, -1: none
	unit := drv.Int(d["resp_unit"])
	e := &callEnv{s: s, d: d, unit: unit, st: &bodyStats{}, intact: true, fieldVal: "field value \"1\""}
	e.respBody = fileData(9, 2*unit)
	setDefaultTimeout()

	// effective deadline: the shorter of request timeout and caller context (noDeadlineMs when there is neither)
	dl := noDeadlineMs
	if tsrc != "zero" {
		dl = timeoutMs
	}
	if ctxMs >= 0 && ctxMs < dl {
		dl = ctxMs
	}
	e.stallCap = time.Duration(dl+stallCapMs) * time.Millisecond
	effMs := dl
	e.st.envDone = func() bool {
		return atomic.LoadInt32(&e.cancelMs) >= 0 || (!e.t0.IsZero() && time.Since(e.t0) >= time.Duration(effMs)*time.Millisecond)
	}
	timeout := time.Duration(timeoutMs) * time.Millisecond
	var parent context.Context
	var cancel context.CancelFunc
	if ctxMs >= 0 {
		parent, cancel = context.WithTimeout(context.Background(), time.Duration(ctxMs)*time.Millisecond)
	} else {
		parent, cancel = context.WithCancel(context.Background())
	}
	defer cancel()
	e.cancelMs = -1
	e.callCtx = parent
	e.cancel = func() {
		atomic.CompareAndSwapInt32(&e.cancelMs, -1, int32(time.Since(e.t0)/time.Millisecond))
		cancel()
	}

	// upload sources
	flen := drv.List(d["file_len"])
	soff := drv.List(d["src_off"])
	for i := 0; i < s.nSources(); i++ {
		e.sources = append(e.sources, &source{name: fmt.Sprintf("upload%d.bin", i+1), data: fileData(i, drv.Int(flen[i])),
			kind: s.Src[i].Kind, off: drv.Int(soff[i]), chunk: drv.Int(d["src_chunk"]), ctype: drv.Bool(d["ctype"]),
			errVal: drv.Str(d["src_err"]), sticky: !drv.Bool(d["src_nonsticky"])})
	}
	e.bufVal = []byte(`{"k":"v"}`)

	host := "verif.invalid"
	var rtr http.RoundTripper
	var srv *wireServer
	if mode == "wire" {
		srv = startWire(e)
		defer srv.stop()
		host = srv.addr()
		tr := &http.Transport{DisableCompression: true}
		defer tr.CloseIdleConnections()
		rtr = observingRT{e: e, rt: tr}
	} else {
		rtr = scriptedRT{e: e}
	}
	// the scheme: "transport error before the body is consumed" may also be realised by a scheme the transport cannot
	// speak (ws / wss, as a swagger spec may declare), selected on the runtime or on the operation
	scheme, schemeAt := drv.Str(orStr(d["scheme"], "http")), drv.Str(orStr(d["scheme_at"], "runtime"))
	rtSchemes, opSchemes := []string{"http"}, []string{"http"}
	if scheme != "http" {
		if schemeAt == "runtime" {
			rtSchemes = []string{scheme}
		} else {
			rtSchemes, opSchemes = nil, []string{scheme}
		}
	}
	rt := client.New(host, "/api", rtSchemes)
	rt.Transport = rtr
	if s.Reuse {
		rt.EnableConnectionReuse()
	}
	if s.URLErr {
		rt.BasePath = "/%zz"
	}
	op := &oaruntime.ClientOperation{ID: "verif", Method: "POST", PathPattern: "/upload",
		ProducesMediaTypes: []string{"application/octet-stream"}, Schemes: opSchemes}
	switch ctxAt {
	case "rt":
		rt.Context = parent
	case "op":
		op.Context = parent // rt.Context stays context.Background(), as New leaves it
	}
	switch s.Payload {
	case "mp":
		op.ConsumesMediaTypes = []string{"multipart/form-data"}
	case "reader":
		op.ConsumesMediaTypes = []string{"application/octet-stream"}
	default:
		op.ConsumesMediaTypes = []string{"application/json"}
	}
	op.Params = oaruntime.ClientRequestWriterFunc(func(r oaruntime.ClientRequest, _ strfmt.Registry) error {
		if s.Werr == "before" {
			return errParams
		}
		switch tsrc {
		case "explicit":
			if err := r.SetTimeout(timeout); err != nil {
				return err
			}
		case "zero":
			if err := r.SetTimeout(0); err != nil {
				return err
			}
		case "negative": // e.g. time.Until(a budget that is already spent)
			if err := r.SetTimeout(-3 * time.Second); err != nil {
				return err
			}
		case "tiny":
			if err := r.SetTimeout(time.Nanosecond); err != nil {
				return err
			}
		}
		switch s.Payload {
		case "buffer":
			if err := r.SetBodyParam(map[string]string{"k": "v"}); err != nil {
				return err
			}
		case "reader":
			if err := r.SetBodyParam(io.ReadCloser(e.sources[0])); err != nil {
				return err
			}
		case "mp":
			if s.Fields > 0 {
				if err := r.SetFormParam("note", e.fieldVal); err != nil {
					return err
				}
			}
			if s.NFiles > 0 {
				var fs []oaruntime.NamedReadCloser
				for _, src := range e.sources {
					if src.ctype {
						fs = append(fs, sourceCT{src})
					} else {
						fs = append(fs, src)
					}
				}
				if drv.Bool(d["two_names"]) && len(fs) == 2 {
					if err := r.SetFileParam("file", fs[0]); err != nil {
						return err
					}
					if err := r.SetFileParam("other", fs[1]); err != nil {
						return err
					}
				} else if err := r.SetFileParam("file", fs...); err != nil {
					return err
				}
			}
		}
		if s.Werr == "after" {
			return errParams
		}
		return nil
	})
	if s.Auth != "none" {
		op.AuthInfo = oaruntime.ClientAuthInfoWriterFunc(func(r oaruntime.ClientRequest, _ strfmt.Registry) error {
			if s.AuthWait {
				select {
				case <-parent.Done():
				case <-time.After(e.stallCap):
				}
			}
			if s.Cancel == "auth" {
				e.cancel()
			}
			if s.Auth == "read" {
				_ = r.GetBody()
			}
			if s.AuthErr {
				return errAuth
			}
			return nil
		})
	}
	op.Reader = oaruntime.ClientResponseReaderFunc(func(resp oaruntime.ClientResponse, _ oaruntime.Consumer) (interface{}, error) {
		if s.Cancel == "read" {
			e.cancel()
		}
		switch s.Reader {
		case "p0":
			return "ignored", nil
		case "w1": // copies the body (io.Copy: WriterTo when the body offers it) into a destination that fails after one unit
			fw := &failWriter{room: unit}
			_, err := io.Copy(fw, resp.Body())
			if !fw.failed {
				e.sawEnd = true // the copy ended because the body did (EOF or its own error)
			}
			if err == nil {
				return "copied", nil
			}
			return nil, err
		case "p1":
			buf := make([]byte, unit)
			if _, err := io.ReadFull(resp.Body(), buf); err != nil {
				e.sawEnd = true
				return nil, err
			}
			if !bytes.Equal(buf, e.respBody[:unit]) {
				return nil, errors.New("verif: response bytes differ")
			}
			return "prefix", nil
		}
		b, err := io.ReadAll(resp.Body())
		e.sawEnd = true
		if err != nil {
			return nil, err
		}
		if !bytes.Equal(b, e.respBody) {
			return nil, errors.New("verif: response bytes differ")
		}
		return "all", nil
	})

	gid := myGID()
	var (
		out      interface{}
		err      error
		panicked bool
	)
	t0 := time.Now()
	e.t0 = t0
	func() {
		defer func() {
			if r := recover(); r != nil {
				panicked = true
				err = fmt.Errorf("panic: %v", r)
			}
		}()
		out, err = rt.Submit(op)
	}()
	elapsed := time.Since(t0)

	// quiescence: goroutines started by the call must be gone, files closed
	var leaked []string
	settled := func() bool {
		leaked = leakedBy(gid)
		if len(leaked) > 0 {
			return false
		}
		if s.Werr != "before" {
			for _, src := range e.sources {
				if s.Payload == "mp" && atomic.LoadInt32(&src.closes) == 0 {
					return false
				}
			}
		}
		return true
	}
	waitUntil := time.Now().Add(time.Duration(drv.Int(d["settle_ms"])) * time.Millisecond)
	for !settled() && time.Now().Before(waitUntil) {
		time.Sleep(2 * time.Millisecond)
	}

	result := "ok"
	if err != nil {
		result = "err"
	} else if out == nil {
		result = "ok-nil"
	}
	closes := []int{}
	hit := false
	for _, src := range e.sources {
		closes = append(closes, int(atomic.LoadInt32(&src.closes)))
		src.mu.Lock()
		hit = hit || src.hit
		src.mu.Unlock()
	}
	filesClosed := true
	if s.Payload == "mp" && s.Werr != "before" {
		for _, n := range closes {
			filesClosed = filesClosed && n >= 1
		}
	}
	e.st.mu.Lock()
	st := struct {
		obtained, termAtClose bool
		closes, unread        int
		cut                   string
	}{e.st.obtained, e.st.termAtClose, e.st.closes, e.st.unread, e.st.cutAtClose}
	if st.cut == "" {
		st.cut = "none"
	}
	e.st.mu.Unlock()
	e.mu.Lock()
	consumed, intact := e.consumed, e.intact
	e.mu.Unlock()
	if leaked == nil {
		leaked = []string{}
	}
	// the effective deadline: the shorter of request timeout and caller context; a cancelled context is done at once
	cm := int(atomic.LoadInt32(&e.cancelMs))
	if cm >= 0 && cm < dl {
		dl = cm
	}
	return M{
		"result": result, "err_class": classify(err), "elapsed_ms": int(elapsed / time.Millisecond), "deadline_ms": dl, "cancel_ms": cm,
		"resp_obtained": st.obtained, "files_closed": filesClosed, "close_counts": closes,
		"resp_closes": st.closes, "reader_saw_end": e.sawEnd, "term_before_close": st.termAtClose, "drain_cut": st.cut,
		"unread_at_close": st.unread, "leaked": len(leaked), "leaked_frames": leaked, "src_hit": hit,
		"req_consumed": consumed, "upload_intact": intact, "panic": panicked,
	}
}

func classify(err error) string {
	switch {
	case err == nil:
		return "none"
	case errors.Is(err, errParams):
		return "params"
	case errors.Is(err, errAuth):
		return "auth"
	case errors.Is(err, errSrc):
		return "source"
	case strings.HasPrefix(err.Error(), "error retrieving the response body"):
		return "copy"
	case errors.Is(err, context.Canceled):
		return "cancelled"
	case errors.Is(err, context.DeadlineExceeded):
		return "deadline"
	case strings.Contains(err.Error(), "invalid URL escape"):
		return "url"
	case errors.Is(err, errCap):
		return "harness-cap"
	case strings.HasPrefix(err.Error(), "panic:"):
		return "panic"
	}
	return "transport"
}
