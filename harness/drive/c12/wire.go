package c12

import (
	"bufio"
	"fmt"
	"io"
	"net"
	"net/http"
	"sync"
	"time"

	"verifharness/internal/drv"
)

// wireServer is a raw TCP server that realises the wire-level placements of a script: it reads the
// request, then writes the response bytes up to the scripted offset and closes (RST), truncates (FIN)
// or stalls (keeps the connection open, silent, until the case ends).
type wireServer struct {
	e     *callEnv
	ln    net.Listener
	mu    sync.Mutex
	conns []net.Conn
	wg    sync.WaitGroup
}

// wireLayout returns the response bytes and the offsets where the status line and the header block end.
func wireLayout(body []byte) (resp []byte, statusEnd, headerEnd int) {
	status := "HTTP/1.1 200 OK\r\n"
	hdr := fmt.Sprintf("Content-Type: application/octet-stream\r\nContent-Length: %d\r\nX-Verif: c12\r\n\r\n", len(body))
	resp = append([]byte(status+hdr), body...)
	return resp, len(status), len(status) + len(hdr)
}

// wireAbstract maps a byte offset of the response to the abstract placement (at, k complete body units).
func wireAbstract(off, unit int, body []byte) (string, int) {
	_, se, he := wireLayout(body)
	switch {
	case off < se:
		return "status", 0
	case off < he:
		return "headers", 0
	}
	return "body", (off - he) / unit
}

func startWire(e *callEnv) *wireServer {
	ln, err := net.Listen("tcp", "127.0.0.1:0")
	if err != nil {
		panic(err)
	}
	w := &wireServer{e: e, ln: ln}
	w.wg.Add(1)
	go func() {
		defer w.wg.Done()
		for {
			c, err := ln.Accept()
			if err != nil {
				return
			}
			w.mu.Lock()
			w.conns = append(w.conns, c)
			w.mu.Unlock()
			w.wg.Add(1)
			go func() { defer w.wg.Done(); w.serve(c) }()
		}
	}()
	return w
}

func (w *wireServer) addr() string { return w.ln.Addr().String() }

func (w *wireServer) stop() {
	w.ln.Close()
	w.mu.Lock()
	for _, c := range w.conns {
		c.Close()
	}
	w.mu.Unlock()
	w.wg.Wait()
}

func rst(c net.Conn) {
	if tc, ok := c.(*net.TCPConn); ok {
		_ = tc.SetLinger(0)
	}
	c.Close()
}

func (w *wireServer) serve(c net.Conn) {
	e := w.e
	s := e.s
	if s.TFault == "before" {
		rst(c) // the request is not read at all
		return
	}
	br := bufio.NewReader(c)
	req, err := http.ReadRequest(br)
	if err != nil {
		c.Close()
		return
	}
	got, err := io.ReadAll(req.Body)
	if err != nil {
		c.Close() // the client aborted the request body (failing source, cancellation)
		return
	}
	e.noteConsumed(got, req.Header.Get("Content-Type"))
	if s.Texp {
		time.Sleep(slowServerMs * time.Millisecond) // a slow server (see scriptedRT)
	}
	if s.TFault == "after" {
		rst(c)
		return
	}
	if s.Cancel == "send" {
		e.cancel()
		time.AfterFunc(stallCapMs*time.Millisecond, func() { rst(c) }) // silent; gives up if the call ignores the cancellation
		return
	}
	resp, _, _ := wireLayout(e.respBody)
	if s.SrvKind == "none" {
		_, _ = c.Write(resp)
		// keep the connection open (keep-alive); closed at the end of the case
		return
	}
	off := drv.Int(e.d["srv_off"])
	_, _ = c.Write(resp[:off])
	switch s.SrvKind {
	case "close":
		if s.SrvAt == "body" {
			time.Sleep(10 * time.Millisecond) // let the bytes written so far reach the client before the reset
		}
		rst(c)
	case "trunc":
		c.Close()
	default:
		// stall: silent until the case ends; gives up (reset) if the call is still waiting long after its deadline
		time.AfterFunc(e.stallCap, func() { rst(c) })
	}
}
