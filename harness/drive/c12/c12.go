// Package c12 drives client.Runtime.Submit through the fault scripts exported from the
// ClientCall specification (TG) and records what the call observably did, for property C12.
// It also drives KeepAliveTransport's response body through Read/Close histories.
package c12

import (
	"bufio"
	"encoding/json"
	"io"
	"log"
	"math/rand"
	"os"
	"strconv"
	"sync"

	"verifharness/internal/drv"
)

type M = drv.M

func init() {
	drv.Register(&drv.Driver{Name: "c12", Generate: generate, Execute: execute})
}

const (
	fileLenUnits = 2 // = FileLen of the model
	respUnits    = 2 // = RespLen of the model
)

var (
	cacheMu sync.Mutex
	cache   = map[string]M{}
)

func key(d M) string {
	b, _ := json.Marshal(drv.Norm(d))
	return string(b)
}

func execute(c *drv.Ctx, d M) bool {
	log.SetOutput(io.Discard) // logClose of the code under test prints every pipe error
	switch drv.Str(d["kind"]) {
	case "drain":
		return execDrain(c, d)
	case "reuseseq":
		return execReuseSeq(c, d)
	}
	cacheMu.Lock()
	r, ok := cache[key(d)]
	cacheMu.Unlock()
	if !ok {
		r = runCall(d)
	}
	c.W.Event("call", r)
	return scriptOf(drv.Map(d["script"])).hasFault()
}

// ---- rendering of abstract scripts --------------------------------------------

type render struct {
	mode    string
	tm      timing
	fileLen []int
	srcOff  []int
	chunk   int
	unit    int
	rchunk  int
	srvOff  int
	ctype   bool
	twoName bool
	srcErr  string // the error value of a failing source: plain | wrap_eof | wrap_ueof
	nonStk  bool   // the failing source reports plain io.EOF after its failure
	scheme  string // http | ws | wss: how a "transport error before the body" script is realised
	schAt   string // runtime | operation
}

// srcOffBytes renders the abstract source-fault offset (units) to a byte offset of a file of n bytes.
func srcOffBytes(off, n, variant int) int {
	switch {
	case off <= 0 || n == 0:
		return 0
	case off >= fileLenUnits:
		return n
	}
	// inside: before or after the 512-byte sniffing buffer
	cands := []int{300, 600, 1, 511, 512, 513, n - 1}
	o := cands[variant%len(cands)]
	if o >= n {
		o = n - 1
	}
	if o < 1 {
		o = 1
	}
	return o
}

// srvOffBytes renders the abstract server placement to a byte offset of the wire response.
func srvOffBytes(at string, k, unit, variant int, body []byte) int {
	_, se, he := wireLayout(body)
	switch at {
	case "status":
		return []int{0, 5, se - 1}[variant%3]
	case "headers":
		return []int{se, se + 10, he - 1}[variant%3]
	case "body":
		return he + k*unit + []int{0, unit / 2}[variant%2]
	}
	return 0
}

func descriptor(scr M, r render) M {
	return M{"kind": "call", "script": scr, "mode": r.mode, "tsrc": r.tm.tsrc, "ctx_at": r.tm.ctxAt, "ctx_dl": r.tm.ctxDl,
		"timeout_ms": r.tm.timeoutMs, "ctx_ms": r.tm.ctxMs,
		"file_len": r.fileLen, "src_off": r.srcOff, "src_chunk": r.chunk, "resp_unit": r.unit,
		"resp_chunk": r.rchunk, "settle_ms": 3000,
		"srv_off": r.srvOff, "ctype": r.ctype, "two_names": r.twoName, "src_err": srcErrOr(r.srcErr), "src_nonsticky": r.nonStk && r.srcErr != "bare_ueof",
		"scheme": schemeOr(r.scheme), "scheme_at": schemeAtOr(r.schAt)}
}

func srcErrOr(v string) string {
	if v == "" {
		return "plain"
	}
	return v
}

func schemeOr(v string) string {
	if v == "" {
		return "http"
	}
	return v
}

func schemeAtOr(v string) string {
	if v == "" {
		return "runtime"
	}
	return v
}

// schemeFor: scripts whose fault is "transport error before the body is consumed" are realised in turn by an injected
// transport error, by scheme ws on the runtime and by scheme wss on the operation.
func schemeFor(s script, idx int) (string, string) {
	if s.TFault != "before" {
		return "http", "runtime"
	}
	switch idx % 3 {
	case 1:
		return "ws", "runtime"
	case 2:
		return "wss", "operation"
	}
	return "http", "runtime"
}

// bare_ueof: the source's own failure is the bare io.ErrUnexpectedEOF (sticky: a non-sticky source returning a bare
// end-of-stream sentinel is indistinguishable from a shorter file)
var srcErrVals = []string{"plain", "wrap_eof", "wrap_ueof", "bare_ueof"}

// timing is one point of the deadline-selection lattice: where the request timeout comes from, where the caller's
// context is supplied, and how its deadline relates to the request timeout.
type timing struct {
	tsrc      string // explicit | default | zero
	ctxAt     string // none | op | rt
	ctxDl     string // none | shorter | longer (than the request timeout; "shorter" = the only deadline when tsrc = zero)
	timeoutMs int
	ctxMs     int
}

const farMs = 10000

type tcombo struct{ tsrc, ctxAt, ctxDl string }

// timingLattice lists the admissible points for a script.
func timingLattice(s script) []tcombo {
	var out []tcombo
	if s.Texp { // the request timeout itself is already over: negative or vanishing SetTimeout, no or a later caller deadline
		for _, ts := range []string{"negative", "tiny"} {
			for _, at := range []string{"none", "op", "rt"} {
				for _, dl := range []string{"none", "longer", "shorter"} {
					switch {
					case at == "none" && (dl != "none" || s.Cancel != "none" || s.AuthWait):
					case s.AuthWait != (dl == "shorter"): // only the waiting auth writer needs the context's own (near) deadline
					default:
						out = append(out, tcombo{ts, at, dl})
					}
				}
			}
		}
		return out
	}
	ctxs := []string{"none", "op", "rt"}
	if s.Cancel != "none" || s.AuthWait {
		ctxs = []string{"op", "rt"} // the harness cancels / waits on the caller's context
	}
	tsrcs := []string{"explicit", "default", "zero"}
	if !s.needsDeadline() {
		tsrcs = []string{"explicit", "zero"} // the 600 ms default must not fire spuriously on a loaded machine
	}
	for _, ts := range tsrcs {
		for _, at := range ctxs {
			for _, dl := range []string{"none", "shorter", "longer"} {
				switch {
				case at == "none" && dl != "none":
				case ts == "zero" && dl == "longer":
				case ts == "zero" && dl == "none" && s.needsDeadline(): // no deadline at all
				case s.AuthWait && dl != "shorter": // the auth writer waits for the context's deadline
				default:
					out = append(out, tcombo{ts, at, dl})
				}
			}
		}
	}
	return out
}

// renderTiming chooses the concrete durations: the effective deadline is nearMs when the script needs one, else far.
func renderTiming(s script, c tcombo, nearMs int) timing {
	tm := timing{tsrc: c.tsrc, ctxAt: c.ctxAt, ctxDl: c.ctxDl, ctxMs: -1}
	eff := farMs
	if s.needsDeadline() {
		eff = nearMs
	}
	switch c.tsrc {
	case "negative", "tiny":
		tm.timeoutMs = 0 // as the specification sees it: the request timeout is over at once
		switch c.ctxDl {
		case "longer":
			tm.ctxMs = farMs
		case "shorter":
			tm.ctxMs = nearMs
		}
		return tm
	case "explicit":
		tm.timeoutMs = eff
		if c.ctxDl == "shorter" {
			tm.timeoutMs = eff + farMs
		}
	case "default":
		tm.timeoutMs = defaultTimeoutMs
		if eff > defaultTimeoutMs-200 {
			eff = defaultTimeoutMs - 200
		}
	}
	switch c.ctxDl {
	case "shorter":
		tm.ctxMs = eff
	case "longer":
		tm.ctxMs = tm.timeoutMs + farMs
	}
	return tm
}

func timingsFor(s script, idx int, all bool) []timing {
	lat := timingLattice(s)
	near := 250 + (idx*37)%151
	if all && s.needsDeadline() {
		if idx%5 != 0 { // two rotating points; every fifth such script gets the whole lattice
			return []timing{renderTiming(s, lat[idx%len(lat)], near), renderTiming(s, lat[(idx+7)%len(lat)], near)}
		}
		var out []timing
		for _, c := range lat {
			out = append(out, renderTiming(s, c, near))
		}
		return out
	}
	return []timing{renderTiming(s, lat[idx%len(lat)], near)}
}

func renderScript(scr M, idx int, thorough bool) []M {
	s := scriptOf(scr)
	var out []M
	modes := []string{"rt"}
	if thorough || s.SrvKind != "none" || s.TFault != "none" || idx%4 == 0 {
		modes = append(modes, "wire")
	}
	variants := []int{idx}
	if thorough && (s.Src[0].Kind != "none" || s.Src[1].Kind != "none") {
		variants = []int{0, 1, 3, 6}
	}
	for _, mode := range modes {
		for _, tm := range timingsFor(s, idx, thorough) {
			for _, v := range variants {
				r := render{mode: mode, tm: tm, fileLen: []int{700, 700},
					chunk: []int{4096, 64}[(idx/2)%2], unit: 8, rchunk: 4096}
				r.srcOff = []int{srcOffBytes(s.Src[0].Off, 700, v), srcOffBytes(s.Src[1].Off, 700, v+1)}
				r.srcErr, r.nonStk = srcErrVals[(idx+v)%4], ((idx+v)/4)%2 == 1
				r.scheme, r.schAt = schemeFor(s, idx)
				r.srvOff = srvOffBytes(s.SrvAt, s.SrvK, r.unit, idx, fileData(9, respUnits*r.unit))
				out = append(out, descriptor(scr, r))
			}
		}
	}
	return out
}

func baseScript(payload string, fields, nfiles int, reuse bool, auth, reader, cancel string) M {
	return M{"payload": payload, "fields": fields, "nfiles": nfiles, "reuse": reuse, "auth": auth, "reader": reader,
		"cancel": cancel, "werr": "none", "autherr": false, "authwait": false, "urlerr": false,
		"src":    []M{{"kind": "none", "off": 0}, {"kind": "none", "off": 0}},
		"tfault": "none", "srv": M{"kind": "none", "at": "none", "k": 0}, "texp": false}
}

// randomScript draws a script of the full space with up to two faults (same validity rules as FaultOptions).
func randomScript(rng *rand.Rand) M {
	type pk struct {
		p    string
		f, n int
	}
	pks := []pk{{"none", 0, 0}, {"buffer", 0, 0}, {"reader", 0, 0}, {"mp", 1, 0}, {"mp", 0, 1}, {"mp", 1, 1}, {"mp", 0, 2}, {"mp", 1, 2}}
	p := pks[rng.Intn(len(pks))]
	auth := []string{"none", "ok", "read"}[rng.Intn(3)]
	cancel := []string{"none", "none", "none", "auth", "send", "read"}[rng.Intn(6)]
	if cancel == "auth" && auth == "none" {
		cancel = "none"
	}
	scr := baseScript(p.p, p.f, p.n, rng.Intn(2) == 0, auth, []string{"all", "p0", "p1", "w1"}[rng.Intn(4)], cancel)
	nsrc := 0
	if p.p == "mp" {
		nsrc = p.n
	} else if p.p == "reader" {
		nsrc = 1
	}
	for k := rng.Intn(3); k > 0; k-- {
		switch rng.Intn(8) {
		case 7:
			scr["texp"] = true
		case 0:
			if p.n > 0 && rng.Intn(2) == 0 {
				scr["werr"] = "after"
			} else {
				scr["werr"] = "before"
			}
		case 1:
			if auth != "none" {
				scr["autherr"] = true
			}
		case 2:
			if auth != "none" {
				scr["authwait"] = true
			}
		case 3:
			scr["urlerr"] = true
		case 4:
			if nsrc > 0 {
				i := rng.Intn(nsrc)
				scr["src"].([]M)[i] = M{"kind": []string{"err", "short"}[rng.Intn(2)], "off": rng.Intn(fileLenUnits + 1)}
			}
		case 5:
			scr["tfault"] = []string{"before", "after"}[rng.Intn(2)]
		case 6:
			kind := []string{"close", "stall", "trunc"}[rng.Intn(3)]
			if rng.Intn(2) == 0 {
				scr["srv"] = M{"kind": kind, "at": []string{"status", "headers"}[rng.Intn(2)], "k": 0}
			} else {
				scr["srv"] = M{"kind": kind, "at": "body", "k": rng.Intn(respUnits)}
			}
		}
	}
	return scr
}

func randomRender(scr M, rng *rand.Rand) M {
	s := scriptOf(scr)
	r := render{mode: []string{"rt", "wire"}[rng.Intn(2)], ctype: rng.Intn(4) == 0, twoName: rng.Intn(3) == 0}
	lat := timingLattice(s)
	r.tm = renderTiming(s, lat[rng.Intn(len(lat))], 250+rng.Intn(151))
	r.chunk = []int{1, 7, 512, 4096, 100000}[rng.Intn(5)]
	maxLen := 70000
	if r.chunk < 512 {
		maxLen = 3000
	}
	for i := 0; i < 2; i++ {
		n := 1 + rng.Intn(maxLen)
		if rng.Intn(4) == 0 {
			n = 1 + rng.Intn(600) // smaller than the sniffing buffer
		}
		r.fileLen = append(r.fileLen, n)
		off := s.Src[i].Off
		switch {
		case off <= 0:
			r.srcOff = append(r.srcOff, 0)
		case off >= fileLenUnits:
			r.srcOff = append(r.srcOff, n)
		case n == 1:
			// a one-byte file has no inner offset: use the end (abstract offset FileLen)
			r.srcOff = append(r.srcOff, 1)
			scr["src"].([]M)[i]["off"] = fileLenUnits
		default:
			r.srcOff = append(r.srcOff, 1+rng.Intn(n-1))
		}
	}
	r.srcErr, r.nonStk = srcErrVals[rng.Intn(4)], rng.Intn(2) == 0
	r.scheme, r.schAt = schemeFor(s, rng.Intn(3))
	r.unit = []int{1, 8, 5000, 40000}[rng.Intn(4)]
	r.rchunk = []int{1, 3, 4096, 1 << 20}[rng.Intn(4)]
	if r.rchunk < 512 && r.unit > 8 {
		r.unit = 8
	}
	body := fileData(9, respUnits*r.unit)
	_, se, he := wireLayout(body)
	switch s.SrvAt {
	case "status":
		r.srvOff = rng.Intn(se)
	case "headers":
		r.srvOff = se + rng.Intn(he-se)
	case "body":
		r.srvOff = he + s.SrvK*r.unit + rng.Intn(r.unit)
	}
	return descriptor(scr, r)
}

func generate(c *drv.Ctx) {
	log.SetOutput(io.Discard)
	thorough := c.Tier == "thorough"
	var descs []M

	// (1) every script exported by GenClientCall (TG)
	if c.Scripts != "" {
		f, err := os.Open(c.Scripts)
		if err != nil {
			panic(err)
		}
		sc := bufio.NewScanner(f)
		sc.Buffer(make([]byte, 1<<20), 1<<26)
		idx := 0
		for sc.Scan() {
			var scr M
			if err := json.Unmarshal(sc.Bytes(), &scr); err != nil {
				panic(err)
			}
			descs = append(descs, renderScript(scr, idx, thorough)...)
			idx++
		}
		f.Close()
		c.Extra["scripts"] = idx
	}

	// (2) wire level: the server closes / truncates / stalls at every byte offset of status line, headers and body
	{
		unit := 8
		body := fileData(9, respUnits*unit)
		resp, _, _ := wireLayout(body)
		n := 0
		for off := 0; off < len(resp); off++ {
			for ki, kind := range []string{"close", "trunc", "stall"} {
				at, k := wireAbstract(off, unit, body)
				pay := []struct {
					p    string
					f, n int
				}{{"buffer", 0, 0}, {"mp", 1, 1}, {"reader", 0, 0}}[(off+ki)%3]
				scr := baseScript(pay.p, pay.f, pay.n, (off+ki)%2 == 0, "none", []string{"all", "p1"}[(off/2)%2], "none")
				scr["srv"] = M{"kind": kind, "at": at, "k": k}
				s := scriptOf(drv.Norm(scr))
				lat := timingLattice(s)
				r := render{mode: "wire", tm: renderTiming(s, lat[(off+ki)%len(lat)], 250), fileLen: []int{700, 700},
					srcOff: []int{0, 0}, chunk: 4096, unit: unit, rchunk: 4096, srvOff: off}
				descs = append(descs, descriptor(scr, r))
				n++
			}
		}
		c.Extra["wire_offsets"] = n
	}

	// (2b) the whole deadline-selection lattice (timeout source x context placement x context deadline) x stall placement
	{
		unit := 8
		body := fileData(9, respUnits*unit)
		n := 0
		for _, pl := range []struct {
			at string
			k  int
		}{{"status", 0}, {"headers", 0}, {"body", 0}, {"body", 1}} {
			for _, mode := range []string{"rt", "wire"} {
				scr := baseScript("buffer", 0, 0, n%2 == 0, "none", "all", "none")
				scr["srv"] = M{"kind": "stall", "at": pl.at, "k": pl.k}
				s := scriptOf(drv.Norm(scr))
				for ci, cb := range timingLattice(s) {
					r := render{mode: mode, tm: renderTiming(s, cb, 250+(ci*53)%151), fileLen: []int{700, 700}, srcOff: []int{0, 0},
						chunk: 4096, unit: unit, rchunk: 4096, srvOff: srvOffBytes(pl.at, pl.k, unit, ci, body)}
					descs = append(descs, descriptor(scr, r))
					n++
				}
			}
		}
		// a request timeout that is already over (negative / 1 ns) against a normal, a stalling and a truncating server
		for _, srv := range []M{{"kind": "none", "at": "none", "k": 0}, {"kind": "stall", "at": "status", "k": 0}, {"kind": "stall", "at": "body", "k": 1}} {
			for _, mode := range []string{"rt", "wire"} {
				for pi, pay := range []struct {
					p    string
					f, n int
				}{{"buffer", 0, 0}, {"mp", 1, 1}} {
					scr := baseScript(pay.p, pay.f, pay.n, pi == 0, "none", "all", "none")
					scr["srv"] = srv
					scr["texp"] = true
					s := scriptOf(drv.Norm(scr))
					for ci, cb := range timingLattice(s) {
						r := render{mode: mode, tm: renderTiming(s, cb, 250), fileLen: []int{700, 700}, srcOff: []int{0, 0},
							chunk: 4096, unit: unit, rchunk: 4096, srvOff: srvOffBytes(drv.Str(srv["at"]), drv.Int(srv["k"]), unit, ci, body)}
						descs = append(descs, descriptor(scr, r))
						n++
					}
				}
			}
		}
		c.Extra["deadline_lattice"] = n
	}

	// (2c) failing upload sources: every error value (plain, wrapping io.EOF, wrapping io.ErrUnexpectedEOF) x sticky / non-sticky
	//      x offsets inside and beyond the 512-byte sniffing window x with / without a declared content type
	{
		n := 0
		for _, off := range []struct{ unitOff, bytes int }{{0, 0}, {1, 100}, {1, 511}, {1, 512}, {1, 650}, {2, 700}} {
			for _, ev := range srcErrVals {
				for _, ns := range []bool{false, true} {
					for _, ct := range []bool{false, true} {
						for fi, pay := range []struct{ f, n int }{{0, 1}, {1, 2}} {
							scr := baseScript("mp", pay.f, pay.n, n%2 == 0, []string{"none", "read"}[n%2], "all", "none")
							scr["src"].([]M)[fi] = M{"kind": "err", "off": off.unitOff}
							s := scriptOf(drv.Norm(scr))
							lat := timingLattice(s)
							so := []int{0, 0}
							so[fi] = off.bytes
							r := render{mode: []string{"rt", "wire"}[(n/2)%2], tm: renderTiming(s, lat[n%len(lat)], 250), fileLen: []int{700, 700},
								srcOff: so, chunk: []int{4096, 100}[n%2], unit: 8, rchunk: 4096, ctype: ct, srcErr: ev, nonStk: ns}
							descs = append(descs, descriptor(scr, r))
							n++
						}
					}
				}
			}
		}
		c.Extra["source_error_values"] = n
	}

	// (2e) a scheme the transport cannot speak (ws on the runtime, wss on the operation): refused before the body is read
	{
		n := 0
		for _, pay := range []struct {
			p    string
			f, n int
		}{{"buffer", 0, 0}, {"reader", 0, 0}, {"mp", 1, 0}, {"mp", 0, 1}, {"mp", 1, 1}, {"mp", 0, 2}, {"mp", 1, 2}} {
			for _, auth := range []string{"none", "ok", "read"} {
				for si, sc := range [][2]string{{"ws", "runtime"}, {"wss", "operation"}, {"wss", "runtime"}, {"ws", "operation"}} {
					scr := baseScript(pay.p, pay.f, pay.n, n%2 == 0, auth, "all", "none")
					scr["tfault"] = "before"
					s := scriptOf(drv.Norm(scr))
					lat := timingLattice(s)
					r := render{mode: []string{"rt", "wire"}[(n+si)%2], tm: renderTiming(s, lat[n%len(lat)], 250), fileLen: []int{700, 700},
						srcOff: []int{0, 0}, chunk: 4096, unit: 8, rchunk: 4096, scheme: sc[0], schAt: sc[1]}
					descs = append(descs, descriptor(scr, r))
					n++
				}
			}
		}
		c.Extra["unsupported_scheme"] = n
	}

	// (2d) the reader copies the body into a destination that fails after one unit (io.Copy / WriterTo)
	{
		n := 0
		for _, srv := range []M{{"kind": "none", "at": "none", "k": 0}, {"kind": "close", "at": "body", "k": 0}, {"kind": "trunc", "at": "body", "k": 1}, {"kind": "stall", "at": "body", "k": 1}} {
			for _, reuse := range []bool{true, false} {
				for _, mode := range []string{"rt", "wire"} {
					for _, unit := range []int{8, 5000} {
						scr := baseScript("buffer", 0, 0, reuse, "none", "w1", "none")
						scr["srv"] = srv
						s := scriptOf(drv.Norm(scr))
						lat := timingLattice(s)
						body := fileData(9, respUnits*unit)
						r := render{mode: mode, tm: renderTiming(s, lat[n%len(lat)], 300), fileLen: []int{700, 700}, srcOff: []int{0, 0},
							chunk: 4096, unit: unit, rchunk: []int{4096, 3}[n%2], srvOff: srvOffBytes(drv.Str(srv["at"]), drv.Int(srv["k"]), unit, 0, body)}
						descs = append(descs, descriptor(scr, r))
						n++
					}
				}
			}
		}
		c.Extra["failing_destination"] = n
	}

	// (3) seeded random scripts (up to two faults) with random concrete renderings
	nrand := 300
	if thorough {
		nrand = 3000
	}
	for i := 0; i < nrand; i++ {
		descs = append(descs, randomRender(randomScript(c.Rng), c.Rng))
	}

	// execute in parallel (stalled calls wait for their deadline), then emit in order
	par := 8
	if thorough {
		par = 16 // most of the time is spent waiting for deadlines of stalled calls
	}
	if v, err := strconv.Atoi(os.Getenv("VERIF_C12_PAR")); err == nil && v > 0 {
		par = v
	}
	jobs := make(chan M)
	var wg sync.WaitGroup
	for w := 0; w < par; w++ {
		wg.Add(1)
		go func() {
			defer wg.Done()
			for d := range jobs {
				k := key(d)
				cacheMu.Lock()
				_, dup := cache[k]
				cacheMu.Unlock()
				if dup {
					continue
				}
				r := runCall(drv.Norm(d))
				cacheMu.Lock()
				cache[k] = r
				cacheMu.Unlock()
			}
		}()
	}
	for _, d := range descs {
		jobs <- d
	}
	close(jobs)
	wg.Wait()
	for _, d := range descs {
		c.Case(d)
	}
	c.Extra["call_cases"] = len(descs)

	// (4) KeepAliveTransport body: Read-size sequences then Close
	generateDrain(c, thorough)

	// (5) real transport, connection reuse, the end of the response body arrives late: sequential calls on one Runtime
	generateReuseSeq(c, thorough)
}
