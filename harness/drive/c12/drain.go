package c12

import (
	"bytes"
	"io"
	"net/http"

	"github.com/go-openapi/runtime/client"

	"verifharness/internal/drv"
)

// ubody is the underlying response body below KeepAliveTransport's wrapper.
type ubody struct {
	data        []byte
	chunk       int
	eofWithData bool
	failAt      int // -1: none
	pos         int
	term        bool
	closes      int
	termAtClose bool
	unread      int
	lastN       int
	lastErr     error
}

func (u *ubody) Read(p []byte) (n int, err error) {
	defer func() {
		u.lastN, u.lastErr = n, err
		if err != nil {
			u.term = true
		}
	}()
	stop := len(u.data)
	if u.failAt >= 0 {
		stop = u.failAt
	}
	if u.pos >= stop {
		if u.failAt >= 0 {
			return 0, errReset
		}
		return 0, io.EOF
	}
	if len(p) == 0 {
		return 0, nil
	}
	n = len(p)
	if n > u.chunk {
		n = u.chunk
	}
	if n > stop-u.pos {
		n = stop - u.pos
	}
	copy(p, u.data[u.pos:u.pos+n])
	u.pos += n
	if u.pos == stop && u.failAt < 0 && u.eofWithData {
		return n, io.EOF
	}
	return n, nil
}

func (u *ubody) Close() error {
	if u.closes == 0 {
		u.termAtClose = u.term
		u.unread = len(u.data) - u.pos
	}
	u.closes++
	return nil
}

type fixedRT struct{ body io.ReadCloser }

func (f fixedRT) RoundTrip(req *http.Request) (*http.Response, error) {
	return &http.Response{StatusCode: 200, Status: "200 OK", Header: http.Header{}, Body: f.body, Request: req}, nil
}

func errName(err error) string {
	switch err {
	case nil:
		return "nil"
	case io.EOF:
		return "eof"
	}
	return "err"
}

func execDrain(c *drv.Ctx, d M) bool {
	n := drv.Int(d["len"])
	u := &ubody{data: fileData(5, n), chunk: drv.Int(d["chunk"]), eofWithData: drv.Bool(d["eof_with_data"]), failAt: drv.Int(d["fail_at"])}
	req, _ := http.NewRequest(http.MethodGet, "http://verif.invalid/", nil)
	resp, err := client.KeepAliveTransport(fixedRT{body: u}).RoundTrip(req)
	if err != nil || resp == nil {
		c.W.Event("close", M{"closes": -1, "term_before_close": false, "unread": -1, "panic": true})
		return true
	}
	body := resp.Body
	pos := 0
	for _, sz := range drv.List(d["reads"]) {
		size := drv.Int(sz)
		buf := make([]byte, size)
		var (
			rn       int
			rerr     error
			panicked bool
		)
		func() {
			defer func() {
				if r := recover(); r != nil {
					panicked = true
				}
			}()
			rn, rerr = body.Read(buf)
		}()
		same := rn >= 0 && rn <= size && pos+rn <= n && bytes.Equal(buf[:rn], u.data[pos:pos+rn]) && rn == u.lastN && rerr == u.lastErr
		if rn > 0 {
			pos += rn
		}
		c.W.Event("read", M{"req": size, "n": rn, "err": errName(rerr), "same": same, "panic": panicked})
	}
	panicked := false
	func() {
		defer func() {
			if r := recover(); r != nil {
				panicked = true
			}
		}()
		_ = body.Close()
	}()
	c.W.Event("close", M{"closes": u.closes, "term_before_close": u.termAtClose, "unread": u.unread, "panic": panicked})
	return true
}

func generateDrain(c *drv.Ctx, thorough bool) {
	sizes := []int{0, 1, 4, 100}
	var seqs [][]int
	var rec func(prefix []int, depth int)
	rec = func(prefix []int, depth int) {
		seqs = append(seqs, append([]int{}, prefix...))
		if depth == 0 {
			return
		}
		for _, s := range sizes {
			rec(append(prefix, s), depth-1)
		}
	}
	depth := 3
	if thorough {
		depth = 4
	}
	rec(nil, depth)
	n := 0
	for _, ln := range []int{0, 1, 5, 10} {
		for _, chunk := range []int{1, 4, 100} {
			for _, ewd := range []bool{false, true} {
				for _, fail := range []int{-1, 0, 3} {
					if fail > ln {
						continue
					}
					for _, seq := range seqs {
						c.Case(M{"kind": "drain", "len": ln, "chunk": chunk, "eof_with_data": ewd, "fail_at": fail, "reads": seq})
						n++
					}
				}
			}
		}
	}
	nrand := 500
	if thorough {
		nrand = 5000
	}
	for i := 0; i < nrand; i++ {
		ln := c.Rng.Intn(100000)
		fail := -1
		if c.Rng.Intn(4) == 0 {
			fail = c.Rng.Intn(ln + 1)
		}
		var seq []int
		for k := c.Rng.Intn(9); k > 0; k-- {
			switch c.Rng.Intn(4) {
			case 0:
				seq = append(seq, 0)
			case 1:
				seq = append(seq, 1+c.Rng.Intn(16))
			default:
				seq = append(seq, c.Rng.Intn(70000))
			}
		}
		if seq == nil {
			seq = []int{}
		}
		c.Case(M{"kind": "drain", "len": ln, "chunk": 1 + c.Rng.Intn(40000), "eof_with_data": c.Rng.Intn(2) == 0, "fail_at": fail, "reads": seq})
		n++
	}
	c.Extra["drain_cases"] = n
}
