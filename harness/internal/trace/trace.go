// Package trace writes ndjson traces that the TLC Json module can read:
// no null, no floats, 32-bit integers, ASCII-only strings.
package trace

import (
	"bufio"
	"bytes"
	"encoding/json"
	"fmt"
	"io"
	"os"
)

// M is one trace line.
type M = map[string]any

// Writer writes a trace file.
type Writer struct {
	f     *os.File
	w     *bufio.Writer
	Lines int
	Cases int
}

func Create(path string) (*Writer, error) {
	f, err := os.Create(path)
	if err != nil {
		return nil, err
	}
	return &Writer{f: f, w: bufio.NewWriterSize(f, 1<<20)}, nil
}

// NewTo writes a trace to an arbitrary stream (used by isolated worker processes).
func NewTo(w io.Writer) *Writer {
	return &Writer{w: bufio.NewWriterSize(w, 1<<16)}
}

// Flush flushes buffered lines.
func (t *Writer) Flush() error { return t.w.Flush() }

// Raw appends one already-encoded line (produced by a worker's Writer, hence already checked).
func (t *Writer) Raw(line []byte) {
	t.w.Write(line)
	t.w.WriteByte('\n')
	t.Lines++
}

func (t *Writer) Close() error {
	if err := t.w.Flush(); err != nil {
		return err
	}
	if t.f == nil {
		return nil
	}
	return t.f.Close()
}

// Reset starts a new case. cfg is the case descriptor; it must be sufficient
// to re-execute the case (replay).
func (t *Writer) Reset(caseID string, cfg M) {
	m := M{}
	for k, v := range cfg {
		m[k] = v
	}
	m["ev"] = "reset"
	m["case"] = caseID
	t.Cases++
	t.line(m)
}

// Event appends one event to the current case.
func (t *Writer) Event(ev string, fields M) {
	m := M{}
	for k, v := range fields {
		m[k] = v
	}
	m["ev"] = ev
	t.line(m)
}

func (t *Writer) line(m M) {
	b, err := json.Marshal(m)
	if err != nil {
		panic(fmt.Sprintf("trace: marshal: %v", err))
	}
	if err := Check(b); err != nil {
		panic(fmt.Sprintf("trace: %v in %s", err, b))
	}
	t.w.Write(b)
	t.w.WriteByte('\n')
	t.Lines++
}

// Check enforces the constraints of the TLC Json module on one line.
func Check(b []byte) error {
	for _, c := range b {
		if c >= 0x80 {
			return fmt.Errorf("non-ASCII byte")
		}
	}
	dec := json.NewDecoder(bytes.NewReader(b))
	dec.UseNumber()
	var v any
	if err := dec.Decode(&v); err != nil {
		return err
	}
	return walk(v)
}

func walk(v any) error {
	switch x := v.(type) {
	case nil:
		return fmt.Errorf("null value")
	case json.Number:
		n, err := x.Int64()
		if err != nil {
			return fmt.Errorf("non-integer number %s", x)
		}
		if n > 2147483647 || n < -2147483648 {
			return fmt.Errorf("integer %d exceeds 32 bits", n)
		}
	case []any:
		for _, e := range x {
			if err := walk(e); err != nil {
				return err
			}
		}
	case map[string]any:
		for _, e := range x {
			if err := walk(e); err != nil {
				return err
			}
		}
	}
	return nil
}

// B renders a byte string as a sequence of small integers.
func B(s string) []int {
	out := make([]int, len(s))
	for i := 0; i < len(s); i++ {
		out[i] = int(s[i])
	}
	return out
}

// BB renders a list of byte strings.
func BB(ss []string) [][]int {
	out := make([][]int, len(ss))
	for i, s := range ss {
		out[i] = B(s)
	}
	return out
}

// S is an always-non-nil string slice.
func S(ss []string) []string {
	if ss == nil {
		return []string{}
	}
	return ss
}

// Str decodes a []int / []any byte sequence (as read back from JSON) to a string.
func Str(v any) string {
	switch x := v.(type) {
	case []int:
		b := make([]byte, len(x))
		for i, c := range x {
			b[i] = byte(c)
		}
		return string(b)
	case []any:
		b := make([]byte, len(x))
		for i, c := range x {
			switch n := c.(type) {
			case float64:
				b[i] = byte(n)
			case json.Number:
				k, _ := n.Int64()
				b[i] = byte(k)
			case int:
				b[i] = byte(n)
			}
		}
		return string(b)
	case string:
		return x
	}
	panic(fmt.Sprintf("trace.Str: unexpected %T", v))
}
