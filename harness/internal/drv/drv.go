// Package drv is the common driver frame: a driver generates case descriptors
// and executes them against the real code, emitting events.
package drv

import (
	"bufio"
	"bytes"
	"crypto/sha256"
	"encoding/hex"
	"encoding/json"
	"flag"
	"fmt"
	"math/rand"
	"os"
	"os/exec"
	"sort"

	"verifharness/internal/trace"
)

type M = trace.M

// Ctx is what a driver sees.
type Ctx struct {
	Tier    string
	Seed    int64
	Rng     *rand.Rand
	Scripts string // path of a TLC-exported script file, if any
	W       *trace.Writer

	execFn   func(c *Ctx, desc M) bool
	iso      *isolated // non-nil: cases are executed in a worker process (a crash of the code under test becomes an event)
	prefix   string
	seen     map[string]struct{}
	nontriv  int
	evals    int
	samples  []M
	Extra    M
	MaxCases int
}

// Case runs one case: writes the reset line, executes, counts.
func (c *Ctx) Case(desc M) {
	if c.iso != nil && c.iso.crashes >= maxCrashes {
		return // the code under test keeps killing the worker: the verdict is certain, stop spending minutes per crash
	}
	c.evals++
	id := fmt.Sprintf("%s-%d", c.prefix, c.evals)
	desc = Norm(desc)
	c.W.Reset(id, desc)
	var nontrivial bool
	if c.iso != nil {
		nontrivial = c.iso.run(c, desc)
	} else {
		nontrivial = c.execFn(c, desc)
	}
	if nontrivial {
		b, _ := json.Marshal(desc)
		h := sha256.Sum256(b)
		k := hex.EncodeToString(h[:12])
		if _, ok := c.seen[k]; !ok {
			c.seen[k] = struct{}{}
			c.nontriv++
		}
	}
	if len(c.samples) < 3 || (c.evals%997 == 0 && len(c.samples) < 6) {
		c.samples = append(c.samples, desc)
	}
}

// Driver is one property's driver.
type Driver struct {
	Name string
	// Generate enumerates case descriptors and calls c.Case for each.
	Generate func(c *Ctx)
	// Execute runs one case on the real code, emitting events with c.W.Event;
	// it returns whether the case is non-trivial by the property's rule.
	Execute func(c *Ctx, desc M) bool
}

var registry = map[string]*Driver{}

func Register(d *Driver) { registry[d.Name] = d }

// Main is the entry point of the drive binary.
func Main() {
	prop := flag.String("prop", "", "driver name (c01..c20)")
	tier := flag.String("tier", "quick", "quick|thorough")
	seed := flag.Int64("seed", 1, "seed")
	out := flag.String("out", "trace.ndjson", "trace output")
	stats := flag.String("stats", "", "stats output (json)")
	scripts := flag.String("scripts", "", "TLC-exported scripts")
	replay := flag.String("replay", "", "re-execute the cases (reset lines) of this ndjson file")
	isolate := flag.Bool("isolate", false, "execute the cases in a worker process; if the code under test kills it, a crash event is recorded")
	worker := flag.Bool("worker", false, "internal: worker process of -isolate")
	flag.Parse()
	d, ok := registry[*prop]
	if !ok {
		names := []string{}
		for k := range registry {
			names = append(names, k)
		}
		sort.Strings(names)
		fmt.Fprintf(os.Stderr, "unknown driver %q; have %v\n", *prop, names)
		os.Exit(2)
	}
	if *worker {
		workerMain(d, *tier, *seed)
		return
	}
	w, err := trace.Create(*out)
	if err != nil {
		fmt.Fprintln(os.Stderr, err)
		os.Exit(2)
	}
	c := &Ctx{Tier: *tier, Seed: *seed, Rng: rand.New(rand.NewSource(*seed)), Scripts: *scripts, W: w,
		execFn: d.Execute, prefix: d.Name, seen: map[string]struct{}{}, Extra: M{}}
	if *isolate {
		c.iso = &isolated{args: []string{"-worker", "-prop", *prop, "-tier", *tier, "-seed", fmt.Sprint(*seed)}}
		defer c.iso.stop()
	}
	if *replay != "" {
		f, err := os.Open(*replay)
		if err != nil {
			fmt.Fprintln(os.Stderr, err)
			os.Exit(2)
		}
		sc := bufio.NewScanner(f)
		sc.Buffer(make([]byte, 1<<20), 1<<28)
		for sc.Scan() {
			var m M
			if err := json.Unmarshal(sc.Bytes(), &m); err != nil {
				continue
			}
			if m["ev"] != "reset" {
				continue
			}
			delete(m, "ev")
			delete(m, "case")
			c.Case(m)
		}
		f.Close()
	} else {
		d.Generate(c)
	}
	if err := w.Close(); err != nil {
		fmt.Fprintln(os.Stderr, err)
		os.Exit(2)
	}
	if c.iso != nil {
		c.Extra["worker_crashes"] = c.iso.crashes
		c.iso.stop()
	}
	if *stats != "" {
		st := M{"evaluations": c.evals, "distinct_nontrivial": c.nontriv, "samples": c.samples,
			"lines": w.Lines, "cases": w.Cases, "extra": c.Extra}
		b, _ := json.MarshalIndent(st, "", " ")
		if err := os.WriteFile(*stats, b, 0o644); err != nil {
			fmt.Fprintln(os.Stderr, err)
			os.Exit(2)
		}
	}
}

// Helpers to read descriptors back (replay) regardless of numeric decoding.

func Int(v any) int {
	switch x := v.(type) {
	case int:
		return x
	case int64:
		return int(x)
	case float64:
		return int(x)
	case json.Number:
		n, _ := x.Int64()
		return int(n)
	}
	panic(fmt.Sprintf("drv.Int: %T", v))
}

func List(v any) []any {
	switch x := v.(type) {
	case []any:
		return x
	case []M:
		out := make([]any, len(x))
		for i := range x {
			out[i] = x[i]
		}
		return out
	case []string:
		out := make([]any, len(x))
		for i := range x {
			out[i] = x[i]
		}
		return out
	case []int:
		out := make([]any, len(x))
		for i := range x {
			out[i] = x[i]
		}
		return out
	case [][]int:
		out := make([]any, len(x))
		for i := range x {
			out[i] = x[i]
		}
		return out
	case nil:
		return nil
	}
	panic(fmt.Sprintf("drv.List: %T", v))
}

func Map(v any) M {
	switch x := v.(type) {
	case M:
		return x
	}
	panic(fmt.Sprintf("drv.Map: %T", v))
}

func Bool(v any) bool { b, _ := v.(bool); return b }

func Str(v any) string { s, _ := v.(string); return s }

// Norm round-trips a descriptor through JSON so generated and replayed
// descriptors have identical dynamic types.
func Norm(desc M) M {
	b, err := json.Marshal(desc)
	if err != nil {
		panic(err)
	}
	var m M
	if err := json.Unmarshal(b, &m); err != nil {
		panic(err)
	}
	return m
}

// ---- isolated execution ------------------------------------------------------
// The parent generates the cases and writes the trace; a worker process executes them on the
// real code and streams its events back on fd 3. If the code under test kills the worker
// (fatal error: stack overflow, concurrent map writes, unrecovered panic in a goroutine ...),
// the parent records a "crash" event for the running case - an observation no spec accepts -
// and carries on with a fresh worker.

const maxCrashes = 12

type isolated struct {
	args    []string
	cmd     *exec.Cmd
	stdin   *bufio.Writer
	stdinC  interface{ Close() error }
	results *bufio.Reader
	crashes int
}

func (i *isolated) start() error {
	pr, pw, err := os.Pipe()
	if err != nil {
		return err
	}
	cmd := exec.Command(os.Args[0], i.args...)
	cmd.Stdout, cmd.Stderr = os.Stderr, os.Stderr
	cmd.ExtraFiles = []*os.File{pw}
	in, err := cmd.StdinPipe()
	if err != nil {
		return err
	}
	if err := cmd.Start(); err != nil {
		return err
	}
	pw.Close()
	i.cmd, i.stdin, i.stdinC, i.results = cmd, bufio.NewWriter(in), in, bufio.NewReaderSize(pr, 1<<20)
	return nil
}

func (i *isolated) stop() {
	if i.cmd == nil {
		return
	}
	i.stdinC.Close()
	_ = i.cmd.Wait()
	i.cmd = nil
}

func (i *isolated) run(c *Ctx, desc M) bool {
	if i.cmd == nil {
		if err := i.start(); err != nil {
			fmt.Fprintln(os.Stderr, "isolate: cannot start worker:", err)
			os.Exit(2)
		}
	}
	b, _ := json.Marshal(desc)
	i.stdin.Write(b)
	i.stdin.WriteByte('\n')
	i.stdin.Flush()
	for {
		line, err := i.results.ReadBytes('\n')
		if err != nil {
			// the worker died while executing this case
			_ = i.cmd.Wait()
			i.cmd = nil
			i.crashes++
			c.W.Event("crash", M{})
			return true
		}
		line = bytes.TrimRight(line, "\n")
		if bytes.HasPrefix(line, []byte("#done")) {
			return bytes.HasSuffix(line, []byte("1"))
		}
		if len(line) > 0 {
			c.W.Raw(line)
		}
	}
}

func workerMain(d *Driver, tier string, seed int64) {
	res := os.NewFile(3, "results")
	w := trace.NewTo(res)
	c := &Ctx{Tier: tier, Seed: seed, Rng: rand.New(rand.NewSource(seed)), W: w, execFn: d.Execute, prefix: d.Name,
		seen: map[string]struct{}{}, Extra: M{}}
	sc := bufio.NewScanner(os.Stdin)
	sc.Buffer(make([]byte, 1<<20), 1<<28)
	for sc.Scan() {
		var m M
		if err := json.Unmarshal(sc.Bytes(), &m); err != nil {
			fmt.Fprintln(os.Stderr, "worker: bad descriptor:", err)
			os.Exit(2)
		}
		nt := d.Execute(c, m)
		w.Flush()
		if nt {
			fmt.Fprintln(res, "#done 1")
		} else {
			fmt.Fprintln(res, "#done 0")
		}
	}
}
