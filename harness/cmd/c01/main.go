package main

import (
	_ "verifharness/drive/c01"
	"verifharness/internal/drv"
)

func main() { drv.Main() }
