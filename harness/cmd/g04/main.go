package main

import (
	_ "verifharness/drive/g04"
	"verifharness/internal/drv"
)

func main() { drv.Main() }
