package main

import (
	_ "verifharness/drive/c03"
	"verifharness/internal/drv"
)

func main() { drv.Main() }
