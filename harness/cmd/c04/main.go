package main

import (
	_ "verifharness/drive/c04"
	"verifharness/internal/drv"
)

func main() { drv.Main() }
