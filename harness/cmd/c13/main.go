package main

import (
	_ "verifharness/drive/c13"
	"verifharness/internal/drv"
)

func main() { drv.Main() }
