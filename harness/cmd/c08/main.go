package main

import (
	_ "verifharness/drive/c08"
	"verifharness/internal/drv"
)

func main() { drv.Main() }
