package main

import (
	_ "verifharness/drive/c19"
	"verifharness/internal/drv"
)

func main() { drv.Main() }
