package main

import (
	_ "verifharness/drive/c16"
	"verifharness/internal/drv"
)

func main() { drv.Main() }
