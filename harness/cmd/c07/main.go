package main

import (
	_ "verifharness/drive/c07"
	"verifharness/internal/drv"
)

func main() { drv.Main() }
