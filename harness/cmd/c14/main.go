package main

import (
	_ "verifharness/drive/c14"
	"verifharness/internal/drv"
)

func main() { drv.Main() }
