package main

import (
	_ "verifharness/drive/c02"
	"verifharness/internal/drv"
)

func main() { drv.Main() }
