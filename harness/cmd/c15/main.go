package main

import (
	_ "verifharness/drive/c15"
	"verifharness/internal/drv"
)

func main() { drv.Main() }
