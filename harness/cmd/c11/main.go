package main

import (
	_ "verifharness/drive/c11"
	"verifharness/internal/drv"
)

func main() { drv.Main() }
