package main

import (
	_ "verifharness/drive/c10"
	"verifharness/internal/drv"
)

func main() { drv.Main() }
