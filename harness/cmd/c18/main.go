package main

import (
	_ "verifharness/drive/c18"
	"verifharness/internal/drv"
)

func main() { drv.Main() }
