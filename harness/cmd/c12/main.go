package main

import (
	_ "verifharness/drive/c12"
	"verifharness/internal/drv"
)

func main() { drv.Main() }
