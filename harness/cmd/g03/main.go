package main

import (
	_ "verifharness/drive/c09"
	"verifharness/internal/drv"
)

func main() { drv.Main() }
