package main

import (
	_ "verifharness/drive/g02"
	"verifharness/internal/drv"
)

func main() { drv.Main() }
