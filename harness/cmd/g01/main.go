package main

import (
	_ "verifharness/drive/g01"
	"verifharness/internal/drv"
)

func main() { drv.Main() }
