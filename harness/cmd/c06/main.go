package main

import (
	_ "verifharness/drive/c06"
	"verifharness/internal/drv"
)

func main() { drv.Main() }
