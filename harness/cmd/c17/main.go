package main

import (
	_ "verifharness/drive/c17"
	"verifharness/internal/drv"
)

func main() { drv.Main() }
