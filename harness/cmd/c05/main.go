package main

import (
	_ "verifharness/drive/c05"
	"verifharness/internal/drv"
)

func main() { drv.Main() }
