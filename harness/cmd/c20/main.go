package main

import (
	_ "verifharness/drive/c20"
	"verifharness/internal/drv"
)

func main() { drv.Main() }
