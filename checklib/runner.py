"""Orchestration of one property check (see ../check)."""
import glob
import json
import os
import re
import shutil
import subprocess
import sys
import time

from props import PROPS

VERIF = os.path.dirname(os.path.dirname(os.path.abspath(__file__)))
SPECS = os.path.join(VERIF, "specs")
HARNESS = os.path.join(VERIF, "harness")
TLA_CP = "/opt/veriftools/tla/tla2tools.jar:/opt/veriftools/tla/CommunityModules-deps.jar"
NCPU = os.cpu_count() or 4

GOENV = dict(GOFLAGS="-mod=mod", GOPROXY="off", GOSUMDB="off", GOTOOLCHAIN="local")


class Infra(Exception):
    """Infrastructure failure: never a verdict."""


def log(*a):
    print("[check]", *a, file=sys.stderr, flush=True)


# --------------------------------------------------------------------------- TLC

def tlc_cmd(module, cfg, workers, metadir, xmx, extra=()):
    # TLC drops a tlc-<n> directory into java.io.tmpdir on every start: keep those inside the run's scratch directory
    return ["java", "-XX:+UseParallelGC", "-Xmx" + xmx, "-Xss256m", "-Djava.io.tmpdir=" + os.path.dirname(metadir), "-cp", TLA_CP, "tlc2.TLC",
            "-workers", str(workers), "-metadir", metadir, "-config", cfg, *extra, module + ".tla"]


RE_STATES = re.compile(r"(\d+) states generated, (\d+) distinct states found")


def parse_tlc(out):
    m = None
    for m in RE_STATES.finditer(out):
        pass
    gen, dist = (int(m.group(1)), int(m.group(2))) if m else (0, 0)
    ok = "Model checking completed. No error has been found." in out
    viol = re.findall(r"Error: (Invariant \S+ is violated|Action property \S+ is violated|Temporal propert(?:y \S+ was|ies were) violated|Deadlock reached)", out)
    return dict(generated=gen, distinct=dist, ok=ok, violated=viol)


# The per-phase time limits only guard against hangs; they were fitted on this machine (also under a load of 100+) and are
# scaled generously so that a slower or busier machine does not turn a healthy run into an infrastructure failure.
TIMEOUT_SCALE = float(os.environ.get("VERIF_TIMEOUT_SCALE", "3"))


def run_tlc(specdir, module, cfg, workers, scratch, tag, timeout, env=None, xmx="12g", extra=()):
    timeout = timeout * TIMEOUT_SCALE
    metadir = os.path.join(scratch, "meta-" + tag)
    e = dict(os.environ)
    e.pop("JAVA_TOOL_OPTIONS", None)
    if env:
        e.update(env)
    t0 = time.time()
    try:
        p = subprocess.run(tlc_cmd(module, cfg, workers, metadir, xmx, extra), cwd=specdir, env=e,
                           stdout=subprocess.PIPE, stderr=subprocess.STDOUT, timeout=timeout, text=True)
    except subprocess.TimeoutExpired:
        raise Infra(f"TLC timeout after {timeout}s on {module}/{cfg}")
    out = p.stdout
    with open(os.path.join(scratch, f"tlc-{tag}.log"), "w") as f:
        f.write(out)
    r = parse_tlc(out)
    r["wall_s"] = round(time.time() - t0, 2)
    r["rc"] = p.returncode
    r["log"] = os.path.join(scratch, f"tlc-{tag}.log")
    return r


def stage_specs(scratch):
    d = os.path.join(scratch, "specs")
    os.makedirs(d)
    for f in glob.glob(os.path.join(SPECS, "*.tla")) + glob.glob(os.path.join(SPECS, "*.cfg")):
        shutil.copy(f, d)
    return d


# --------------------------------------------------------------------------- phases

def phase_mc(prop, tier, specdir, scratch):
    """Exhaustive model checking of the specification (design level); the runs go in parallel."""
    from concurrent.futures import ThreadPoolExecutor
    todo = [(i, mc) for i, mc in enumerate(prop.get("mc", [])) if tier in mc.get("tiers", ["quick", "thorough"])]
    if not todo:
        return 0, 0, []
    nmain = sum(1 for _, mc in todo if not mc.get("expect_violation")) or 1
    side = sum(1 for _, mc in todo if mc.get("expect_violation"))
    main_workers = max(2, (NCPU - min(side, NCPU // 2)) // nmain)

    def one(item):
        i, mc = item
        cfg = mc["cfg"][tier] if isinstance(mc["cfg"], dict) else mc["cfg"]
        to = mc.get("timeout", {}).get(tier, 900) if isinstance(mc.get("timeout"), dict) else mc.get("timeout", 900)
        ev = mc.get("expect_violation")
        workers = mc.get("workers", 2 if ev else main_workers)
        r = run_tlc(specdir, mc["module"], cfg, workers, scratch, f"mc{i}", to,
                    xmx=mc.get("xmx", "3g" if ev else "6g"), extra=mc.get("extra", ()))
        return i, mc, cfg, r

    with ThreadPoolExecutor(max_workers=len(todo)) as ex:
        results = list(ex.map(one, todo))
    total_states = total_trans = 0
    runs = []
    for i, mc, cfg, r in results:
        expect_violation = mc.get("expect_violation")
        if expect_violation:
            # a mutated / as-built variant of the model: it must still produce its counterexample (non-vacuity)
            if not any(expect_violation in v for v in r["violated"]):
                raise Infra(f"mutated model {mc['module']}/{cfg} no longer violates '{expect_violation}' (see {r['log']})")
        else:
            if not r["ok"]:
                raise Infra(f"model checking of {mc['module']}/{cfg} did not complete cleanly: "
                            f"{r['violated'] or 'rc=%d' % r['rc']} (see {r['log']}) - specification bug, not a verdict")
            total_states += r["distinct"]
            total_trans += r["generated"]
        runs.append(dict(module=mc["module"], cfg=cfg, distinct=r["distinct"], generated=r["generated"],
                         wall_s=r["wall_s"], expect_violation=expect_violation or ""))
        log(f"MC {mc['module']}/{cfg}: {r['distinct']} distinct / {r['generated']} generated in {r['wall_s']}s"
            + (f" (mutated model, violates {expect_violation} as expected)" if expect_violation else ""))
    return total_states, total_trans, runs


def phase_gen(prop, tier, specdir, scratch):
    """TLC exports behaviours / scripts of the specification for replay (TG)."""
    gens = prop.get("gen")
    if not gens:
        return None
    if isinstance(gens, dict):
        gens = [gens]
    out = os.path.join(scratch, "scripts.ndjson")
    total = 0
    with open(out, "w") as allf:
        for i, g in enumerate(gens):
            if tier not in g.get("tiers", ["quick", "thorough"]):
                continue
            part = os.path.join(scratch, f"scripts{i}.ndjson")
            cfg = g["cfg"][tier] if isinstance(g["cfg"], dict) else g["cfg"]
            r = run_tlc(specdir, g["module"], cfg, g.get("workers", 1), scratch, f"gen{i}", g.get("timeout", 900),
                        env={"OUT_FILE": part}, xmx=g.get("xmx", "6g"), extra=g.get("extra", ()))
            if not r["ok"] or not os.path.exists(part) or os.path.getsize(part) == 0:
                raise Infra(f"script export {g['module']}/{cfg} failed (see {r['log']})")
            n = 0
            for line in open(part):
                if line.strip():
                    allf.write(line if line.endswith("\n") else line + "\n")
                    n += 1
            total += n
            log(f"TG {g['module']}/{cfg}: {n} scripts exported in {r['wall_s']}s")
    if total == 0:
        raise Infra("script export is empty")
    return out


REPO = os.environ.get("VERIF_REPO", "/repo")  # a scratch worktree can be checked without touching /repo


def build_driver(prop, scratch):
    # a per-run modfile points the harness at the tree under test (always rebuilt from its working tree)
    gomod = open(os.path.join(HARNESS, "go.mod")).read().replace("=> /repo", "=> " + REPO)
    modfile = os.path.join(scratch, "go.mod")
    with open(modfile, "w") as f:
        f.write(gomod)
    shutil.copy(os.path.join(REPO, "go.sum"), os.path.join(scratch, "go.sum"))
    exe = os.path.join(scratch, "drive")
    cmd = ["go", "build", "-modfile", modfile, "-tags", "verif"]
    if prop.get("race"):
        cmd.append("-race")
    cmd += ["-o", exe, "./cmd/" + prop["driver"]]
    e = dict(os.environ)
    e.update(GOENV)
    t0 = time.time()
    p = subprocess.run(cmd, cwd=HARNESS, env=e, stdout=subprocess.PIPE, stderr=subprocess.STDOUT, text=True)
    if p.returncode != 0:
        raise Infra("driver build failed (does /repo still compile?):\n" + p.stdout[-4000:])
    log(f"driver built in {time.time() - t0:.1f}s" + (" (-race)" if prop.get("race") else ""))
    return exe


def phase_drive(prop, exe, tier, seed, scripts, replay, scratch):
    trace = os.path.join(scratch, "trace.ndjson")
    stats = os.path.join(scratch, "stats.json")
    cmd = [exe, "-prop", prop["driver"], "-tier", tier, "-seed", str(seed), "-out", trace, "-stats", stats]
    if prop.get("isolate"):
        cmd += ["-isolate"]
    if scripts:
        cmd += ["-scripts", scripts]
    if replay:
        cmd += ["-replay", replay]
    e = dict(os.environ)
    racelog = os.path.join(scratch, "race")
    if prop.get("race"):
        e["GORACE"] = f"halt_on_error=0 log_path={racelog}"
    e["VERIF_SCRATCH"] = scratch
    t0 = time.time()
    try:
        p = subprocess.run(cmd, cwd=scratch, env=e, stdout=subprocess.PIPE, stderr=subprocess.STDOUT, text=True,
                           timeout=prop.get("drive_timeout", {}).get(tier, 1500) * TIMEOUT_SCALE)
    except subprocess.TimeoutExpired:
        raise Infra("driver timed out")
    with open(os.path.join(scratch, "drive.log"), "w") as f:
        f.write(p.stdout)
    if p.returncode != 0 and not (prop.get("race") and p.returncode == 66):
        raise Infra(f"driver exited {p.returncode}:\n{p.stdout[-4000:]}")
    if not os.path.exists(stats):
        raise Infra("driver wrote no stats")
    st = json.load(open(stats))
    if prop.get("race"):
        # the race detector is an observer: its reports become one trace event
        reports = 0
        for f in glob.glob(racelog + ".*"):
            reports += open(f, errors="replace").read().count("WARNING: DATA RACE")
        with open(trace, "a") as f:
            f.write(json.dumps({"ev": "reset", "case": prop["driver"] + "-race", "kind": "race"}, separators=(",", ":")) + "\n")
            f.write(json.dumps({"ev": "race", "reports": reports}, separators=(",", ":")) + "\n")
        st["lines"] += 2
        st["cases"] += 1
        st.setdefault("extra", {})["race_reports"] = reports
    log(f"driver: {st['evaluations']} cases, {st['lines']} trace lines in {time.time() - t0:.1f}s")
    if st["evaluations"] == 0 or st["lines"] == 0:
        raise Infra("driver produced no events")
    return trace, st


def split_trace(trace, scratch, nchunks):
    """Split at case boundaries; returns [(path, first_global_line, nlines)]."""
    lines = open(trace).read().split("\n")
    if lines and lines[-1] == "":
        lines.pop()
    starts = [i for i, s in enumerate(lines) if '"ev":"reset"' in s]
    if not starts or starts[0] != 0:
        raise Infra("trace does not start with a reset line")
    n = len(lines)
    target = max(1, n // nchunks)
    chunks, cur = [], 0
    for s in starts[1:]:
        if s - cur >= target and len(chunks) < nchunks - 1:
            chunks.append((cur, s))
            cur = s
    chunks.append((cur, n))
    out = []
    for k, (a, b) in enumerate(chunks):
        p = os.path.join(scratch, f"chunk{k}.ndjson")
        with open(p, "w") as f:
            f.write("\n".join(lines[a:b]) + "\n")
        out.append((p, a, b - a))
    return out, lines


def phase_tv(prop, specdir, trace, scratch, tier):
    t = prop["trace"]
    chunks, lines = split_trace(trace, scratch, min(NCPU, prop.get("tv_parallel", NCPU)))
    procs = []
    e0 = dict(os.environ)
    e0.pop("JAVA_TOOL_OPTIONS", None)
    t0 = time.time()
    for k, (p, first, n) in enumerate(chunks):
        e = dict(e0)
        e["TRACE_FILE"] = p
        e["OUT_FILE"] = os.path.join(scratch, f"tv{k}.json")
        metadir = os.path.join(scratch, f"meta-tv{k}")
        lf = open(os.path.join(scratch, f"tlc-tv{k}.log"), "w")
        procs.append((subprocess.Popen(tlc_cmd(t["module"], t["cfg"], 1, metadir, prop.get("tv_xmx", "2g")),
                                       cwd=specdir, env=e, stdout=lf, stderr=subprocess.STDOUT), lf, k, first, n, e["OUT_FILE"]))
    fails = []
    consumed = 0
    deadline = t0 + prop.get("tv_timeout", {}).get(tier, 1800) * TIMEOUT_SCALE
    for pr, lf, k, first, n, outf in procs:
        try:
            pr.wait(timeout=max(1, deadline - time.time()))
        except subprocess.TimeoutExpired:
            for q in procs:
                q[0].kill()
            raise Infra("trace validation timed out")
        lf.close()
        if not os.path.exists(outf):
            tail = open(os.path.join(scratch, f"tlc-tv{k}.log")).read()[-3000:]
            raise Infra(f"trace validation chunk {k} produced no result (TLC error):\n{tail}")
        r = json.load(open(outf))
        if r["consumed"] != n:
            raise Infra(f"trace validation chunk {k}: consumed {r['consumed']} of {n} lines")
        consumed += n
        for f in r["fails"]:
            f["line"] = f["line"] + first  # global 1-based line number
            fails.append(f)
    log(f"TV {t['module']}: {consumed} lines in {len(chunks)} chunks, {len(fails)} rejected events, {time.time() - t0:.1f}s")
    return consumed, fails, lines


# --------------------------------------------------------------------------- classification

def load_findings(pid):
    p = os.path.join(VERIF, "known_findings.json")
    if not os.path.exists(p):
        return []
    return [f for f in json.load(open(p))["findings"] if f["property"] == pid and f["status"] == "open"]


def finding_matches(f, reset, event, why):
    try:
        return bool(eval(f["match"], {"__builtins__": {"len": len, "any": any, "all": all, "str": str, "bytes": bytes,
                                                       "set": set, "min": min, "max": max, "sum": sum, "range": range}},
                         {"r": reset, "e": event, "why": why}))
    except Exception:
        return False


def case_lines(lines, fail_line):
    """(reset index, end index) of the case containing 1-based line fail_line."""
    i = fail_line - 1
    a = i
    while a > 0 and '"ev":"reset"' not in lines[a]:
        a -= 1
    b = i + 1
    while b < len(lines) and '"ev":"reset"' not in lines[b]:
        b += 1
    return a, b


def classify(pid, fails, lines):
    findings = load_findings(pid)
    known_hit = {}
    violations = {}
    for f in fails:
        a, b = case_lines(lines, f["line"])
        reset = json.loads(lines[a])
        event = json.loads(lines[f["line"] - 1])
        hit = None
        for kf in findings:
            if finding_matches(kf, reset, event, f["why"]):
                hit = kf
                break
        if hit:
            known_hit.setdefault(hit["id"], [hit, 0])[1] += 1
        else:
            v = violations.setdefault(f["case"], dict(a=a, b=b, fails=[]))
            v["fails"].append(dict(line=f["line"] - a, why=f["why"], event=event))
    return known_hit, violations


def write_replays(pid, violations, lines, limit=20):
    d = os.path.join(VERIF, "replay", pid)
    os.makedirs(d, exist_ok=True)
    out = []
    for case, v in list(violations.items())[:limit]:
        p = os.path.join(d, case + ".ndjson")
        with open(p, "w") as f:
            f.write("\n".join(lines[v["a"]:v["b"]]) + "\n")
        with open(p + ".why.json", "w") as f:
            json.dump(v["fails"][:20], f, indent=1)
        out.append(p)
    return out


# --------------------------------------------------------------------------- main

def run(pid, tier, seed, replay=None, keep=False, skip_mc=False):
    if replay:
        replay = os.path.abspath(replay)
    if pid not in PROPS:
        print(f"unknown property {pid}", file=sys.stderr)
        return 2
    prop = PROPS[pid]
    t0 = time.time()
    scratch = os.path.join(VERIF, ".scratch", f"{pid}-{tier}-{os.getpid()}")
    shutil.rmtree(scratch, ignore_errors=True)
    os.makedirs(scratch)
    rc = 2
    try:
        specdir = stage_specs(scratch)
        states = trans = 0
        mc_runs = []
        if not replay and not skip_mc:
            states, trans, mc_runs = phase_mc(prop, tier, specdir, scratch)
        scripts = None if replay else phase_gen(prop, tier, specdir, scratch)
        exe = build_driver(prop, scratch)
        trace, st = phase_drive(prop, exe, tier, seed, scripts, replay, scratch)
        consumed, fails, lines = phase_tv(prop, specdir, trace, scratch, tier)
        if consumed != st["lines"]:
            raise Infra(f"validated {consumed} lines but the driver wrote {st['lines']}")
        known_hit, violations = classify(pid, fails, lines)
        for kid, (kf, n) in sorted(known_hit.items()):
            print(f"KNOWN-FINDING: property={pid} {kf['what']} [{kid}; {n} events]")
        failed_cases = set(f["case"] for f in fails)
        paths = write_replays(pid, violations, lines) if violations else []
        for p in paths:
            print(f"VIOLATION property={pid} replay={os.path.relpath(p, VERIF)}")
        if violations and not paths:
            print(f"VIOLATION property={pid} replay=")
        if not replay and not skip_mc and REPO == "/repo":
            samples = st.get("samples") or []
            # keep evidence small
            samples = [json.loads(json.dumps(s)[:4000]) if len(json.dumps(s)) <= 4000 else {"truncated": json.dumps(s)[:1500]} for s in samples[:4]]
            ev_lines = [json.loads(x) for x in lines[1:3] if x]
            cov = dict(states=states, transitions=trans,
                       traces_validated_against_impl=st["cases"] - len(failed_cases),
                       samples=samples + [{"trace_events": ev_lines}] if samples else [{"trace_events": ev_lines}],
                       evaluations=st["evaluations"], distinct_nontrivial=st["distinct_nontrivial"],
                       rule=prop.get("rule", ""), trace_lines=consumed, rejected_events=len(fails),
                       cases_rejected=len(failed_cases), known_findings_hit=sorted(known_hit),
                       mc_runs=mc_runs, driver_extra=st.get("extra", {}),
                       exhaustive=bool(prop.get("exhaustive", False)))
            evd = dict(property_id=pid, tier=tier, seed=seed, level="model_checking", coverage=cov,
                       assumptions=prop.get("assumptions", []), wall_s=round(time.time() - t0, 1),
                       violations=len(violations))
            os.makedirs(os.path.join(VERIF, "evidence"), exist_ok=True)
            with open(os.path.join(VERIF, "evidence", pid + ".json"), "w") as f:
                json.dump(evd, f, indent=1)
        rc = 1 if violations else 0
        log(f"{pid} {tier} seed={seed}: {'VIOLATION' if rc else 'ok'} in {time.time() - t0:.1f}s")
    except Infra as e:
        print(f"[check] INFRASTRUCTURE FAILURE (no verdict): {e}", file=sys.stderr)
        keep = True
        rc = 2
    finally:
        if not keep:
            shutil.rmtree(scratch, ignore_errors=True)
        else:
            if rc == 2:
                # keep the logs of a failed run, not its bulky data
                for f in glob.glob(os.path.join(scratch, "*")):
                    b = os.path.basename(f)
                    if b.startswith(("meta-", "chunk", "specs")) or b in ("drive", "trace.ndjson", "scripts.ndjson") or b.startswith("scripts"):
                        shutil.rmtree(f, ignore_errors=True) if os.path.isdir(f) else os.remove(f)
            log("scratch kept at", scratch)
    return rc
