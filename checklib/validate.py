#!/usr/bin/env python3
"""Validate MANIFEST.json and the evidence files of the checks it lists."""
import glob
import json
import os
import sys

try:
    import jsonschema
except ImportError:
    sys.path.insert(0, glob.glob('/opt/veriftools/pyvenv/lib/python3*/site-packages')[0])
    import jsonschema
m = json.load(open('/verif/MANIFEST.json'))
jsonschema.validate(m, json.load(open('/root/.vp/MANIFEST.schema.json')))
print('manifest valid:', len(m['checks']), 'checks')
sch = json.load(open('/root/.vp/EVIDENCE.schema.json'))
bad = 0
for c in m['checks']:
    f = c['evidence_file']
    if not os.path.exists(f):
        print(f, 'MISSING')
        bad += 1
        continue
    try:
        jsonschema.validate(json.load(open(f)), sch)
        print(f, 'valid')
    except jsonschema.ValidationError as e:
        print(f, 'INVALID:', e.message)
        bad += 1
sys.exit(1 if bad else 0)
