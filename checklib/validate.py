#!/usr/bin/env python3
import json, sys, glob
try:
    import jsonschema
except ImportError:
    sys.path.insert(0, glob.glob('/opt/veriftools/pyvenv/lib/python3*/site-packages')[0])
    import jsonschema
jsonschema.validate(json.load(open('/verif/MANIFEST.json')), json.load(open('/root/.vp/MANIFEST.schema.json')))
print('manifest valid')
sch = json.load(open('/root/.vp/EVIDENCE.schema.json'))
for f in sorted(glob.glob('/verif/evidence/*.json')):
    jsonschema.validate(json.load(open(f)), sch)
    print(f, 'valid')
