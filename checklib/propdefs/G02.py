from common import COMMON_ASSUME

_ASBUILT = [("D41", "absent body: required not enforced / zero value validated"), ("D43", "scalar and untyped body schemas decode into a map"),
            ("D44", "JSON null validated as the zero map / slice"), ("LF", "library: number under untyped schema, uniqueItems by literal")]

PROP = dict(
    module="BodyBind",
    mc=[
        dict(module="MCBodyBind", cfg=dict(quick="MCBodyBind_quick.cfg", thorough="MCBodyBind_thorough.cfg"),
             timeout=dict(quick=600, thorough=3000)),
    ] + [
        dict(module="MCBodyBind", cfg="MCBodyBind_asbuilt_%s.cfg" % n, expect_violation="PropertyHolds", timeout=600)
        for n, _ in _ASBUILT
    ],
    level_text="placeholder",
    level_note="placeholder",
    design_ref="DESIGN.md 6 item 4 (growth); notes/G02.md",
    driver="g02",
    trace=dict(module="TraceBodyBind", cfg="TraceBodyBind.cfg"),
    rule="placeholder",
    exhaustive=True,
    assumptions=COMMON_ASSUME + [],
)
