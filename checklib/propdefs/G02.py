from common import COMMON_ASSUME

# as-built variants of the model that must violate PropertyHolds (non-vacuity; one per defect / finding, see notes/G02.md)
_ASBUILT = [("D41", "absent body: `required` not enforced, the zero value of the target is validated"),
            ("D43", "scalar and untyped body schemas are decoded into a map (never bind; a default panics)"),
            ("D44", "a JSON null body is validated as the empty object / array it decodes into"),
            ("LF", "go-openapi/validate as observed: number under an untyped schema refused, uniqueItems by literal text")]

PROP = dict(
    module="BodyBind",
    mc=[
        dict(module="MCBodyBind", cfg=dict(quick="MCBodyBind_quick.cfg", thorough="MCBodyBind_thorough.cfg"),
             timeout=dict(quick=600, thorough=3000)),
    ] + [
        dict(module="MCBodyBind", cfg="MCBodyBind_asbuilt_%s.cfg" % n, expect_violation="PropertyHolds", timeout=600)
        for n, _ in _ASBUILT
    ],
    level_text="BodyBind.tla gives an abstract grammar of JSON documents (numbers with their literal form, symbolic huge numbers, strings as "
               "code points, objects with duplicate names) and of Swagger 2.0 schemas (type, properties/required/additionalProperties/"
               "min-maxProperties, items/min-maxItems/uniqueItems, min-maxLength/pattern/format, minimum/maximum/exclusive*/multipleOf, enum, "
               "$ref), the declarative relation Valid(S, v) written keyword by keyword from draft 4, an independently structured second "
               "checker Violations(S, v) that also yields the offending paths, a faithful model of untypedParamBinder.Bind `case body` / "
               "UntypedRequestBinder.Bind / HasBody / JSONConsumer (one operator per branch: presence, default, default-on-EOF, target type, "
               "decode errors, validation) and the property Allowed(p, rq, outcome). TLC checks model |= property over schema kind x required x "
               "default x transport x syntax class x document x trailing bytes, checks Valid <=> Violations = {} over a generated family of "
               "schemas x documents and a table of hand-computed verdicts, and validates every request the driver serves through "
               "middleware.NewContext(doc, api, nil).RoutesHandler(nil) (real Swagger documents, real bytes, instrumented consumer and handler) "
               "against Allowed: handler ran iff Valid, exactly the decoded value with number literals intact, else 422 naming the parameter / an "
               "offending field, default / required on a missing body, consumer called at most once, no panic.",
    level_note="bounded exhaustive at model level; the real code is bound by trace validation of the executed requests only; Valid is the oracle "
               "for the external go-openapi/validate library too (its deviations are findings D45-D48); numbers beyond int64 / float64 and "
               "multiples of symbolic huge numbers are allow-both (named deviations)",
    design_ref="DESIGN.md 6 item 4 (growth step); notes/G02.md",
    driver="g02",
    trace=dict(module="TraceBodyBind", cfg="TraceBodyBind.cfg"),
    rule="case = one body parameter declaration (name, required, default, schema tree; optionally next to a required query parameter) rendered "
         "to a Swagger 2.0 document ($ref'd definitions where marked) + up to 120 requests; event = per request: handler ran, status, the value "
         "found in the handler's map abstracted back into the grammar (number literals as bytes, dynamic type), calls of the instrumented "
         "consumer, error entries (code, dotted path), recovered panic. Exhaustive part: 14 schema kinds x required x default x {no body, "
         "Content-Length: 0, empty chunked body, blank bodies; recorder and real TCP server} x 26 documents x {known length, chunked, spaced, "
         "\\u-escaped, trailing blanks / garbage / second document, charset parameter, wire} x 42 non-JSON texts x truncations; 26 leaf schemas "
         "(every keyword) at 4 positions (body, property, items, additionalProperties) x 50 scalar literals incl. boundary values, 1.0 / 1e0 "
         "forms, non-ASCII and astral characters, 2^63 / 1e30 / 2^53+1 / 1e400; 14 array schemas x all arrays of <=2 values of a 15-value pool; "
         "18 object schemas x ~150 objects (also nested, also $ref); a 9-property schema with one valid document, 46 single defects and their "
         "pairs. Seeded part: 500 / 8000 random schemas of depth <=3 with 25 / 40 documents shaped after the schema with 0-40% noise. "
         "Non-trivial: the handler received a value or the request was refused with an error entry; distinct by hash.",
    exhaustive=True,
    assumptions=COMMON_ASSUME + [
        "declared defaults satisfy the declared schema and contain no duplicate names; default numbers are short decimals",
        "pattern and format are exercised with the named patterns (^a, ^[0-9]+$, b, ^.$) and with `date` on texts whose day is 01..28 or that are clearly not dates",
        "bounds, multipleOf and enum members are decimals with at most two fraction digits and magnitude below 10^4; huge numbers are the nine symbolic "
        "literals of BigInfo, whose multiples are not decided (allow-both)",
        "member names and parameter names are ASCII without dots; number formats (int32, float) and property-level defaults are outside the space",
        "whether a text is JSON (syntax classes bad / trunc) is asserted by the generator from curated non-JSON texts and proper prefixes of rendered documents",
    ],
)
