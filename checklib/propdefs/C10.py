from common import COMMON_ASSUME

PROP = dict(
    module="ClientURL",
    mc=[
        dict(module="MCClientURL", cfg=dict(quick="MCClientURL_quick.cfg", thorough="MCClientURL_thorough.cfg"),
             timeout=dict(quick=600, thorough=3000)),
        # the tree as found (finding D17: the substituted string is re-parsed): TLC must find the counterexample
        dict(module="MCClientURL", cfg="MCClientURL_asbuilt.cfg", expect_violation="PathHolds", timeout=300),
        # non-vacuity: realistic mutants of the model must violate
        dict(module="MCClientURL", cfg="MCClientURL_mut_noescape.cfg", expect_violation="PathHolds", timeout=300),
        dict(module="MCClientURL", cfg="MCClientURL_mut_seqfixed.cfg", expect_violation="PathHolds", timeout=300),
        dict(module="MCClientURL", cfg="MCClientURL_mut_revprec.cfg", expect_violation="QueryHolds", timeout=300),
        # a Runtime serves a history of operations: a scheme remembered from the first request must be found
        dict(module="MCClientURL", cfg="MCClientURL_mut_memoscheme.cfg", expect_violation="SchemeHolds", timeout=300),
        # the "set by the caller" snapshot must include what the auth writer set
        dict(module="MCClientURL", cfg="MCClientURL_mut_earlysnapshot.cfg", expect_violation="QueryHolds", timeout=300),
        # every entry point (direct, tracing transports) hands the runtime the operation's own scheme list
        dict(module="MCClientURL", cfg="MCClientURL_mut_otelfirstscheme.cfg", expect_violation="SchemeHolds", timeout=300),
    ],
    level_text="ClientURL transcribes the tail of request.buildHTTP (url.Parse, path.Join, ReplaceAll+PathEscape in map order, "
               "reinstateSlash, re-parse by http.NewRequest, static-query merge) and pickScheme over byte strings, next to C10 stated "
               "on the observed URL (exactly the pattern's segments, each decoding to literal/value, no '?'/'#', trailing slash kept, "
               "query precedence caller>pattern>base, https among several). TLC checks code |= property for all base spellings x patterns "
               "x value maps over a 12-class alphabet x both substitution orders, and validates every URL built by the real "
               "Runtime.CreateHttpRequest (each case built with the parameters set in several orders and repeated, since Go randomises "
               "map iteration) against the property, requiring a single distinct URL per case.",
    level_note="bounded exhaustive at model level; real code bound by trace validation of the executed cases only; url.ParseQuery/"
               "Values.Encode are not modelled (the raw query is decoded by the spec itself)",
    design_ref="DESIGN.md 4.10",
    driver="c10",
    trace=dict(module="TraceClientURL", cfg="TraceClientURL.cfg"),
    rule="case = a history of operations built one after the other on ONE Runtime (base path, host, runtime schemes fixed; per operation: "
         "pattern, value map, caller query, operation schemes), each built under several SetPathParam orders x repetitions; every request "
         "of the history is checked on its own. Histories: all sequences of 2-3 operation scheme lists over a 7-list pool x 3 runtime lists; "
         "template/value/query sequences under every base spelling; every 4th random case continues with 1-4 further random operations. "
         "Auth writers that set query parameters (client.APIKeyAuth in the query as operation AuthInfo and as Runtime.DefaultAuthentication) x "
         "static query parameters of colliding and other names in base path / pattern x the params writer's value (3 840 two-step cases). "
         "Entry points: histories, query/auth, scheme and random cases build every operation through CreateHttpRequest, Submit, "
         "WithOpenTelemetry().Submit and WithOpenTracing().Submit (recording RoundTripper) - one URL for all. "
         "Single-operation part: exhaustive part: 6 base spellings x all patterns of <=2 segments over an 8-segment pool (literals needing "
         "escapes, placeholders, mixed segments) x all values of <=1 (thorough <=2) atoms over a 12-byte class alphabet plus "
         "placeholder-like/dot/escape-like specials; all 3-level query fixings of two keys; all scheme lists <=3 over {http,https,ws} "
         "for runtime and operation; seeded part: random templates with up to 5 segments and hostile/arbitrary-byte values. "
         "Non-trivial: a substituted value needs escaping or is empty/dot, or a query key is fixed at two levels, or several schemes "
         "are offered; distinct by hash of the case.",
    assumptions=COMMON_ASSUME + [
        "path patterns start with '/', contain no percent-escapes, '?'-free/'#'-free literal text, no empty or dot literal segments (path.Join cleans the template by design) and every placeholder has a value",
        "placeholder names are identifier-like ([A-Za-z0-9_.-]) and scheme names are non-empty",
        "the runtime's scheme list, when non-empty, is the offered list (it shadows the operation's)",
    ],
)
