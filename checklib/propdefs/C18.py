from common import COMMON_ASSUME

PROP = dict(
    module="TLSOptions",
    mc=[
        dict(module="MCTLSOptions", cfg=dict(quick="MCTLSOptions_quick.cfg", thorough="MCTLSOptions_thorough.cfg"), timeout=600, workers=6),
        # a mutated Config (InsecureSkipVerify not forced off by a server name) must violate the property: non-vacuity
        dict(module="MCTLSOptions", cfg="MCTLSOptions_asbuilt.cfg", expect_violation="PropertyHolds", timeout=300, workers=2),
    ],
    level_text="TLSOptions transcribes client.TLSClientAuth over the abstract option lattice (certificate file/loaded, key file/loaded "
               "incl. mismatched, unsupported, unreadable and garbage material, CA file/loaded/pool, server name, insecure flag, "
               "callback and session options) next to the declarative property (never below TLS 1.2; verification skipped only when "
               "asked and no server name; exactly the supplied roots, system pool only when none; values carried unchanged; exactly the "
               "supplied client certificate; unusable material is an error) and a handshake sub-model. TLC checks the transcription "
               "against the property and the handshake consequences on all 2 073 600 lattice points; the driver calls TLSClientAuth, "
               "TLSTransport and TLSClient on real, freshly generated key material for every point and runs real handshakes against "
               "five in-process TLS servers; every projection and handshake outcome is validated against the spec.",
    level_note="exhaustive over the abstract lattice (finite); the real code is bound by trace validation on one concrete rendering of "
               "each abstract slot value per run; the system pool is assumed not to contain the freshly generated CAs",
    design_ref="DESIGN.md 4.18",
    driver="c18",
    trace=dict(module="TraceTLSOptions", cfg="TraceTLSOptions.cfg"),
    exhaustive=True,
    rule="case = one point of the option lattice {cert file: none/RSA/EC/unreadable/garbage} x {loaded cert: none/RSA/EC} x {key file: "
         "none/RSA/EC/other/unreadable/garbage} x {loaded key: none/RSA/EC/other RSA/other EC/ed25519} x {CA file: none/ca1/ca2/"
         "unreadable/garbage} x {loaded CA} x {pool: none, ca1, ca2, empty} x server name {none, DNS name, IPv4 literal, IPv6 literal} x insecure x callback x tickets x cache, rendered with key "
         "material generated for the run. quick: the whole material lattice x server name x insecure with the three copy-through "
         "flags rotating, plus all 32 flag combinations on a core sub-lattice; thorough: the full cross product. Handshakes with "
         "5 servers (trusted CA, other CA, wrong name, client certificate required, TLS<=1.1 only) on the error-free points whose "
         "ignored key slots are plain. History cases: configuration from files / loaded material, handshake, the certificate and key files "
         "are replaced by another valid pair / half rotated / removed, new handshakes with the same config and a clone must present "
         "the certificate supplied at configuration time. Non-trivial: any certificate, CA, server-name or insecure option set; distinct by hash.",
    assumptions=COMMON_ASSUME + [
        "crypto/tls, crypto/x509 are the reference for handshakes; the system certificate pool does not contain the CAs generated for the run",
        "documented precedence is part of 'the supplied' material: certificate file before loaded certificate, loaded CA before CA file (an ignored CA file is not read: IgnoredCAFileNotRead), pool combined with either, key slots without a certificate slot are ignored (KeyWithoutCertIgnored)",
        "a garbage CA file contributes no root (empty pool: trust nothing), as the code does; it is not an error",
        "http.Transport derives the server name from the dialled host when none is configured (the handshake harness does the same)",
    ],
)
