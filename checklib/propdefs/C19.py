from common import COMMON_ASSUME

PROP = dict(
    module="APIValidate",
    mc=[
        dict(module="MCAPIValidate", cfg=dict(quick="MCAPIValidate_quick.cfg", thorough="MCAPIValidate_thorough.cfg"),
             timeout=dict(quick=600, thorough=1200)),
        dict(module="MCAPIValidate", cfg=dict(quick="MCAPIValidate_ops2_quick.cfg", thorough="MCAPIValidate_ops2_thorough.cfg"),
             timeout=dict(quick=900, thorough=3000)),
        # one API value over time: histories of registration changes and Validate calls
        dict(module="MCAPIValidateHist", cfg=dict(quick="MCAPIValidateHist_quick.cfg", thorough="MCAPIValidateHist_thorough.cfg"),
             timeout=dict(quick=300, thorough=600)),
        dict(module="MCAPIValidateHist", cfg="MCAPIValidateHist_mutant_memoised.cfg", expect_violation="ValidateIsCurrent", timeout=300),
        dict(module="MCAPIValidate", cfg="MCAPIValidate_mutant_schemebuf.cfg", expect_violation="ServingConsequence", timeout=300),
        dict(module="MCAPIValidate", cfg="MCAPIValidate_mutant_onedir.cfg", expect_violation="ValidateExact", timeout=300),
        dict(module="MCAPIValidate", cfg="MCAPIValidate_mutant_oplists.cfg", expect_violation="ServingConsequence", timeout=300),
    ],
    level_text="APIValidate models the registrations of untyped.API (JSON defaults, lower-cased media types, upper-cased methods), "
               "the analyzer's requirement sets (global and per-operation consumes/produces, operation keys, scheme names of all "
               "requirements), validate()/verify() with its five ordered categories, and AddRoute's request-time tables, next to "
               "the declarative reading of C19 (passes iff every category coincides, else names exactly the missing and superfluous "
               "items of the first failing category; a validated API with clean media types never fails a described request for "
               "lack of a consumer, producer, handler or authenticator). TLC checks model |= property for every description over "
               "small pools x every registration that is exact, minus one, plus one or a case variant, and validates every "
               "Validate() result and every request served by the real middleware.Serve on validated APIs against it.",
    level_note="bounded exhaustive at model level; the real code is bound by trace validation of the executed Validate calls and "
               "served requests only; consumers/producers are stubs that always succeed, each authenticator accepts exactly the "
               "credentials of its own scheme (header X-Cred-<scheme>)",
    design_ref="DESIGN.md 4.19",
    driver="c19",
    trace=dict(module="TraceAPIValidate", cfg="TraceAPIValidate.cfg"),
    rule="case = one API description + a list of registration sets (exact, each single omission, each single addition, case "
         "variants of media types and methods, with and without JSON defaults, random multi-category perturbations); for each "
         "registration Validate() is recorded and, when it passes, every operation is served with every declared Content-Type x "
         "Accept x (for secured operations) one request per security alternative carrying valid credentials for exactly that "
         "alternative; history cases: one API value on which registration changes (Register*, WithJSONDefaults, WithoutJSONDefaults) "
         "are interleaved with Validate calls, each judged against the registrations at that moment. Non-trivial: the case has a passing and a failing registration; distinct by hash of the case.",
    assumptions=COMMON_ASSUME + [
        "the first failing category is taken in the code's order: consumes, produces, operation, auth scheme, security definitions",
        "a requirement naming a scheme without definition (invalid description) is reported under 'security definitions' (named deviation UndefinedSchemeReported)",
        "the serving consequence is claimed for requests the description describes: Content-Type among the operation's consumes iff it "
        "declares a body, Accept among its produces or absent, and the operation has some produces (named deviation "
        "NoMediaTypeNoDefaults: a description without media types served without JSON defaults cannot produce a response body)",
    ],
)
