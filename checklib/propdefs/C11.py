from common import COMMON_ASSUME

PROP = dict(
    module="ClientBody",
    mc=[
        dict(module="MCClientBody", cfg=dict(quick="MCClientBody_quick.cfg", thorough="MCClientBody_thorough.cfg"),
             timeout=dict(quick=600, thorough=3000)),
        # the tree as found (finding D8: zero-padded / short first Read sniffed): TLC must find the counterexample
        dict(module="MCClientBody", cfg="MCClientBody_asbuilt.cfg", expect_violation="BodyHolds", timeout=300),
        # non-vacuity: mutants of the model must violate
        dict(module="MCClientBody", cfg="MCClientBody_mut_nobase.cfg", expect_violation="BodyHolds", timeout=300),
        dict(module="MCClientBody", cfg="MCClientBody_mut_dupfile.cfg", expect_violation="BodyHolds", timeout=300),
        dict(module="MCClientBody", cfg="MCClientBody_mut_bodynotswitched.cfg", expect_violation="AuthHolds", timeout=300),
        dict(module="MCClientBody", cfg="MCClientBody_mut_quotefastpath.cfg", expect_violation="BodyHolds", timeout=300),
        dict(module="MCClientBody", cfg="MCClientBody_mut_latectset.cfg", expect_violation="BodyHolds", timeout=300),
        dict(module="MCClientBody", cfg="MCClientBody_mut_shadowcopyerr.cfg", expect_violation="AuthHolds", timeout=300),
        dict(module="MCClientBody", cfg="MCClientBody_mut_debuglategetbody.cfg", expect_violation="AuthHolds", timeout=300),
        dict(module="MCClientBody", cfg="MCClientBody_mut_rewindseek.cfg", expect_violation="BodyHolds", timeout=300),
        dict(module="MCClientBody", cfg="MCClientBody_mut_defaultupfront.cfg", expect_violation="AuthHolds", timeout=300),
        dict(module="MCClientBody", cfg="MCClientBody_mut_rewindpayload.cfg", expect_violation="AuthHolds", timeout=300),
        # uploads overlapping in time: every interleaving of the writers' sniff / copy steps keeps each part's content;
        # with a sniffing buffer shared between writers TLC finds the corrupting interleaving
        dict(module="MCClientBodyOverlap", cfg="MCClientBodyOverlap.cfg", timeout=300),
        dict(module="MCClientBodyOverlap", cfg="MCClientBodyOverlap_shared.cfg", expect_violation="FullContent", timeout=300),
    ],
    level_text="ClientBody transcribes the body selection of request.buildHTTP (buffer vs pipe, urlencoded form, the multipart goroutine with "
               "filepath.Base, declared-or-sniffed part types and the 512-byte sniffing window, the producer call, mangleContentType) and the "
               "getBody override as a small state machine, next to C11 stated on one observation of what was sent (by payload kind: producer "
               "output / reader bytes / URL-encoded fields / multipart with every value and every file exactly once with field, base name, "
               "full content, declared-or-sniffed type; Content-Type describes it; every GetBody result equals the sent bytes). TLC checks "
               "code |= property over lengths around the window x content classes x first-Read sizes x names x declared types x payload kinds "
               "x media types x 0..3 GetBody calls, and validates every request built/sent by the real client (recording RoundTripper, bodies "
               "parsed back with mime/multipart, contents by SHA-256) against the property.",
    level_note="bounded exhaustive at model level; real code bound by trace validation of the executed cases only; mime, mime/multipart and "
               "http.DetectContentType are reference implementations (the spec's sniff table covers text/binary/png/pdf/gif heads)",
    design_ref="DESIGN.md 4.11",
    driver="c11",
    trace=dict(module="TraceClientBody", cfg="TraceClientBody.cfg"),
    rule="case = one payload (value per registered producer / io.Reader / io.ReadCloser / form fields / files / both) x media type x auth "
         "writer calling GetBody 0..3 times x CreateHttpRequest or Submit, or a batch of such requests overlapping in time (all built before "
         "the first is sent, on one P and on all Ps, or 48 concurrent Submits); exhaustive part: seekable reader payloads (strings.Reader, bytes.Reader, *os.File) handed over past a consumed preamble x GetBody "
         "0/1/3 times x writer placement; the body-inspecting writer as operation AuthInfo, as Runtime.DefaultAuthentication, and both (the operation's is "
         "consulted, never both); value payloads checked against a reference encoding by the same producer instance, incl. a CSV producer "
         "with skipped lines; Runtime.Debug on x auth writers reading the body 0..2 times x streamed/buffered bodies; reader payloads failing "
         "once at offset 0/1/mid/last x GetBody 0..3 times (the call fails or C11 holds in full); seekable uploads (os.File, in-memory seeker) "
         "handed over at offsets 0..600; stream/value payloads x GET/OPTIONS/POST/PUT/"
         "PATCH/DELETE x a Content-Type pre-set by the params writer; file, field and form-key names with backslashes before specials, "
         "doubled and trailing (no quote); one file of every length around the 512-byte "
         "window x 5 content heads x NUL positions x source read sizes (1, 7, 511, 512, 513, all) x declared or not x EOF-with-data; real "
         "*os.File uploads; 15 hostile file names x 7 field names x form fields under multipart and urlencoded; all payload kinds x k; "
         "seeded part: random mixtures up to 9 files of up to 200 kB. Non-trivial: a file part, several form values, a value/reader "
         "payload, or an auth writer that reads the body; distinct by hash of the case.",
    assumptions=COMMON_ASSUME + [
        "operations are well-formed: a body payload and form fields/files are not combined; form fields/files come with the urlencoded or multipart media type; a value payload's media type has a registered producer",
        "file and field names contain no CR/LF/control bytes (not transportable in a MIME header); declared content types are non-empty",
        "upload sources have sticky EOF; a payload reader that fails may fail the call (then nothing is claimed about what was sent)",
    ],
)
