from common import COMMON_ASSUME

PROP = dict(
    module="RoundTrip",
    mc=[
        dict(module="MCRoundTrip", cfg=dict(quick="MCRoundTrip_quick.cfg", thorough="MCRoundTrip_thorough.cfg"),
             timeout=dict(quick=600, thorough=3000)),
        # the exclusions of the statement are necessary: without them TLC finds the counterexamples
        dict(module="MCRoundTrip", cfg="MCRoundTrip_noexclusion.cfg", expect_violation="ExclusionsUnneeded", timeout=300),
        # non-vacuity: asymmetric tables must violate
        dict(module="MCRoundTrip", cfg="MCRoundTrip_mut_plusinpath.cfg", expect_violation="ValuesAgree", timeout=300),
        dict(module="MCRoundTrip", cfg="MCRoundTrip_mut_queryaspath.cfg", expect_violation="ValuesAgree", timeout=300),
        dict(module="MCRoundTrip", cfg="MCRoundTrip_mut_noclean-exclusion.cfg", expect_violation="RoutingAgrees", timeout=300),
    ],
    level_text="RoundTrip carries compact encode / transport / decode tables per parameter location (path: PathEscape -> EscapedPath, "
               "path.Clean, segment match, PathUnescape; query and urlencoded form: QueryEscape -> ParseQuery; header: verbatim -> OWS "
               "trimmed; multipart field, file, body: verbatim) and the response's way back, with C04 stated as: in scope => decode(transport("
               "encode(v))) = v, the called operation is the one reached, and status / header fields / body seen = returned. TLC checks the "
               "tables are inverse for every value of <=3 (thorough <=4) atoms over 17 byte classes incl. / % + space ? # : * { } ; & = . "
               "non-ASCII TAB, every template x placeholder values, every status x header value; and validates every exchange of the real "
               "client.Runtime with an httptest.Server running middleware.Serve on generated API descriptions against the property "
               "(supplied vs received per parameter, returned vs seen).",
    level_note="bounded exhaustive at model level; real code bound by trace validation of the executed exchanges only; JSON values are "
               "compared by canonical re-encoding, file and body contents by SHA-256 (harness abstraction functions)",
    design_ref="DESIGN.md 4.4",
    driver="c04",
    trace=dict(module="TraceRoundTrip", cfg="TraceRoundTrip.cfg"),
    rule="case = generated API (6 operations GET/PUT/POST/DELETE/PATCH over templates with 1-3 placeholders, or a root-level /{a}/{b} API; "
         "base paths /, /api, /api/v1; consumes json / urlencoded / multipart; produces json / text / bytes; secured or not) + one call "
         "with a value for every parameter (path, query scalar/integer/boolean/multi, header, form fields, files, JSON body) + the "
         "response to return (Responder with status, header fields, body, or plain data); exhaustive part: every string parameter of "
         "every operation x every value of <=2 atoms over 17 byte classes; a 43-value hostile list in all locations at once x auth "
         "writers (api key, body-reading signing writer); every status x body size; seeded part: random values, JSON bodies, files up "
         "to 200 kB. Non-trivial: the exchange completed with at least one supplied parameter; distinct by hash of the case.",
    assumptions=COMMON_ASSUME + [
        "no two operations of an API differ only by a literal segment that a supplied path value could equal (literal routes win by design)",
        "integers and booleans are supplied in their canonical text; body parameters are JSON objects or arrays (the untyped binder offers nothing else); array parameters use collectionFormat multi",
        "handlers return final, non-redirect statuses (the client's http.Client follows 3xx); 204/304 carry no body; response header values are transportable",
    ],
)
