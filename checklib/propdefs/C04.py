from common import COMMON_ASSUME

PROP = dict(
    module="RoundTrip",
    mc=[
        dict(module="MCRoundTrip", cfg=dict(quick="MCRoundTrip_quick.cfg", thorough="MCRoundTrip_thorough.cfg"),
             timeout=dict(quick=600, thorough=3000)),
        # the exclusions of the statement are necessary: without them TLC finds the counterexamples
        dict(module="MCRoundTrip", cfg="MCRoundTrip_noexclusion.cfg", expect_violation="ExclusionsUnneeded", timeout=300),
        # non-vacuity: asymmetric tables must violate
        dict(module="MCRoundTrip", cfg="MCRoundTrip_mut_plusinpath.cfg", expect_violation="ValuesAgree", timeout=300),
        dict(module="MCRoundTrip", cfg="MCRoundTrip_mut_queryaspath.cfg", expect_violation="ValuesAgree", timeout=300),
        dict(module="MCRoundTrip", cfg="MCRoundTrip_mut_noclean-exclusion.cfg", expect_violation="RoutingAgrees", timeout=300),
        # history on one server / one upload source: sessions of calls (sibling templates whose decoded paths collide, parameter-free
        # operations called with each of their media types), sources handed over at an offset; the model's memory stays empty
        dict(module="MCRoundTripSession", cfg=dict(quick="MCRoundTripSession_quick.cfg", thorough="MCRoundTripSession_thorough.cfg"),
             timeout=dict(quick=600, thorough=3000)),
        # non-vacuity: implementations that remember something (or rewind the source) must violate
        dict(module="MCRoundTripSession", cfg="MCRoundTripSession_mut_rewind.cfg", expect_violation="UploadAgreesMC", timeout=300),
        dict(module="MCRoundTripSession", cfg="MCRoundTripSession_mut_staticmemo.cfg", expect_violation="SessionAgrees", timeout=300),
        dict(module="MCRoundTripSession", cfg="MCRoundTripSession_mut_decodedkeycache.cfg", expect_violation="SessionAgrees", timeout=300),
        # form fields vs same-named query keys, failing upload sources, bodies delivered in pieces under connection re-use
        dict(module="MCRoundTripSession", cfg="MCRoundTripSession_mut_formfromquery.cfg", expect_violation="FormAgreesMC", timeout=300),
        dict(module="MCRoundTripSession", cfg="MCRoundTripSession_mut_truncateonerror.cfg", expect_violation="UploadAgreesMC", timeout=300),
        dict(module="MCRoundTripSession", cfg="MCRoundTripSession_mut_shortreadeof.cfg", expect_violation="PiecesIntactMC", timeout=300),
        # concurrent requests of one operation: every interleaving of bind / invoke-handler steps; the bound parameters are per request
        dict(module="MCRoundTripConc", cfg=dict(quick="MCRoundTripConc_quick.cfg", thorough="MCRoundTripConc_thorough.cfg"),
             timeout=dict(quick=300, thorough=600)),
        dict(module="MCRoundTripConc", cfg="MCRoundTripConc_mut_sharedbound.cfg", expect_violation="EachGetsItsOwn", timeout=300),
        # path values that spell a sibling placeholder x substitution order; an apiKey that is also a declared parameter; codec tables per Runtime
        dict(module="MCRoundTripConfig", cfg="MCRoundTripConfig.cfg", timeout=300),
        dict(module="MCRoundTripConfig", cfg="MCRoundTripConfig_mut_multipass.cfg", expect_violation="SubstAgreesMC", timeout=300),
        dict(module="MCRoundTripConfig", cfg="MCRoundTripConfig_mut_stripkey.cfg", expect_violation="KeyParamBoundMC", timeout=300),
        dict(module="MCRoundTripConfig", cfg="MCRoundTripConfig_mut_sharedcodecs.cfg", expect_violation="OwnCodecsMC", timeout=300),
        dict(module="MCRoundTripConfig", cfg="MCRoundTripConfig_mut_defaultonempty.cfg", expect_violation="MultiAgreesMC", timeout=300),
    ],
    level_text="RoundTrip carries compact encode / transport / decode tables per parameter location (path: PathEscape -> EscapedPath, "
               "path.Clean, segment match, PathUnescape; query and urlencoded form: QueryEscape -> ParseQuery; header: verbatim -> OWS "
               "trimmed; multipart field, file, body: verbatim) and the response's way back, with C04 stated as: in scope => decode(transport("
               "encode(v))) = v, the called operation is the one reached, and status / header fields / body seen = returned. TLC checks the "
               "tables are inverse for every value of <=3 (thorough <=4) atoms over 17 byte classes incl. / % + space ? # : * { } ; & = . "
               "non-ASCII TAB, every template x placeholder values, every status x header value; and validates every exchange of the real "
               "client.Runtime with an httptest.Server running middleware.Serve on generated API descriptions against the property "
               "(supplied vs received per parameter, returned vs seen). History is a first-class dimension: one server (route lookup, "
               "consumer selection, binding modelled as a state machine whose memory must stay empty) serves sessions of calls - sibling "
               "templates whose request paths coincide once decoded, parameter-free operations called with each media type they consume "
               "(string bodies as JSON or text) - and every call of every session must arrive as supplied and be answered as by a fresh "
               "server; upload sources are [content, offset, seekable, typed] and supply what remains to be read. The driver runs such "
               "sessions through one client.Runtime against one server built for the case, one validated event per call. Further modelled and "
               "driven: form fields are bound from the body alone although the URL's query (static parameters of the base path / pattern) "
               "has same-named keys; upload sources that fail deliver nothing and the caller is told; response bodies delivered in pieces "
               "reach the reader intact with and without connection re-use; concurrent requests of one operation (all interleavings of "
               "bind / invoke in TLC; batches of 8/64 goroutines in the driver) each invoke the handler exactly once with their own values; "
               "placeholders are substituted in one pass (values spelling a sibling placeholder, every visiting order); an apiKey that is "
               "also a declared parameter is bound after authentication; every Runtime has codec tables of its own (another Runtime "
               "customised before / between the session's calls).",
    level_note="bounded exhaustive at model level; real code bound by trace validation of the executed exchanges only; JSON values are "
               "compared by canonical re-encoding, file and body contents by SHA-256 (harness abstraction functions)",
    design_ref="DESIGN.md 4.4",
    driver="c04",
    trace=dict(module="TraceRoundTrip", cfg="TraceRoundTrip.cfg"),
    rule="case = generated API + a session of 1..7 calls through one Runtime to one server (single calls: long-lived shared server; "
         "sessions: a server built for the case). Items API (6 operations GET/PUT/POST/DELETE/PATCH over templates with 1-3 placeholders) "
         "or a root-level /{a}/{b} API; base paths /, /api, /api/v1; consumes json / urlencoded / multipart; produces json / text / bytes; "
         "secured or not; each call with a value for every parameter (path, query scalar/integer/boolean/multi, header, form fields, files, JSON body) + the "
         "response to return (Responder with status, header fields, body, or plain data); exhaustive part: every string parameter of "
         "every operation x every value of <=2 atoms over 17 byte classes; a 43-value hostile list in all locations at once x auth "
         "writers (api key, body-reading signing writer); every status x body size; seeded part: random values, JSON bodies, files up "
         "to 200 kB. "
         "Files API: GET /files/{name}, /files/{dir}/{name}, /files/{dir}/{sub}/{name}; POST and PUT /notes consuming json+text "
         "(string body); POST /forms consuming urlencoded+multipart; POST /uploads. Exhaustive: upload sources reader / in-memory seekable / "
         "*os.File / typed x 11 sizes around the 512-byte sniffing window x offsets {0,1,n/2,n-1,n,512,513}; every media-type sequence "
         "of length 2-3 per parameter-free operation; every ordered pair of calls from a pool of 26 (thorough 36) with colliding decoded "
         "paths; seeded sessions (quick 400, thorough 8000) incl. Runtime.Debug on. Non-trivial: an exchange completed with at least "
         "one supplied parameter; distinct by hash of the case. Also: static query parameters in base path / pattern named like form "
         "fields and query parameters x 7 operations; upload sources failing at {0,1,511,512,513,mid,last} x 3 source kinds x 7 sizes "
         "(alone, as one of two files, between healthy uploads); EnableConnectionReuse on/off x bodies in 1/2/5/40 flushed pieces x sizes "
         "to 100 kB (thorough 1 MB) x 6 operations; concurrent batches: 7 operations x 8/64 goroutines x GOMAXPROCS 1/4/16 x wire / in-"
         "process transport x rendezvous groups (middleware.VerifHook, stage bound) + 8 batches of 4000 (thorough 20000) calls in groups "
         "of 8 on 16 procs, every call with values of its own, events emitted in call order; 8 long batches of 50 000 (thorough 120 000) "
         "calls recorded by lean `call` events (tag sent, tag echoed, invocations filed under the tag). Path values {q}, x{q}y, {q}{q}, "
         "%7Bq%7D for every ordered pair of path parameters of 7 operations, each call 4 times; APIs secured by an apiKey (header / "
         "query, plain / Ctx authenticator) whose key is also a declared (required or optional) parameter x auth writer / signing "
         "writer / parameter alone; 4 customisations of other Runtimes (envelope producers, broken consumers, deleted codecs, swapped "
         "codecs) before the session's Runtime exists and between its calls.",
    assumptions=COMMON_ASSUME + [
        "no two operations of an API differ only by a literal segment that a supplied path value could equal (literal routes win by design)",
        "integers and booleans are supplied in their canonical text; body parameters are JSON objects or arrays, or strings (valid UTF-8) sent as JSON or as non-empty text/plain (text consumer adapted to the untyped binder's interface{} target); array parameters use collectionFormat multi",
        "an upload source supplies what remains to be read from its current position; sibling path templates differ in their number of segments",
        "a call whose upload source fails must fail for the caller (what the server made of the aborted request is not constrained); in concurrent batches a handler invocation is attributed to the call whose (unique) values it carries",
        "handlers return final, non-redirect statuses (the client's http.Client follows 3xx); 204/304 carry no body; response header values are transportable",
    ],
)
