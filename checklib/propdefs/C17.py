from common import COMMON_ASSUME

PROP = dict(
    module="Streams",
    mc=[
        dict(module="MCStreams", cfg=dict(quick="MCStreams_quick.cfg", thorough="MCStreams_thorough.cfg"),
             timeout=dict(quick=600, thorough=3000)),
        dict(module="MCStreams", cfg="MCStreams_asbuilt.cfg", expect_violation="StepsAllowed", timeout=300),
    ],
    gen=dict(module="GenStreams", cfg=dict(quick="GenStreams_quick.cfg", thorough="GenStreams_thorough.cfg"),
             workers=1, timeout=1200),
    level_text="",
    level_note="",
    design_ref="DESIGN.md 4.17",
    driver="c17",
    trace=dict(module="TraceStreams", cfg="TraceStreams.cfg"),
    rule="",
    assumptions=COMMON_ASSUME + [],
)
