from common import COMMON_ASSUME

PROP = dict(
    isolate=True,  # cases run in a worker process: a fatal error of the code under test becomes a "crash" event
    module="Streams",
    mc=[
        dict(module="MCStreams", cfg=dict(quick="MCStreams_quick.cfg", thorough="MCStreams_thorough.cfg"),
             timeout=dict(quick=600, thorough=3000)),
        # non-vacuity: the as-built model (nil *peekingReader Close dereferences nil, finding D12) must violate the property
        dict(module="MCStreams", cfg="MCStreams_asbuilt.cfg", expect_violation="StepsAllowed", timeout=300),
    ],
    gen=dict(module="GenStreams", cfg=dict(quick="GenStreams_quick.cfg", thorough="GenStreams_thorough.cfg"),
             workers=1, timeout=1500),
    level_text="Streams.tla models request.go faithfully as a state machine (scripted underlying stream: chunks, zero-length reads, one-shot conditions in the middle, sticky "
               "terminal condition, failing Close; bufio-backed peeking wrappers nested per HasBody call, actions HasBody / Read(k) / Close in any order, "
               "nil body) and states C17 declaratively over the caller-visible history only (HasBody answer formula and repeat "
               "agreement, delivered bytes are the next bytes of the original, errors only at the end and equal to the original "
               "terminal condition, reads after close fail, the underlying stream is closed exactly once, no panic). TLC checks "
               "model |= property plus the invariants Delivered ++ Buffered ++ Remaining = Original and 'draining from any state "
               "yields the rest and the original end' for all scripts (content <=2/3 bytes, <=3/4 chunks incl. zero-length reads, "
               "eof/err alone or with data) x declared length x all histories of <=5/8 actions. TLC then exports every transition "
               "of the bounded model's state graph (shortest history + action) and the driver replays each on a real http.Request "
               "whose Body is the scripted reader, plus seeded random cases up to 12 KiB (3 bufio buffers); every returned value "
               "and the underlying Read/Close counters are validated by TLC against the declarative property.",
    level_note="bounded exhaustive at model level; real code bound by trace validation of all-transitions coverage of the bounded "
               "model (46 k / 410 k cases) and of seeded random large cases; faithfulness of the model to bufio/request.go was "
               "additionally validated event-by-event (TraceStreamsStrict, by hand); sticky terminal conditions and fewer than 100 "
               "consecutive empty reads assumed",
    design_ref="DESIGN.md 4.17",
    driver="c17",
    trace=dict(module="TraceStreams", cfg="TraceStreams.cfg"),
    rule="case = one request (any method: POST, GET, HEAD, get, DELETE, OPTIONS, ...; scripted body or nil body; Content-Length positive / zero header / absent, concretised in two "
         "ways each) + one history of HasBody / Read(k) / Close calls + a final drain. Exhaustive part: every transition of the "
         "bounded PeekBody model exported by TLC (GenStreams: contents <=2 (quick) / <=3 (thorough) bytes, <=3/4 chunks, "
         "read sizes {0,1,2,4096}, histories <=4/5 actions). Seeded part: 400/3000 random cases with contents up to 12 KiB, chunk "
         "and read sizes around the bufio buffer size. Non-trivial: length not declared, >=1 HasBody and >=1 Read/Close; "
         "distinct by hash of the case.",
    assumptions=COMMON_ASSUME + [
        "PeekSwallowsCondition: a probing HasBody issued exactly where a one-shot (non-repeating) condition is due answers false and uses "
        "it up (bufio.Peek drops the error); modelled as the code behaves",
        "the underlying stream makes fewer than 100 consecutive empty reads (bufio gives up with io.ErrNoProgress)",
        "after Close the underlying stream fails reads (as http bodies do), also when its Close returned an error",
        "ZeroLenReadAfterClose: a Read with an empty buffer after Close may return (0, nil): it cannot return stale data",
    ],
    exhaustive=False,
)
