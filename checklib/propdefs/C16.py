from common import COMMON_ASSUME

_MUT = ["SafeStore", "CopyOnReuse", "GuardTypedNil", "BinMarshalerOpts", "ClonesCapLimited", "ParseErrorWins", "SharedSkipCounter",
        "FreshStore", "RewindsSeekable", "FlagsReset", "PipeClosedOnStop"]

PROP = dict(
    module="CSVCodec",
    mc=[
        dict(module="MCCSVCodec", cfg=dict(quick="MCCSVCodec_quick.cfg", thorough="MCCSVCodec_thorough.cfg"),
             timeout=dict(quick=600, thorough=3000)),
    ] + [
        # non-vacuity: the model as the code was before each repair (D11a, D11b, D11c, D24) must violate the property
        dict(module="MCCSVCodec", cfg=f"MCCSVCodec_mut_{m}.cfg", expect_violation="PropertyHolds", timeout=300) for m in _MUT
    ],
    level_text="CSVCodec.tla models csv.go / csv_options.go over an abstract input (the record table the reference parser yields, "
               "plus a malformed marker): pipeCSV and bufferedCSV (skipped lines, EOF inside the skipped part, streaming vs "
               "all-or-nothing), the in-memory record container under ReuseRecord, the reflect store into a pre-populated "
               "*[][]string, and the kind dispatch of CSVConsumer (13 destination kinds) and CSVProducer (16 source kinds); the "
               "property says: delivered = Drop(skipped, parsed table) for every kind (hence all kinds agree), malformed input => "
               "error, unsupported / nil / typed-nil => error, never a panic, delivered records never alias (neither by overwriting nor by appending to a row), malformed input is "
               "reported with the parser's error by every kind, and a codec value used for several calls behaves the same in each "
               "(history state machine over the skipped-lines counter). TLC checks model |= "
               "property for all tables of <=2/3 records x <=2 fields x malformed x skip 0..n+1 x reuse x pre-population 0..n+1 x "
               "kinds, and validates every real Consume / Produce call of the driver - 25 text classes x all reader-option "
               "combinations x skip counts x every kind x pre-population, plus seeded random tables - against the property, with "
               "encoding/csv (same reader options) as the abstraction function text -> table and as the re-parser of byte outputs.",
    level_note="bounded exhaustive at model level over the abstract table; the real code is bound by trace validation of the executed "
               "calls only; CSV parsing itself is not specified (reference parser trusted); closing behaviour is logged, not judged "
               "(not part of the C16 statement)",
    design_ref="DESIGN.md 4.16",
    driver="c16",
    trace=dict(module="TraceCSVCodec", cfg="TraceCSVCodec.cfg"),
    rule="case = one CSVConsumer.Consume (io.Reader with 0/1/7-byte chunking -> destination kind) or CSVProducer.Produce (source "
         "kind -> io.Writer) call with one option set. Exhaustive part: 25 text classes (quoted, embedded separator / newline / "
         "quote, empty fields and lines, comments, leading space, ragged, malformed quoting, CRLF input, non-ASCII, lone empty "
         "field) x separator {default, ;} x comment {none, #} x lazy quotes x trimmed space x fields per record {0, 2, -1} x "
         "skipped lines {0, 1, n, n+1} x 13 destination + 16 source kinds x pre-populated *[][]string {fresh, shorter, equal, "
         "longer, much longer}; writer separator / CRLF / ReuseRecord / closing rotate (quick; also lazy+trim together and two of "
         "the four skip counts per option set) or are multiplied out (thorough). Plus long inputs (24 KiB valid; malformed early / middle / unterminated quote "
         "with >= 2 read buffers of further text) for every kind, and histories of 2-3 calls with ONE codec value (6 text classes x "
         "skip {1,2,3,6} x supported kinds). Plus histories of 2-3 Consume calls into ONE *[][]string variable with the earlier results re-read, seekable sources "
         "(*bytes.Reader / *strings.Reader) at a non-zero offset as two more source kinds, caller-configured *csv.Reader sources carrying stale "
         "LazyQuotes / TrimLeadingSpace / ReuseRecord flags (also left behind by an earlier producer on the same reader). Plus 7 stress families: the WriterTo call whose parser stops while a Write is pending, 100 000 / 300 000 "
         "times each from several goroutines / GOMAXPROCS settings, one aggregated event per family. Seeded part: 3000 / 30000 random tables of up to "
         "30 x 6 fields over a CSV-hostile alphabet with random perturbation, separators incl. tab and |. Non-trivial: the "
         "reference table is non-empty or the text is malformed; distinct by hash of the case.",
    assumptions=COMMON_ASSUME + [
        "encoding/csv's Reader with the same options is the definition of 'a standard CSV parse' (abstraction function) and of what "
        "byte-valued outputs contain (re-parse with the writer's separator)",
        "an application-side CSVWriter keeps its own copy of the records it retains (aliasing is judged for *[][]string destinations)",
        "a record-table source is only combined with texts the reference parser accepts (a table cannot be malformed)",
    ],
    exhaustive=False,
)
