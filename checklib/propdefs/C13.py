from common import COMMON_ASSUME

PROP = dict(
    module="ClientResp",
    mc=[
        dict(module="MCClientResp", cfg=dict(quick="MCClientResp_quick.cfg", thorough="MCClientResp_thorough.cfg"),
             timeout=dict(quick=300, thorough=1500), workers=6),
        # sync.Once replaced by a nil check: two initialisations, a caller sends with a superseded client (non-vacuity)
        dict(module="MCClientResp", cfg="MCClientResp_asbuilt.cfg", expect_violation="InvOneClient", timeout=300, workers=2),
        # response wrappers recycled through a pool when the reader returns: a kept response shows another call (non-vacuity)
        dict(module="MCClientResp", cfg="MCClientResp_asbuilt_pool.cfg", expect_violation="InvRetained", timeout=300, workers=2),
        # client.New hands one package-level registry map to every Runtime: editing one Runtime shows through another (non-vacuity)
        dict(module="MCClientResp", cfg="MCClientResp_asbuilt_shared.cfg", expect_violation="InvIsolated", timeout=300, workers=2),
        # a consumer's stream closer shared by all calls: the call that finishes closes the body another call is still reading (non-vacuity)
        dict(module="MCClientResp", cfg="MCClientResp_asbuilt_closer.cfg", expect_violation="InvOwn", timeout=300, workers=2),
    ],
    gen=dict(module="GenClientResp", cfg=dict(quick="GenClientResp_quick.cfg", thorough="GenClientResp_thorough.cfg"), timeout=300),
    level_text="ClientResp states consumer selection declaratively (PickAllowed: the consumer registered for the response's media type, "
               "parameters and case ignored, default type when the header is absent; else the catch-all; else an error naming the "
               "content type; never another consumer) next to a transcription of Submit's lookup, plus per-operation client/context "
               "precedence; TLC checks model |= property for every registry over the type pool x catch-all x default x header form. A "
               "second, stateful part models N callers doing the sync.Once client initialisation and a private exchange; TLC checks "
               "OwnResponse and OneClient over all interleavings (N=3 quick, 4 thorough) and shows the nil-check mutant violating. "
               "Every Submit of the driver (exhaustive registry x header space, seeded random, TLC-exported gate schedules, barriers, "
               "free running with N in {2,8,64} on fresh Runtimes at several GOMAXPROCS) is validated against the spec; the binary "
               "runs under the race detector and its report count is one more validated event.",
    level_note="bounded exhaustive at model level; real code bound by trace validation of executed calls; interleavings inside a stage "
               "are reached only by free-running/-race runs; the race detector observes only executed schedules",
    design_ref="DESIGN.md 4.13",
    driver="c13",
    race=True,
    trace=dict(module="TraceClientResp", cfg="TraceClientResp.cfg"),
    rule="case = one Submit with (registry subset of 5 types, catch-all yes/no, default type, Content-Type form x type, status, "
         "operation/transport client, operation context in {nil, Background itself, TODO, derived with value, derived cancelled} x "
         "runtime context in {nil, default, value, cancelled, short deadline}) - exhaustive over registry x catch-all x default x "
         "header (every spelling of DefaultMediaType - plain, with parameters, upper case - when the header is absent/empty) and over "
         "the client/context lattice, plus seeded random; sequences of 2/3/6 calls whose readers KEEP the ClientResponse and ask it "
         "again after the later calls; the wire-level client lattice (operation client none / bare / own Transport / own Jar / both "
         "x runtime RoundTripper marker x runtime cookie jar, against a real httptest server); Runtime.Debug on/off x Content-Length/chunked x bodies of 0 B .. 3 MiB (5 MiB thorough); "
         "one ClientOperation value submitted 2-3 times while the transport-wide context is replaced/cancelled between the calls "
         "or on two Runtimes (operation compared with a copy taken before each Submit); several Runtimes from client.New alive at "
         "once with in-place registry edits (set, */*, delete) on one and Submits on the others (fixed patterns + seeded op "
         "sequences) - or one concurrent run: N callers on a fresh Runtime under a TLC-exported gate "
         "schedule (all 1700 interleavings of 3 gates for N=2,3), a barrier inside the params writers or inside RoundTrip, or free "
         "running (N in {2,8,64}, GOMAXPROCS in {1,2,4,16}). Non-trivial: header not plain or no operation client / any concurrent "
         "case; distinct by hash of the case.",
    assumptions=COMMON_ASSUME + [
        "a malformed Content-Type value denotes no definite media type: an error (as the code gives) or the consumer of the recoverable type / the catch-all are all accepted (MalformedHeaderIsAnError)",
        "registry keys are lower-case media types without parameters (as Runtime.New registers them)",
        "the Go race detector is the observer of memory-level races and sees only the executed schedules",
        "single initialisation of the shared client is not observable through the public API; it is bound through the race detector (double initialisation is a write/write race) and the model",
    ],
)
