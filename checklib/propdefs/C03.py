from common import COMMON_ASSUME

_ASBUILT = [("D2", "number without format -> nil type"), ("D3", "array default"), ("D4", "formatted-string default"),
            ("D5", "header declared in non-canonical case"), ("D31", "named-string formats always rejected"),
            ("D32", "missing required file is 400"), ("D33", "named-string array items not format-checked")]

PROP = dict(
    module="ParamBind",
    mc=[
        dict(module="MCParamBind", cfg=dict(quick="MCParamBind_quick.cfg", thorough="MCParamBind_thorough.cfg"),
             timeout=dict(quick=900, thorough=3000)),
        # non-vacuity: the binder as built before the fixes (all seven defect constants FALSE) must violate the property at model
        # level; one run per defect: specs/MCParamBind_asbuilt_<Dn>.cfg (each violates Property; run by hand, see notes/C03.md)
        dict(module="MCParamBind", cfg="MCParamBind_asbuilt_all.cfg", expect_violation="Property", timeout=600),
        # seeded model mutant: urlencoded formData read from request.Form (query string merged) must violate too
        dict(module="MCParamBind", cfg="MCParamBind_mutant_form.cfg", expect_violation="Property", timeout=600),
    ],
    level_text="ParamBind.tla maps a parameter declaration and the (key, text) pairs of a request to an outcome (value + dynamic type, "
               "422, panic) twice: Outcome follows untypedParamBinder.Bind / readValue / bindValue / setFieldValue / setSliceFieldValue / "
               "typeForSchema / tryUnmarshaler and the validator call function by function; Allowed is the set of outcomes the statement "
               "permits, computed from the texts alone (integer and decimal literals parsed byte-wise, magnitudes compared as digit "
               "sequences against 2^(n-1) tables, floats as normalised decimals, format tables). TLC checks Outcome in Allowed, no panic, "
               "'value or 422 only' and case-insensitive header lookup over 4 locations x every scalar type/width/format x arrays in every "
               "collection format x required x default x allowEmpty x validations x absent / every literal / other spellings / repeated keys; "
               "every request the driver serves through the real untyped API is validated against Allowed.",
    level_note="bounded exhaustive at model level; the real code is bound by trace validation of the executed requests only; formatted "
               "strings by tables; floats to 6 / 15 significant digits; header values as net/http delivers them",
    design_ref="DESIGN.md 4.3",
    driver="c03",
    trace=dict(module="TraceParamBind", cfg="TraceParamBind.cfg"),
    rule="case = one parameter declaration served by middleware.NewContext(doc, api, nil).APIHandler with a recording handler + a list of "
         "requests; event = per request the value and dynamic type found in the handler's map, or status and message. Exhaustive part: "
         "5 locations (path, query, header, formData urlencoded and multipart) x 16 scalar kinds x required x default x allowEmpty x "
         "{absent, every literal of the type's pool incl. +-2^(n-1)+-2 of every width rendered with math/big, signs, zeros, hex, underscore, "
         "exponent, blanks, inf/NaN, other key spellings, repeated keys}; header names declared in 4 cases; min/max/enum/length "
         "validations; arrays of 11 item kinds x 6 collection formats x locations x flags; item validations; files; the parameter's key also sent in "
         "the opposite location (query string next to an urlencoded / multipart form body and vice versa: valid, invalid, empty, repeated; own field "
         "present / absent / empty / invalid; scalars, multi and csv arrays), which must not influence the binding; "
         "operations that also declare an optional body parameter (requests without body); defaults of every magnitude (zero-valued 0 / 0.0 / false / \"\" / [], >= 10^6, < 10^-4, negative, 2^53) for scalars and array items x required x "
         "allowEmpty; "
         "concurrent mode: batches of 8 / 64 requests served simultaneously from as many goroutines against one handler (operations with "
         "eight parameters, all locations) at GOMAXPROCS 1 / 4 / 16, every request with texts of its own, per-request events validated unchanged. Seeded part: random "
         "declarations with random literals. Non-trivial: the handler ran or the request was answered 422; distinct by hash.",
    exhaustive=True,
    assumptions=COMMON_ASSUME + [
        "formatted strings (date, date-time, byte, uuid, password and the application-defined sku registered only on the API's registry) are exercised with the texts of the tables in specs/gen_parambind_tables.py only",
        "number literals carry at most 6 (float) / 15 (double) significant digits and exponents within +-30, except listed overflow literals; "
        "longer or tiny literals only have their acceptance and dynamic type checked (FloatRounding)",
        "header field values have no leading/trailing blanks or control bytes (net/http strips / rejects them); path segments are non-empty and not dot segments",
        "declared defaults satisfy the declared validation; validation bounds are small integers / short decimals",
    ],
)
