from common import COMMON_ASSUME

PROP = dict(
    module="HTTPRouter",
    mc=[
        # main: every API of <=2 operations x base spellings x targets of <=3 segments
        dict(module="MCHTTPRouter", cfg=dict(quick="MCHTTPRouter_quick.cfg", thorough="MCHTTPRouter_thorough.cfg"),
             timeout=dict(quick=900, thorough=3000)),
        # ops3: APIs of <=3 operations over 3 methods (sibling conflict and 405 at once)
        dict(module="MCHTTPRouter", cfg=dict(quick="MCHTTPRouter_ops3_quick.cfg", thorough="MCHTTPRouter_ops3_thorough.cfg"),
             timeout=dict(quick=600, thorough=1500)),
        # wide: few APIs, exotic target segments (raw non-ASCII, '#', '*', ';=', %61, %2e%2e, %23, %25)
        dict(module="MCHTTPRouter", cfg=dict(quick="MCHTTPRouter_wide_quick.cfg", thorough="MCHTTPRouter_wide_thorough.cfg"),
             timeout=dict(quick=600, thorough=1500)),
        # deep: targets of up to 5 segments (two placeholders under a base path)
        dict(module="MCHTTPRouter", cfg=dict(quick="MCHTTPRouter_deep_quick.cfg", thorough="MCHTTPRouter_deep_thorough.cfg"),
             timeout=dict(quick=600, thorough=1500)),
        # pre: placeholders behind a literal prefix inside their segment (k={x}, v{x}) x values made of reserved bytes
        dict(module="MCHTTPRouter", cfg=dict(quick="MCHTTPRouter_pre_quick.cfg", thorough="MCHTTPRouter_pre_thorough.cfg"),
             timeout=dict(quick=600, thorough=1500)),
        dict(module="MCHTTPRouter", cfg="MCHTTPRouter_mutant_urlpath.cfg", expect_violation="PropertyHolds", timeout=300),
        dict(module="MCHTTPRouter", cfg="MCHTTPRouter_asbuilt_d1.cfg", expect_violation="PropertyHolds", timeout=300),
    ],
    level_text="HTTPRouter (extending Router) models DefaultRouter/AddRoute/pathConverter, Context.LookupRoute (URL.EscapedPath), "
               "defaultRouter.Lookup/OtherMethods (upper-casing, path.Clean, per-method trie lookup, PathUnescape) and NewRouter's "
               "404/405 decision, next to the declarative reading of C01 (the handler that runs is the literal-preferring best fit "
               "under the request's method of base path + template against the cleaned still-escaped path, parameters = decoded "
               "instantiating texts by name, else 405 with Allow = exactly the fitting methods, else 404). TLC checks model |= property "
               "for every API of <=2 (quick) / <=3 (thorough) operations over a template pool x base-path spellings x every request "
               "target of <=3 / <=4 segments over a segment pool with %2F, %25, ':', dot segments, empty segments, trailing slash x "
               "method spellings, and validates every request served by the real RoutesHandler/APIHandler (httptest and, through a "
               "real httptest.Server with the request line written verbatim) against the declarative property.",
    level_note="bounded exhaustive at model level; the real code is bound by trace validation of the executed requests only; "
               "templates: segments are a literal, a whole-segment placeholder literal-prefix + placeholder, or composite ({a}.{b}: outcome left open "
               "except totality, method and coarse fit), literals without ':' '*' '#'; "
               "net/http's URL.EscapedPath() is trusted and its model is checked on every event",
    design_ref="DESIGN.md 4.1",
    driver="c01",
    trace=dict(module="TraceHTTPRouter", cfg="TraceHTTPRouter.cfg"),
    rule="case = one API description (base path spelling + operations) served by RoutesHandler / APIHandler / a real "
         "httptest.Server, with a list of requests; exhaustive part: every API of <=2 operations from a template pool x {GET,POST} x "
         "base spellings with every target of <=3 segments over a segment pool (and <=2 segments over a wide pool x every method "
         "spelling), every byte value plain/escaped in a parameter position; seeded part: random APIs of <=12 operations with shared "
         "prefixes and static/parameterised siblings, targets instantiated from templates and mutated; concurrent part: batches of 8/64 "
         "simultaneous requests with request-unique parameter texts against one handler at GOMAXPROCS 1/4/16 (with and without a "
         "yielding debug logger), one event per request. Non-trivial: at least one "
         "request ran a handler with parameters and at least one got 404/405; distinct by hash of the case.",
    assumptions=COMMON_ASSUME + [
        "templates are '/'-separated segments each of which is a literal, one whole-segment placeholder {name}, or a literal prefix "
        "followed by one placeholder to the end of the segment (key={value}, v{ver}; the latter only next to a placeholder that opens its "
        "segment or follows '='); where such a prefixed placeholder would take the empty text the outcome is left open; literal segments "
        "contain none of ':' '*' '#' '{' '}' and are not dot segments; placeholder names are unique within a template",
        "no two operations of one method have templates that differ only in placeholder names (OpenAPI forbids equivalent templates)",
        "base paths start with '/' (or are empty) and contain no empty or dot segments",
        "net/http (ReadRequest, url.ParseRequestURI, URL.EscapedPath) is the reference for what request a target denotes; "
        "its modelled behaviour (NetHTTPEscapedPath) is re-checked on every event",
        "the handlers registered by the driver always succeed; path parameters are declared type string, required",
    ],
)
