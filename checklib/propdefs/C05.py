from common import COMMON_ASSUME

PROP = dict(
    isolate=True,  # cases run in a worker process: a fatal error of the code under test becomes a "crash" event
    module="Router",
    mc=[
        dict(module="MCRouter", cfg=dict(quick="MCRouter_quick.cfg", thorough="MCRouter_thorough.cfg"),
             timeout=dict(quick=600, thorough=3000)),
        dict(module="MCRouter", cfg="MCRouter_asbuilt.cfg", expect_violation="PropertyHolds", timeout=300),
        dict(module="MCRouter", cfg="MCRouter_nul.cfg", timeout=600),
        dict(module="MCRouter", cfg="MCRouter_mut_nul.cfg", expect_violation="PropertyHolds", timeout=300),
        dict(module="MCDencoArray", cfg=dict(quick="MCDencoArray_quick.cfg", thorough="MCDencoArray_thorough.cfg"),
             timeout=dict(quick=900, thorough=3000)),
        dict(module="MCDencoArray", cfg="MCDencoArray_mut_nul.cfg", expect_violation="LayoutRefinesTrie", timeout=300),
        dict(module="MCRouter", cfg="MCRouter_thorough3.cfg", timeout=3000, tiers=["thorough"]),
    ],
    level_text="The Router module states C05 declaratively (sound, complete, static, literal-wins, total, order-independent) "
               "next to a faithful model of the trie walk with backtracking, and DencoArray transcribes the double-array itself (build, arrange, findBase, makeSiblings, lookup over BASE/CHECK slots) and is checked to return exactly what the trie-level model returns for every small table and path (layout refines trie); TLC checks model |= property exhaustively for all "
               "tables of <=2 (quick) / <=3 (thorough) pool patterns and all paths up to 4 bytes over an alphabet that includes the "
               "reserved bytes, and validates every lookup of the real denco.Router (several hundred thousand per run, each table "
               "built in several insertion orders) against the declarative property.",
    level_note="bounded exhaustive at model level; the real code is bound by trace validation of the executed lookups only; "
               "driver generators trusted; well-formed, pairwise shape-distinct patterns assumed",
    design_ref="DESIGN.md 4.5",
    driver="c05",
    trace=dict(module="TraceRouter", cfg="TraceRouter.cfg"),
    rule="case = one route table built in several insertion orders + the paths looked up in it; exhaustive part: "
         "every table of <=2 patterns from the pattern pool x every path up to the length bound over the byte "
         "alphabet incl. ':' '*' '#'; seeded part: random 3-record tables (all 6 orders) and random tables of up "
         "to 300/3000 records with instantiated, mutated and arbitrary-byte paths (incl. NUL, 0x01, 0xff; NUL also in patterns). Non-trivial: the table has a "
         "parameterised record and at least one lookup matched with parameters or missed; distinct by hash of the case.",
    assumptions=COMMON_ASSUME + [
        "patterns are well-formed: ':' / '*' only at the start of a segment (or after '=' for RESTCONF keys), '*' only in the last segment, no '#'",
        "patterns that differ only in placeholder names (twins) are validated against the declarative property and for order independence only (the faithful model in MCRouter does not represent which twin the build keeps)",
    ],
)
