from common import COMMON_ASSUME

PROP = dict(
    module="Negotiate",
    mc=[
        dict(module="MCNegotiate", cfg=dict(quick="MCNegotiate_quick.cfg", thorough="MCNegotiate_thorough.cfg"),
             timeout=dict(quick=600, thorough=2400)),
        # non-vacuity 1: the as-built parameter scan of ParseAccept (finding D21) must break Parse(Render(h)) = SpecsOf(h)
        dict(module="MCNegotiate", cfg="MCNegotiate_asbuilt.cfg", expect_violation="ParseRoundTrip", timeout=300),
        # non-vacuity 2: a seeded mutant of the selection loop ('>=' in the exact branch) must break Loop = BestOffer
        dict(module="MCNegotiate", cfg="MCNegotiate_mutant.cfg", expect_violation="ContentTypeProperty", timeout=300),
    ],
    level_text="Negotiate.tla models the Accept negotiation in three layers, each faithful-vs-declarative: the double loop of "
               "NegotiateContentType / NegotiateContentEncoding as a fold with the (bestQ, bestWild, bestOffer) accumulator against "
               "BestOffer / BestEncoding (lexicographic maximum of (q, specificity, earlier offer) over admitting ranges with q > 0); "
               "q-values as digit sequences compared exactly; and a byte-level transcription of header.ParseAccept (expectTokenSlash, "
               "skipSpace, expectQuality, parameter walk) against the declarative reading SpecsOf of a structured header rendered to "
               "bytes. TLC checks all three equalities plus 'result is an offer or the default', 'q=0 never selects', 'a smaller q never "
               "outranks a larger one', 'no Accept selects the first offer' and monotonicity in q for every header of <=2 (quick) / <=3 "
               "(thorough) ranges over 5 range shapes x 5 weights and every offer list of <=3 offers. Every call of the real "
               "ParseAccept, NegotiateContentType, NegotiateContentEncoding and of the full API handler made by the driver is validated "
               "against the declarative side.",
    level_note="bounded exhaustive at model level; the real code is bound by trace validation of the executed calls only; the driver's "
               "renderer (structured header -> text) is trusted; weights are compared at a resolution of 15 fractional digits",
    design_ref="DESIGN.md 4.7",
    driver="c07",
    trace=dict(module="TraceNegotiate", cfg="TraceNegotiate.cfg"),
    rule="case = one structured Accept (or Accept-Encoding) header rendered to text + several offer lists and defaults; events: "
         "ParseAccept, NegotiateContentType per (offer list, default), the API handler per offer list, NegotiateContentEncoding. "
         "Exhaustive part: every header of <=2 ranges (one or two header lines; <=3 ranges on one line in thorough) over {a/x,a/y,a/*,b/x,*/*} x "
         "5 (7) weights x every offer list of <=2 of 5 offers (duplicates, parameters) x default present/absent, also through the API; "
         "every coding header of <=2 codings x every coding list; a syntax grid (parameters before/after q incl. quoted values and a "
         "name ending in q, OWS placements, q spellings .5 / 0.5 / 1. / 0.250) x following ranges; header lines without ranges (empty or white "
         "space only) before, between and after the lines that carry ranges; through the API every operation shape: methods GET / POST / DELETE / "
         "HEAD x declared success response 200 / 201 / 204 / default-only; long headers of 33-130 ranges on one or many lines with the decisive "
         "range late. Seeded part: random headers of up to 6 "
         "ranges on 1-3 lines with 0-80 fractional q digits, random offer lists, a quarter through the API; arbitrary bytes incl. a grid of quoted-string parameter values (quoted-pairs, separators inside "
         "quotes, unterminated, ending in a backslash) at every position of multi-line headers (totality and membership only). Non-trivial: >=2 ranges and some negotiation returned an offer (not the default); distinct by hash.",
    exhaustive=True,
    assumptions=COMMON_ASSUME + [
        "QResolution15: two weights in one header either denote the same number or differ within the first 15 fractional digits "
        "(AcceptSpec.Q is a float64; finer distinctions are not generated)",
        "header lines are given as net/http delivers them (no leading whitespace); empty list elements, quoted strings containing ',' "
        "or 'q=' and a repeated q parameter occur only in the arbitrary-bytes stream, where only totality and membership are checked",
        "ExactBytesMatch / LowercaseQOnly: type names are matched byte-wise and only a lower-case parameter name q is a weight (the "
        "statement is silent); the driver renders type names in mixed case as distinct names and never renders an upper-case Q parameter",
        "through the API the operation's produces list contains lower-case types only (the default type is appended unless contained "
        "case-insensitively)",
    ],
)
