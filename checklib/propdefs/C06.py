from common import COMMON_ASSUME

PROP = dict(
    module="ContentGate",
    mc=[
        dict(module="MCContentGate", cfg=dict(quick="MCContentGate_quick.cfg", thorough="MCContentGate_thorough.cfg"),
             timeout=dict(quick=600, thorough=1800), workers=6),
        # as-built model of defect D15 (consumes entry with parameters compared un-normalised): must violate
        dict(module="MCContentGate", cfg="MCContentGate_asbuilt.cfg", expect_violation="UntypedOK", timeout=300, workers=4),
    ],
    level_text="ContentGate.tla states C06 declaratively (GateAllowed: no body => not gated; unparsable Content-Type => 400; "
               "media type not admitted by consumes+default (exact / type/* / */*, parameters ignored on both sides) => 415; "
               "nothing runs on a refusal; admitted => decoded by exactly the consumer of that media type) next to faithful "
               "transcriptions of runtime.HasBody, runtime.ContentType, AddRoute, validateContentType, validation.contentType "
               "(untyped gate) and Context.BindValidRequest (typed gate). TLC checks both gates |= property and gate = gate for "
               "every consumes list of <=2 (quick) / <=3 (thorough) entries over a 7-entry pool x 3 defaults x 32 registries x "
               "8 header forms x 6 body forms, and validates every request the driver presents to BOTH real entry points "
               "(direct calls and over a real connection with Content-Length / chunked framing).",
    level_note="bounded exhaustive at model level; the real code is bound by trace validation of the executed requests only; "
               "header spellings are rendered from the abstract media type (case, OWS, parameters, quoted values); arbitrary "
               "header bytes are read through mime.ParseMediaType as reference; the typed entry point is driven by a "
               "hand-written binder that does what generated binders do",
    design_ref="DESIGN.md 4.6",
    driver="c06",
    trace=dict(module="TraceContentGate", cfg="TraceContentGate.cfg"),
    rule="case = one API (the untyped API, or a hand-written generated-style RoutableAPI with exact-match ConsumersFor through "
         "NewRoutableContext; consumes list declared on the operation or globally, API default media type, registered consumers); "
         "event = one request presented to the untyped handler and to Context.BindValidRequest. Exhaustive part: every "
         "consumes list of <=2/<=3 entries over the pool {a/x, a/y, b/x, a/*, */*, 'a/x; charset=utf-8', "
         "application/octet-stream} x default {none, a/x, b/y} x 2/4 registries, each with 47 header forms (absent, empty, "
         "15 malformed, 5 media types x 6 spellings) x 5 body forms, method rotating; a cross-section again over a real "
         "connection. Seeded part: 600/6000 APIs with longer lists, other parameter spellings, random header spellings, "
         "arbitrary header bytes, all 7 methods. Non-trivial: some request of the case was decoded or refused with 415.",
    assumptions=COMMON_ASSUME + [
        "consumes lists are spelled in lower case, parameters (if any) follow the media type as '; name=value' or ';name=value'",
        "'cannot be parsed' is decided by the grammar for the rendered headers (every malformed form is also rejected by "
        "mime.ParseMediaType) and by mime.ParseMediaType for arbitrary header bytes",
        "a media type admitted only through a wildcard entry (or by an empty list) has no consumer in the route's table: 500, allowed",
    ],
    exhaustive=True,
)
