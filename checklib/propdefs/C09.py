from common import COMMON_ASSUME

PROP = dict(
    module="ServePipeline",
    mc=[
        dict(module="MCServePipeline", cfg="MCServePipeline_quick.cfg", timeout=900),
        dict(module="MCServePipeline", cfg="MCServePipeline_params.cfg", expect_violation="Private", timeout=300),
        dict(module="MCServePipeline", cfg="MCServePipeline_consumer.cfg", expect_violation="Private", timeout=300),
        dict(module="MCServePipeline", cfg="MCServePipeline_alt.cfg", expect_violation="Private", timeout=300),
        dict(module="MCServePipeline", cfg="MCServePipeline_bound.cfg", expect_violation="Private", timeout=300),
        dict(module="MCAccessorMemo", cfg=dict(quick="MCAccessorMemo_quick.cfg", thorough="MCAccessorMemo_thorough.cfg"), timeout=900),
        dict(module="MCAccessorMemo", cfg="MCAccessorMemo_unbounded.cfg", timeout=600, workers=2),
        dict(module="MCAccessorMemo", cfg="MCAccessorMemo_mutant.cfg", expect_violation="Memo", timeout=300),
    ],
    gen=[
        dict(module="GenServePipeline", cfg=dict(quick="GenServePipeline_quick.cfg", thorough="GenServePipeline_thorough.cfg"), timeout=1200),
        dict(module="GenServePipeline", cfg=dict(quick="GenServePipeline_mixed.cfg", thorough="GenServePipeline_mixed_thorough.cfg"), timeout=1200),
        dict(module="GenServePipeline", cfg="GenServePipeline_solo.cfg", timeout=600),
        dict(module="GenAccessorMemo", cfg=dict(quick="GenAccessorMemo_quick.cfg", thorough="GenAccessorMemo_thorough.cfg"), timeout=1200),
        dict(module="GenAccessorMemo", cfg="GenAccessorMemo_fresh3.cfg", timeout=1200, tiers=["thorough"]),
    ],
    driver="c09",
    race=True,
    trace=dict(module="TraceServePipeline", cfg="TraceServePipeline.cfg"),
    design_ref="DESIGN.md 4.9",
    level_text="ServePipeline models N concurrent requests advancing stage by stage (one action per verif hook / harness callback); "
               "TLC checks in every interleaving that each request observes exactly what it observes alone (Private), and finds the "
               "cross-talk counterexample when any per-request field (params, consumer, admitting alternative, bound values) is moved "
               "to the shared route entry. TLC exports the interleavings (context-switch bound 2 quick / 3 thorough, all operation "
               "pairs) and the gated replayer executes each against ONE real handler instance, the hooks being the scheduler gates; "
               "every recorded event is validated against the spec. AccessorMemo models the per-request memo cells; TLC checks the "
               "reuse facts on all histories (of ANY length: with the call counter projected away by a VIEW the memo state space is "
               "finite, 2 220 states, and is explored completely) and exports every accessor history (length 3 / 4, 87 request kinds) which are replayed "
               "on a real Context with call counters. Free-running batches (4/16/64 goroutines, GOMAXPROCS 1/4/16) run under the race "
               "detector; their per-request projections are validated by the same spec and a race report is a rejected event.",
    level_note="interleavings are controlled at hook/callback granularity only; inside a stage only the free-running -race runs look; "
               "the model also covers the refusal paths of the pipeline (404/405, 401, 400/415, 406, 422, handler error) and their "
               "precedence: admissible requests are interleaved with requests that have one thing wrong, and every consistent set of "
               "defects is served alone (624 kinds); the race detector is the observer for the data-race clause",
    rule="case = one replayed schedule (2 requests, all their stages), one accessor history, or one free-running batch; "
         "non-trivial: a schedule with >=2 requests, a history with at least one memo hit, any concurrent batch; distinct by hash",
    assumptions=COMMON_ASSUME + [
        "goroutine interleaving is controlled only at the verif hooks and harness-owned callbacks",
        "the Go race detector observes memory-level races on the executed runs",
        "struct-target binding (UntypedRequestBinder.Bind into a struct) is outside the serving path the property names",
    ],
)
