from common import COMMON_ASSUME

# Growth check (DESIGN.md section 6, item 3): client tracing transports.  Not one of the listed properties:
# it is not in READY / MANIFEST.json; `./check G01` works like for the C-properties.
PROP = dict(
    module="ClientTracing",
    mc=[
        dict(module="MCClientTracing", cfg=dict(quick="MCClientTracing_quick.cfg", thorough="MCClientTracing_thorough.cfg"),
             timeout=dict(quick=600, thorough=3000), workers=4),
        dict(module="MCClientTracingConc", cfg=dict(quick="MCClientTracingConc_quick.cfg", thorough="MCClientTracingConc_thorough.cfg"),
             timeout=dict(quick=600, thorough=3000), workers=4),
        dict(module="MCClientTracingConc", cfg="MCClientTracingConc_thorough2.cfg", timeout=3000, workers=4, tiers=["thorough"]),  # 2 callers x 2 Submits each
        # as-built / mutated variants of the model: each must reproduce its counterexample (non-vacuity)
        dict(module="MCClientTracing", cfg="MCClientTracing_asbuilt_D50.cfg", expect_violation="InvOpClean", timeout=300, workers=1),        # D50: op.Params/op.Reader left replaced
        dict(module="MCClientTracing", cfg="MCClientTracing_asbuilt_D50_leak.cfg", expect_violation="InvFinished", timeout=300, workers=1),  # D50: ... hence a leaked span on reuse
        dict(module="MCClientTracing", cfg="MCClientTracing_asbuilt_D51.cfg", expect_violation="InvError", timeout=300, workers=1),          # D51: ServerStatus on a client span
        dict(module="MCClientTracingConc", cfg="MCClientTracingConc_asbuilt_D52.cfg", expect_violation="InvNoRace", timeout=300, workers=1), # D52: append into the shared options
        dict(module="MCClientTracingConc", cfg="MCClientTracingConc_asbuilt_D52_parent.cfg", expect_violation="InvProp", timeout=300, workers=1),  # D52: ... hence a span under another caller's span
        dict(module="MCClientTracingConc", cfg="MCClientTracingConc_mutant_sharedvar.cfg", expect_violation="InvIsolation", timeout=300, workers=1),  # span kept in a transport field
    ],
    gen=dict(module="GenClientTracing", cfg=dict(quick="GenClientTracing_quick.cfg", thorough="GenClientTracing_thorough.cfg"), timeout=900),
    level_text="ClientTracing models a Submit through a tracing transport as a state machine per caller (tracing Submit -> inner "
               "Runtime.Submit -> params wrappers: span start, tags, inject -> caller's params writer -> auth -> round trip -> consumer "
               "lookup -> reader wrappers: status tags -> caller's reader -> error tag -> deferred Finish -> return) over a shared span "
               "store, with an independently enabled fault at every stage, every context kind (nil / without span / with the caller's "
               "span), both flavors (OpenTracing, OpenTelemetry), re-submission of the same operation value and N callers on one "
               "transport. The statement is a declarative predicate Prop over the observation of one call (spans started by it, their "
               "parent, tags, status, error flag, finish count, use after finish, injected ids, invocations of the caller's writer and "
               "reader, returned error, operation value unchanged). TLC checks model |= Prop at every return for all scripts and all "
               "interleavings, span-store sanity at every state, termination under weak fairness (quick configurations), and that the as-built variants "
               "(D50 operation left modified / leaked span on reuse, D51 ServerStatus, D52 shared option slice) and the shared-span-"
               "variable mutant violate. GenClientTracing exports every termination script and every gate interleaving; the driver "
               "replays them on real client.Runtime + WithOpenTracing/WithOpenTelemetry with recording decorators around mocktracer and "
               "the OpenTelemetry SDK (in-memory span recorder), each call also without tracing; TLC validates every span event as it "
               "happens and, at return, Prop on the observed call, agreement with the model's observation for the script, and equality "
               "of the caller-visible behaviour with the untraced run. The binary runs under the race detector (one more event).",
    level_note="bounded exhaustive at model level (2 Submits of one operation value x 12 statuses quick / 3 Submits x 8 statuses thorough; "
               "2 callers quick / 3 callers and 2 callers x 2 Submits thorough); "
               "real code bound by replay of every exported script + seeded random scripts and trace validation of all recorded events; "
               "interleavings inside a stage are reached only by the free-running/-race runs",
    design_ref="DESIGN.md 6 (item 3); notes/G01.md",
    driver="g01",
    race=True,
    trace=dict(module="TraceClientTracing", cfg="TraceClientTracing.cfg"),
    drive_timeout=dict(quick=900, thorough=3000),
    rule="case = one sequence of Submits of one operation value through Runtime.WithOpenTracing / WithOpenTelemetry (flavor x per call: "
         "context kind x stage at which the inner transport fails or success x status; operation identity with/without ID, method, path, "
         "host; reused or fresh operation value; option slice with/without spare capacity; propagator by option or global), or one "
         "concurrent run of n callers through one transport (TLC-exported gate schedules for n=2,3; barriers inside the params writers / "
         "RoundTrip; free running; n in {2,8,32}, GOMAXPROCS in {1,2,4,16}). Exhaustive: every script exported by GenClientTracing "
         "(all single calls over 12 statuses, all pairs over {200,404} quick / {200,299,404,500} + triples thorough), every 2-caller "
         "gate interleaving. Seeded: random sequences with any status 100..599, a tenth of the 3-caller interleavings (quick; all "
         "thorough). Non-trivial: some call carries a context or ends in a fault / any concurrent case; distinct by hash of the case.",
    assumptions=COMMON_ASSUME + [
        "the recording decorators around mocktracer and the OpenTelemetry SDK delegate faithfully; the span snapshot at Finish/End is the mock's own (MockSpan.Tags / ReadOnlySpan)",
        "spans are attributed to a caller through their parent reference (OpenTracing) or a value in the operation's context (OpenTelemetry)",
        "the inner transport is the real client.Runtime (it consults the params writer once and the reader at most once); other ClientTransport implementations are not covered",
        "the Go race detector is the observer of memory-level races and sees only the executed schedules",
        "NoSpanBeforeParams: a call refused before the params writer is consulted is not traced (as the code does); UnassignedStatusIsError: OpenTelemetry reports status codes without IANA assignment as Error whatever their class",
    ],
)
